(* Image — the export table the directory writer collects while sqfs_serialize_fstree runs (dir_writer.c
   add_export_table_entry, called from sqfs_dir_writer_add_entry with the child's inode number and reference) and
   sqfs_dir_writer_write_export_table completes with the root: slot k holds the reference recorded for inode
   k + 1 whenever that inode is the root or an entry of some directory, every other slot is 0xFFFFFFFFFFFFFFFF, and
   the table has exactly one slot per inode. *)
From Coq Require Import List NArith ZArith Lia Bool ZifyBool ZifyNat ZifyN.
From SqfsV Require Import Base.Bytes Gen.Constants C03.Common C03.ListN C03.MetaModel C03.DirModel.
From SqfsV Require Import C01.GenC01 C01.Res C01.InodeModel Img.TreeModel Img.SerDefs.
From SqfsV Require Import Image.FinishModel.
Import ListNotations.
Local Open Scope N_scope.

Lemma nth_firstn_lt {A} (d : A) : forall n k l, (k < n)%nat -> nth k (firstn n l) d = nth k l d.
Proof.
  induction n as [|n IH]; intros k l H; [lia|].
  destruct l as [|x l]; [destruct k; reflexivity|]. destruct k as [|k]; [reflexivity|].
  cbn [firstn nth]. apply IH. lia.
Qed.

Lemma nth_skipn' {A} (d : A) : forall n k l, nth k (skipn n l) d = nth (n + k) l d.
Proof.
  induction n as [|n IH]; intros k l; [reflexivity|].
  destruct l as [|x l]; [destruct k; reflexivity|]. cbn [skipn plus nth]. apply IH.
Qed.

Lemma nth_pad (l : list N) m k : nth k (l ++ repeat U64MAX m) U64MAX = nth k l U64MAX.
Proof.
  destruct (Nat.lt_ge_cases k (length l)) as [H|H].
  - apply app_nth1. exact H.
  - rewrite app_nth2 by exact H. rewrite (nth_overflow l) by exact H.
    destruct (Nat.lt_ge_cases (k - length l) m) as [H2|H2].
    + apply nth_repeat.
    + apply nth_overflow. rewrite repeat_length. exact H2.
Qed.

(* add_export_table_entry *)
Lemma export_add_nth l c r l' :
  export_add (Some l) c r = Common.Ok (Some l') ->
  1 <= c /\ lenN l' = N.max (lenN l) c /\
  forall k, nth k l' U64MAX = if N.of_nat k =? c - 1 then r else nth k l U64MAX.
Proof.
  unfold export_add. destruct (c <? 1) eqn:C1; [discriminate|]. apply N.ltb_ge in C1.
  intro H. injection H as <-. split; [exact C1|].
  set (l1 := if lenN l <=? c - 1 then l ++ repeat U64MAX (N.to_nat (c - lenN l)) else l).
  assert (L1 : lenN l1 = N.max (lenN l) c).
  { unfold l1. destruct (lenN l <=? c - 1) eqn:Q.
    - apply N.leb_le in Q. rewrite lenN_app, lenN_repeat. lia.
    - apply N.leb_gt in Q. lia. }
  assert (N1 : forall k, nth k l1 U64MAX = nth k l U64MAX).
  { intro k. unfold l1. destruct (lenN l <=? c - 1); [apply nth_pad|reflexivity]. }
  assert (LT : length (takeN (c - 1) l1) = N.to_nat (c - 1)).
  { unfold takeN. rewrite firstn_length. unfold lenN in L1. lia. }
  split.
  - rewrite lenN_app, lenN_cons, lenN_takeN, lenN_dropN. lia.
  - intro k. destruct (N.eqb_spec (N.of_nat k) (c - 1)) as [E|E].
    + rewrite app_nth2 by (rewrite LT; lia). rewrite LT. replace (k - N.to_nat (c - 1))%nat with 0%nat by lia. reflexivity.
    + destruct (Nat.lt_ge_cases k (N.to_nat (c - 1))) as [H|H].
      * rewrite app_nth1 by (rewrite LT; exact H). unfold takeN. rewrite nth_firstn_lt by exact H. apply N1.
      * rewrite app_nth2 by (rewrite LT; exact H). rewrite LT.
        assert (Hk : (k - N.to_nat (c - 1) = S (k - N.to_nat c))%nat) by lia.
        rewrite Hk. cbn [nth]. unfold dropN. rewrite nth_skipn'.
        replace (N.to_nat c + (k - N.to_nat c))%nat with k by lia. apply N1.
Qed.

(* what the collected table says *)
Definition exp_ok (refs : list N) (l : list N) : Prop :=
  lenN l <= nlen refs /\
  forall k, nth k l U64MAX = ref_of refs (N.of_nat k + 1) \/ nth k l U64MAX = U64MAX.

(* the entries of the directories done so far are recorded *)
Definition exp_has (refs : list N) (l : list N) (cs : list N) : Prop :=
  forall c, In c cs -> nth (N.to_nat (c - 1)) l U64MAX = ref_of refs c.

Lemma exp_ok_grow refs l m : exp_ok refs l -> exp_ok (refs ++ m) l.
Proof.
  intros [L H]. split; [unfold nlen in *; rewrite app_length; lia|].
  intro k. destruct (Nat.lt_ge_cases k (length l)) as [Hk|Hk].
  - destruct (H k) as [E|E]; [left|right; exact E]. rewrite E. symmetry. apply ref_of_app; unfold nlen, lenN in *; lia.
  - right. apply nth_overflow. exact Hk.
Qed.

Lemma exp_has_grow refs l m cs :
  Forall (fun c => 1 <= c /\ c <= nlen refs) cs -> exp_has refs l cs -> exp_has (refs ++ m) l cs.
Proof.
  intros F H c Hc. rewrite (H c Hc). symmetry. rewrite Forall_forall in F. destruct (F c Hc). apply ref_of_app; assumption.
Qed.

Section EX.
  Variable compress : list N -> cres.
  Variable limit : N.

  Lemma add_entry_export w name c r mode w' l :
    dir_add_entry w name c r mode = Ok w' -> dw_export w = Some l ->
    exists l', dw_export w' = Some l' /\ export_add (Some l) c r = Common.Ok (Some l').
  Proof.
    unfold dir_add_entry. destruct (get_type mode) as [ty|] eqn:G; [|discriminate].
    destruct ((lenN name =? 0) || (c <? 1)) eqn:C; [discriminate|].
    destruct (65536 <? lenN name); [discriminate|].
    unfold dw_add_entry. rewrite G, C. intros H E. rewrite E in H.
    destruct (export_add (Some l) c r) as [[l'|]|e|] eqn:X; try discriminate.
    - cbn [lift] in H. injection H as <-. exists l'. split; reflexivity.
    - exfalso. unfold export_add in X. destruct (c <? 1); discriminate.
  Qed.

  Lemma add_children_export t refs : forall ch w w' l cs,
    add_children t refs w ch = Ok w' -> dw_export w = Some l ->
    Forall (fun e => 1 <= snd e /\ snd e <= nlen refs) ch ->
    exp_ok refs l -> exp_has refs l cs ->
    exists l', dw_export w' = Some l' /\ exp_ok refs l' /\ exp_has refs l' (cs ++ map snd ch).
  Proof.
    induction ch as [|[name c] r IH]; intros w w' l cs H E F OK HS.
    - injection H as <-. exists l. rewrite app_nil_r. auto.
    - cbn [add_children] in H. destruct (get t c) as [tgt|]; [|discriminate].
      destruct (dir_add_entry w name c (ref_of refs c) (fn_mode tgt)) as [w1| | |] eqn:A; try discriminate.
      cbn [bind] in H. inversion F as [|? ? [C1 C2] Fr]; subst. cbn [snd] in C1, C2.
      destruct (add_entry_export _ _ _ _ _ _ _ A E) as (l1 & E1 & X).
      destruct (export_add_nth _ _ _ _ X) as (_ & L1 & N1).
      assert (OK1 : exp_ok refs l1).
      { destruct OK as [L H0]. split; [lia|]. intro k. rewrite N1.
        destruct (N.eqb_spec (N.of_nat k) (c - 1)) as [Q|Q]; [left; f_equal; lia|apply H0]. }
      assert (HS1 : exp_has refs l1 (cs ++ [c])).
      { intros x Hx. rewrite N1. apply in_app_or in Hx. destruct Hx as [Hx|[<-|[]]].
        - destruct (N.eqb_spec (N.of_nat (N.to_nat (x - 1))) (c - 1)) as [Q|Q].
          + unfold ref_of. f_equal. lia.
          + apply HS. exact Hx.
        - rewrite N2Nat.id, N.eqb_refl. reflexivity. }
      destruct (IH _ _ _ _ H E1 Fr OK1 HS1) as (l' & E' & OK' & HS').
      exists l'. split; [exact E'|]. split; [exact OK'|].
      cbn [map snd]. rewrite <- app_assoc in HS'. exact HS'.
  Qed.
End EX.
