(* Image — reader side SPECIFICATION of a whole image, written from doc/format.adoc (sections "The Superblock",
   "Packing Metadata", "Storing Lookup Tables", "Fragment Table", "Export Table", "ID Table", "Inode Table"), not from
   the writer and not from read_super.c / read_table.c.  Definitions only.

   The super block record is C14's [SuperModel.super] (= sqfs_super_t); the field offsets below are the literal
   ones of the table in doc/format.adoc (ReaderProofs.rdecode_eq: they agree with the offsets generated from
   include/sqfs/super.h that C14's decode uses).  The tree behind the root reference is read by Img.TreeModel.read_tree
   (inode table = [inode table start, directory table start), "The inode table ends at the start of the directory
   table"; the directory table ends where the first lookup table block begins). *)
From Coq Require Import List NArith ZArith Bool.
From SqfsV Require Import Base.Bytes C03.Common C03.MetaModel C03.DirModel.
From SqfsV Require C14.SuperModel.
From SqfsV Require Import C01.Res C01.InodeModel Img.TreeModel.
Import ListNotations.
Local Open Scope N_scope.

Definition NONE64 : N := 18446744073709551615.      (* 0xFFFFFFFFFFFFFFFF: "table omitted" *)
Definition SQFS_MAGIC : N := 1936814952.             (* 0x73717368 *)
Definition SUPER_SIZE : N := 96.
Definition META_SIZE : N := 8192.

Definition field (k : nat) (off : N) (f : list N) : N := rd k (dropN off f).

(* "The Superblock": u32 magic, inode count, mod time, block size, frag count; u16 compressor, block log, flags,
   id count, version major, version minor; u64 root inode, bytes used, ID table, Xattr table, Inode table,
   Dir. table, Frag table, Export table *)
Definition rdecode (f : list N) : SuperModel.super :=
  SuperModel.mkSuper
    (field 4 0 f) (field 4 4 f) (field 4 8 f) (field 4 12 f) (field 4 16 f)
    (field 2 20 f) (field 2 22 f) (field 2 24 f) (field 2 26 f) (field 2 28 f) (field 2 30 f)
    (field 8 32 f) (field 8 40 f) (field 8 48 f) (field 8 56 f) (field 8 64 f) (field 8 72 f)
    (field 8 80 f) (field 8 88 f).

(* magic, version 4.0, block size a power of two between 4 KiB and 1 MiB whose log2 is the block log field,
   compressor id 1 .. 6 *)
Definition super_sane (s : SuperModel.super) : bool :=
  (SuperModel.s_magic s =? SQFS_MAGIC) &&
  (SuperModel.s_vmaj s =? 4) && (SuperModel.s_vmin s =? 0) &&
  (12 <=? SuperModel.s_block_log s) && (SuperModel.s_block_log s <=? 20) &&
  (SuperModel.s_block_size s =? 2 ^ SuperModel.s_block_log s) &&
  (1 <=? SuperModel.s_comp_id s) && (SuperModel.s_comp_id s <=? 6).

Definition read_super (img : list N) : option SuperModel.super :=
  if lenN img <? SUPER_SIZE then None else
  let s := rdecode img in
  if super_sane s then Some s else None.

Definition present (x : N) : bool := negb (x =? NONE64).

(* bytes [a, b) of the image *)
Definition slice (img : list N) (a b : N) : list N := takeN (b - a) (dropN a img).

(* n 64 bit integers at byte position pos *)
Fixpoint read_locs (n : nat) (img : list N) (pos : N) : option (list N) :=
  match n with
  | O => Some []
  | S n' =>
    let d := dropN pos img in
    if lenN d <? 8 then None else
    match read_locs n' img (pos + 8) with
    | Some r => Some (rd64 d :: r)
    | None => None
    end
  end.

(* "Storing Lookup Tables": block_count = ceil(table_count * entry_size / 8192) *)
Definition table_blocks (count esz : N) : N := (count * esz + (META_SIZE - 1)) / META_SIZE.

Section Reader.
  Variable uncompress : list N -> option (list N).

  (* the table data: the blocks at the listed locations, every block but the last holds 8 KiB, together exactly
     [remaining] bytes *)
  Fixpoint read_chunks (img : list N) (locs : list N) (remaining : N) : option (list N) :=
    match locs with
    | [] => if remaining =? 0 then Some [] else None
    | l :: r =>
      match read_block uncompress img l with
      | None => None
      | Some (b, _, _) =>
        let want := if remaining <? META_SIZE then remaining else META_SIZE in
        if lenN b =? want then
          match read_chunks img r (remaining - want) with
          | Some x => Some (b ++ x)
          | None => None
          end
        else None
      end
    end.

  (* the super block "gives the number of table entries and points to this location list" *)
  Definition read_table (img : list N) (start count esz : N) : option (list N) :=
    match read_locs (N.to_nat (table_blocks count esz)) img start with
    | Some locs => read_chunks img locs (count * esz)
    | None => None
    end.

  (* "ID Table": 32 bit ids *)
  Definition read_ids (img : list N) (s : SuperModel.super) : option (list N) :=
    match read_table img (SuperModel.s_id_start s) (SuperModel.s_id_count s) 4 with
    | Some b => Some (words_of b)
    | None => None
    end.

  (* "Fragment Table": u64 start, u32 size, u32 unused *)
  Fixpoint frags_of (l : list N) (fuel : nat) : list (N * N * N) :=
    match fuel with
    | O => []
    | S f => match l with
             | [] => []
             | _ => (rd64 l, rd32 (dropN 8 l), rd32 (dropN 12 l)) :: frags_of (dropN 16 l) f
             end
    end.

  Definition read_frags (img : list N) (s : SuperModel.super) : option (list (N * N * N)) :=
    if present (SuperModel.s_frag_start s) then
      match read_table img (SuperModel.s_frag_start s) (SuperModel.s_frag_count s) 16 with
      | Some b => Some (frags_of b (N.to_nat (SuperModel.s_frag_count s)))
      | None => None
      end
    else Some [].

  (* "Export Table": one 64 bit inode reference per inode number, index = inode number - 1 *)
  Fixpoint qwords_of (l : list N) (fuel : nat) : list N :=
    match fuel with
    | O => []
    | S f => match l with
             | [] => []
             | _ => rd64 l :: qwords_of (dropN 8 l) f
             end
    end.

  Definition read_export (img : list N) (s : SuperModel.super) : option (option (list N)) :=
    if present (SuperModel.s_export_start s) then
      match read_table img (SuperModel.s_export_start s) (SuperModel.s_inode_count s) 8 with
      | Some b => Some (Some (qwords_of b (N.to_nat (SuperModel.s_inode_count s))))
      | None => None
      end
    else Some None.

  (* first entry of a location list *)
  Definition first_loc (img : list N) (start : N) : option N :=
    let d := dropN start img in
    if lenN d <? 8 then None else Some (rd64 d).

  (* where the directory table ends: at the first metadata block of the section that follows it (fragment table,
     else export table, else id table; the id table always exists) *)
  Definition dir_end (img : list N) (s : SuperModel.super) : option N :=
    if present (SuperModel.s_frag_start s) then first_loc img (SuperModel.s_frag_start s)
    else if present (SuperModel.s_export_start s) then first_loc img (SuperModel.s_export_start s)
    else first_loc img (SuperModel.s_id_start s).

  Definition tables_of (img : list N) (s : SuperModel.super) : option (list N * list N) :=
    match dir_end img s with
    | None => None
    | Some de =>
      if (SuperModel.s_inode_start s <=? SuperModel.s_dir_start s) && (SuperModel.s_dir_start s <=? de) &&
         (de <=? lenN img)
      then Some (slice img (SuperModel.s_inode_start s) (SuperModel.s_dir_start s),
                 slice img (SuperModel.s_dir_start s) de)
      else None
    end.

  (* the tree behind the root inode reference of the super block *)
  Definition read_image_tree (img : list N) : option ltree :=
    match read_super img with
    | None => None
    | Some s =>
      match read_ids img s, tables_of img s with
      | Some ids, Some (itbl, dtbl) =>
        read_tree uncompress (SuperModel.s_block_size s) itbl dtbl ids
                  (N.to_nat (SuperModel.s_inode_count s)) (SuperModel.s_root_ref s)
      | _, _ => None
      end
    end.
End Reader.
