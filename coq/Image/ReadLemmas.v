(* Image — generic facts about the reader specifications (C03.MetaModel.read_block / parse_blocks, the location list
   reader) inside a larger byte string: the whole image is prefix ++ section ++ suffix. *)
From Coq Require Import List NArith ZArith Lia Bool ZifyBool ZifyNat ZifyN.
From SqfsV Require Import Base.Bytes C03.Common C03.ListN C03.MetaModel.
From SqfsV Require Import Image.ReaderModel.
Import ListNotations.
Local Open Scope N_scope.

Lemma rd_app_ge k : forall a b, (k <= length a)%nat -> rd k (a ++ b) = rd k a.
Proof.
  induction k as [|k IH]; intros a b H; [reflexivity|].
  destruct a as [|x a]; [simpl in H; lia|]. cbn [rd app]. rewrite IH by (simpl in H; lia). reflexivity.
Qed.

Lemma dropN_app_plus {A} (pre d : list A) p : dropN (lenN pre + p) (pre ++ d) = dropN p d.
Proof. rewrite dropN_app_ge by lia. f_equal. lia. Qed.

Lemma takeN_app_le' {A} n (a b : list A) : n <= lenN a -> takeN n (a ++ b) = takeN n a.
Proof. apply takeN_app_le. Qed.

Lemma slice_mid {A} (a b c : list A) : takeN (lenN b) (dropN (lenN a) (a ++ b ++ c)) = b.
Proof. rewrite dropN_app_exact by reflexivity. apply takeN_app_exact. reflexivity. Qed.

Lemma slice_app (a b c : list N) x y : x = lenN a -> y = lenN a + lenN b -> slice (a ++ b ++ c) x y = b.
Proof. intros -> ->. unfold slice. replace (lenN a + lenN b - lenN a) with (lenN b) by lia. apply slice_mid. Qed.

Section RL.
  Variable uncompress : list N -> option (list N).

  (* a block is found at the same place relative to a prefix *)
  Lemma read_block_shift pre d p : read_block uncompress (pre ++ d) (lenN pre + p) = read_block uncompress d p.
  Proof. unfold read_block. rewrite dropN_app_plus. reflexivity. Qed.

  (* what follows the bytes of a block does not matter *)
  Lemma read_block_mono d p r post :
    read_block uncompress d p = Some r -> read_block uncompress (d ++ post) p = Some r.
  Proof.
    unfold read_block. intro H.
    destruct (lenN (dropN p d) <? 2) eqn:E1; [discriminate|].
    apply N.ltb_ge in E1.
    assert (Hp : p <= lenN d) by (rewrite lenN_dropN in E1; lia).
    rewrite dropN_app_le by exact Hp.
    set (x := dropN p d) in *.
    assert (Hl : (2 <= length x)%nat) by (unfold lenN in E1; lia).
    assert (R : rd16 (x ++ post) = rd16 x) by (apply rd_app_ge; exact Hl).
    assert (E1' : lenN (x ++ post) <? 2 = false) by (apply N.ltb_ge; rewrite lenN_app; lia).
    rewrite E1', R.
    set (size := rd16 x mod META_FLAG) in *.
    destruct (lenN (takeN size (dropN 2 x)) <? size) eqn:E2; [discriminate|].
    apply N.ltb_ge in E2. rewrite lenN_takeN, lenN_dropN in E2.
    assert (Hs : size <= lenN (dropN 2 x)) by (rewrite lenN_dropN; lia).
    rewrite (dropN_app_le 2 x post) by lia.
    rewrite takeN_app_le by exact Hs.
    assert (E2' : lenN (takeN size (dropN 2 x)) <? size = false).
    { apply N.ltb_ge. rewrite lenN_takeN, lenN_dropN. lia. }
    rewrite E2'. exact H.
  Qed.

  Lemma read_block_in pre d post p r :
    read_block uncompress d p = Some r -> read_block uncompress (pre ++ d ++ post) (lenN pre + p) = Some r.
  Proof. intro H. rewrite read_block_shift. apply read_block_mono. exact H. Qed.
End RL.

(* ---- location lists ---- *)

Lemma read_locs_spec : forall locs pre post,
  Forall (fun x => x < 2 ^ 64) locs ->
  read_locs (length locs) (pre ++ concat (map le64 locs) ++ post) (lenN pre) = Some locs.
Proof.
  induction locs as [|x locs IH]; intros pre post F; [reflexivity|].
  inversion F as [|? ? Hx F']; subst.
  cbn [length read_locs map concat]. rewrite dropN_app_exact by reflexivity.
  rewrite <- !app_assoc.
  assert (L8 : lenN (le64 x) = 8) by (unfold le64; rewrite lenN_le; reflexivity).
  assert (E : lenN (le64 x ++ concat (map le64 locs) ++ post) <? 8 = false).
  { apply N.ltb_ge. rewrite lenN_app. lia. }
  rewrite E.
  replace (pre ++ le64 x ++ concat (map le64 locs) ++ post)
    with ((pre ++ le64 x) ++ concat (map le64 locs) ++ post) by (rewrite <- app_assoc; reflexivity).
  replace (lenN pre + 8) with (lenN (pre ++ le64 x)) by (rewrite lenN_app; lia).
  rewrite IH by exact F'.
  unfold rd64, le64. rewrite rd_le by (change (N.of_nat 8) with 8; change (256 ^ 8) with (2 ^ 64); exact Hx).
  reflexivity.
Qed.

Lemma first_loc_spec x locs pre post :
  x < 2 ^ 64 -> first_loc (pre ++ concat (map le64 (x :: locs)) ++ post) (lenN pre) = Some x.
Proof.
  intro Hx. unfold first_loc. rewrite dropN_app_exact by reflexivity. cbn [map concat]. rewrite <- !app_assoc.
  assert (L8 : lenN (le64 x) = 8) by (unfold le64; rewrite lenN_le; reflexivity).
  assert (E : lenN (le64 x ++ concat (map le64 locs) ++ post) <? 8 = false).
  { apply N.ltb_ge. rewrite lenN_app. lia. }
  rewrite E. unfold rd64, le64.
  rewrite rd_le by (change (N.of_nat 8) with 8; change (256 ^ 8) with (2 ^ 64); exact Hx). reflexivity.
Qed.

Lemma lenN_concat_le64 l : lenN (concat (map le64 l)) = 8 * lenN l.
Proof.
  induction l as [|x l IH]; [reflexivity|]. cbn [map concat]. rewrite lenN_app, IH, lenN_cons.
  unfold le64. rewrite lenN_le. lia.
Qed.
