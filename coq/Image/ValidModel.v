(* Image — [valid_image]: an executable validator for the C03 invariants that are visible at image level, written
   from doc/format.adoc (not from the writer).  Definitions only.  Clauses (each a boolean function of the image
   bytes, so that theorems can be stated per clause):

     v_size    bytes_used <= file size, the file size is the next multiple of the device block size, the padding is
               zero bytes
     v_order   the section starts of the super block are strictly ordered as the format prescribes
               (96 <= inode table < directory table < [fragment table] < [export table] < id table < [xattr table]
               < bytes_used); an omitted table is 0xFFFFFFFFFFFFFFFF
     v_opts    "compressor options present" <-> one uncompressed metadata block right behind the super block, before
               the inode table; always present for LZ4, never for LZMA
     v_meta    inode table = [inode start, dir start) and directory table = [dir start, first lookup table block) are
               gap-free sequences of metadata blocks; every block: stored size <= 8 KiB, content <= 8 KiB, stored
               size <= content size (compressed) / = content size (uncompressed)
     v_chain   fragment / export / id table: location list entries are exactly the consecutive block starts, the
               blocks end where the list begins, each section begins where the previous one ends (no gaps), same
               block checks; xattr: key-value blocks, id blocks, header + location list end at bytes_used
     v_tables  id / fragment / export table contents have exactly count * entry size bytes in ceil(size / 8192)
               blocks (all full but the last); id count >= 1
     v_inodes  the inode table decodes into exactly inode_count inodes, their numbers are exactly 1 .. inode_count,
               uid / gid indices are inside the id table
     v_root    the root reference resolves to a directory inode (a reference resolves when an inode of the table
               STARTS at the stream offset it names)
     v_dirs    per directory inode (coq/Img/DirWF.v): the listing is where the inode says, parses into header runs
               (1 .. 256 entries each), names strictly sorted, every entry's reference resolves to an inode whose
               number and type are the entry's *)
From Coq Require Import List NArith ZArith Bool.
From SqfsV Require Import Base.Bytes C03.Common C03.MetaModel C03.DirModel.
From SqfsV Require C14.SuperModel.
From SqfsV Require Import C01.Res C01.InodeModel Img.TreeModel Image.ReaderModel.
Import ListNotations.
Local Open Scope N_scope.

Definition FLAG_COMP_OPTS : N := 1024.
Definition SCAN_WINDOW : N := 2048.      (* 0x0400 "Compressor options are present" *)

Definition is_some {A} (o : option A) : bool := match o with Some _ => true | None => false end.

(* strictly ascending *)
Fixpoint ascending (l : list N) : bool :=
  match l with
  | a :: ((b :: _) as r) => (a <? b) && ascending r
  | _ => true
  end.

(* l = [k; k+1; ...] *)
Fixpoint counts_from (l : list N) (k : N) : bool :=
  match l with
  | [] => true
  | x :: r => (x =? k) && counts_from r (k + 1)
  end.

Fixpoint seqN (k : N) (n : nat) : list N :=
  match n with O => [] | S n' => k :: seqN (k + 1) n' end.

(* the numbers are exactly 1 .. n (in any order; the first test is the fast path for ascending order) *)
Definition numbers_ok (l : list N) (n : N) : bool :=
  (lenN l =? n) &&
  (counts_from l 1 || forallb (fun k => existsb (N.eqb k) l) (seqN 1 (N.to_nat n))).

Section Valid.
  Variable uncompress : list N -> option (list N).
  Variable devblk : N.

  Notation s_inode_start := SuperModel.s_inode_start.
  Notation s_dir_start := SuperModel.s_dir_start.
  Notation s_frag_start := SuperModel.s_frag_start.
  Notation s_export_start := SuperModel.s_export_start.
  Notation s_id_start := SuperModel.s_id_start.
  Notation s_xattr_start := SuperModel.s_xattr_start.
  Notation s_bytes_used := SuperModel.s_bytes_used.

  Definition block_ok (b : list N * N * bool) : bool :=
    let '(c, size, comp) := b in
    (lenN c <=? META_SIZE) && (size <=? META_SIZE) && (if comp then size <=? lenN c else size =? lenN c).

  Definition v_size (img : list N) (s : SuperModel.super) : bool :=
    negb (devblk =? 0) && (s_bytes_used s <=? lenN img) &&
    (lenN img mod devblk =? 0) && (lenN img <? s_bytes_used s + devblk) &&
    forallb (N.eqb 0) (dropN (s_bytes_used s) img).

  Definition opt_start (x : N) : list N := if present x then [x] else [].

  Definition v_order (s : SuperModel.super) : bool :=
    present (s_inode_start s) && present (s_dir_start s) && present (s_id_start s) &&
    ascending ([SUPER_SIZE - 1; s_inode_start s; s_dir_start s] ++ opt_start (s_frag_start s) ++
               opt_start (s_export_start s) ++ [s_id_start s] ++ opt_start (s_xattr_start s) ++ [s_bytes_used s]).

  Definition v_opts (img : list N) (s : SuperModel.super) : bool :=
    let has := negb (N.land (SuperModel.s_flags s) FLAG_COMP_OPTS =? 0) in
    (* "For LZ4, the compressor options always have to be present"; "The LZMA compressor does not support compressor
       options, so this section must never be present" *)
    (if SuperModel.s_comp_id s =? 5 then has else true) && (if SuperModel.s_comp_id s =? 2 then negb has else true) &&
    (if has then
       match read_block uncompress img SUPER_SIZE with
       | Some (c, size, comp) => negb comp && (SUPER_SIZE + 2 + size <=? s_inode_start s)
       | None => false
       end
     else true).

  (* the metadata blocks that tile [a, b) *)
  Definition area (img : list N) (a b : N) : option (list (list N * N * bool)) :=
    if (a <=? b) && (b <=? lenN img) then
      let sl := slice img a b in parse_blocks uncompress (length sl) sl 0
    else None.

  Definition area_ok (img : list N) (a b : N) : bool :=
    match area img a b with
    | Some bl => forallb block_ok bl
    | None => false
    end.

  Definition v_meta (img : list N) (s : SuperModel.super) : bool :=
    match dir_end img s with
    | Some de => area_ok img (s_inode_start s) (s_dir_start s) && area_ok img (s_dir_start s) de
    | None => false
    end.

  (* the blocks at [locs] are consecutive and the last one ends at [endpos] *)
  Fixpoint tile (img : list N) (locs : list N) (endpos : N) : bool :=
    match locs with
    | [] => false
    | l :: r =>
      match read_block uncompress img l with
      | None => false
      | Some (c, size, comp) =>
        block_ok (c, size, comp) &&
        match r with
        | [] => l + 2 + size =? endpos
        | l' :: _ => (l + 2 + size =? l') && tile img r endpos
        end
      end
    end.

  (* a lookup table whose list is at [start]: (position of its first block, position behind its list) *)
  Definition table_span (img : list N) (start count esz : N) : option (N * N) :=
    let n := table_blocks count esz in
    match read_locs (N.to_nat n) img start with
    | Some (l0 :: r) => if tile img (l0 :: r) start then Some (l0, start + 8 * n) else None
    | _ => None
    end.

  (* an optional section must begin at [cur]; the position behind it *)
  Definition chain_step (img : list N) (cur : option N) (start count esz : N) : option N :=
    match cur with
    | None => None
    | Some c =>
      if present start then
        match table_span img start count esz with
        | Some (l0, e) => if l0 =? c then Some e else None
        | None => None
        end
      else Some c
    end.

  (* "Extended Attribute Table": key-value blocks from [cur], then the blocks of the xattr id table, then
     { u64 kv start; u32 count; u32 unused } at the xattr table start followed by the location list *)
  Definition xattr_tail (img : list N) (s : SuperModel.super) (cur : N) : bool :=
    let xs := s_xattr_start s in
    if present xs then
      let d := dropN xs img in
      if lenN d <? 16 then false else
      let kv := rd64 d in
      let count := rd32 (dropN 8 d) in
      let n := table_blocks count 16 in
      (kv =? cur) && (1 <=? count) &&
      match read_locs (N.to_nat n) img (xs + 16) with
      | Some (l0 :: r) => tile img (l0 :: r) xs && area_ok img kv l0 && (xs + 16 + 8 * n =? s_bytes_used s)
      | _ => false
      end
    else cur =? s_bytes_used s.

  Definition v_chain (img : list N) (s : SuperModel.super) : bool :=
    let c1 := chain_step img (dir_end img s) (s_frag_start s) (SuperModel.s_frag_count s) 16 in
    let c2 := chain_step img c1 (s_export_start s) (SuperModel.s_inode_count s) 8 in
    match c2 with
    | None => false
    | Some c =>
      match table_span img (s_id_start s) (SuperModel.s_id_count s) 4 with
      | Some (l0, e) => (l0 =? c) && xattr_tail img s e
      | None => false
      end
    end.

  Definition v_tables (img : list N) (s : SuperModel.super) : bool :=
    (1 <=? SuperModel.s_id_count s) &&
    is_some (read_ids uncompress img s) && is_some (read_frags uncompress img s) &&
    is_some (read_export uncompress img s) &&
    (if present (s_frag_start s) then 1 <=? SuperModel.s_frag_count s else true).

  (* one inode at the front of the stream: (inode, number of bytes it occupies).  Inodes are decoded from a window of
     SCAN_WINDOW bytes first and from the whole remaining stream only when the window is too short (C01's [decode]
     measures the length of what it is given: this keeps the scan linear). *)
  Definition decode_front (bs : N) (st : list N) : option (inode * N) :=
    let w := takeN SCAN_WINDOW st in
    match decode bs w with
    | Ok (i, rest) => Some (i, lenN w - lenN rest)
    | _ =>
      match decode bs st with
      | Ok (i, rest) => Some (i, lenN st - lenN rest)
      | _ => None
      end
    end.

  (* the inodes of the inode table, front to back, each with the offset of its first byte in the uncompressed
     metadata stream *)
  Fixpoint scan (bs : N) (fuel : nat) (off : N) (st : list N) : option (list (N * inode)) :=
    match st with
    | [] => Some []
    | _ :: _ =>
      match fuel with
      | O => None
      | S f =>
        match decode_front bs st with
        | Some (i, c) =>
          match scan bs f (off + c) (dropN c st) with
          | Some r => Some ((off, i) :: r)
          | None => None
          end
        | None => None
        end
      end
    end.

  (* per metadata block of an area: (byte position relative to the area, stream offset of its first byte, content
     length) *)
  Fixpoint block_index (bl : list (list N * N * bool)) (pos off : N) : list (N * N * N) :=
    match bl with
    | [] => []
    | (c, size, _) :: r => (pos, off, lenN c) :: block_index r (pos + 2 + size) (off + lenN c)
    end.

  (* stream offset named by a metadata reference (block position << 16 | offset in the uncompressed block) *)
  Fixpoint ref_offset (bt : list (N * N * N)) (ref : N) : option N :=
    match bt with
    | [] => None
    | (pos, off, len) :: r =>
      if pos =? ref / 65536 then (if ref mod 65536 <=? len then Some (off + ref mod 65536) else None)
      else ref_offset r ref
    end.

  Fixpoint inode_at_offset (l : list (N * inode)) (off : N) : option inode :=
    match l with
    | [] => None
    | (o, i) :: r => if o =? off then Some i else inode_at_offset r off
    end.

  (* the inode a reference points at: an inode of the table must START there *)
  Definition resolve (bt : list (N * N * N)) (l : list (N * inode)) (ref : N) : option inode :=
    match ref_offset bt ref with
    | Some off => inode_at_offset l off
    | None => None
    end.

  (* block index and inode list of the inode table *)
  Definition inodes_of (img : list N) (s : SuperModel.super) : option (list (N * N * N) * list (N * inode)) :=
    match area img (s_inode_start s) (s_dir_start s) with
    | Some bl =>
      match scan (SuperModel.s_block_size s) (N.to_nat (SuperModel.s_inode_count s)) 0
                 (concat (map (fun b => fst (fst b)) bl)) with
      | Some l => Some (block_index bl 0 0, l)
      | None => None
      end
    | None => None
    end.

  Definition v_inodes (s : SuperModel.super) (l : list (N * inode)) : bool :=
    numbers_ok (map (fun p => ib_ino (i_base (snd p))) l) (SuperModel.s_inode_count s) &&
    forallb (fun p => (ib_uid (i_base (snd p)) <? SuperModel.s_id_count s) &&
                      (ib_gid (i_base (snd p)) <? SuperModel.s_id_count s)) l.

  Definition v_root (s : SuperModel.super) (bt : list (N * N * N)) (l : list (N * inode)) : bool :=
    match resolve bt l (SuperModel.s_root_ref s) with
    | Some i => is_some (dir_loc (i_body i))
    | None => false
    end.

  Definition entry_ok (bt : list (N * N * N)) (l : list (N * inode)) (e : dent) : bool :=
    match resolve bt l (de_ref e) with
    | Some i => (ib_ino (i_base i) =? de_num e) &&
                match get_type (ib_mode (i_base i)) with Some ty => ty =? de_type e | None => false end
    | None => false
    end.

  Definition dir_ok (bt : list (N * N * N)) (l : list (N * inode)) (dtbl : list N) (i : inode) : bool :=
    match dir_loc (i_body i) with
    | None => true
    | Some (sb, off, sz) =>
      match read_listing uncompress dtbl sb off sz with
      | Some ents => sorted_names (map de_name ents) && forallb (entry_ok bt l) ents
      | None => false
      end
    end.

  Definition v_dirs (bt : list (N * N * N)) (l : list (N * inode)) (dtbl : list N) : bool :=
    forallb (fun p => dir_ok bt l dtbl (snd p)) l.

  (* the clauses about the layout and the lookup tables *)
  Definition valid_layout (img : list N) (s : SuperModel.super) : bool :=
    v_size img s && v_order s && v_opts img s && v_meta img s && v_chain img s && v_tables img s.

  (* the clauses about inodes and directories (the inode table is decoded once) *)
  Definition valid_tree (img : list N) (s : SuperModel.super) : bool :=
    match inodes_of img s, tables_of img s with
    | Some (bt, l), Some (_, dtbl) => v_inodes s l && v_root s bt l && v_dirs bt l dtbl
    | _, _ => false
    end.

  Definition valid_super (img : list N) (s : SuperModel.super) : bool :=
    valid_layout img s && valid_tree img s.

  Definition valid_image (img : list N) : bool :=
    match read_super img with
    | Some s => valid_super img s
    | None => false
    end.

  (* which clause fails first (0 = none, 1 = super block, 2 .. = the clauses in order): for diagnostics *)
  Definition first_failure (img : list N) : N :=
    match read_super img with
    | None => 1
    | Some s =>
      if negb (v_size img s) then 2 else if negb (v_order s) then 3 else if negb (v_opts img s) then 4
      else if negb (v_meta img s) then 5 else if negb (v_chain img s) then 6 else if negb (v_tables img s) then 7
      else match inodes_of img s, tables_of img s with
           | Some (bt, l), Some (_, dtbl) =>
             if negb (v_inodes s l) then 8 else if negb (v_root s bt l) then 9
             else if negb (v_dirs bt l dtbl) then 10 else 0
           | None, _ => 11
           | _, None => 12
           end
    end.
End Valid.
