(* Image — the inode scan of the executable validator (ValidModel.scan / decode_front / block_index / ref_offset /
   inode_at_offset) on a stream that is a concatenation of inode encodings cut into metadata blocks. *)
From Coq Require Import List NArith ZArith Lia Bool ZifyBool ZifyNat ZifyN.
From SqfsV Require Import Base.Bytes Gen.Constants C03.Common C03.ListN C03.MetaModel C03.MetaProofs C03.MetaRT.
From SqfsV Require Import C01.GenC01 C01.Res C01.InodeModel C01.InodeProofs.
From SqfsV Require Import Img.TreeModel.
From SqfsV Require Import Image.ReaderModel Image.ValidModel Image.DecodeMono.
Import ListNotations.
Local Open Scope N_scope.

Lemma clear_slack_base i : i_base (clear_slack i) = i_base i.
Proof. destruct i as [b body]. destruct body; reflexivity. Qed.

(* one inode at the front of a stream *)
Lemma decode_front_enc bs i b rest :
  bs <> 0 -> inode_wfb bs i = true -> encode i = Ok b ->
  decode_front bs (b ++ rest) = Some (clear_slack i, lenN b).
Proof.
  intros Hbs W E.
  assert (D : forall r, decode bs (b ++ r) = Ok (clear_slack i, r)).
  { intro r. destruct (inode_rt_l bs i r Hbs W) as (bytes & E' & D). rewrite E in E'. injection E' as <-. exact D. }
  unfold decode_front.
  destruct (N.le_gt_cases (lenN b) SCAN_WINDOW) as [Hle|Hgt].
  - rewrite takeN_app_ge by exact Hle. rewrite D. f_equal. f_equal. rewrite lenN_app. lia.
  - rewrite takeN_app_le by lia.
    destruct (decode bs (takeN SCAN_WINDOW b)) as [[i' r']| | |] eqn:Dw.
    + exfalso. pose proof (decode_mono bs _ (dropN SCAN_WINDOW b ++ rest) _ _ Dw) as M.
      rewrite app_assoc, takeN_dropN, D in M. injection M as _ M.
      assert (L : lenN rest = lenN (r' ++ dropN SCAN_WINDOW b ++ rest)) by (rewrite <- M; reflexivity).
      rewrite !lenN_app, lenN_dropN in L. lia.
    + rewrite D. f_equal. f_equal. rewrite lenN_app. lia.
    + rewrite D. f_equal. f_equal. rewrite lenN_app. lia.
    + rewrite D. f_equal. f_equal. rewrite lenN_app. lia.
Qed.

(* what the scan finds *)
Fixpoint scan_result (off : N) (bl : list (list N)) (is : list inode) : list (N * inode) :=
  match bl, is with
  | b :: bl', i :: is' => (off, clear_slack i) :: scan_result (off + lenN b) bl' is'
  | _, _ => []
  end.

Lemma scan_spec bs : bs <> 0 -> forall bl is off,
  Forall2 (fun b i => encode i = Ok b /\ inode_wfb bs i = true) bl is ->
  scan bs (length bl) off (concat bl) = Some (scan_result off bl is).
Proof.
  intros Hbs. induction bl as [|b bl IH]; intros is off F.
  - inversion F; subst. reflexivity.
  - inversion F as [|? i ? is' [E W] F']; subst.
    pose proof (decode_front_enc bs i b (concat bl) Hbs W E) as DF.
    assert (Hne : 16 <= lenN b).
    { unfold encode in E. destruct (body_payload (i_body i)) as [p| | |]; try discriminate. cbn [bind] in E.
      injection E as <-. unfold base_fields, W2, W4. cbn [encf le app]. rewrite !lenN_cons. lia. }
    cbn [length concat scan_result].
    destruct (b ++ concat bl) as [|x xs] eqn:Ex.
    { exfalso. assert (L : lenN (b ++ concat bl) = 0) by (rewrite Ex; reflexivity). rewrite lenN_app in L. lia. }
    cbn [scan]. rewrite DF, <- Ex. rewrite dropN_app_exact by reflexivity. rewrite (IH is' _ F'). reflexivity.
Qed.

Lemma scan_result_length off bl is : length bl = length is -> length (scan_result off bl is) = length bl.
Proof.
  revert off is. induction bl as [|b bl IH]; intros off is L; [reflexivity|].
  destruct is as [|i is]; [discriminate|]. cbn [scan_result length]. rewrite IH by (simpl in L; lia). reflexivity.
Qed.

Lemma scan_result_map {A} (f : inode -> A) off bl is : length bl = length is ->
  map (fun p => f (snd p)) (scan_result off bl is) = map (fun i => f (clear_slack i)) is.
Proof.
  revert off is. induction bl as [|b bl IH]; intros off is L; destruct is as [|i is]; try discriminate; [reflexivity|].
  cbn [scan_result map snd]. rewrite IH by (simpl in L; lia). reflexivity.
Qed.

(* the inode that starts at the offset of the j-th encoding *)
Lemma inode_at_offset_spec : forall bl is off j i,
  Forall (fun b => 0 < lenN b) bl -> nth_error is j = Some i -> (j < length bl)%nat ->
  inode_at_offset (scan_result off bl is) (off + lenN (concat (firstn j bl))) = Some (clear_slack i).
Proof.
  induction bl as [|b bl IH]; intros is off j i F Hi Hj; [simpl in Hj; lia|].
  inversion F as [|? ? Hb F']; subst.
  destruct is as [|i0 is]; [destruct j; discriminate|].
  destruct j as [|j].
  - cbn [nth_error] in Hi. injection Hi as <-. cbn [firstn concat scan_result inode_at_offset].
    rewrite lenN_nil, N.add_0_r, N.eqb_refl. reflexivity.
  - cbn [nth_error] in Hi. cbn [firstn concat scan_result inode_at_offset]. rewrite lenN_app.
    assert (Q : off =? off + (lenN b + lenN (concat (firstn j bl))) = false) by (apply N.eqb_neq; lia).
    rewrite Q. replace (off + (lenN b + lenN (concat (firstn j bl)))) with (off + lenN b + lenN (concat (firstn j bl))) by lia.
    apply IH; [exact F'|exact Hi|simpl in Hj; lia].
Qed.

Section BI.
  Variable compress : list N -> cres.
  Variable uncompress : list N -> option (list N).
  Hypothesis compress_ok :
    forall b c, compress b = CData c -> lenN c <= lenN b /\ uncompress c = Some b.

  Notation enc := (enc compress).
  Definition parsed (raws : list (list N)) : list (list N * N * bool) :=
    map (fun r => (r, stored_size compress r, is_comp compress r)) raws.

  (* the stream offset behind a reference into block k *)
  Lemma ref_offset_spec : forall raws pos off k ref,
    Forall blk_ok raws -> (k < length raws)%nat ->
    ref / 65536 = pos + lenN (concat (map enc (firstn k raws))) ->
    ref mod 65536 <= lenN (nth k raws []) ->
    ref_offset (block_index (parsed raws) pos off) ref = Some (off + lenN (concat (firstn k raws)) + ref mod 65536).
  Proof.
    induction raws as [|r raws IH]; intros pos off k ref F Hk P O; [simpl in Hk; lia|].
    inversion F as [|? ? OKr F']; subst.
    pose proof (enc_len compress uncompress compress_ok r OKr) as EL.
    cbn [parsed map block_index ref_offset]. fold (parsed raws).
    destruct k as [|k].
    - cbn [firstn map concat nth] in *. rewrite lenN_nil, N.add_0_r in P. rewrite P, N.eqb_refl.
      apply N.leb_le in O. rewrite O. rewrite lenN_nil, N.add_0_r. reflexivity.
    - cbn [firstn map concat nth] in *. rewrite lenN_app in P.
      assert (Q : pos =? ref / 65536 = false) by (apply N.eqb_neq; lia).
      rewrite Q. rewrite (IH (pos + 2 + stored_size compress r) (off + lenN r) k ref F' ltac:(simpl in Hk; lia)
                            ltac:(lia) O).
      rewrite lenN_app. f_equal. lia.
  Qed.

  Lemma concat_parsed raws : concat (map (fun b => fst (fst b)) (parsed raws)) = concat raws.
  Proof. unfold parsed. rewrite map_map. cbn [fst]. rewrite map_id. reflexivity. Qed.
End BI.
