(* Image — non-vacuity: a concrete image (the 96 inode tree of Img/Example.v, zero-run-length compressor, compressor
   options, a data area, one fragment, export table, no xattrs) on which every definition computes: the image is in
   the domain of the theorems, the executable validator accepts it (all clauses), the reader specification reads the
   super block, the three lookup tables and the tree back. *)
From Coq Require Import List NArith ZArith Bool.
From SqfsV Require Import Base.Bytes Gen.Constants C03.Common C03.MetaModel C03.DirModel.
From SqfsV Require C14.SuperModel.
From SqfsV Require Import C01.GenC01 C01.Res C01.InodeModel Img.TreeModel Img.Example.
From SqfsV Require Import Image.FinishModel Image.ReaderModel Image.ValidModel Image.ImageProofs.
Import ListNotations.
Local Open Scope N_scope.

Definition ex_cfg : wcfg := mkCfg 4096 77 1 4096 true false.
(* one uncompressed metadata block of 4 option bytes; 100 data bytes; one uncompressed fragment of 100 bytes at 102 *)
Definition ex_inp : winput := mkIn [4; 128; 1; 2; 3; 4] (repeat 7 100) [(102, 16777316)] ex_tree None.
Definition ex_w : res wimage := write_image (img_compress 3) c_id_table_limit ex_cfg ex_inp.

(* the same tree without export table, without fragments, without options, xattrs disabled, odd device block size *)
Definition ex_cfg2 : wcfg := mkCfg 4096 0 4 1000 false true.
Definition ex_inp2 : winput := mkIn [] [] [] ex_tree None.
Definition ex_w2 : res wimage := write_image (img_compress 1) c_id_table_limit ex_cfg2 ex_inp2.

Example ex_image_domain :
  image_domain ex_cfg ex_inp = true /\ image_domain ex_cfg2 ex_inp2 = true /\
  match ex_w, ex_w2 with
  | Ok w, Ok w2 => image_fits w = true /\ image_fits w2 = true
  | _, _ => False
  end.
Proof. vm_compute. repeat split; reflexivity. Qed.

Example ex_image_valid :
  match ex_w, ex_w2 with
  | Ok w, Ok w2 =>
      valid_image (img_uncompress 3) 4096 (image_bytes w) = true /\
      valid_image (img_uncompress 1) 1000 (image_bytes w2) = true /\
      lenN (image_bytes w) = 28672 /\ SuperModel.s_bytes_used (w_super w) = 28371 /\
      (* cutting the padding, a wrong device block size, one byte more: rejected *)
      valid_image (img_uncompress 3) 4096 (takeN 28371 (image_bytes w)) = false /\
      valid_image (img_uncompress 3) 8192 (image_bytes w) = false /\
      valid_image (img_uncompress 3) 4096 (image_bytes w ++ [0]) = false
  | _, _ => False
  end.
Proof. vm_compute. repeat split; reflexivity. Qed.

Example ex_image_reads_back :
  match ex_w with
  | Ok w =>
      let b := image_bytes w in
      read_super b = Some (w_super w) /\
      read_ids (img_uncompress 3) b (w_super w) = Some [1000; 100; 0] /\
      read_frags (img_uncompress 3) b (w_super w) = Some [(102, 16777316, 0)] /\
      match read_export (img_uncompress 3) b (w_super w) with
      | Some (Some l) => l = si_refs (w_img w) /\ lenN l = 96
      | _ => False
      end /\
      read_image_tree (img_uncompress 3) b = spec_tree ex_tree (length ex_tree) (nlen ex_tree) /\
      Img.Example.is_some (read_image_tree (img_uncompress 3) b) = true /\
      SuperModel.s_flags (w_super w) = 1768       (* 0x6E8: DUPLICATES | EXPORTABLE | NO_XATTRS | COMPRESSOR_OPTIONS | ALWAYS_FRAGMENTS | UNCOMPRESSED_FRAGMENTS *)
  | _ => False
  end.
Proof. vm_compute. repeat split; reflexivity. Qed.
