(* Image — what a successful run of write_image looks like (the facts every later proof starts from). *)
From Coq Require Import List NArith ZArith Lia Bool ZifyBool ZifyNat ZifyN.
From SqfsV Require Import Base.Bytes Gen.Constants C03.Common C03.ListN C03.MetaModel C03.MetaProofs C03.DirModel
  C03.TableModel C03.TableProofs.
From SqfsV Require C14.SuperModel C14.SuperProofs C14.TraceModel.
From SqfsV Require Import C01.GenC01 C01.Res C01.InodeModel Img.TreeModel Img.SerDefs.
From SqfsV Require Import Image.FinishModel Image.ReaderModel Image.ReadLemmas Image.TableRead Image.SerX.
Import ListNotations.
Local Open Scope N_scope.

Notation s_inode_start := SuperModel.s_inode_start.
Notation s_dir_start := SuperModel.s_dir_start.
Notation s_frag_start := SuperModel.s_frag_start.
Notation s_export_start := SuperModel.s_export_start.
Notation s_id_start := SuperModel.s_id_start.
Notation s_xattr_start := SuperModel.s_xattr_start.
Notation s_bytes_used := SuperModel.s_bytes_used.
Notation s_flags := SuperModel.s_flags.
Notation s_frag_count := SuperModel.s_frag_count.
Notation NO_TABLE := SuperModel.NO_TABLE.

Definition SBN : N := sizeof_sqfs_super_t.

(* where the sections of a written image begin (the offsets the writer passed to the table writers) *)
Definition o_frag (w : wimage) : N := s_dir_start (w_super w) + lenN (si_dtbl (w_img w)).
Definition o_export (w : wimage) : N := o_frag w + lenN (w_fragb w).
Definition o_id (w : wimage) : N := o_export w + lenN (w_exportb w).
Definition o_xattr (w : wimage) : N := o_id w + lenN (w_idb w).

(* init.c: flags after cmp->write_options *)
Definition flags0_of (s0 : SuperModel.super) (opts : list N) : N :=
  match opts with
  | [] => s_flags s0
  | _ => flag_set (s_flags s0) c_SQFS_FLAG_COMPRESSOR_OPTIONS
  end.

Section FP.
  Variable compress : list N -> cres.
  Variable limit : N.

  Notation write_image := (write_image compress limit).

  Definition Shape (cfg : wcfg) (inp : winput) (w : wimage) : Prop :=
    let sf := w_super w in
    let s0 := w_super0 w in
    let img := w_img w in
    let t := in_tree inp in
    exists dwr flags1 flags2,
      SuperModel.super_init (c_block_size cfg) (c_mtime cfg) (c_comp_id cfg) = SuperModel.Ok s0 /\
      serialize_fstree_x compress limit (c_exportable cfg) t = Ok (img, dwr) /\
      frag_write compress (o_frag w) (in_frags inp) (s_frag_count s0) (flags0_of s0 (in_opts inp))
        = Ok (w_fragb w, s_frag_start sf, s_frag_count sf, flags1) /\
      export_write compress (c_exportable cfg) dwr (o_export w) (nlen t) (si_root img) (s_export_start s0) flags1
        = Ok (w_export w, w_exportb w, s_export_start sf, flags2) /\
      lift (write_table compress (o_id w) (id_table_bytes (si_ids img))) = Ok (w_idb w, s_id_start sf) /\
      xattr_write (c_no_xattr cfg) (in_xattr inp) (o_xattr w) (s_xattr_start s0) flags2
        = (w_xattrb w, s_xattr_start sf, s_flags sf) /\
      c_devblk cfg <> 0 /\
      w_pad w = pad_len (s_bytes_used sf) (c_devblk cfg) /\
      s_bytes_used sf = o_xattr w + lenN (w_xattrb w) /\
      s_inode_start sf = SBN + lenN (in_opts inp) + lenN (in_data inp) /\
      s_dir_start sf = s_inode_start sf + lenN (si_itbl img) /\
      w_body w = in_opts inp ++ in_data inp ++ si_itbl img ++ si_dtbl img ++ w_fragb w ++ w_exportb w ++ w_idb w ++
                 w_xattrb w /\
      SuperModel.s_magic sf = SuperModel.s_magic s0 /\
      SuperModel.s_inode_count sf = nlen t mod 4294967296 /\
      SuperModel.s_mtime sf = SuperModel.s_mtime s0 /\
      SuperModel.s_block_size sf = SuperModel.s_block_size s0 /\
      SuperModel.s_comp_id sf = SuperModel.s_comp_id s0 /\
      SuperModel.s_block_log sf = SuperModel.s_block_log s0 /\
      SuperModel.s_id_count sf = id_count_field (si_ids img) /\
      SuperModel.s_vmaj sf = SuperModel.s_vmaj s0 /\
      SuperModel.s_vmin sf = SuperModel.s_vmin s0 /\
      SuperModel.s_root_ref sf = si_root img /\
      w_trace w =
        [TraceModel.PWrite 0 (SuperModel.encode s0)] ++
        ev_write SBN (in_opts inp) ++ ev_write (SBN + lenN (in_opts inp)) (in_data inp) ++
        ev_write (s_inode_start sf) (si_itbl img) ++ ev_write (s_dir_start sf) (si_dtbl img) ++
        ev_write (o_frag w) (w_fragb w) ++ ev_write (o_export w) (w_exportb w) ++ ev_write (o_id w) (w_idb w) ++
        ev_write (o_xattr w) (w_xattrb w) ++
        [TraceModel.PWrite 0 (SuperModel.encode sf)] ++ ev_write (s_bytes_used sf) (zeros (w_pad w)).

  Theorem write_image_shape cfg inp w : write_image cfg inp = Ok w -> Shape cfg inp w.
  Proof.
    unfold FinishModel.write_image. intro H.
    destruct (SuperModel.super_init (c_block_size cfg) (c_mtime cfg) (c_comp_id cfg)) as [s0|e|] eqn:E0; try discriminate.
    cbv zeta in H.
    destruct (serialize_fstree_x compress limit (c_exportable cfg) (in_tree inp)) as [[img dwr]| | |] eqn:E1;
      try discriminate. cbn [bind] in H.
    match type of H with context [frag_write ?c ?a ?b ?d ?e] =>
      destruct (frag_write c a b d e) as [[[[fragb fstart] fcount] flags1]| | |] eqn:E2; try discriminate end.
    cbn [bind] in H.
    match type of H with context [export_write ?c ?a ?b ?d ?e ?f ?g ?h] =>
      destruct (export_write c a b d e f g h) as [[[[xt exportb] estart] flags2]| | |] eqn:E3; try discriminate end.
    cbn [bind] in H.
    match type of H with context [lift (write_table ?c ?a ?b)] =>
      destruct (lift (write_table c a b)) as [[idb idstart]| | |] eqn:E4; try discriminate end.
    cbn [bind] in H.
    match type of H with context [xattr_write ?a ?b ?c ?d ?e] =>
      destruct (xattr_write a b c d e) as [[xattrb xstart] flags3] eqn:E5 end.
    destruct (c_devblk cfg =? 0) eqn:E6; try discriminate.
    injection H as <-.
    unfold Shape, o_xattr, o_id, o_export, o_frag, SBN, flags0_of.
    cbn [w_super w_super0 w_img w_fragb w_exportb w_idb w_xattrb w_export w_pad w_body w_trace
         SuperModel.s_dir_start SuperModel.s_frag_start SuperModel.s_frag_count SuperModel.s_export_start
         SuperModel.s_id_start SuperModel.s_xattr_start SuperModel.s_flags SuperModel.s_bytes_used
         SuperModel.s_inode_start SuperModel.s_magic SuperModel.s_inode_count SuperModel.s_mtime
         SuperModel.s_block_size SuperModel.s_comp_id SuperModel.s_block_log SuperModel.s_id_count
         SuperModel.s_vmaj SuperModel.s_vmin SuperModel.s_root_ref].
    exists dwr, flags1, flags2.
    split; [exact E0|]. split; [exact E1|]. split; [exact E2|]. split; [exact E3|]. split; [exact E4|].
    split; [exact E5|]. split; [apply N.eqb_neq; exact E6|].
    repeat (split; [reflexivity|]). reflexivity.
  Qed.

  (* ---- the single steps ---- *)

  Lemma frag_write_cases size0 frags count0 flags bytes start count flags' :
    frag_write compress size0 frags count0 flags = Ok (bytes, start, count, flags') ->
    (frags = [] /\ bytes = [] /\ start = NO_TABLE /\ count = count0 /\
     flags' = flag_clr (flag_clr (flag_set flags c_SQFS_FLAG_NO_FRAGMENTS) c_SQFS_FLAG_ALWAYS_FRAGMENTS)
                       c_SQFS_FLAG_UNCOMPRESSED_FRAGMENTS) \/
    (frags <> [] /\ write_table compress size0 (frag_table_bytes frags) = Common.Ok (bytes, start) /\
     count = nlen frags mod 4294967296 /\
     flags' = let g := flag_set (flag_set (flag_clr flags c_SQFS_FLAG_NO_FRAGMENTS) c_SQFS_FLAG_ALWAYS_FRAGMENTS)
                                c_SQFS_FLAG_UNCOMPRESSED_FRAGMENTS in
              if existsb frag_compressed frags then flag_clr g c_SQFS_FLAG_UNCOMPRESSED_FRAGMENTS else g).
  Proof.
    unfold frag_write. destruct frags as [|f r].
    - intro H. injection H as <- <- <- <-. left. repeat split.
    - destruct (lift (write_table compress size0 (frag_table_bytes (f :: r)))) as [[b s]| | |] eqn:E; try discriminate.
      cbn [bind]. intro H. injection H as <- <- <- <-. right. apply lift_ok in E.
      split; [discriminate|]. split; [exact E|]. split; reflexivity.
  Qed.

  Lemma export_write_cases exportable dwr size0 rnum rref start0 flags xt bytes start flags' :
    export_write compress exportable dwr size0 rnum rref start0 flags = Ok (xt, bytes, start, flags') ->
    (xt = None /\ bytes = [] /\ start = start0 /\ flags' = flags /\
     (exportable = false \/ export_add (dw_export dwr) rnum rref = Common.Ok None)) \/
    (exists l, xt = Some l /\ write_table compress size0 (concat (map le64 l)) = Common.Ok (bytes, start) /\
               export_add (dw_export dwr) rnum rref = Common.Ok (Some l) /\
               flags' = flag_set flags c_SQFS_FLAG_EXPORTABLE).
  Proof.
    unfold export_write. destruct exportable.
    - destruct (lift (dw_write_export_table compress dwr size0 rnum rref)) as [[[w' b] st]| | |] eqn:E; try discriminate.
      cbn [bind]. apply lift_ok in E. unfold dw_write_export_table in E.
      destruct (export_add (dw_export dwr) rnum rref) as [[l|]|e|] eqn:X; try discriminate.
      + destruct (write_table compress size0 (concat (map le64 l))) as [[b2 s2]|e|] eqn:W; try discriminate.
        injection E as <- <- <-. intro H. injection H as <- <- <- <-. right. exists l. cbn [dw_export].
        split; [reflexivity|]. split; [exact W|]. split; [reflexivity|reflexivity].
      + injection E as <- <- <-. intro H. injection H as <- <- <- <-. left.
        split; [|split; [reflexivity|split; [reflexivity|split; [reflexivity|right; reflexivity]]]].
        unfold export_add in X. destruct (dw_export dwr) as [l|]; [|reflexivity].
        destruct (rnum <? 1); discriminate.
    - intro H. injection H as <- <- <- <-. left. repeat split. left. reflexivity.
  Qed.

  Lemma xattr_write_cases no_xattr x size0 start0 flags bytes start flags' :
    xattr_write no_xattr x size0 start0 flags = (bytes, start, flags') ->
    (bytes = [] /\ (start = start0 \/ start = NO_TABLE)) \/
    (exists off, no_xattr = false /\ x = Some (bytes, off) /\ start = size0 + off).
  Proof.
    unfold xattr_write. destruct no_xattr.
    - intro H. injection H as <- <- _. left. split; [reflexivity|left; reflexivity].
    - destruct x as [[xb off]|]; intro H; injection H as <- <- _.
      + right. exists off. repeat split.
      + left. split; [reflexivity|right; reflexivity].
  Qed.
End FP.
