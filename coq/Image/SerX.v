(* Image — serialize_fstree_x (the directory writer created with or without SQFS_DIR_WRITER_CREATE_EXPORT_TABLE) against
   Img.TreeModel.serialize_fstree: recording the export table changes nothing else, so every Img theorem applies to
   the tables of an exportable image. *)
From Coq Require Import List NArith ZArith Lia Bool ZifyBool ZifyNat ZifyN.
From SqfsV Require Import Base.Bytes Gen.Constants C03.Common C03.ListN C03.MetaModel C03.DirModel.
From SqfsV Require Import C01.GenC01 C01.Res C01.InodeModel Img.TreeModel.
From SqfsV Require Import Image.FinishModel.
Import ListNotations.
Local Open Scope N_scope.

(* forget the export table *)
Definition strip (w : dw) : dw := mkDw (dw_list w) (dw_idx w) (dw_ref w) (dw_size w) (dw_count w) (dw_dm w) None.
Definition strip_st (st : sstate) : sstate :=
  mkS (s_im st) (strip (s_dw st)) (s_ids st) (s_refs st) (s_nodes st) (s_inodes st).

Definition rmap {A B} (f : A -> B) (r : res A) : res B :=
  match r with Ok a => Ok (f a) | Err e => Err e | Crash => Crash | OutOfFuel => OutOfFuel end.

Lemma rmap_bind {A B C} (f : B -> C) (r : res A) (k : A -> res B) :
  rmap f (bind r k) = bind r (fun a => rmap f (k a)).
Proof. destruct r; reflexivity. Qed.

Lemma strip_begin w : strip (dw_begin w) = dw_begin (strip w).
Proof. reflexivity. Qed.

Section SX.
  Variable compress : list N -> cres.
  Variable limit : N.

  Lemma strip_add_entry w name inum iref mode :
    rmap strip (dir_add_entry w name inum iref mode) = dir_add_entry (strip w) name inum iref mode.
  Proof.
    unfold dir_add_entry. destruct (get_type mode) as [ty|] eqn:G; [|reflexivity].
    destruct ((lenN name =? 0) || (inum <? 1)) eqn:C; [reflexivity|].
    destruct (65536 <? lenN name); [reflexivity|].
    unfold dw_add_entry. rewrite G, C. cbn [strip dw_export export_add].
    apply orb_false_iff in C. destruct C as [_ C].
    destruct (dw_export w) as [l|]; cbn [export_add]; [rewrite C|]; reflexivity.
  Qed.

  Lemma strip_add_children t refs : forall ch w,
    rmap strip (add_children t refs w ch) = add_children t refs (strip w) ch.
  Proof.
    induction ch as [|[name c] r IH]; intro w; [reflexivity|].
    cbn [add_children]. destruct (get t c) as [tgt|]; [|reflexivity].
    rewrite rmap_bind, <- strip_add_entry.
    destruct (dir_add_entry w name c (ref_of refs c) (fn_mode tgt)); cbn [rmap bind]; try reflexivity. apply IH.
  Qed.

  Lemma strip_end w :
    rmap strip (lift (dw_end compress w)) = lift (dw_end compress (strip w)).
  Proof.
    unfold dw_end. cbn [strip dw_list dw_dm dw_size dw_idx dw_ref dw_count dw_export].
    destruct (dw_end_loop compress (S (length (dw_list w))) (dw_dm w) (dw_size w) (dw_idx w) (dw_list w))
      as [[[dm size] idx]|e|]; reflexivity.
  Qed.

  Lemma strip_write_dir t refs w par ch :
    rmap (fun p => (strip (fst p), snd p)) (write_dir_entries compress t refs w par ch)
    = write_dir_entries compress t refs (strip w) par ch.
  Proof.
    unfold write_dir_entries. rewrite <- strip_begin, <- strip_add_children.
    destruct (add_children t refs (dw_begin w) ch) as [w1| | |]; cbn [rmap bind]; try reflexivity.
    rewrite <- strip_end.
    destruct (lift (dw_end compress w1)) as [w2| | |]; cbn [rmap bind]; reflexivity.
  Qed.

  Lemma strip_node t st ino n :
    rmap strip_st (ser_node compress limit t st ino n) = ser_node compress limit t (strip_st st) ino n.
  Proof.
    unfold ser_node. destruct (negb (N.land (fn_mode n) c_S_IFMT =? payload_fmt (fn_payload n))); [reflexivity|].
    cbn [strip_st s_dw s_refs s_ids s_im s_nodes s_inodes].
    destruct (fn_payload n) as [par ch|b|tg|c d|s].
    - rewrite <- strip_write_dir.
      destruct (write_dir_entries compress t (s_refs st) (s_dw st) par ch) as [[w' k]| | |]; cbn [rmap bind fst snd]; try reflexivity.
      destruct (serialize limit (s_ids st) _) as [[ids' i]| | |]; cbn [bind rmap]; try reflexivity.
      destruct (mw_position (s_im st)) as [block offset].
      destruct (encode i); cbn [bind rmap]; try reflexivity.
      destruct (lift (mw_append compress (s_im st) v)); reflexivity.
    - cbn [bind]. destruct (serialize limit (s_ids st) _) as [[ids' i]| | |]; cbn [bind rmap]; try reflexivity.
      destruct (mw_position (s_im st)) as [block offset].
      destruct (encode i); cbn [bind rmap]; try reflexivity.
      destruct (lift (mw_append compress (s_im st) v)); reflexivity.
    - cbn [bind]. destruct (serialize limit (s_ids st) _) as [[ids' i]| | |]; cbn [bind rmap]; try reflexivity.
      destruct (mw_position (s_im st)) as [block offset].
      destruct (encode i); cbn [bind rmap]; try reflexivity.
      destruct (lift (mw_append compress (s_im st) v)); reflexivity.
    - cbn [bind]. destruct (serialize limit (s_ids st) _) as [[ids' i]| | |]; cbn [bind rmap]; try reflexivity.
      destruct (mw_position (s_im st)) as [block offset].
      destruct (encode i); cbn [bind rmap]; try reflexivity.
      destruct (lift (mw_append compress (s_im st) v)); reflexivity.
    - cbn [bind]. destruct (serialize limit (s_ids st) _) as [[ids' i]| | |]; cbn [bind rmap]; try reflexivity.
      destruct (mw_position (s_im st)) as [block offset].
      destruct (encode i); cbn [bind rmap]; try reflexivity.
      destruct (lift (mw_append compress (s_im st) v)); reflexivity.
  Qed.

  Lemma strip_loop t : forall l st ino,
    rmap strip_st (ser_loop compress limit t st ino l) = ser_loop compress limit t (strip_st st) ino l.
  Proof.
    induction l as [|n r IH]; intros st ino; [reflexivity|].
    cbn [ser_loop]. rewrite rmap_bind, <- strip_node.
    destruct (ser_node compress limit t st ino n); cbn [rmap bind]; try reflexivity. apply IH.
  Qed.

  (* the tables, references and id table of serialize_fstree_x are those of Img's serialize_fstree *)
  Theorem serialize_x_img export t img w :
    serialize_fstree_x compress limit export t = Ok (img, w) -> serialize_fstree compress limit t = Ok img.
  Proof.
    unfold serialize_fstree_x, serialize_fstree. intro H.
    assert (I : strip_st (st_init_x export) = st_init) by (destruct export; reflexivity).
    rewrite <- I, <- strip_loop.
    destruct (ser_loop compress limit t (st_init_x export) 1 t) as [st| | |]; try discriminate.
    cbn [bind rmap] in *. cbn [strip_st s_im s_dw strip dw_dm s_refs s_ids s_nodes s_inodes].
    destruct (lift (mw_flush compress (s_im st))) as [im1| | |]; try discriminate. cbn [bind] in *.
    destruct (lift (mw_flush compress (dw_dm (s_dw st)))) as [dm1| | |]; try discriminate. cbn [bind] in *.
    injection H as <- _. reflexivity.
  Qed.
End SX.

(* ---- the id table sqfs_serialize_fstree builds: every entry is the uid or gid of a node; not empty once a node
   has been serialised ---- *)
Section IDS.
  Variable compress : list N -> cres.
  Variable limit : N.
  Variable P : N -> Prop.

  Lemma id_to_index_inv tbl id tbl' i :
    id_to_index limit tbl id = Ok (tbl', i) -> Forall P tbl -> P id -> Forall P tbl' /\ tbl' <> [].
  Proof.
    unfold id_to_index. destruct (find_id id tbl 0) as [j|] eqn:E.
    - intros H F _. injection H as <- <-. split; [exact F|]. intro Z. subst tbl. discriminate.
    - destruct (limit <=? nlen tbl); [discriminate|]. intros H F Hp. injection H as <- <-.
      split; [apply Forall_app; split; [exact F|constructor; [exact Hp|constructor]]|].
      intro Z. apply app_eq_nil in Z. destruct Z; discriminate.
  Qed.

  Lemma ser_node_ids t st ino n st' :
    ser_node compress limit t st ino n = Ok st' -> Forall P (s_ids st) -> P (fn_uid n) -> P (fn_gid n) ->
    Forall P (s_ids st') /\ s_ids st' <> [].
  Proof.
    unfold ser_node. destruct (negb (N.land (fn_mode n) c_S_IFMT =? payload_fmt (fn_payload n))); [discriminate|].
    intros H F Hu Hg.
    match type of H with bind ?r _ = _ => destruct r as [[w' kind]| | |]; try discriminate end.
    cbn [bind] in H.
    match type of H with context [serialize limit (s_ids st) ?tn] =>
      destruct (serialize limit (s_ids st) tn) as [[ids' i]| | |] eqn:S; try discriminate end.
    cbn [bind] in H.
    destruct (mw_position (s_im st)) as [block offset].
    destruct (encode i); try discriminate. cbn [bind] in H.
    match type of H with bind ?r _ = _ => destruct r; try discriminate end.
    cbn [bind] in H. injection H as <-. cbn [s_ids].
    unfold serialize in S. cbn [tn_uid tn_gid] in S.
    destruct (id_to_index limit (s_ids st) (fn_uid n)) as [[t1 ui]| | |] eqn:E1; try discriminate. cbn [bind] in S.
    destruct (id_to_index limit t1 (fn_gid n)) as [[t2 gi]| | |] eqn:E2; try discriminate. cbn [bind] in S.
    injection S as <- _.
    destruct (id_to_index_inv _ _ _ _ E1 F Hu) as [F1 _].
    exact (id_to_index_inv _ _ _ _ E2 F1 Hg).
  Qed.

  Lemma ser_loop_ids t : forall l st ino st',
    ser_loop compress limit t st ino l = Ok st' -> Forall P (s_ids st) ->
    Forall (fun n => P (fn_uid n) /\ P (fn_gid n)) l ->
    Forall P (s_ids st') /\ (l <> [] -> s_ids st' <> []).
  Proof.
    induction l as [|n r IH]; intros st ino st' H F Fl.
    - injection H as <-. split; [exact F|]. intro Z. congruence.
    - cbn [ser_loop] in H. destruct (ser_node compress limit t st ino n) as [st1| | |] eqn:E; try discriminate.
      cbn [bind] in H. inversion Fl as [|? ? [Hu Hg] Fr]; subst.
      destruct (ser_node_ids _ _ _ _ _ E F Hu Hg) as [F1 N1].
      destruct (IH _ _ _ H F1 Fr) as [F2 N2]. split; [exact F2|]. intros _.
      destruct r as [|n2 r2]; [injection H as <-; exact N1|apply N2; discriminate].
  Qed.

  Theorem serialize_x_ids export t img w :
    serialize_fstree_x compress limit export t = Ok (img, w) ->
    Forall (fun n => P (fn_uid n) /\ P (fn_gid n)) t ->
    Forall P (si_ids img) /\ (t <> [] -> si_ids img <> []).
  Proof.
    unfold serialize_fstree_x. intros H Ft.
    destruct (ser_loop compress limit t (st_init_x export) 1 t) as [st| | |] eqn:L; try discriminate.
    cbn [bind] in H.
    destruct (lift (mw_flush compress (s_im st))) as [im1| | |]; try discriminate. cbn [bind] in H.
    destruct (lift (mw_flush compress (dw_dm (s_dw st)))) as [dm1| | |]; try discriminate. cbn [bind] in H.
    injection H as <- _. cbn [si_ids].
    apply (ser_loop_ids t t _ 1 st L); [constructor|exact Ft].
  Qed.
End IDS.
