(* Image — C01's inode decoder only looks at the bytes it consumes: what follows them does not matter. *)
From Coq Require Import List NArith ZArith Lia Bool ZifyBool ZifyNat ZifyN.
From SqfsV Require Import Base.Bytes Gen.Constants C01.GenC01 C01.Res C01.InodeModel.
Import ListNotations.
Local Open Scope N_scope.

Lemma take_mono n (l m : list N) e a b : take n l e = Ok (a, b) -> take n (l ++ m) e = Ok (a, b ++ m).
Proof.
  unfold take. destruct (N.of_nat (length l) <? n) eqn:Q; [discriminate|]. apply N.ltb_ge in Q.
  intro H. injection H as <- <-.
  assert (Q2 : N.of_nat (length (l ++ m)) <? n = false) by (apply N.ltb_ge; rewrite app_length; lia).
  rewrite Q2. rewrite firstn_app, skipn_app.
  replace (N.to_nat n - length l)%nat with 0%nat by lia. cbn [firstn skipn]. rewrite app_nil_r. reflexivity.
Qed.

Ltac tk H :=
  match type of H with
  | bind (take ?n ?l ?e) _ = Ok _ =>
    let E := fresh "E" in
    destruct (take n l e) as [[? ?]| | |] eqn:E; try discriminate; cbn [bind] in H;
    rewrite (take_mono _ _ _ _ _ _ E); cbn [bind]
  end.

Lemma dec_index_mono : forall n l m ix r, dec_index n l = Ok (ix, r) -> dec_index n (l ++ m) = Ok (ix, r ++ m).
Proof.
  induction n as [|n IH]; intros l m ix r H.
  - injection H as <- <-. reflexivity.
  - cbn [dec_index] in *. tk H. tk H.
    destruct (dec_index n l3) as [[rest l4]| | |] eqn:D; try discriminate. cbn [bind] in H.
    rewrite (IH _ m _ _ D). cbn [bind]. injection H as <- <-. reflexivity.
Qed.

Lemma decode_body_mono bs ty l m b r :
  decode_body bs ty l = Ok (b, r) -> decode_body bs ty (l ++ m) = Ok (b, r ++ m).
Proof.
  unfold decode_body. intro H.
  repeat match type of H with
  | (if ?c then _ else _) = Ok _ => destruct c
  end;
  try discriminate;
  repeat first [ tk H
               | match type of H with (if ?c then _ else _) = Ok _ => destruct c; try discriminate end ];
  try (injection H as <- <-; reflexivity).
  (* extended directory with index *)
  match type of H with bind (dec_index ?n ?x) _ = _ => destruct (dec_index n x) as [[ix l2]| | |] eqn:D; try discriminate end.
  cbn [bind] in H. rewrite (dec_index_mono _ _ m _ _ D). cbn [bind]. injection H as <- <-. reflexivity.
Qed.

Theorem decode_mono bs l m i r : decode bs l = Ok (i, r) -> decode bs (l ++ m) = Ok (i, r ++ m).
Proof.
  unfold decode. intro H. tk H.
  match type of H with match ?x with Some _ => _ | None => _ end = _ => destruct x; [|discriminate] end.
  match type of H with bind (decode_body ?a ?b ?c) _ = _ => destruct (decode_body a b c) as [[bd l2]| | |] eqn:D; try discriminate end.
  cbn [bind] in H. rewrite (decode_body_mono _ _ _ m _ _ D). cbn [bind]. injection H as <- <-. reflexivity.
Qed.
