(* Image — a lookup table written by sqfs_write_table (C03.TableModel.write_table) reads back through the reader
   specification (ReaderModel.read_table, written from doc/format.adoc "Storing Lookup Tables") from any image that
   contains the written bytes at the offset the writer was told. *)
From Coq Require Import List NArith ZArith Lia Bool ZifyBool ZifyNat ZifyN.
From SqfsV Require Import Base.Bytes Gen.Constants C03.Common C03.ListN C03.MetaModel C03.MetaProofs C03.MetaRT
  C03.TableModel C03.TableProofs.
From SqfsV Require Import Image.ReaderModel Image.ReadLemmas.
Import ListNotations.
Local Open Scope N_scope.

Lemma MB_val : MB = 8192.
Proof. reflexivity. Qed.

Lemma Forall2_of_nth {A B} (P : A -> B -> Prop) da db : forall (a : list A) (b : list B),
  length a = length b -> (forall k, (k < length a)%nat -> P (nth k a da) (nth k b db)) -> Forall2 P a b.
Proof.
  induction a as [|x a IH]; intros b L H; destruct b as [|y b]; try discriminate; constructor.
  - apply (H 0%nat). simpl. lia.
  - apply IH; [simpl in L; lia|]. intros k Hk. apply (H (S k)). simpl. lia.
Qed.

Section TR.
  Variable compress : list N -> cres.
  Variable uncompress : list N -> option (list N).
  Hypothesis compress_ok :
    forall b c, compress b = CData c -> lenN c <= lenN b /\ uncompress c = Some b.

  Notation enc := (enc compress).

  Lemma read_chunks_spec img : forall locs chunks,
    Forall2 (fun l c => exists s b, read_block uncompress img l = Some (c, s, b)) locs chunks ->
    Forall (fun c => 0 < lenN c /\ lenN c <= 8192) chunks ->
    Forall (fun c => lenN c = 8192) (removelast chunks) ->
    read_chunks uncompress img locs (lenN (concat chunks)) = Some (concat chunks).
  Proof.
    induction 1 as [|l c locs chunks (s & b & R) F2 IH]; intros Hsz Hfull; [reflexivity|].
    cbn [read_chunks]. rewrite R. cbn [concat]. rewrite lenN_app.
    inversion Hsz as [|? ? [Hc0 Hc1] Hsz']; subst.
    destruct chunks as [|c' r].
    - cbn [concat]. rewrite lenN_nil, N.add_0_r.
      assert (W : (if lenN c <? META_SIZE then lenN c else META_SIZE) = lenN c).
      { unfold META_SIZE. destruct (lenN c <? 8192) eqn:Q; [reflexivity|]. apply N.ltb_ge in Q. lia. }
      rewrite W, N.eqb_refl, N.sub_diag.
      inversion F2; subst. cbn [read_chunks]. rewrite N.eqb_refl. reflexivity.
    - assert (Hc : lenN c = 8192).
      { change (removelast (c :: c' :: r)) with (c :: removelast (c' :: r)) in Hfull.
        exact (Forall_inv Hfull). }
      assert (Hr : 0 < lenN (concat (c' :: r))).
      { cbn [concat]. rewrite lenN_app. pose proof (Forall_inv Hsz') as [H0 _]. lia. }
      assert (W : (if lenN c + lenN (concat (c' :: r)) <? META_SIZE then lenN c + lenN (concat (c' :: r)) else META_SIZE)
                  = lenN c).
      { unfold META_SIZE. destruct (lenN c + lenN (concat (c' :: r)) <? 8192) eqn:Q; [apply N.ltb_lt in Q; lia|lia]. }
      rewrite W, N.eqb_refl.
      replace (lenN c + lenN (concat (c' :: r)) - lenN c) with (lenN (concat (c' :: r))) by lia.
      rewrite IH; [reflexivity|exact Hsz'|].
      change (removelast (c :: c' :: r)) with (c :: removelast (c' :: r)) in Hfull.
      exact (Forall_inv_tail Hfull).
  Qed.

  Lemma table_locs_bound size0 chunks k :
    Forall (blk_ok) chunks -> (k < length chunks)%nat ->
    loc_of compress size0 [] chunks k + 2 <= size0 + lenN (concat (map enc chunks)).
  Proof.
    intros F Hk. unfold loc_of. cbn [app].
    rewrite <- (firstn_skipn k chunks) at 2. rewrite map_app, concat_app, lenN_app.
    destruct (skipn k chunks) as [|c r] eqn:E.
    { exfalso. assert (L : length (skipn k chunks) = 0%nat) by (rewrite E; reflexivity).
      rewrite skipn_length in L. lia. }
    cbn [map concat]. rewrite lenN_app.
    assert (OK : blk_ok c).
    { rewrite Forall_forall in F. apply F. rewrite <- (firstn_skipn k chunks), E. apply in_or_app. right. left. reflexivity. }
    pose proof (enc_len compress uncompress compress_ok c OK). lia.
  Qed.

  (* the table data reads back from the image *)
  Theorem read_table_written size0 data bytes start pre post count esz :
    write_table compress size0 data = Common.Ok (bytes, start) ->
    lenN pre = size0 -> count * esz = lenN data -> size0 + lenN bytes < 2 ^ 64 ->
    read_table uncompress (pre ++ bytes ++ post) start count esz = Some data /\
    lenN bytes = (start - size0) + 8 * table_blocks count esz /\ size0 <= start /\
    (data <> [] -> first_loc (pre ++ bytes ++ post) start = Some size0 /\ size0 + 2 <= start).
  Proof.
    intros W Lp Hsz Hb.
    destruct (write_table_ok_l compress uncompress compress_ok _ _ _ _ W)
      as (chunks & C1 & C2 & C3 & C4 & C5 & C6 & C7).
    set (B := concat (map enc chunks)) in *.
    set (locs := table_locs compress size0 chunks) in *.
    assert (Ll : length locs = length chunks) by (unfold locs, table_locs; rewrite map_length, seq_length; reflexivity).
    assert (Hn : table_blocks count esz = lenN chunks).
    { unfold table_blocks, META_SIZE. rewrite Hsz, C4, MB_val. f_equal. lia. }
    assert (Lb : lenN bytes = lenN B + 8 * lenN chunks).
    { rewrite C5, lenN_app, lenN_concat_le64. unfold lenN. rewrite Ll. reflexivity. }
    assert (Hok : Forall blk_ok chunks) by exact C2.
    assert (Fl : Forall (fun x => x < 2 ^ 64) locs).
    { apply Forall_forall. intros x Hx. unfold locs, table_locs in Hx. apply in_map_iff in Hx.
      destruct Hx as (k & <- & Hk). apply in_seq in Hk.
      pose proof (table_locs_bound size0 chunks k Hok ltac:(lia)). fold B in H. lia. }
    split; [|split; [|split]].
    - unfold read_table. rewrite Hn.
      replace (N.to_nat (lenN chunks)) with (length locs) by (unfold lenN; lia).
      rewrite C5.
      replace (pre ++ (B ++ concat (map le64 locs)) ++ post)
        with ((pre ++ B) ++ concat (map le64 locs) ++ post) by (rewrite <- !app_assoc; reflexivity).
      replace start with (lenN (pre ++ B)) by (rewrite lenN_app; lia).
      rewrite read_locs_spec by exact Fl.
      rewrite Hsz, <- C1.
      apply read_chunks_spec.
      + apply (Forall2_of_nth _ 0 []); [exact Ll|].
        intros k Hk. rewrite Ll in Hk.
        exists (stored_size compress (nth k chunks [])), (is_comp compress (nth k chunks [])).
        specialize (C7 k Hk). fold locs in C7.
        assert (Hge : size0 <= nth k locs 0).
        { unfold locs, table_locs. rewrite (nth_indep _ 0 (loc_of compress size0 [] chunks 0))
            by (rewrite map_length, seq_length; exact Hk).
          rewrite map_nth, seq_nth by exact Hk. unfold loc_of. lia. }
        replace (nth k locs 0) with (lenN pre + (nth k locs 0 - size0)) by lia.
        rewrite <- app_assoc.
        replace (B ++ concat (map le64 locs) ++ post) with ((B ++ concat (map le64 locs)) ++ post)
          by (rewrite <- app_assoc; reflexivity).
        rewrite <- C5. apply read_block_in. exact C7.
      + eapply Forall_impl; [|exact C2]. intros c [H0 H1]. rewrite MB_val in H1. split; assumption.
      + eapply Forall_impl; [|exact C3]. intros c H1. rewrite MB_val in H1. exact H1.
    - rewrite Lb, Hn. lia.
    - lia.
    - intro Hne.
      destruct chunks as [|c0 cr] eqn:Ec.
      { exfalso. apply Hne. rewrite <- C1. reflexivity. }
      assert (L0 : locs = size0 :: tl locs).
      { unfold locs, table_locs. cbn [length seq map]. f_equal. unfold loc_of. cbn [app firstn map concat].
        rewrite lenN_nil. lia. }
      split.
      + rewrite C5, L0.
        replace (pre ++ (B ++ concat (map le64 (size0 :: tl locs))) ++ post)
          with ((pre ++ B) ++ concat (map le64 (size0 :: tl locs)) ++ post) by (rewrite <- !app_assoc; reflexivity).
        replace start with (lenN (pre ++ B)) by (rewrite lenN_app; lia).
        apply first_loc_spec. lia.
      + pose proof (table_locs_bound size0 (c0 :: cr) 0 Hok ltac:(simpl; lia)) as Q.
        unfold loc_of in Q. unfold B in C6. cbn [app firstn map concat] in Q, C6. rewrite lenN_nil in Q. lia.
  Qed.

  (* where the table writer puts things, without reference to an image *)
  Lemma write_table_span size0 data bytes start :
    write_table compress size0 data = Common.Ok (bytes, start) ->
    size0 <= start /\ lenN bytes = (start - size0) + 8 * ((lenN data + 8191) / 8192) /\
    (data <> [] -> size0 + 2 <= start).
  Proof.
    intro W.
    destruct (write_table_ok_l compress uncompress compress_ok _ _ _ _ W)
      as (chunks & C1 & C2 & C3 & C4 & C5 & C6 & C7).
    assert (Ll : length (table_locs compress size0 chunks) = length chunks)
      by (unfold table_locs; rewrite map_length, seq_length; reflexivity).
    split; [lia|]. split.
    - rewrite C5, lenN_app, lenN_concat_le64. unfold lenN at 2. rewrite Ll. fold (lenN chunks).
      rewrite C4, MB_val. replace (lenN data + 8192 - 1) with (lenN data + 8191) by lia. lia.
    - intro Hne. destruct chunks as [|c0 cr]; [exfalso; apply Hne; rewrite <- C1; reflexivity|].
      pose proof (table_locs_bound size0 (c0 :: cr) 0 C2 ltac:(simpl; lia)) as Q.
      unfold loc_of in Q. cbn [app firstn map concat] in Q, C6. rewrite lenN_nil in Q. lia.
  Qed.

  Lemma write_table_span' size0 data bytes start count esz :
    write_table compress size0 data = Common.Ok (bytes, start) -> count * esz = lenN data -> data <> [] ->
    size0 + 2 <= start /\ size0 + lenN bytes = start + 8 * table_blocks count esz.
  Proof.
    intros W Hc Hne. destruct (write_table_span _ _ _ _ W) as (S1 & S2 & S3).
    split; [exact (S3 Hne)|]. unfold table_blocks, META_SIZE. rewrite Hc, S2.
    replace (8192 - 1) with 8191 by reflexivity. lia.
  Qed.
End TR.
