(* Image — the theorems about a written image: layout, super block round trip, lookup table round trip, tree round
   trip (composition with Img.TreeRT).  Domain: [image_domain] (decidable, on the inputs) and [image_fits]
   (decidable, on the run: Img's trace_fits and bytes_used < 2^64). *)
From Coq Require Import List NArith ZArith Lia Bool ZifyBool ZifyNat ZifyN.
From SqfsV Require Import Base.Bytes Gen.Constants C03.Common C03.ListN C03.MetaModel C03.MetaProofs C03.MetaRT
  C03.DirModel C03.TableModel C03.TableProofs.
From SqfsV Require C14.SuperModel C14.SuperProofs C14.TraceModel C14.TraceProofs.
From SqfsV Require Import C01.GenC01 C01.Res C01.InodeModel C01.InodeProofs C01.IdProofs.
From SqfsV Require Import Img.TreeModel Img.InodeLemmas Img.SerDefs Img.SerProofs Img.Final Img.Domain Img.TreeRT Img.DirWF.
From SqfsV Require Import Image.FinishModel Image.ReaderModel Image.ValidModel Image.ReadLemmas Image.TableRead Image.SerX
  Image.FinishProofs Image.ExportInv Image.ValidLemmas Image.DecodeMono Image.ScanLemmas.
Import ListNotations.
Local Open Scope N_scope.

(* ---- domain ---- *)

(* cmp->write_options writes nothing or one uncompressed metadata block (compressor.c sqfs_generic_write_options) *)
Definition opts_okb (comp : N) (o : list N) : bool :=
  match o with
  | [] => negb (comp =? c_SQFS_COMP_LZ4)                                      (* lz4.c always writes options *)
  | _ => (2 <=? lenN o) && (lenN o <? 32768) && (rd16 o =? lenN o - 2 + 32768) &&
         negb (comp =? c_SQFS_COMP_LZMA)                                      (* lzma.c never does *)
  end.

(* what the theorems need of the abstract xattr section: the header lies inside it (16 bytes at the offset) *)
Definition xattr_okb (x : option (list N * N)) : bool :=
  match x with
  | None => true
  | Some (xb, off) => off + 16 <=? lenN xb
  end.

Definition frag_okb (f : N * N) : bool := (fst f <? 18446744073709551616) && (snd f <? 4294967296).

Definition image_domain (cfg : wcfg) (inp : winput) : bool :=
  representable (c_block_size cfg) (in_tree inp) &&
  (c_SQFS_COMP_MIN <=? c_comp_id cfg) && (c_comp_id cfg <=? c_SQFS_COMP_MAX) &&
  forallb frag_okb (in_frags inp) && (nlen (in_frags inp) <? 4294967296) &&
  opts_okb (c_comp_id cfg) (in_opts inp) && xattr_okb (in_xattr inp).

Definition image_fits (w : wimage) : bool :=
  trace_fits (w_img w) && (s_bytes_used (w_super w) <? 18446744073709551616).

(* ---- the flag word ---- *)
Definition final_flags (has_opts no_frags any_comp exported : bool) (x : option bool) : N :=
  let f0 := if has_opts then flag_set SuperModel.init_flags c_SQFS_FLAG_COMPRESSOR_OPTIONS else SuperModel.init_flags in
  let f1 := if no_frags
            then flag_clr (flag_clr (flag_set f0 c_SQFS_FLAG_NO_FRAGMENTS) c_SQFS_FLAG_ALWAYS_FRAGMENTS)
                          c_SQFS_FLAG_UNCOMPRESSED_FRAGMENTS
            else let g := flag_set (flag_set (flag_clr f0 c_SQFS_FLAG_NO_FRAGMENTS) c_SQFS_FLAG_ALWAYS_FRAGMENTS)
                                   c_SQFS_FLAG_UNCOMPRESSED_FRAGMENTS in
                 if any_comp then flag_clr g c_SQFS_FLAG_UNCOMPRESSED_FRAGMENTS else g in
  let f2 := if exported then flag_set f1 c_SQFS_FLAG_EXPORTABLE else f1 in
  match x with
  | None => f2
  | Some false => flag_set f2 c_SQFS_FLAG_NO_XATTRS
  | Some true => flag_clr f2 c_SQFS_FLAG_NO_XATTRS
  end.

Definition is_nil {A} (l : list A) : bool := match l with [] => true | _ => false end.
Definition is_some {A} (o : option A) : bool := match o with Some _ => true | None => false end.

Definition flags_of (cfg : wcfg) (inp : winput) (w : wimage) : N :=
  final_flags (negb (is_nil (in_opts inp))) (is_nil (in_frags inp)) (existsb frag_compressed (in_frags inp))
              (is_some (w_export w))
              (if c_no_xattr cfg then None else Some (is_some (in_xattr inp))).

Lemma final_flags_lt a b c d x : final_flags a b c d x < 65536.
Proof. destruct a, b, c, d, x as [[|]|]; vm_compute; reflexivity. Qed.

(* the informative bits *)
Lemma final_flags_bits a b c d x :
  let f := final_flags a b c d x in
  (negb (N.land f c_SQFS_FLAG_COMPRESSOR_OPTIONS =? 0) = a) /\
  (negb (N.land f c_SQFS_FLAG_NO_FRAGMENTS =? 0) = b) /\
  (negb (N.land f c_SQFS_FLAG_ALWAYS_FRAGMENTS =? 0) = negb b) /\
  (negb (N.land f c_SQFS_FLAG_UNCOMPRESSED_FRAGMENTS =? 0) = negb b && negb c) /\
  (negb (N.land f c_SQFS_FLAG_EXPORTABLE =? 0) = d) /\
  (negb (N.land f c_SQFS_FLAG_NO_XATTRS =? 0) = match x with Some true => false | _ => true end) /\
  (negb (N.land f c_SQFS_FLAG_NO_DUPLICATES =? 0) = true).
Proof. destruct a, b, c, d, x as [[|]|]; vm_compute; repeat split; reflexivity. Qed.

Section IP.
  Variable compress : list N -> cres.
  Variable uncompress : list N -> option (list N).
  Hypothesis compress_ok :
    forall b c, compress b = CData c -> lenN c <= lenN b /\ uncompress c = Some b.
  Variable limit : N.
  Hypothesis limit_ok : limit <= 65535.
  Variable cfg : wcfg.
  Variable inp : winput.
  Variable w : wimage.
  Hypothesis Hw : write_image compress limit cfg inp = Ok w.
  Hypothesis Hdom : image_domain cfg inp = true.
  Hypothesis Hfit : image_fits w = true.

  Let sf := w_super w.
  Let s0 := w_super0 w.
  Let img := w_img w.
  Let t := in_tree inp.
  Let bs := c_block_size cfg.

  Lemma dom_facts :
    representable bs t = true /\ c_SQFS_COMP_MIN <= c_comp_id cfg <= c_SQFS_COMP_MAX /\
    Forall (fun f => fst f < 2 ^ 64 /\ snd f < 2 ^ 32) (in_frags inp) /\ nlen (in_frags inp) < 2 ^ 32 /\
    opts_okb (c_comp_id cfg) (in_opts inp) = true /\ xattr_okb (in_xattr inp) = true.
  Proof.
    unfold image_domain in Hdom. rewrite !andb_true_iff in Hdom.
    destruct Hdom as [[[[[[A B1] B2] C] D] E] F].
    apply N.leb_le in B1. apply N.leb_le in B2. apply N.ltb_lt in D.
    split; [exact A|]. split; [split; assumption|]. split.
    - apply Forall_forall. intros f Hf. rewrite forallb_forall in C. specialize (C f Hf).
      unfold frag_okb in C. rewrite andb_true_iff, !N.ltb_lt in C.
      change (2 ^ 64) with 18446744073709551616. change (2 ^ 32) with 4294967296. exact C.
    - split; [change (2 ^ 32) with 4294967296; exact D|]. split; assumption.
  Qed.

  Lemma fit_facts : trace_fits img = true /\ s_bytes_used sf < 2 ^ 64.
  Proof.
    unfold image_fits in Hfit. rewrite andb_true_iff in Hfit. destruct Hfit as [A B].
    split; [exact A|]. change (2 ^ 64) with 18446744073709551616. apply N.ltb_lt. exact B.
  Qed.

  Lemma shape : Shape compress limit cfg inp w.
  Proof. exact (write_image_shape compress limit cfg inp w Hw). Qed.

  Lemma ser_ok : serialize_fstree compress limit t = Ok img.
  Proof.
    destruct shape as (dwr & f1 & f2 & _ & S & _). exact (serialize_x_img compress limit _ _ _ _ S).
  Qed.

  Lemma s0_facts :
    s0 = SuperModel.mkSuper c_SQFS_MAGIC 0 (c_mtime cfg mod 2 ^ 32) bs 0 (c_comp_id cfg mod 2 ^ 16) (N.log2 bs)
           SuperModel.init_flags 0 c_SQFS_VERSION_MAJOR c_SQFS_VERSION_MINOR 0 sizeof_sqfs_super_t
           NO_TABLE NO_TABLE NO_TABLE NO_TABLE NO_TABLE NO_TABLE /\
    bs = 2 ^ N.log2 bs /\ c_SQFS_MIN_BLOCK_SIZE <= bs <= c_SQFS_MAX_BLOCK_SIZE.
  Proof. destruct shape as (dwr & f1 & f2 & I & _). exact (SuperProofs.super_init_ok _ _ _ _ I). Qed.

  (* the id table *)
  Lemma ids_facts :
    Forall (fun x => x < 4294967296) (si_ids img) /\ si_ids img <> [] /\ nlen (si_ids img) <= limit.
  Proof.
    destruct dom_facts as (R & _).
    destruct shape as (dwr & f1 & f2 & _ & S & _).
    destruct (repr_facts bs t R) as (_ & T1 & _ & _ & F).
    assert (Ft : Forall (fun n => fn_uid n < 4294967296 /\ fn_gid n < 4294967296) t).
    { apply Forall_forall. intros n Hn. destruct (In_nth_error _ _ Hn) as [j Hj].
      destruct (fnode_okb_facts _ _ _ _ (F j n Hj)). split; assumption. }
    destruct (serialize_x_ids compress limit (fun x => x < 4294967296) _ _ _ _ S Ft) as [A B].
    split; [exact A|]. split.
    - apply B. intro Z. fold t in Z. rewrite Z in T1. unfold nlen in T1. simpl in T1. lia.
    - destruct (serialize_final compress uncompress compress_ok limit t img (repr_children_before bs t R) ser_ok)
        as (a & im & dm & FIN).
      unfold Final in FIN. tauto.
  Qed.

  Lemma flags_eq : s_flags sf = flags_of cfg inp w.
  Proof.
    destruct shape as (dwr & f1 & f2 & _ & _ & Fr & Ex & _ & Xa & _).
    destruct s0_facts as (E0 & _). fold s0 in Fr, Ex, Xa. fold sf in Fr, Ex, Xa |- *.
    unfold flags_of, final_flags.
    assert (F0 : flags0_of s0 (in_opts inp)
                 = if negb (is_nil (in_opts inp)) then flag_set SuperModel.init_flags c_SQFS_FLAG_COMPRESSOR_OPTIONS
                   else SuperModel.init_flags).
    { unfold flags0_of. rewrite E0. cbn [SuperModel.s_flags]. destruct (in_opts inp); reflexivity. }
    rewrite F0 in Fr.
    destruct (frag_write_cases compress _ _ _ _ _ _ _ _ Fr) as [(Z & _ & _ & _ & Ef)|(Z & _ & _ & Ef)].
    - rewrite Z. cbn [is_nil existsb].
      destruct (export_write_cases compress _ _ _ _ _ _ _ _ _ _ _ Ex) as [(X1 & _ & _ & Ee & _)|(l & X1 & _ & _ & Ee)];
        rewrite X1; cbn [is_some]; unfold xattr_write in Xa;
        destruct (c_no_xattr cfg); [|destruct (in_xattr inp) as [[xb off]|]| |destruct (in_xattr inp) as [[xb off]|]];
        injection Xa as _ _ <-; cbn [is_some]; rewrite Ee, Ef; reflexivity.
    - assert (Zn : is_nil (in_frags inp) = false) by (destruct (in_frags inp); [congruence|reflexivity]).
      rewrite Zn. cbv zeta in Ef.
      destruct (export_write_cases compress _ _ _ _ _ _ _ _ _ _ _ Ex) as [(X1 & _ & _ & Ee & _)|(l & X1 & _ & _ & Ee)];
        rewrite X1; cbn [is_some]; unfold xattr_write in Xa;
        destruct (c_no_xattr cfg); [|destruct (in_xattr inp) as [[xb off]|]| |destruct (in_xattr inp) as [[xb off]|]];
        injection Xa as _ _ <-; cbn [is_some]; rewrite Ee, Ef; reflexivity.
  Qed.

  (* ---- where the sections are ---- *)
  Let opts := in_opts inp.
  Let data := in_data inp.
  Let itbl := si_itbl img.
  Let dtbl := si_dtbl img.

  Lemma bytes_eq :
    image_bytes w = SuperModel.encode sf ++ opts ++ data ++ itbl ++ dtbl ++ w_fragb w ++ w_exportb w ++ w_idb w ++
                    w_xattrb w ++ zeros (w_pad w).
  Proof.
    destruct shape as (dwr & f1 & f2 & _ & _ & _ & _ & _ & _ & _ & _ & _ & _ & _ & B & _).
    unfold image_bytes. fold sf. rewrite B. fold img opts data itbl dtbl. rewrite <- !app_assoc. reflexivity.
  Qed.

  Lemma enc_len : lenN (SuperModel.encode sf) = SBN.
  Proof.
    unfold lenN. rewrite SuperProofs.encode_length. unfold SuperModel.SB, SBN. apply N2Nat.id.
  Qed.

  Record Layout : Prop := mkLayout {
    ly_inode : s_inode_start sf = SBN + lenN opts + lenN data;
    ly_dir : s_dir_start sf = s_inode_start sf + lenN itbl;
    ly_frag : (in_frags inp = [] /\ w_fragb w = [] /\ s_frag_start sf = NO_TABLE /\ s_frag_count sf = 0) \/
              (in_frags inp <> [] /\
               write_table compress (o_frag w) (frag_table_bytes (in_frags inp)) = Common.Ok (w_fragb w, s_frag_start sf) /\
               s_frag_count sf = nlen (in_frags inp));
    ly_export : (w_export w = None /\ w_exportb w = [] /\ s_export_start sf = NO_TABLE) \/
                (exists l dwr, w_export w = Some l /\
                   write_table compress (o_export w) (concat (map le64 l)) = Common.Ok (w_exportb w, s_export_start sf) /\
                   serialize_fstree_x compress limit (c_exportable cfg) t = Ok (img, dwr) /\
                   export_add (dw_export dwr) (nlen t) (si_root img) = Common.Ok (Some l));
    ly_id : write_table compress (o_id w) (id_table_bytes (si_ids img)) = Common.Ok (w_idb w, s_id_start sf);
    ly_xattr : (w_xattrb w = [] /\ s_xattr_start sf = NO_TABLE) \/
               (exists off, c_no_xattr cfg = false /\ in_xattr inp = Some (w_xattrb w, off) /\
                            s_xattr_start sf = o_xattr w + off /\ off + 16 <= lenN (w_xattrb w));
    ly_used : s_bytes_used sf = o_xattr w + lenN (w_xattrb w);
    ly_pad : c_devblk cfg <> 0 /\ w_pad w = pad_len (s_bytes_used sf) (c_devblk cfg)
  }.

  Lemma layout : Layout.
  Proof.
    destruct shape as (dwr & f1 & f2 & I & S & Fr & Ex & Id & Xa & Dv & Pd & Bu & Is & Ds & _).
    destruct s0_facts as (E0 & _). destruct dom_facts as (_ & _ & _ & Fn & _ & Xo).
    fold s0 in Fr, Ex, Xa. fold sf in Fr, Ex, Id, Xa, Pd, Bu, Is, Ds. fold img in S, Ex, Id, Ds. fold t in S, Ex.
    constructor.
    - exact Is.
    - exact Ds.
    - destruct (frag_write_cases compress _ _ _ _ _ _ _ _ Fr) as [(Z & A & B & C & _)|(Z & A & C & _)].
      + left. rewrite E0 in C. cbn [SuperModel.s_frag_count] in C. auto.
      + right. split; [exact Z|]. split; [exact A|]. rewrite C. apply N.mod_small.
        change 4294967296 with (2 ^ 32). exact Fn.
    - destruct (export_write_cases compress _ _ _ _ _ _ _ _ _ _ _ Ex) as [(A & B & C & _ & _)|(l & A & B & C & _)].
      + left. rewrite E0 in C. cbn [SuperModel.s_export_start] in C. auto.
      + right. exists l, dwr. auto.
    - apply lift_ok in Id. exact Id.
    - destruct (xattr_write_cases _ _ _ _ _ _ _ _ Xa) as [(A & B)|(off & A & B & C)].
      + left. split; [exact A|]. rewrite E0 in B. cbn [SuperModel.s_xattr_start] in B. tauto.
      + right. exists off. split; [exact A|]. split; [exact B|]. split; [exact C|].
        rewrite B in Xo. cbn [xattr_okb] in Xo. apply N.leb_le. exact Xo.
    - exact Bu.
    - split; assumption.
  Qed.

  (* sizes of the lookup table sections *)
  Lemma frag_span :
    o_frag w <= o_export w /\
    (in_frags inp <> [] -> o_frag w + 2 <= s_frag_start sf /\
       o_export w = s_frag_start sf + 8 * table_blocks (s_frag_count sf) 16).
  Proof.
    destruct layout as [_ _ [(Z & A & _)|(Z & A & C)] _ _ _ _ _].
    - unfold o_export. rewrite A, lenN_nil. split; [lia|]. intro; contradiction.
    - destruct (write_table_span compress uncompress compress_ok _ _ _ _ A) as (S1 & S2 & S3).
      unfold o_export. split; [lia|]. intros _.
      assert (Hne : frag_table_bytes (in_frags inp) <> []).
      { destruct (in_frags inp) as [|f r]; [congruence|]. unfold frag_table_bytes, frag_entry. cbn [flat_map].
        unfold le64. cbn [le]. discriminate. }
      split; [exact (S3 Hne)|].
      rewrite S2. unfold table_blocks, META_SIZE. rewrite C.
      assert (L : lenN (frag_table_bytes (in_frags inp)) = nlen (in_frags inp) * 16).
      { clear. induction (in_frags inp) as [|f r IH]; [reflexivity|].
        unfold frag_table_bytes in *. cbn [flat_map]. rewrite lenN_app, IH. unfold frag_entry.
        rewrite !lenN_app. unfold le64, le32. rewrite !lenN_le. unfold nlen. cbn [length]. lia. }
      rewrite L. replace (8192 - 1) with 8191 by reflexivity. lia.
  Qed.

  Lemma le64_list_len l : lenN (concat (map le64 l)) = lenN l * 8.
  Proof. rewrite lenN_concat_le64. lia. Qed.

  Lemma export_add_some tb inum iref l : export_add tb inum iref = Common.Ok (Some l) -> l <> [].
  Proof.
    unfold export_add. destruct tb as [l0|]; [|discriminate]. destruct (inum <? 1); [discriminate|].
    intro H. injection H as <-. intro Z. apply app_eq_nil in Z. destruct Z; discriminate.
  Qed.

  Lemma export_span :
    o_export w <= o_id w /\
    (forall l, w_export w = Some l -> o_export w + 2 <= s_export_start sf /\
       o_id w = s_export_start sf + 8 * table_blocks (lenN l) 8).
  Proof.
    destruct layout as [_ _ _ [(Z & A & _)|(l & dwr & Z & A & _ & X)] _ _ _ _].
    - unfold o_id. rewrite A, lenN_nil. split; [lia|]. intros l H. congruence.
    - assert (Hne : concat (map le64 l) <> []).
      { pose proof (export_add_some _ _ _ _ X) as Q. destruct l as [|x r]; [congruence|]. cbn [map concat].
        unfold le64. cbn [le]. discriminate. }
      destruct (write_table_span' compress uncompress compress_ok _ _ _ _ (lenN l) 8 A
                  ltac:(rewrite le64_list_len; reflexivity) Hne) as (S1 & S2).
      unfold o_id. split; [lia|]. intros l' H. rewrite Z in H. injection H as <-. split; [exact S1|exact S2].
  Qed.

  Lemma id_bytes_len l : lenN (id_table_bytes l) = nlen l * 4.
  Proof.
    induction l as [|x r IH]; [reflexivity|]. unfold id_table_bytes in *. cbn [flat_map].
    rewrite lenN_app, IH. unfold le32. rewrite lenN_le. unfold nlen. cbn [length]. lia.
  Qed.

  Lemma id_span : o_id w + 2 <= s_id_start sf /\ o_xattr w = s_id_start sf + 8 * table_blocks (nlen (si_ids img)) 4.
  Proof.
    destruct layout as [_ _ _ _ A _ _ _]. destruct ids_facts as (_ & Hne & _).
    assert (Hn : id_table_bytes (si_ids img) <> []).
    { destruct (si_ids img) as [|x r]; [congruence|]. unfold id_table_bytes. cbn [flat_map]. unfold le32. cbn [le].
      discriminate. }
    destruct (write_table_span' compress uncompress compress_ok _ _ _ _ (nlen (si_ids img)) 4 A
                ltac:(rewrite id_bytes_len; reflexivity) Hn) as (S1 & S2).
    unfold o_xattr. split; [exact S1|exact S2].
  Qed.

  (* the chain of section offsets *)
  Lemma order_facts :
    SBN <= s_inode_start sf /\ s_inode_start sf <= s_dir_start sf /\ s_dir_start sf <= o_frag w /\
    o_frag w <= o_export w /\ o_export w <= o_id w /\ o_id w + 2 <= s_id_start sf /\ s_id_start sf < o_xattr w /\
    o_xattr w <= s_bytes_used sf.
  Proof.
    destruct layout as [A B _ _ _ _ U _]. destruct frag_span as [F _]. destruct export_span as [E _].
    destruct id_span as [I1 I2].
    assert (T : 1 <= table_blocks (nlen (si_ids img)) 4).
    { destruct ids_facts as (_ & Hne & _). unfold table_blocks, META_SIZE.
      assert (1 <= nlen (si_ids img)) by (destruct (si_ids img); [congruence|unfold nlen; cbn [length]; lia]).
      replace (8192 - 1) with 8191 by reflexivity.
      assert (8192 <= nlen (si_ids img) * 4 + 8191) by lia.
      pose proof (N.div_le_mono 8192 (nlen (si_ids img) * 4 + 8191) 8192 ltac:(lia) H0) as Q.
      rewrite N.div_same in Q by lia. exact Q. }
    unfold o_frag, sf in *. lia.
  Qed.

  Lemma root_lt : si_root img < 2 ^ 48.
  Proof.
    destruct dom_facts as (R & _). destruct fit_facts as (Ft & _).
    assert (L65536 : limit <= 65536) by lia.
    destruct (serialize_final compress uncompress compress_ok limit t img (repr_children_before bs t R) ser_ok)
      as (a & im & dm & FIN).
    destruct (repr_facts bs t R) as (_ & T1 & _).
    assert (Hj : (length t - 1 < length t)%nat) by (unfold nlen in T1; lia).
    destruct (ReadProofs.node_run_of compress uncompress compress_ok limit L65536 bs t img R Ft a im dm _ FIN Hj)
      as (n & tn & i & b & r & NR).
    assert (Q : r < 281474976710656) by (eapply ReadProofs.ref_small; eassumption).
    destruct NR. unfold Final in FIN.
    assert (RT : si_root img = ref_of (si_refs img) (nlen t)) by tauto.
    rewrite RT. replace (nlen t) with (N.of_nat (length t - 1) + 1) by (unfold nlen in *; lia).
    rewrite (ref_of_index _ _ _ nr_r). change (2 ^ 48) with 281474976710656. exact Q.
  Qed.

  (* ---- the super block ---- *)
  Lemma fixed_fields :
    SuperModel.s_magic sf = c_SQFS_MAGIC /\ SuperModel.s_inode_count sf = nlen t /\
    SuperModel.s_mtime sf = c_mtime cfg mod 2 ^ 32 /\ SuperModel.s_block_size sf = bs /\
    SuperModel.s_comp_id sf = c_comp_id cfg /\ SuperModel.s_block_log sf = N.log2 bs /\
    SuperModel.s_id_count sf = nlen (si_ids img) /\ SuperModel.s_vmaj sf = c_SQFS_VERSION_MAJOR /\
    SuperModel.s_vmin sf = c_SQFS_VERSION_MINOR /\ SuperModel.s_root_ref sf = si_root img.
  Proof.
    destruct shape as (dwr & f1 & f2 & _ & _ & _ & _ & _ & _ & _ & _ & _ & _ & _ & _ &
                       M1 & M2 & M3 & M4 & M5 & M6 & M7 & M8 & M9 & M10 & _).
    destruct s0_facts as (E0 & _). destruct dom_facts as (R & C & _).
    destruct (repr_facts bs t R) as (_ & _ & T2 & _). destruct ids_facts as (_ & _ & IL).
    fold sf s0 img t in M1, M2, M3, M4, M5, M6, M7, M8, M9, M10.
    rewrite E0 in M1, M3, M4, M5, M6, M8, M9. cbn in M1, M3, M4, M5, M6, M8, M9.
    repeat split; try assumption.
    - rewrite M2. apply N.mod_small. exact T2.
    - rewrite M5. apply N.mod_small. unfold c_SQFS_COMP_MAX in C. change (2 ^ 16) with 65536. lia.
    - rewrite M7. unfold id_count_field. apply N.mod_small. lia.
  Qed.

  Lemma log_facts : 12 <= N.log2 bs <= 20.
  Proof.
    destruct s0_facts as (_ & _ & Lo & Hi).
    pose proof (N.log2_le_mono _ _ Lo) as A. pose proof (N.log2_le_mono _ _ Hi) as B.
    change (N.log2 c_SQFS_MIN_BLOCK_SIZE) with 12 in A. change (N.log2 c_SQFS_MAX_BLOCK_SIZE) with 20 in B. lia.
  Qed.

  Lemma frag_count_lt : s_frag_count sf < 2 ^ 32.
  Proof.
    destruct dom_facts as (_ & _ & _ & Fn & _).
    destruct layout as [_ _ [(_ & _ & _ & C)|(_ & _ & C)] _ _ _ _ _]; rewrite C; [reflexivity|exact Fn].
  Qed.

  Lemma starts_lt :
    s_id_start sf < 2 ^ 64 /\ s_xattr_start sf < 2 ^ 64 /\ s_inode_start sf < 2 ^ 64 /\ s_dir_start sf < 2 ^ 64 /\
    s_frag_start sf < 2 ^ 64 /\ s_export_start sf < 2 ^ 64.
  Proof.
    destruct fit_facts as (_ & Bu). pose proof order_facts as O.
    assert (NT : NO_TABLE < 2 ^ 64) by reflexivity.
    destruct layout as [_ _ Fr Ex _ Xa U _].
    split; [lia|]. split.
    { destruct Xa as [(_ & ->)|(off & _ & _ & -> & L)]; [exact NT|lia]. }
    split; [lia|]. split; [lia|]. split.
    - destruct Fr as [(_ & _ & -> & _)|(Z & _ & _)]; [exact NT|].
      destruct frag_span as [_ F]. destruct (F Z) as [_ F2]. lia.
    - destruct Ex as [(_ & _ & ->)|(l & dwr & Z & _)]; [exact NT|].
      destruct export_span as [_ E]. destruct (E l Z) as [_ E2]. lia.
  Qed.

  Lemma super_range : SuperModel.super_in_range sf.
  Proof.
    destruct fixed_fields as (M1 & M2 & M3 & M4 & M5 & M6 & M7 & M8 & M9 & M10).
    destruct dom_facts as (R & C & _). destruct (repr_facts bs t R) as (_ & _ & T2 & _).
    destruct ids_facts as (_ & _ & IL). destruct s0_facts as (_ & _ & _ & Hi).
    destruct starts_lt as (S1 & S2 & S3 & S4 & S5 & S6). destruct fit_facts as (_ & Bu).
    pose proof log_facts as LF. pose proof root_lt as RL. pose proof frag_count_lt as FC.
    unfold SuperModel.super_in_range. rewrite M1, M2, M3, M4, M5, M6, M7, M8, M9, M10, flags_eq.
    pose proof (final_flags_lt (negb (is_nil (in_opts inp))) (is_nil (in_frags inp))
                  (existsb frag_compressed (in_frags inp)) (is_some (w_export w))
                  (if c_no_xattr cfg then None else Some (is_some (in_xattr inp)))) as FL.
    fold (flags_of cfg inp w) in FL.
    assert (N.pos (2 ^ 48) < N.pos (2 ^ 64)) by reflexivity.
    unfold c_SQFS_COMP_MAX, c_SQFS_MAX_BLOCK_SIZE in *.
    repeat split; try assumption; try reflexivity; try (change (2 ^ 16) with 65536; lia);
      try (change (2 ^ 32) with 4294967296; lia); try lia.
  Qed.

  Lemma rdecode_eq f : rdecode f = SuperModel.decode f.
  Proof. reflexivity. Qed.

  Lemma super_sane_ok : super_sane sf = true.
  Proof.
    destruct fixed_fields as (M1 & M2 & M3 & M4 & M5 & M6 & M7 & M8 & M9 & M10).
    destruct dom_facts as (_ & C & _). destruct s0_facts as (_ & P2 & _). pose proof log_facts as LF.
    unfold super_sane. rewrite M1, M4, M5, M6, M8, M9.
    unfold c_SQFS_COMP_MIN, c_SQFS_COMP_MAX in C.
    rewrite !andb_true_iff, !N.leb_le, !N.eqb_eq. repeat split; try reflexivity; try lia.
  Qed.

  (* image_super_roundtrip: the reader specification finds the super block that was committed *)
  Theorem super_roundtrip_l : read_super (image_bytes w) = Some sf.
  Proof.
    unfold read_super. rewrite bytes_eq.
    assert (L : lenN (SuperModel.encode sf ++ opts ++ data ++ itbl ++ dtbl ++ w_fragb w ++ w_exportb w ++ w_idb w ++
                      w_xattrb w ++ zeros (w_pad w)) <? SUPER_SIZE = false).
    { apply N.ltb_ge. rewrite lenN_app, enc_len. unfold SBN, SUPER_SIZE. change sizeof_sqfs_super_t with 96. lia. }
    rewrite L, rdecode_eq, (SuperProofs.super_rt_l _ _ super_range), super_sane_ok. reflexivity.
  Qed.

  (* ---- the image around each section ---- *)
  Definition pre_inode : list N := SuperModel.encode sf ++ opts ++ data.
  Definition pre_dir : list N := pre_inode ++ itbl.
  Definition pre_frag : list N := pre_dir ++ dtbl.
  Definition pre_export : list N := pre_frag ++ w_fragb w.
  Definition pre_id : list N := pre_export ++ w_exportb w.
  Definition tail_x : list N := w_xattrb w ++ zeros (w_pad w).

  Lemma len_pre_inode : lenN pre_inode = s_inode_start sf.
  Proof. destruct layout as [A _ _ _ _ _ _ _]. unfold pre_inode. rewrite !lenN_app, enc_len. lia. Qed.
  Lemma len_pre_dir : lenN pre_dir = s_dir_start sf.
  Proof. destruct layout as [_ B _ _ _ _ _ _]. unfold pre_dir. rewrite lenN_app, len_pre_inode. lia. Qed.
  Lemma len_pre_frag : lenN pre_frag = o_frag w.
  Proof. unfold pre_frag, o_frag. rewrite lenN_app, len_pre_dir. reflexivity. Qed.
  Lemma len_pre_export : lenN pre_export = o_export w.
  Proof. unfold pre_export, o_export. rewrite lenN_app, len_pre_frag. reflexivity. Qed.
  Lemma len_pre_id : lenN pre_id = o_id w.
  Proof. unfold pre_id, o_id. rewrite lenN_app, len_pre_export. reflexivity. Qed.

  Lemma split_inode : image_bytes w = pre_inode ++ itbl ++ (dtbl ++ w_fragb w ++ w_exportb w ++ w_idb w ++ tail_x).
  Proof. rewrite bytes_eq. unfold pre_inode, tail_x. rewrite <- !app_assoc. reflexivity. Qed.
  Lemma split_dir : image_bytes w = pre_dir ++ dtbl ++ (w_fragb w ++ w_exportb w ++ w_idb w ++ tail_x).
  Proof. rewrite split_inode. unfold pre_dir. rewrite <- !app_assoc. reflexivity. Qed.
  Lemma split_frag : image_bytes w = pre_frag ++ w_fragb w ++ (w_exportb w ++ w_idb w ++ tail_x).
  Proof. rewrite split_dir. unfold pre_frag. rewrite <- !app_assoc. reflexivity. Qed.
  Lemma split_export : image_bytes w = pre_export ++ w_exportb w ++ (w_idb w ++ tail_x).
  Proof. rewrite split_frag. unfold pre_export. rewrite <- !app_assoc. reflexivity. Qed.
  Lemma split_id : image_bytes w = pre_id ++ w_idb w ++ tail_x.
  Proof. rewrite split_export. unfold pre_id. rewrite <- !app_assoc. reflexivity. Qed.

  Lemma image_len : lenN (image_bytes w) = s_bytes_used sf + w_pad w.
  Proof.
    destruct layout as [_ _ _ _ _ _ U _].
    rewrite split_id, !lenN_app, len_pre_id. unfold tail_x. rewrite lenN_app. unfold zeros. rewrite lenN_repeat.
    unfold o_xattr in U. lia.
  Qed.

  (* ---- lookup tables ---- *)
  Theorem ids_roundtrip_l : read_ids uncompress (image_bytes w) sf = Some (si_ids img).
  Proof.
    destruct layout as [_ _ _ _ A _ _ _]. destruct fixed_fields as (_ & _ & _ & _ & _ & _ & M7 & _).
    destruct ids_facts as (F & _ & _). destruct fit_facts as (_ & Bu). pose proof order_facts as O.
    unfold read_ids. rewrite M7, split_id.
    destruct (read_table_written compress uncompress compress_ok _ _ _ _ pre_id tail_x (nlen (si_ids img)) 4 A
                len_pre_id ltac:(rewrite id_bytes_len; reflexivity) ltac:(unfold o_xattr in O; lia)) as (R & _).
    rewrite R, (words_of_ids _ F). reflexivity.
  Qed.

  Lemma frags_of_nonempty l n : l <> [] ->
    frags_of l (S n) = (rd64 l, rd32 (dropN 8 l), rd32 (dropN 12 l)) :: frags_of (dropN 16 l) n.
  Proof. destruct l; [congruence|reflexivity]. Qed.

  Lemma frags_of_entry a b rest n : a < 2 ^ 64 -> b < 2 ^ 32 ->
    frags_of (frag_entry (a, b) ++ rest) (S n) = (a, b, 0) :: frags_of rest n.
  Proof.
    intros Ha Hb. unfold frag_entry. cbn [fst snd].
    assert (Hne : (le64 a ++ le32 b ++ le32 0) ++ rest <> []) by (unfold le64; cbn [le app]; discriminate).
    rewrite (frags_of_nonempty _ n Hne).
    assert (E1 : rd64 ((le64 a ++ le32 b ++ le32 0) ++ rest) = a).
    { rewrite <- !app_assoc. unfold rd64, le64. apply rd_le. change (N.of_nat 8) with 8.
      change (256 ^ 8) with (2 ^ 64). exact Ha. }
    assert (E2 : rd32 (dropN 8 ((le64 a ++ le32 b ++ le32 0) ++ rest)) = b).
    { rewrite <- !app_assoc. rewrite dropN_app_exact by (unfold le64; rewrite lenN_le; reflexivity).
      unfold rd32, le32. apply rd_le. change (N.of_nat 4) with 4. change (256 ^ 4) with (2 ^ 32). exact Hb. }
    assert (E3 : rd32 (dropN 12 ((le64 a ++ le32 b ++ le32 0) ++ rest)) = 0).
    { rewrite <- !app_assoc.
      replace (le64 a ++ le32 b ++ le32 0 ++ rest) with ((le64 a ++ le32 b) ++ le32 0 ++ rest)
        by (rewrite <- app_assoc; reflexivity).
      rewrite dropN_app_exact by (rewrite lenN_app; unfold le64, le32; rewrite !lenN_le; reflexivity).
      unfold rd32, le32. apply rd_le. reflexivity. }
    rewrite E1, E2, E3.
    rewrite dropN_app_exact by (rewrite !lenN_app; unfold le64, le32; rewrite !lenN_le; reflexivity).
    reflexivity.
  Qed.

  Lemma frags_of_bytes : forall l,
    Forall (fun f => fst f < 2 ^ 64 /\ snd f < 2 ^ 32) l ->
    frags_of (frag_table_bytes l) (length l) = map (fun f => (fst f, snd f, 0)) l.
  Proof.
    induction l as [|[a b] r IH]; intro F; [reflexivity|].
    inversion F as [|? ? [Ha Hb] Fr]; subst. cbn [fst snd] in Ha, Hb.
    unfold frag_table_bytes in *. cbn [flat_map length map fst snd].
    rewrite (frags_of_entry a b _ _ Ha Hb), (IH Fr). reflexivity.
  Qed.

  Lemma frag_bytes_len l : lenN (frag_table_bytes l) = nlen l * 16.
  Proof.
    induction l as [|f r IH]; [reflexivity|].
    unfold frag_table_bytes in *. cbn [flat_map]. rewrite lenN_app, IH. unfold frag_entry.
    rewrite !lenN_app. unfold le64, le32. rewrite !lenN_le. unfold nlen. cbn [length]. lia.
  Qed.

  Lemma frag_present : in_frags inp <> [] -> present (s_frag_start sf) = true.
  Proof.
    intro Z. destruct frag_span as [_ F]. destruct (F Z) as [_ F2]. pose proof order_facts as O.
    destruct fit_facts as (_ & Bu). unfold present, NONE64. apply negb_true_iff, N.eqb_neq.
    change (2 ^ 64) with 18446744073709551616 in Bu. lia.
  Qed.

  Theorem frags_roundtrip_l :
    read_frags uncompress (image_bytes w) sf = Some (map (fun f => (fst f, snd f, 0)) (in_frags inp)).
  Proof.
    destruct dom_facts as (_ & _ & Ff & _). destruct fit_facts as (_ & Bu). pose proof order_facts as O.
    unfold read_frags.
    destruct layout as [_ _ [(Z & _ & S & _)|(Z & A & C)] _ _ _ _ _].
    - rewrite S, Z. reflexivity.
    - rewrite (frag_present Z), C, split_frag.
      destruct (read_table_written compress uncompress compress_ok _ _ _ _ pre_frag
                  (w_exportb w ++ w_idb w ++ tail_x) (nlen (in_frags inp)) 16 A
                  len_pre_frag ltac:(rewrite frag_bytes_len; reflexivity)
                  ltac:(unfold o_id, o_export in O; lia)) as (R & _).
      rewrite R. unfold nlen. rewrite Nat2N.id, (frags_of_bytes _ Ff). reflexivity.
  Qed.

  Lemma export_present l : w_export w = Some l -> present (s_export_start sf) = true.
  Proof.
    intro Z. destruct export_span as [_ E]. destruct (E l Z) as [_ E2]. pose proof order_facts as O.
    destruct fit_facts as (_ & Bu). unfold present, NONE64. apply negb_true_iff, N.eqb_neq.
    change (2 ^ 64) with 18446744073709551616 in Bu.
    assert (1 <= table_blocks (lenN l) 8).
    { destruct layout as [_ _ _ [(Z' & _)|(l' & dwr & Z' & _ & _ & X)] _ _ _ _]; [congruence|].
      rewrite Z in Z'. injection Z' as <-. pose proof (export_add_some _ _ _ _ X) as Hne.
      assert (1 <= lenN l) by (destruct l; [congruence|rewrite lenN_cons; lia]).
      unfold table_blocks, META_SIZE. replace (8192 - 1) with 8191 by reflexivity.
      assert (Q : 8192 <= lenN l * 8 + 8191) by lia.
      pose proof (N.div_le_mono 8192 (lenN l * 8 + 8191) 8192 ltac:(lia) Q) as Q2.
      rewrite N.div_same in Q2 by lia. exact Q2. }
    lia.
  Qed.

  Lemma no_table_absent : present NO_TABLE = false.
  Proof. reflexivity. Qed.

  (* where the reader finds the end of the directory table *)
  Lemma dir_end_ok : dir_end (image_bytes w) sf = Some (o_frag w).
  Proof.
    destruct fit_facts as (_ & Bu). pose proof order_facts as O. unfold dir_end.
    destruct layout as [_ _ Fr Ex Id _ _ _].
    destruct Fr as [(Z & Fb & S & _)|(Z & A & C)].
    - rewrite S, no_table_absent.
      assert (Oe : o_export w = o_frag w) by (unfold o_export; rewrite Fb, lenN_nil; lia).
      destruct Ex as [(Ze & Eb & Se)|(l & dwr & Ze & A & _ & X)].
      + rewrite Se, no_table_absent.
        assert (Oi : o_id w = o_frag w) by (unfold o_id; rewrite Eb, lenN_nil; lia).
        rewrite split_id.
        destruct (read_table_written compress uncompress compress_ok _ _ _ _ pre_id tail_x (nlen (si_ids img)) 4 Id
                    len_pre_id ltac:(rewrite id_bytes_len; reflexivity) ltac:(unfold o_xattr in O; lia)) as (_ & _ & _ & Q).
        destruct ids_facts as (_ & Hne & _).
        assert (Hn : id_table_bytes (si_ids img) <> []).
        { destruct (si_ids img) as [|x r]; [congruence|]. unfold id_table_bytes. cbn [flat_map]. unfold le32. cbn [le].
          discriminate. }
        destruct (Q Hn) as [Q1 _]. rewrite Q1, Oi. reflexivity.
      + rewrite (export_present l Ze), split_export.
        assert (Hne : concat (map le64 l) <> []).
        { pose proof (export_add_some _ _ _ _ X) as Q. destruct l as [|x r]; [congruence|]. cbn [map concat].
          unfold le64. cbn [le]. discriminate. }
        destruct (read_table_written compress uncompress compress_ok _ _ _ _ pre_export (w_idb w ++ tail_x) (lenN l) 8 A
                    len_pre_export ltac:(rewrite le64_list_len; reflexivity) ltac:(unfold o_id in O; lia))
          as (_ & _ & _ & Q).
        destruct (Q Hne) as [Q1 _]. rewrite Q1, Oe. reflexivity.
    - rewrite (frag_present Z), split_frag.
      assert (Hne : frag_table_bytes (in_frags inp) <> []).
      { destruct (in_frags inp) as [|f r]; [congruence|]. unfold frag_table_bytes, frag_entry. cbn [flat_map].
        unfold le64. cbn [le]. discriminate. }
      destruct (read_table_written compress uncompress compress_ok _ _ _ _ pre_frag
                  (w_exportb w ++ w_idb w ++ tail_x) (nlen (in_frags inp)) 16 A
                  len_pre_frag ltac:(rewrite frag_bytes_len; reflexivity)
                  ltac:(unfold o_id, o_export in O; lia)) as (_ & _ & _ & Q).
      destruct (Q Hne) as [Q1 _]. exact Q1.
  Qed.

  Lemma tables_ok : tables_of (image_bytes w) sf = Some (itbl, dtbl).
  Proof.
    pose proof order_facts as O. destruct fit_facts as (_ & Bu).
    unfold tables_of. rewrite dir_end_ok.
    assert (C : (s_inode_start sf <=? s_dir_start sf) && (s_dir_start sf <=? o_frag w) &&
                (o_frag w <=? lenN (image_bytes w)) = true).
    { rewrite image_len. rewrite !andb_true_iff, !N.leb_le. lia. }
    rewrite C. f_equal. f_equal.
    - rewrite split_inode. apply slice_app; [symmetry; exact len_pre_inode|].
      destruct layout as [_ B _ _ _ _ _ _]. rewrite len_pre_inode. fold itbl in B. lia.
    - rewrite split_dir. apply slice_app; [symmetry; exact len_pre_dir|].
      rewrite len_pre_dir. reflexivity.
  Qed.

  (* image_tree_roundtrip: the tree read from the image bytes through the super block is the tree that was serialized *)
  Theorem tree_roundtrip_image_l :
    exists lt, spec_tree t (length t) (nlen t) = Some lt /\
               read_image_tree uncompress (image_bytes w) = Some lt.
  Proof.
    destruct dom_facts as (R & _). destruct fit_facts as (Ft & _).
    assert (L65536 : limit <= 65536) by lia.
    destruct (tree_roundtrip_l compress uncompress compress_ok limit L65536 bs t img R ser_ok Ft) as (lt & A & B).
    exists lt. split; [exact A|].
    destruct fixed_fields as (_ & M2 & _ & M4 & _ & _ & _ & _ & _ & M10).
    unfold read_image_tree. rewrite super_roundtrip_l, ids_roundtrip_l, tables_ok, M2, M4, M10.
    unfold nlen. rewrite Nat2N.id. exact B.
  Qed.

  (* ---- the export table ---- *)
  Lemma refs_lt c : ref_of (si_refs img) c < 2 ^ 48.
  Proof.
    unfold ref_of. destruct (nth_error (si_refs img) (N.to_nat (c - 1))) as [r|] eqn:E.
    - destruct dom_facts as (R & _). destruct fit_facts as (Ft & _).
      assert (L65536 : limit <= 65536) by lia.
      destruct (serialize_final compress uncompress compress_ok limit t img (repr_children_before bs t R) ser_ok)
        as (a & im & dm & FIN).
      assert (Hj : (N.to_nat (c - 1) < length t)%nat).
      { assert (length (si_refs img) = length t) by (unfold Final in FIN; tauto).
        rewrite <- H. apply nth_error_Some. congruence. }
      destruct (ReadProofs.node_run_of compress uncompress compress_ok limit L65536 bs t img R Ft a im dm _ FIN Hj)
        as (n & tn & i & b & r' & NR).
      assert (Q : r' < 281474976710656) by (eapply ReadProofs.ref_small; eassumption).
      destruct NR. rewrite E in nr_r. injection nr_r as <-.
      rewrite (nth_error_nth _ _ 0 E). exact Q.
    - apply nth_error_None in E. rewrite nth_overflow by exact E. reflexivity.
  Qed.

  Lemma qwords_of_bytes : forall l, Forall (fun x => x < 2 ^ 64) l -> qwords_of (concat (map le64 l)) (length l) = l.
  Proof.
    induction l as [|x r IH]; intro F; [reflexivity|].
    inversion F as [|? ? Hx Fr]; subst. cbn [map concat length].
    assert (Hne : le64 x ++ concat (map le64 r) <> []) by (unfold le64; cbn [le app]; discriminate).
    destruct (le64 x ++ concat (map le64 r)) as [|y yr] eqn:E; [congruence|].
    cbn [qwords_of]. rewrite <- E. f_equal.
    - unfold rd64, le64. apply rd_le. change (N.of_nat 8) with 8. change (256 ^ 8) with (2 ^ 64). exact Hx.
    - rewrite dropN_app_exact by (unfold le64; rewrite lenN_le; reflexivity). apply IH. exact Fr.
  Qed.

  Theorem export_roundtrip_l :
    (c_exportable cfg = false /\ w_export w = None /\ read_export uncompress (image_bytes w) sf = Some None) \/
    (c_exportable cfg = true /\ exists l,
       w_export w = Some l /\ read_export uncompress (image_bytes w) sf = Some (Some l) /\ lenN l = nlen t /\
       (forall k, nth k l U64MAX = ref_of (si_refs img) (N.of_nat k + 1) \/ nth k l U64MAX = U64MAX) /\
       (forall c, c = nlen t \/ In c (kids_upto t (length t)) ->
                  nth (N.to_nat (c - 1)) l U64MAX = ref_of (si_refs img) c)).
  Proof.
    destruct shape as (dwr & f1 & f2 & _ & S & _ & Ex & _).
    destruct dom_facts as (R & _). destruct (repr_facts bs t R) as (_ & T1 & T2 & _).
    destruct fit_facts as (_ & Bu). pose proof order_facts as O.
    fold t img in S, Ex. fold sf s0 in Ex.
    destruct (c_exportable cfg) eqn:CE.
    - right. split; [reflexivity|].
      destruct (export_table_l compress limit t img dwr (repr_children_before bs t R) ltac:(unfold nlen in T1; lia) S)
        as (l & X & L & _ & K1 & K2).
      destruct (export_write_cases compress _ _ _ _ _ _ _ _ _ _ _ Ex) as [(_ & _ & _ & _ & [Q|Q])|(l' & A & B & C & _)];
        [discriminate|congruence|].
      rewrite X in C. injection C as <-.
      exists l. split; [exact A|]. split; [|split; [exact L|split; assumption]].
      destruct fixed_fields as (_ & M2 & _).
      unfold read_export. rewrite (export_present l A), M2, split_export.
      destruct (read_table_written compress uncompress compress_ok _ _ _ _ pre_export (w_idb w ++ tail_x) (nlen t) 8 B
                  len_pre_export ltac:(rewrite le64_list_len, L; reflexivity) ltac:(unfold o_id in O; lia)) as (Rd & _).
      rewrite Rd.
      assert (Fl : Forall (fun x => x < 2 ^ 64) l).
      { apply Forall_forall. intros x Hx. destruct (In_nth _ _ U64MAX Hx) as (k & Hk & <-).
        destruct (K1 k) as [->| ->]; [|reflexivity]. pose proof (refs_lt (N.of_nat k + 1)).
        assert (N.pos (2 ^ 48) < N.pos (2 ^ 64)) by reflexivity. lia. }
      replace (N.to_nat (nlen t)) with (length l) by (clear - L; unfold lenN, nlen in *; lia).
      rewrite (qwords_of_bytes l Fl). reflexivity.
    - left. split; [reflexivity|].
      unfold export_write in Ex. injection Ex as E1 _ E3 _.
      destruct s0_facts as (E0 & _). split; [symmetry; exact E1|].
      unfold read_export. rewrite <- E3, E0. cbn [SuperModel.s_export_start]. rewrite no_table_absent. reflexivity.
  Qed.

  (* ---- the layout clauses of the executable validator ---- *)
  Variable devblk : N.
  Hypothesis Hdev : devblk = c_devblk cfg.

  Lemma tables_enc :
    exists rawsI rawsD,
      Forall (blk_ok) rawsI /\ itbl = concat (map (enc compress) rawsI) /\ rawsI <> [] /\
      Forall (blk_ok) rawsD /\ dtbl = concat (map (enc compress) rawsD).
  Proof.
    destruct dom_facts as (R & _). destruct fit_facts as (Ft & _).
    assert (L65536 : limit <= 65536) by lia.
    destruct (serialize_final compress uncompress compress_ok limit t img (repr_children_before bs t R) ser_ok)
      as (a & im & dm & FIN).
    destruct (repr_facts bs t R) as (_ & T1 & _).
    assert (Hj : (0 < length t)%nat) by (unfold nlen in T1; lia).
    destruct (ReadProofs.node_run_of compress uncompress compress_ok limit L65536 bs t img R Ft a im dm _ FIN Hj)
      as (n & tn & i & b & r & NR).
    destruct NR. pose proof (ReadProofs.encode_nonempty _ _ nr_enc) as Lb.
    destruct FIN as ([(A1 & _ & C1 & _) _] & _ & T1' & [(A2 & _ & C2 & _) _] & _ & T2' & _ & _ & _ & _ & _ & _ & CC & _).
    exists (a_rawsI a), (a_rawsD a). fold img in T1', T2'. unfold itbl, dtbl.
    split; [exact C1|]. split; [rewrite T1'; exact A1|]. split; [|split; [exact C2|rewrite T2'; exact A2]].
    intro Z. rewrite Z in CC. cbn [concat] in CC.
    destruct (a_bl a) as [|b0 br]; [discriminate|]. cbn [nth_error] in nr_b. injection nr_b as ->.
    cbn [concat] in CC. destruct b as [|x bx]; [rewrite lenN_nil in Lb; lia|discriminate].
  Qed.

  Lemma itbl_nonempty : 2 <= lenN itbl.
  Proof.
    destruct tables_enc as (rawsI & rawsD & F & E & Hne & _). rewrite E.
    destruct rawsI as [|r rs]; [congruence|]. cbn [map concat]. rewrite lenN_app.
    pose proof (MetaProofs.enc_len compress uncompress compress_ok r (Forall_inv F)). lia.
  Qed.

  Lemma v_size_ok : v_size devblk (image_bytes w) sf = true.
  Proof.
    destruct layout as [_ _ _ _ _ _ U [D P]]. unfold v_size. rewrite image_len, P, Hdev.
    destruct (pad_len_ok (s_bytes_used sf) (c_devblk cfg) ltac:(lia)) as [A B].
    assert (Z : forallb (N.eqb 0) (dropN (s_bytes_used sf) (image_bytes w)) = true).
    { rewrite split_id. unfold tail_x.
      replace (pre_id ++ w_idb w ++ w_xattrb w ++ zeros (w_pad w)) with ((pre_id ++ w_idb w ++ w_xattrb w) ++ zeros (w_pad w))
        by (rewrite <- !app_assoc; reflexivity).
      rewrite dropN_app_exact by (rewrite !lenN_app, len_pre_id; unfold o_xattr in U; lia).
      unfold zeros. apply forallb_forall. intros x Hx. apply repeat_spec in Hx. subst x. reflexivity. }
    rewrite Z.
    rewrite !andb_true_iff, negb_true_iff, N.eqb_neq, N.leb_le, N.eqb_eq, N.ltb_lt. repeat split; try assumption; lia.
  Qed.

  Lemma present_lt x : x < s_bytes_used sf -> present x = true.
  Proof.
    intro H. destruct fit_facts as (_ & Bu). unfold present, NONE64. apply negb_true_iff, N.eqb_neq.
    change (2 ^ 64) with 18446744073709551616 in Bu. lia.
  Qed.

  Lemma xattr_facts :
    (w_xattrb w = [] /\ s_xattr_start sf = NO_TABLE /\ s_bytes_used sf = o_xattr w) \/
    (o_xattr w <= s_xattr_start sf /\ s_xattr_start sf + 16 <= s_bytes_used sf).
  Proof.
    destruct layout as [_ _ _ _ _ [(A & B)|(off & _ & _ & B & C)] U _].
    - left. rewrite A, lenN_nil in U. split; [exact A|]. split; [exact B|lia].
    - right. lia.
  Qed.

  Lemma v_order_ok : v_order sf = true.
  Proof.
    pose proof order_facts as O. pose proof itbl_nonempty as I2. destruct fit_facts as (_ & Bu).
    destruct layout as [Li Ld Fr Ex _ _ U _]. fold itbl in Ld.
    assert (X : o_xattr w <= s_bytes_used sf) by lia.
    unfold v_order.
    rewrite (present_lt (s_inode_start sf)) by lia. rewrite (present_lt (s_dir_start sf)) by lia.
    rewrite (present_lt (s_id_start sf)) by lia. cbn [andb].
    assert (S0 : SUPER_SIZE - 1 <? s_inode_start sf = true) by (apply N.ltb_lt; unfold SBN in *; change sizeof_sqfs_super_t with 96 in *; unfold SUPER_SIZE; lia).
    assert (S1 : s_inode_start sf <? s_dir_start sf = true) by (apply N.ltb_lt; lia).
    destruct frag_span as [_ FS]. destruct export_span as [_ ES]. destruct id_span as [IS1 IS2].
    assert (XT : ascending ([s_id_start sf] ++ opt_start (s_xattr_start sf) ++ [s_bytes_used sf]) = true).
    { destruct xattr_facts as [(_ & B & _)|(A & B)].
      - rewrite B. unfold opt_start. rewrite no_table_absent. cbn [app ascending]. rewrite andb_true_r. apply N.ltb_lt. lia.
      - unfold opt_start. rewrite (present_lt (s_xattr_start sf)) by lia. cbn [app ascending].
        rewrite andb_true_r, andb_true_iff, !N.ltb_lt. lia. }
    cbn [app] in XT.
    destruct Fr as [(Zf & Fb & Sf & _)|(Zf & _ & _)]; destruct Ex as [(Ze & Eb & Se)|(l & dwr & Ze & _)].
    - rewrite Sf, Se. unfold opt_start at 1 2. rewrite no_table_absent. cbn [app ascending].
      rewrite S0, S1. cbn [andb]. assert (Q : s_dir_start sf <? s_id_start sf = true) by (apply N.ltb_lt; lia).
      rewrite Q. exact XT.
    - destruct (ES l Ze) as [E1 E2]. rewrite Sf. unfold opt_start at 1 2. rewrite no_table_absent, (export_present l Ze).
      cbn [app ascending]. rewrite S0, S1.
      assert (Q1 : s_dir_start sf <? s_export_start sf = true) by (apply N.ltb_lt; lia).
      assert (Q2 : s_export_start sf <? s_id_start sf = true) by (apply N.ltb_lt; lia).
      rewrite Q1, Q2. exact XT.
    - destruct (FS Zf) as [F1 F2]. rewrite Se. unfold opt_start at 1 2. rewrite no_table_absent, (frag_present Zf).
      cbn [app ascending]. rewrite S0, S1.
      assert (Q1 : s_dir_start sf <? s_frag_start sf = true) by (apply N.ltb_lt; lia).
      assert (Q2 : s_frag_start sf <? s_id_start sf = true) by (apply N.ltb_lt; lia).
      rewrite Q1, Q2. exact XT.
    - destruct (FS Zf) as [F1 F2]. destruct (ES l Ze) as [E1 E2].
      unfold opt_start at 1 2. rewrite (frag_present Zf), (export_present l Ze).
      cbn [app ascending]. rewrite S0, S1.
      assert (Q1 : s_dir_start sf <? s_frag_start sf = true) by (apply N.ltb_lt; lia).
      assert (Q2 : s_frag_start sf <? s_export_start sf = true) by (apply N.ltb_lt; lia).
      assert (Q3 : s_export_start sf <? s_id_start sf = true) by (apply N.ltb_lt; lia).
      rewrite Q1, Q2, Q3. exact XT.
  Qed.

  Lemma v_opts_ok : v_opts uncompress (image_bytes w) sf = true.
  Proof.
    destruct dom_facts as (_ & _ & _ & _ & Oo & _). destruct layout as [Li _ _ _ _ _ _ _].
    destruct fixed_fields as (_ & _ & _ & _ & M5 & _).
    unfold v_opts. rewrite flags_eq, M5. unfold flags_of.
    destruct (final_flags_bits (negb (is_nil (in_opts inp))) (is_nil (in_frags inp))
                (existsb frag_compressed (in_frags inp)) (is_some (w_export w))
                (if c_no_xattr cfg then None else Some (is_some (in_xattr inp)))) as (B & _).
    change FLAG_COMP_OPTS with c_SQFS_FLAG_COMPRESSOR_OPTIONS. cbv zeta. rewrite B.
    assert (OF : (in_opts inp = [] /\ (c_comp_id cfg =? 5) = false) \/
                 (is_nil (in_opts inp) = false /\ (c_comp_id cfg =? 2) = false /\
                  2 <= lenN opts /\ lenN opts < 32768 /\ rd16 opts = lenN opts - 2 + 32768)).
    { unfold opts. destruct (in_opts inp) as [|o0 orest]; [left|right].
      - unfold opts_okb in Oo. apply negb_true_iff in Oo. split; [reflexivity|exact Oo].
      - unfold opts_okb in Oo. rewrite !andb_true_iff, N.leb_le, N.ltb_lt, N.eqb_eq, negb_true_iff in Oo.
        cbn [is_nil]. change c_SQFS_COMP_LZMA with 2 in Oo. tauto. }
    destruct OF as [(EO & C5)|(EO & C2 & O1 & O2 & O3)].
    - rewrite EO, C5. cbn [is_nil negb]. destruct (c_comp_id cfg =? 2); reflexivity.
    - rewrite EO, C2. cbn [negb].
      assert (RB : match read_block uncompress (image_bytes w) SUPER_SIZE with
                   | Some (c, size, comp) => negb comp && (SUPER_SIZE + 2 + size <=? s_inode_start sf)
                   | None => false
                   end = true).
      {
        rewrite bytes_eq. unfold read_block.
        replace SUPER_SIZE with (lenN (SuperModel.encode sf)) by (rewrite enc_len; reflexivity).
        rewrite dropN_app_exact by reflexivity.
        set (rest := data ++ itbl ++ dtbl ++ w_fragb w ++ w_exportb w ++ w_idb w ++ w_xattrb w ++ zeros (w_pad w)).
        assert (L2 : lenN (opts ++ rest) <? 2 = false) by (apply N.ltb_ge; rewrite lenN_app; lia).
        rewrite L2. unfold rd16 in O3 |- *. rewrite (rd_app_ge 2 opts rest) by (unfold lenN in O1; lia). rewrite O3.
        assert (M : (lenN opts - 2 + 32768) mod META_FLAG = lenN opts - 2).
        { rewrite FLAG_val. replace (lenN opts - 2 + 32768) with (lenN opts - 2 + 1 * 32768) by lia.
          rewrite N.mod_add by discriminate. apply N.mod_small. lia. }
        rewrite M. rewrite (dropN_app_le 2 opts rest) by lia.
        rewrite takeN_app_le by (rewrite lenN_dropN; lia).
        assert (T : lenN (takeN (lenN opts - 2) (dropN 2 opts)) <? lenN opts - 2 = false).
        { apply N.ltb_ge. rewrite lenN_takeN, lenN_dropN. lia. }
        rewrite T.
        assert (F : META_FLAG <=? lenN opts - 2 + 32768 = true) by (apply N.leb_le; rewrite FLAG_val; lia).
        rewrite F. cbn [negb andb]. apply N.leb_le. rewrite enc_len. fold opts in Li. unfold SBN in *. lia. }
      rewrite RB. destruct (c_comp_id cfg =? 5); reflexivity.
  Qed.

  Lemma v_meta_ok : v_meta uncompress (image_bytes w) sf = true.
  Proof.
    destruct tables_enc as (rawsI & rawsD & FI & EI & _ & FD & ED).
    unfold v_meta. rewrite dir_end_ok. apply andb_true_iff. split.
    - apply (area_ok_written compress uncompress compress_ok (image_bytes w) rawsI pre_inode
               (dtbl ++ w_fragb w ++ w_exportb w ++ w_idb w ++ tail_x)); [exact FI| | |].
      + rewrite split_inode, EI. reflexivity.
      + symmetry. exact len_pre_inode.
      + rewrite len_pre_inode, <- EI. destruct layout as [_ Ld _ _ _ _ _ _]. exact Ld.
    - apply (area_ok_written compress uncompress compress_ok (image_bytes w) rawsD pre_dir
               (w_fragb w ++ w_exportb w ++ w_idb w ++ tail_x)); [exact FD| | |].
      + rewrite split_dir, ED. reflexivity.
      + symmetry. exact len_pre_dir.
      + rewrite len_pre_dir, <- ED. reflexivity.
  Qed.

  Lemma frag_bytes_ne : in_frags inp <> [] -> frag_table_bytes (in_frags inp) <> [].
  Proof.
    intro Z. destruct (in_frags inp) as [|f r]; [congruence|]. unfold frag_table_bytes, frag_entry. cbn [flat_map].
    unfold le64. cbn [le]. discriminate.
  Qed.

  (* what the xattr section must look like for the chain clause (the section is an abstract input of the model) *)
  Definition xattr_section_ok : Prop :=
    w_xattrb w = [] \/ xattr_tail uncompress (image_bytes w) sf (o_xattr w) = true.

  Lemma v_chain_ok : xattr_section_ok -> v_chain uncompress (image_bytes w) sf = true.
  Proof.
    intro HX. destruct fit_facts as (_ & Bu). pose proof order_facts as O.
    destruct layout as [_ _ Fr Ex Id _ U _].
    unfold v_chain. rewrite dir_end_ok.
    (* fragment table *)
    assert (C1 : chain_step uncompress (image_bytes w) (Some (o_frag w)) (s_frag_start sf) (s_frag_count sf) 16
                 = Some (o_export w)).
    { unfold chain_step. destruct Fr as [(Z & Fb & S & _)|(Z & A & C)].
      - rewrite S, no_table_absent. unfold o_export. rewrite Fb, lenN_nil, N.add_0_r. reflexivity.
      - rewrite (frag_present Z), C, split_frag.
        rewrite (table_span_written compress uncompress compress_ok _ _ _ _ pre_frag (w_exportb w ++ w_idb w ++ tail_x)
                   (nlen (in_frags inp)) 16 A len_pre_frag ltac:(rewrite frag_bytes_len; reflexivity) (frag_bytes_ne Z)
                   ltac:(unfold o_id, o_export in O; lia)).
        rewrite N.eqb_refl. reflexivity. }
    rewrite C1.
    assert (C2 : chain_step uncompress (image_bytes w) (Some (o_export w)) (s_export_start sf) (SuperModel.s_inode_count sf) 8
                 = Some (o_id w)).
    { unfold chain_step. destruct export_roundtrip_l as [(_ & Z & _)|(_ & l & Z & _ & L & _)].
      - destruct Ex as [(_ & Eb & S)|(l & dwr & Z' & _)]; [|congruence].
        rewrite S, no_table_absent. unfold o_id. rewrite Eb, lenN_nil, N.add_0_r. reflexivity.
      - destruct Ex as [(Z' & _)|(l' & dwr & Z' & A & _ & X)]; [congruence|].
        rewrite Z in Z'. injection Z' as <-.
        destruct fixed_fields as (_ & M2 & _).
        rewrite (export_present l Z), M2, split_export.
        assert (Hne : concat (map le64 l) <> []).
        { pose proof (export_add_some _ _ _ _ X) as Q. destruct l as [|x r]; [congruence|]. cbn [map concat].
          unfold le64. cbn [le]. discriminate. }
        rewrite (table_span_written compress uncompress compress_ok _ _ _ _ pre_export (w_idb w ++ tail_x)
                   (nlen t) 8 A len_pre_export ltac:(rewrite le64_list_len, L; reflexivity) Hne
                   ltac:(unfold o_id in O; lia)).
        rewrite N.eqb_refl. reflexivity. }
    rewrite C2.
    destruct fixed_fields as (_ & _ & _ & _ & _ & _ & M7 & _). rewrite M7, split_id.
    destruct ids_facts as (_ & Hne & _).
    assert (Hn : id_table_bytes (si_ids img) <> []).
    { destruct (si_ids img) as [|x r]; [congruence|]. unfold id_table_bytes. cbn [flat_map]. unfold le32. cbn [le].
      discriminate. }
    rewrite (table_span_written compress uncompress compress_ok _ _ _ _ pre_id tail_x (nlen (si_ids img)) 4 Id
               len_pre_id ltac:(rewrite id_bytes_len; reflexivity) Hn ltac:(unfold o_xattr in O; lia)).
    rewrite N.eqb_refl. cbn [andb]. rewrite <- split_id. fold (o_xattr w).
    destruct HX as [HX|HX]; [|exact HX].
    unfold xattr_tail.
    destruct layout as [_ _ _ _ _ [(A & B)|(off & _ & _ & _ & C)] _ _].
    - rewrite B, no_table_absent. apply N.eqb_eq. rewrite HX, lenN_nil in U. lia.
    - rewrite HX, lenN_nil in C. lia.
  Qed.

  Lemma v_tables_ok : v_tables uncompress (image_bytes w) sf = true.
  Proof.
    destruct fixed_fields as (_ & _ & _ & _ & _ & _ & M7 & _). destruct ids_facts as (_ & Hne & _).
    unfold v_tables. rewrite ids_roundtrip_l, frags_roundtrip_l, M7.
    assert (I1 : 1 <=? nlen (si_ids img) = true).
    { apply N.leb_le. destruct (si_ids img); [congruence|unfold nlen; cbn [length]; lia]. }
    rewrite I1. cbn [ValidModel.is_some andb].
    assert (E : ValidModel.is_some (read_export uncompress (image_bytes w) sf) = true).
    { destruct export_roundtrip_l as [(_ & _ & ->)|(_ & l & _ & -> & _)]; reflexivity. }
    rewrite E. cbn [andb].
    destruct layout as [_ _ [(Z & _ & S & _)|(Z & _ & C)] _ _ _ _ _].
    - rewrite S, no_table_absent. reflexivity.
    - rewrite (frag_present Z), C. apply N.leb_le. destruct (in_frags inp); [congruence|unfold nlen; cbn [length]; lia].
  Qed.

  (* writer_valid, the part about layout and lookup tables *)
  Theorem valid_layout_l : xattr_section_ok -> valid_layout uncompress devblk (image_bytes w) sf = true.
  Proof.
    intro HX. unfold valid_layout.
    rewrite v_size_ok, v_order_ok, v_opts_ok, v_meta_ok, (v_chain_ok HX), v_tables_ok. reflexivity.
  Qed.

  (* image_layout_ok: the file section by section, and the super block fields against what was written *)
  Record ImageLayout : Prop := mkIL {
    il_bytes : image_bytes w = SuperModel.encode sf ++ opts ++ data ++ itbl ++ dtbl ++ w_fragb w ++ w_exportb w ++
                               w_idb w ++ w_xattrb w ++ zeros (w_pad w);
    il_super : lenN (SuperModel.encode sf) = 96;
    il_inode : s_inode_start sf = 96 + lenN opts + lenN data;
    il_dir : s_dir_start sf = s_inode_start sf + lenN itbl /\ s_inode_start sf < s_dir_start sf;
    il_frag : (in_frags inp = [] /\ w_fragb w = [] /\ s_frag_start sf = NO_TABLE) \/
              (in_frags inp <> [] /\ o_frag w + 2 <= s_frag_start sf /\
               s_frag_start sf + 8 * table_blocks (nlen (in_frags inp)) 16 = o_export w);
    il_export : (c_exportable cfg = false /\ w_exportb w = [] /\ s_export_start sf = NO_TABLE) \/
                (c_exportable cfg = true /\ o_export w + 2 <= s_export_start sf /\
                 s_export_start sf + 8 * table_blocks (nlen t) 8 = o_id w);
    il_id : o_id w + 2 <= s_id_start sf /\ s_id_start sf + 8 * table_blocks (nlen (si_ids img)) 4 = o_xattr w;
    il_xattr : (w_xattrb w = [] /\ s_xattr_start sf = NO_TABLE) \/
               (exists off, in_xattr inp = Some (w_xattrb w, off) /\ s_xattr_start sf = o_xattr w + off);
    il_used : s_bytes_used sf = o_xattr w + lenN (w_xattrb w) /\ s_bytes_used sf = 96 + lenN (w_body w);
    il_pad : lenN (image_bytes w) = s_bytes_used sf + w_pad w /\ w_pad w < devblk /\
             lenN (image_bytes w) mod devblk = 0;
    il_counts : SuperModel.s_inode_count sf = nlen t /\ SuperModel.s_id_count sf = nlen (si_ids img) /\
                s_frag_count sf = nlen (in_frags inp) /\ SuperModel.s_root_ref sf = si_root img /\
                SuperModel.s_block_size sf = bs /\ SuperModel.s_block_log sf = N.log2 bs /\ bs = 2 ^ N.log2 bs /\
                SuperModel.s_magic sf = c_SQFS_MAGIC /\ SuperModel.s_comp_id sf = c_comp_id cfg;
    il_flags : s_flags sf = flags_of cfg inp w
  }.

  Theorem image_layout_l : ImageLayout.
  Proof.
    pose proof order_facts as O. destruct layout as [Li Ld Fr Ex Id Xa U [D P]].
    destruct fixed_fields as (M1 & M2 & M3 & M4 & M5 & M6 & M7 & M8 & M9 & M10).
    destruct s0_facts as (_ & P2 & _). pose proof itbl_nonempty as I2.
    constructor.
    - exact bytes_eq.
    - rewrite enc_len. reflexivity.
    - exact Li.
    - fold itbl in Ld. split; [exact Ld|lia].
    - destruct Fr as [(Z & Fb & S & _)|(Z & A & C)]; [left; auto|right].
      destruct frag_span as [_ F]. destruct (F Z) as [F1 F2]. rewrite C in F2. split; [exact Z|]. split; [exact F1|lia].
    - destruct export_roundtrip_l as [(CE & Z & _)|(CE & l & Z & _ & L & _)].
      + left. destruct Ex as [(_ & Eb & S)|(l & dwr & Z' & _)]; [auto|congruence].
      + right. destruct export_span as [_ E]. destruct (E l Z) as [E1 E2]. rewrite L in E2.
        split; [exact CE|]. split; [exact E1|lia].
    - destruct id_span as [I1 I3]. split; [exact I1|lia].
    - destruct Xa as [(A & B)|(off & _ & A & B & _)]; [left; auto|right; exists off; auto].
    - split; [exact U|].
      destruct shape as (dwr & f1 & f2 & _ & _ & _ & _ & _ & _ & _ & _ & _ & _ & _ & B & _).
      rewrite B, !lenN_app. fold img opts data itbl dtbl. unfold o_xattr, o_id, o_export, o_frag in U.
      fold sf img in U. rewrite Ld, Li in U. fold dtbl in U. unfold SBN in U. change sizeof_sqfs_super_t with 96 in U. lia.
    - split; [exact image_len|]. rewrite image_len, P.
      destruct (pad_len_ok (s_bytes_used sf) (c_devblk cfg) ltac:(lia)) as [A B]. rewrite Hdev. split; assumption.
    - repeat split; try assumption.
      destruct Fr as [(Z & _ & _ & C)|(_ & _ & C)]; [rewrite C, Z; reflexivity|exact C].
    - exact flags_eq.
  Qed.

  (* what is proved of valid_image on a written image: the super block clause and the six layout / lookup table
     clauses hold; the verdict is that of the three inode / directory clauses *)
  Theorem writer_valid_partial_l : xattr_section_ok ->
    read_super (image_bytes w) = Some sf /\
    valid_layout uncompress devblk (image_bytes w) sf = true /\
    valid_image uncompress devblk (image_bytes w) = valid_tree uncompress (image_bytes w) sf.
  Proof.
    intro HX. split; [exact super_roundtrip_l|]. split; [exact (valid_layout_l HX)|].
    unfold valid_image, valid_super. rewrite super_roundtrip_l, (valid_layout_l HX). reflexivity.
  Qed.

  (* ---- the output calls: the trace the model emits produces the image and has the shape C14's crash-safety
     theorems ask for (provisional super block, body behind it, commit, padding) ---- *)
  Lemma pwrite_end (f d : list N) : TraceModel.pwrite (length f) d f = f ++ d.
  Proof.
    unfold TraceModel.pwrite. destruct d as [|x d]; [rewrite app_nil_r; reflexivity|].
    unfold TraceModel.pad_to. rewrite Nat.sub_diag. cbn [TraceModel.zeros repeat]. rewrite app_nil_r, firstn_all.
    rewrite skipn_all2 by lia. rewrite app_nil_r. reflexivity.
  Qed.

  Lemma apply_ev_write f off d : off = lenN f -> TraceModel.apply_from f (ev_write off d) = f ++ d.
  Proof.
    intros ->. unfold ev_write. destruct d as [|x d]; [rewrite app_nil_r; reflexivity|].
    unfold TraceModel.apply_from. cbn [fold_left TraceModel.apply_ev]. unfold lenN. rewrite Nat2N.id. apply pwrite_end.
  Qed.

  Lemma ev_write_body off d : SBN <= off -> forallb TraceModel.body_ok (ev_write off d) = true.
  Proof.
    intro H. unfold ev_write. destruct d; [reflexivity|]. cbn [forallb TraceModel.body_ok TraceModel.keeps].
    rewrite andb_true_r. apply N.leb_le. exact H.
  Qed.

  Definition body_events : list TraceModel.event :=
    ev_write SBN opts ++ ev_write (SBN + lenN opts) data ++ ev_write (s_inode_start sf) itbl ++
    ev_write (s_dir_start sf) dtbl ++ ev_write (o_frag w) (w_fragb w) ++ ev_write (o_export w) (w_exportb w) ++
    ev_write (o_id w) (w_idb w) ++ ev_write (o_xattr w) (w_xattrb w).

  Lemma trace_eq :
    w_trace w = TraceModel.PWrite 0 (SuperModel.encode s0) :: body_events ++
                TraceModel.PWrite 0 (SuperModel.encode sf) :: ev_write (s_bytes_used sf) (zeros (w_pad w)).
  Proof.
    destruct shape as (dwr & f1 & f2 & _ & _ & _ & _ & _ & _ & _ & _ & _ & _ & _ & _ & _ & _ & _ & _ & _ & _ & _ & _ & _ & _ & TR).
    rewrite TR. unfold body_events. fold sf s0 img opts data itbl dtbl. cbn [app]. rewrite <- !app_assoc. reflexivity.
  Qed.

  Lemma enc0_len : lenN (SuperModel.encode s0) = SBN.
  Proof. unfold lenN. rewrite SuperProofs.encode_length. unfold SuperModel.SB, SBN. apply N2Nat.id. Qed.

  Lemma apply_body :
    TraceModel.apply_from (SuperModel.encode s0) body_events
    = SuperModel.encode s0 ++ opts ++ data ++ itbl ++ dtbl ++ w_fragb w ++ w_exportb w ++ w_idb w ++ w_xattrb w.
  Proof.
    destruct layout as [Li Ld _ _ _ _ _ _]. fold itbl in Ld.
    unfold body_events. rewrite !TraceProofs.apply_from_app.
    rewrite (apply_ev_write _ SBN opts) by (rewrite enc0_len; reflexivity).
    rewrite (apply_ev_write _ _ data) by (rewrite lenN_app, enc0_len; reflexivity).
    rewrite (apply_ev_write _ _ itbl) by (rewrite !lenN_app, enc0_len; lia).
    rewrite (apply_ev_write _ _ dtbl) by (rewrite !lenN_app, enc0_len; lia).
    rewrite (apply_ev_write _ _ (w_fragb w)) by (unfold o_frag; fold sf img dtbl; rewrite !lenN_app, enc0_len; lia).
    rewrite (apply_ev_write _ _ (w_exportb w)) by (unfold o_export, o_frag; fold sf img dtbl; rewrite !lenN_app, enc0_len; lia).
    rewrite (apply_ev_write _ _ (w_idb w)) by (unfold o_id, o_export, o_frag; fold sf img dtbl; rewrite !lenN_app, enc0_len; lia).
    rewrite (apply_ev_write _ _ (w_xattrb w))
      by (unfold o_xattr, o_id, o_export, o_frag; fold sf img dtbl; rewrite !lenN_app, enc0_len; lia).
    rewrite <- !app_assoc. reflexivity.
  Qed.

  (* the calls, applied to the empty file, leave exactly image_bytes *)
  Theorem trace_applies_l : TraceModel.apply (w_trace w) = image_bytes w.
  Proof.
    destruct layout as [_ _ _ _ _ _ U _].
    rewrite trace_eq. unfold TraceModel.apply.
    change (TraceModel.apply_from [] (TraceModel.PWrite 0 (SuperModel.encode s0) :: ?x))
      with (TraceModel.apply_from (TraceModel.apply_ev [] (TraceModel.PWrite 0 (SuperModel.encode s0))) x).
    rewrite TraceProofs.first_event, TraceProofs.apply_from_app, apply_body.
    set (body := opts ++ data ++ itbl ++ dtbl ++ w_fragb w ++ w_exportb w ++ w_idb w ++ w_xattrb w).
    change (TraceModel.apply_from (SuperModel.encode s0 ++ body)
              (TraceModel.PWrite 0 (SuperModel.encode sf) :: ?x))
      with (TraceModel.apply_from (TraceModel.apply_ev (SuperModel.encode s0 ++ body)
                                     (TraceModel.PWrite 0 (SuperModel.encode sf))) x).
    assert (C : TraceModel.apply_ev (SuperModel.encode s0 ++ body) (TraceModel.PWrite 0 (SuperModel.encode sf))
                = SuperModel.encode sf ++ body).
    { cbn [TraceModel.apply_ev N.to_nat]. unfold TraceModel.pwrite.
      destruct (SuperModel.encode sf) as [|e0 er] eqn:E.
      { exfalso. pose proof (SuperProofs.encode_length sf) as L. rewrite E in L. unfold SuperModel.SB in L.
        change sizeof_sqfs_super_t with 96 in L. cbn in L. lia. }
      rewrite <- E. cbn [firstn app plus]. rewrite SuperProofs.encode_length.
      rewrite (SuperProofs.skipn_exact (SuperModel.encode s0) body SuperModel.SB (SuperProofs.encode_length s0)).
      reflexivity. }
    rewrite C.
    rewrite (apply_ev_write _ _ (zeros (w_pad w))).
    - rewrite bytes_eq. unfold body. rewrite <- !app_assoc. reflexivity.
    - rewrite lenN_app, enc_len. unfold body. rewrite !lenN_app.
      unfold o_xattr, o_id, o_export, o_frag in U. fold sf img dtbl in U.
      destruct layout as [Li Ld _ _ _ _ _ _]. fold itbl in Ld. lia.
  Qed.

  Lemma refs_in_file_ok : TraceModel.refs_in_file sf = true.
  Proof.
    pose proof order_facts as O. destruct layout as [_ _ Fr Ex _ _ U _].
    assert (X : o_xattr w <= s_bytes_used sf) by lia.
    assert (NT : forall bu, TraceModel.ref_ok bu NO_TABLE = true) by (intro; unfold TraceModel.ref_ok; rewrite N.eqb_refl; reflexivity).
    assert (IN : forall x, SBN <= x -> x < s_bytes_used sf -> TraceModel.ref_ok (s_bytes_used sf) x = true).
    { intros x A B. unfold TraceModel.ref_ok. apply orb_true_iff. right. rewrite andb_true_iff, N.leb_le, N.ltb_lt.
      unfold SBN in A. split; assumption. }
    unfold TraceModel.refs_in_file. fold sf.
    rewrite (IN (s_id_start sf)) by lia. rewrite (IN (s_inode_start sf)) by (pose proof itbl_nonempty; destruct layout as [_ Ld _ _ _ _ _ _]; fold itbl in Ld; lia).
    rewrite (IN (s_dir_start sf)) by lia. cbn [andb].
    assert (Xa : TraceModel.ref_ok (s_bytes_used sf) (s_xattr_start sf) = true).
    { destruct xattr_facts as [(_ & B & _)|(A & B)]; [rewrite B; apply NT|apply IN; lia]. }
    assert (Fa : TraceModel.ref_ok (s_bytes_used sf) (s_frag_start sf) = true).
    { destruct Fr as [(_ & _ & S & _)|(Z & _ & _)]; [rewrite S; apply NT|].
      destruct frag_span as [_ F]. destruct (F Z) as [F1 F2]. apply IN; lia. }
    assert (Ea : TraceModel.ref_ok (s_bytes_used sf) (s_export_start sf) = true).
    { destruct Ex as [(_ & _ & S)|(l & dwr & Z & _)]; [rewrite S; apply NT|].
      destruct export_span as [_ E]. destruct (E l Z) as [E1 E2]. apply IN; lia. }
    rewrite Xa, Fa, Ea. reflexivity.
  Qed.

  (* C14's trace shape: everything C14 proves about crash points applies to this writer *)
  Theorem trace_ok_l : TraceModel.trace_ok (w_trace w).
  Proof.
    pose proof order_facts as O. destruct layout as [Li Ld _ _ _ _ U _]. fold itbl in Ld.
    destruct shape as (dwr & f1 & f2 & I & _).
    exists (c_block_size cfg), (c_mtime cfg), (c_comp_id cfg), s0, body_events, (SuperModel.encode sf),
           (ev_write (s_bytes_used sf) (zeros (w_pad w))).
    assert (D : SuperModel.decode (SuperModel.encode sf) = sf).
    { rewrite <- (app_nil_r (SuperModel.encode sf)). apply SuperProofs.super_rt_l. exact super_range. }
    split; [exact I|]. split; [exact trace_eq|]. split.
    { unfold body_events. rewrite !forallb_app.
      rewrite !ev_write_body; try reflexivity; unfold SBN in *; lia. }
    split; [apply SuperProofs.encode_length|]. rewrite D. split.
    - split; [unfold SBN in *; lia|].
      rewrite <- TraceProofs.apply_length_l.
      assert (A : TraceModel.apply (TraceModel.PWrite 0 (SuperModel.encode s0) :: body_events ++
                                      [TraceModel.PWrite 0 (SuperModel.encode sf)])
                  = SuperModel.encode sf ++ opts ++ data ++ itbl ++ dtbl ++ w_fragb w ++ w_exportb w ++ w_idb w ++ w_xattrb w).
      { unfold TraceModel.apply.
        change (TraceModel.apply_from [] (TraceModel.PWrite 0 (SuperModel.encode s0) :: ?x))
          with (TraceModel.apply_from (TraceModel.apply_ev [] (TraceModel.PWrite 0 (SuperModel.encode s0))) x).
        rewrite TraceProofs.first_event, TraceProofs.apply_from_app, apply_body.
        unfold TraceModel.apply_from. cbn [fold_left TraceModel.apply_ev N.to_nat]. unfold TraceModel.pwrite.
        destruct (SuperModel.encode sf) as [|e0 er] eqn:E.
        { exfalso. pose proof (SuperProofs.encode_length sf) as L. rewrite E in L. unfold SuperModel.SB in L.
          change sizeof_sqfs_super_t with 96 in L. cbn in L. lia. }
        rewrite <- E. cbn [firstn app plus]. rewrite SuperProofs.encode_length.
        rewrite (SuperProofs.skipn_exact (SuperModel.encode s0) _ SuperModel.SB (SuperProofs.encode_length s0)).
        reflexivity. }
      rewrite A. fold (lenN (SuperModel.encode sf ++ opts ++ data ++ itbl ++ dtbl ++ w_fragb w ++ w_exportb w ++ w_idb w ++ w_xattrb w)).
      rewrite !lenN_app, enc_len. unfold o_xattr, o_id, o_export, o_frag in U. fold sf img dtbl in U. lia.
    - split; [exact refs_in_file_ok|].
      unfold ev_write. destruct (zeros (w_pad w)); [reflexivity|].
      cbn [forallb TraceModel.keeps]. rewrite N.leb_refl. reflexivity.
  Qed.

  (* ---- the inode / directory clauses of the executable validator ---- *)
  Lemma Forall2_nth_error {A B} (P : A -> B -> Prop) : forall (a : list A) (b : list B),
    length a = length b -> (forall j x y, nth_error a j = Some x -> nth_error b j = Some y -> P x y) -> Forall2 P a b.
  Proof.
    induction a as [|x a IH]; intros b L H; destruct b as [|y b]; try discriminate; constructor.
    - apply (H 0%nat); reflexivity.
    - apply IH; [simpl in L; lia|]. intros j x' y' Hx Hy. apply (H (S j)); assumption.
  Qed.

  Lemma counts_from_spec : forall l k, (forall j, (j < length l)%nat -> nth j l 0 = k + N.of_nat j) -> counts_from l k = true.
  Proof.
    induction l as [|x l IH]; intros k H; [reflexivity|].
    cbn [counts_from]. pose proof (H 0%nat ltac:(simpl; lia)) as H0. cbn [nth] in H0. change (N.of_nat 0) with 0 in H0.
    rewrite N.add_0_r in H0. rewrite H0, N.eqb_refl. cbn [andb].
    apply IH. intros j Hj. specialize (H (S j) ltac:(simpl; lia)). cbn [nth] in H. rewrite H. lia.
  Qed.

  Theorem valid_tree_l : valid_tree uncompress (image_bytes w) sf = true.
  Proof.
    destruct dom_facts as (R & _). destruct fit_facts as (Ft & _).
    assert (L65536 : limit <= 65536) by lia.
    destruct (serialize_final compress uncompress compress_ok limit t img (repr_children_before bs t R) ser_ok)
      as (a & im & dm & FIN).
    destruct (repr_facts bs t R) as (Hbs & T1 & T2 & (nroot & rpar & rch & Groot & Proot) & _).
    pose proof FIN as ([(A1 & _ & C1 & _) _] & Cu1 & TI & [(A2 & _ & C2 & _) _] & _ & TD & _ & _ & _ & _ & _ & _ & CC &
                       Lr & _ & Li & Lb & _ & RT & _).
    fold img in TI, TD, RT.
    set (rawsI := a_rawsI a) in *. set (bl := a_bl a) in *. set (ins := si_inodes img) in *.
    assert (NR : forall j, (j < length t)%nat ->
              exists n tn i b r, ReadProofs.node_run compress limit bs t img a j n tn i b r).
    { intros j Hj. exact (ReadProofs.node_run_of compress uncompress compress_ok limit L65536 bs t img R Ft a im dm j FIN Hj). }
    (* the encodings *)
    assert (F2 : Forall2 (fun b i => encode i = Ok b /\ inode_wfb bs i = true) bl ins).
    { apply Forall2_nth_error; [lia|]. intros j b i Hb Hi.
      assert (Hj : (j < length t)%nat) by (rewrite <- Lb; apply nth_error_Some; congruence).
      destruct (NR j Hj) as (n & tn & i' & b' & r & N0). destruct N0.
      fold bl in nr_b. fold ins in nr_i. rewrite Hb in nr_b. injection nr_b as <-. rewrite Hi in nr_i. injection nr_i as <-.
      split; assumption. }
    assert (Fb : Forall (fun b => 0 < lenN b) bl).
    { apply Forall_forall. intros b Hb. destruct (In_nth_error _ _ Hb) as [j Hj].
      assert (Hjl : (j < length ins)%nat) by (rewrite Li, <- Lb; apply nth_error_Some; congruence).
      destruct (nth_error ins j) as [i|] eqn:Ei; [|apply nth_error_None in Ei; lia].
      assert (Q : encode i = Ok b).
      { clear - F2 Hj Ei. revert j Hj Ei. induction F2 as [|b0 i0 bl0 is0 [E0 _] _ IH]; intros j Hj Ei; [destruct j; discriminate|].
        destruct j; cbn [nth_error] in *; [injection Hj as <-; injection Ei as <-; exact E0|eapply IH; eassumption]. }
      pose proof (ReadProofs.encode_nonempty _ _ Q). lia. }
    (* the inode table as the validator sees it *)
    assert (AR : area uncompress (image_bytes w) (s_inode_start sf) (s_dir_start sf) = Some (parsed compress rawsI)).
    { apply (area_written compress uncompress compress_ok (image_bytes w) rawsI pre_inode
               (dtbl ++ w_fragb w ++ w_exportb w ++ w_idb w ++ tail_x)); [exact C1| | |].
      - rewrite split_inode. unfold itbl. rewrite TI, A1. reflexivity.
      - symmetry. exact len_pre_inode.
      - rewrite len_pre_inode. destruct layout as [_ Ld _ _ _ _ _ _]. rewrite Ld. unfold itbl.
        fold img. rewrite TI, A1. reflexivity. }
    destruct fixed_fields as (_ & M2 & _ & M4 & _ & _ & M7 & _ & _ & M10).
    set (bt := block_index (parsed compress rawsI) 0 0).
    set (sl := scan_result 0 bl ins).
    assert (IO : inodes_of uncompress (image_bytes w) sf = Some (bt, sl)).
    { unfold inodes_of. rewrite AR, M2, M4, (concat_parsed compress). fold rawsI in CC. rewrite CC.
      replace (N.to_nat (nlen t)) with (length bl) by (unfold nlen; lia).
      rewrite (scan_spec bs Hbs bl ins 0 F2). reflexivity. }
    (* a recorded reference resolves to the inode written for that number *)
    assert (RES : forall j n tn i b r, ReadProofs.node_run compress limit bs t img a j n tn i b r ->
                  resolve bt sl r = Some (clear_slack i)).
    { intros j n tn i b r N0. destruct N0.
      destruct nr_pos as (k & Hk & P1 & P2 & P3). unfold split_ref in P1, P2, P3. cbn [fst snd] in P1, P2, P3.
      fold rawsI bl in Hk, P1, P2, P3.
      assert (HL : lenN (concat (firstn j bl)) < lenN (concat rawsI)).
      { rewrite CC. destruct (nth_error_split _ _ nr_b) as (l1 & l2 & Hbl & Hl1). fold bl in Hbl.
        rewrite Hbl. rewrite <- Hl1, firstn_app, Nat.sub_diag, firstn_all. cbn [firstn]. rewrite app_nil_r.
        rewrite concat_app. cbn [concat]. rewrite !lenN_app. pose proof (ReadProofs.encode_nonempty _ _ nr_enc). lia. }
      assert (Hlt : (k < length rawsI)%nat).
      { destruct (Nat.eq_dec k (length rawsI)) as [->|Hne]; [|lia].
        rewrite app_nth2, Nat.sub_diag in P3 by lia. cbn [nth] in P3. rewrite lenN_nil in P3.
        rewrite firstn_all in P2. lia. }
      rewrite app_nth1 in P3 by lia.
      unfold resolve, bt.
      rewrite (ref_offset_spec compress uncompress compress_ok rawsI 0 0 k r C1 Hlt ltac:(lia) P3).
      replace (0 + lenN (concat (firstn k rawsI)) + r mod 65536) with (0 + lenN (concat (firstn j bl))) by lia.
      unfold sl. apply inode_at_offset_spec; [exact Fb|exact nr_i|].
      rewrite Lb. apply nth_error_Some. congruence. }
    unfold valid_tree. rewrite IO, tables_ok.
    apply andb_true_iff. split; [apply andb_true_iff; split|].
    - (* v_inodes *)
      unfold v_inodes. apply andb_true_iff. split.
      + unfold numbers_ok. apply andb_true_iff. split.
        * apply N.eqb_eq. rewrite lenN_map. unfold sl, lenN. rewrite scan_result_length by lia.
          rewrite M2. unfold nlen. lia.
        * apply orb_true_iff. left. apply counts_from_spec. intros j Hj.
          rewrite map_length in Hj. unfold sl in Hj. rewrite scan_result_length in Hj by lia.
          unfold sl. rewrite (scan_result_map (fun i => ib_ino (i_base i))) by lia.
          assert (Hjt : (j < length t)%nat) by lia.
          destruct (NR j Hjt) as (n & tn & i & b & r & N0). destruct N0.
          fold ins in nr_i.
          assert (Mn : nth_error (map (fun i0 => ib_ino (i_base (clear_slack i0))) ins) j
                       = Some (ib_ino (i_base (clear_slack i)))) by (rewrite nth_error_map, nr_i; reflexivity).
          rewrite (nth_error_nth _ _ 0 Mn), clear_slack_base.
          destruct nr_ser as (tbl & tbl' & more & S1 & _). destruct (serialize_base _ _ _ _ _ S1) as [_ B2].
          rewrite B2, nr_node. cbn [tn_ino]. lia.
      + apply forallb_forall. intros p Hp. destruct (In_nth_error _ _ Hp) as [j Hj].
        assert (Hjl : (j < length sl)%nat) by (apply nth_error_Some; congruence).
        unfold sl in Hjl. rewrite scan_result_length in Hjl by lia.
        assert (Hjt : (j < length t)%nat) by lia.
        destruct (NR j Hjt) as (n & tn & i & b & r & N0). destruct N0.
        assert (Es : snd p = clear_slack i).
        { assert (M : nth_error (map (fun q => snd q) sl) j = Some (snd p)) by (rewrite nth_error_map, Hj; reflexivity).
          unfold sl in M. rewrite (scan_result_map (fun i0 => i0)) in M by lia.
          rewrite nth_error_map in M. fold ins in nr_i. rewrite nr_i in M. cbn in M. congruence. }
        rewrite Es, clear_slack_base, M7.
        destruct nr_ser as (tbl & tbl' & more & S1 & _ & S3). fold img in S3.
        unfold serialize in S1.
        destruct (id_to_index limit tbl (tn_uid tn)) as [[t1 ui]| | |] eqn:E1; try discriminate. cbn [bind] in S1.
        destruct (id_to_index limit t1 (tn_gid tn)) as [[t2 gi]| | |] eqn:E2; try discriminate. cbn [bind] in S1.
        injection S1 as <- <-. cbn [i_base ib_uid ib_gid].
        destruct (id_to_index_spec _ _ _ _ _ E1) as (_ & _ & U3 & _).
        destruct (id_to_index_spec _ _ _ _ _ E2) as ((m2 & M2') & _ & G3 & _).
        rewrite S3. unfold nlen in *. rewrite app_length. rewrite M2' in G3 |- *. rewrite app_length in *.
        apply andb_true_iff. split; apply N.ltb_lt; lia.
    - (* v_root *)
      unfold v_root. rewrite M10, RT.
      assert (Hj : (length t - 1 < length t)%nat) by (unfold nlen in T1; lia).
      destruct (NR _ Hj) as (n & tn & i & b & r & N0).
      pose proof (RES _ _ _ _ _ _ N0) as Rr. pose proof N0 as N0'. destruct N0'.
      replace (nlen t) with (N.of_nat (length t - 1) + 1) by (unfold nlen in *; lia).
      rewrite (ref_of_index _ _ _ nr_r), Rr, dir_loc_clear_slack, nr_body.
      apply get_nth in Groot. destruct Groot as [_ Gr].
      replace (N.to_nat (nlen t - 1)) with (length t - 1)%nat in Gr by (unfold nlen; lia).
      rewrite Gr in nr_n. injection nr_n as <-.
      destruct (ReadProofs.read_dir compress uncompress compress_ok limit L65536 bs t img R Ft a im dm _ _ _ _ _ _ rpar rch FIN N0 Proot)
        as (ents & sb & off & sz & DL & _). rewrite DL. reflexivity.
    - (* v_dirs *)
      unfold v_dirs. apply forallb_forall. intros p Hp. destruct (In_nth_error _ _ Hp) as [j Hj].
      assert (Hjl : (j < length sl)%nat) by (apply nth_error_Some; congruence).
      unfold sl in Hjl. rewrite scan_result_length in Hjl by lia.
      assert (Hjt : (j < length t)%nat) by lia.
      destruct (NR j Hjt) as (n & tn & i & b & r & N0). pose proof N0 as N0'. destruct N0'.
      assert (Es : snd p = clear_slack i).
      { assert (M : nth_error (map (fun q => snd q) sl) j = Some (snd p)) by (rewrite nth_error_map, Hj; reflexivity).
        unfold sl in M. rewrite (scan_result_map (fun i0 => i0)) in M by lia.
        rewrite nth_error_map in M. fold ins in nr_i. rewrite nr_i in M. cbn in M. congruence. }
      rewrite Es. unfold dir_ok. rewrite dir_loc_clear_slack, nr_body.
      destruct (fn_payload n) as [par ch| | | |] eqn:Pn.
      2-5: rewrite (not_dir_loc compress limit bs t img a j n tn i b r N0) by (intros; congruence); reflexivity.
      destruct (ReadProofs.read_dir compress uncompress compress_ok limit L65536 bs t img R Ft a im dm _ _ _ _ _ _ par ch FIN N0 Pn)
        as (ents & sb & off & sz & DL & RL & Rel).
      rewrite DL. unfold dtbl. rewrite RL.
      apply andb_true_iff. split.
      + assert (Hnames : map de_name ents = map fst ch).
        { clear - Rel. induction Rel as [|e d ch0 ents0 Hed _ IH]; [reflexivity|]. cbn [map]. destruct Hed as [-> _].
          rewrite IH. reflexivity. }
        rewrite Hnames. destruct nr_facts as [_ _ _ _ _ _ P]. rewrite Pn in P. cbn [payload_okb] in P.
        rewrite !andb_true_iff in P. tauto.
      + apply forallb_forall. intros d Hd.
        assert (Q : exists e, In e ch /\ ent_rel t (si_refs img) e d).
        { clear - Rel Hd. induction Rel as [|e d0 ch0 ents0 Hed _ IH]; [contradiction|].
          destruct Hd as [<-|Hd]; [exists e; split; [left; reflexivity|exact Hed]|].
          destruct (IH Hd) as (e' & He' & Hr). exists e'. split; [right; exact He'|exact Hr]. }
        destruct Q as (e & _ & E1 & E2 & E3 & tgt & G & Ty).
        apply get_nth in G. destruct G as [G1 G2]. set (jc := N.to_nat (snd e - 1)) in *.
        assert (Hjc : (jc < length t)%nat) by (apply nth_error_Some; congruence).
        destruct (NR jc Hjc) as (n' & tn' & i' & b' & r' & N1).
        pose proof (RES _ _ _ _ _ _ N1) as Rc. destruct N1 as [c_n c_tn c_i c_b c_r c_enc c_pos c_ser c_node c_kind c_facts c_ok c_wf c_body].
        rewrite G2 in c_n. injection c_n as <-.
        assert (Hc : snd e = N.of_nat jc + 1) by (unfold jc; lia).
        unfold entry_ok. rewrite E3, Hc, (ref_of_index _ _ _ c_r), Rc, clear_slack_base.
        destruct c_ser as (tbl & tbl' & more & S1 & _). destruct (serialize_base _ _ _ _ _ S1) as [B1 B2].
        rewrite B1, B2, c_node. cbn [tn_mode tn_ino]. rewrite Ty, E2, Hc, !N.eqb_refl. reflexivity.
  Qed.

  (* writer_valid: every clause of the executable validator holds of a written image *)
  Theorem writer_valid_l : xattr_section_ok -> valid_image uncompress devblk (image_bytes w) = true.
  Proof.
    intro HX. destruct (writer_valid_partial_l HX) as (_ & _ & E). rewrite E. exact valid_tree_l.
  Qed.
End IP.
