(* C01 — packing fidelity.  Statements only; every proof is one [exact] of a lemma from coq/C01/*Proofs.v.
   Models: C01/InodeModel.v (write_inode.c, read_inode.c, inode.c, create_inode choice, serialize_tree_node,
   id_table.c), C01/XattrModel.v (xattr writer / reader).  The theorems that depend on constants probed from the
   working tree (id-table limit) come last. *)
From Coq Require Import List NArith ZArith Bool.
From Coq Require Import Permutation.
From SqfsV Require Import Base.Bytes Gen.Constants C01.GenC01 C01.Res C01.InodeModel C01.InodeProofs C01.IdProofs
  C01.XattrModel C01.XattrProofs C01.XattrWriterProofs.
From SqfsV Require ImgXattr.CodecRel ImgXattr.Example.
Import ListNotations.
Local Open Scope N_scope.

(* ---- 1. inode codec: all 14 types, under exactly "every field fits its C type" ---- *)

(* decode (encode i) = i for every well-formed inode of every type, whatever follows in the stream
   (clear_slack only forgets the union bytes behind ipc.nlink, which are not part of a basic FIFO/socket inode) *)
Theorem inode_rt : forall bs i rest,
  bs <> 0 -> inode_wfb bs i = true ->
  exists bytes, encode i = Ok bytes /\ decode bs (bytes ++ rest) = Ok (clear_slack i, rest).
Proof. exact inode_rt_l. Qed.
Print Assumptions inode_rt.

(* the model's field widths and struct sizes are the ones of the headers *)
Theorem inode_layout_matches_headers :
  sizeof_sqfs_inode_t = 16 /\ sizeof_sqfs_inode_dir_t = 16 /\ sizeof_sqfs_inode_dir_ext_t = 24 /\
  sizeof_sqfs_inode_file_t = 16 /\ sizeof_sqfs_inode_file_ext_t = 40 /\
  sizeof_sqfs_inode_slink_t = 8 /\ sizeof_sqfs_inode_dev_t = 8 /\ sizeof_sqfs_inode_dev_ext_t = 12 /\
  sizeof_sqfs_inode_ipc_t = 4 /\ sizeof_sqfs_inode_ipc_ext_t = 8 /\ sizeof_sqfs_dir_index_t = 12.
Proof. exact layout_sizes. Qed.

(* ---- inode.c: whatever the block processor does through the API, every field fits the current form
        (size / block start > 32 bit => extended form is chosen before the store) ---- *)
Theorem file_inode_fields_always_fit : forall b, file_reach b -> file_fits b.
Proof. exact file_reach_fits. Qed.
Print Assumptions file_inode_fields_always_fit.

(* ---- serialize_tree_node: for every node the chosen form holds every field (nothing is truncated) ---- *)
Theorem serialize_choice_ok : forall bs limit tbl n tbl' i,
  node_ok bs n -> limit <= 65536 -> nlen tbl <= limit ->
  serialize limit tbl n = Ok (tbl', i) ->
  inode_wfb bs i = true /\ nlen tbl' <= limit /\ (exists more, tbl' = tbl ++ more) /\
  index_to_id tbl' (ib_uid (i_base i)) = Some (tn_uid n) /\
  index_to_id tbl' (ib_gid (i_base i)) = Some (tn_gid n).
Proof. exact serialize_choice_ok_l. Qed.
Print Assumptions serialize_choice_ok.

(* node -> inode -> bytes -> inode: what a reader reports (type, permission bits, owner ids through the id
   table - also after later nodes added more ids -, mtime, inode number, link count, xattr index, symlink
   target, device number, file size) is what the tree node said *)
Theorem node_rt : forall bs limit tbl n tbl' i rest more,
  bs <> 0 -> node_ok bs n -> limit <= 65536 -> nlen tbl <= limit ->
  serialize limit tbl n = Ok (tbl', i) ->
  exists bytes i', encode i = Ok bytes /\ decode bs (bytes ++ rest) = Ok (i', rest) /\
                   view_of (tbl' ++ more) i' = view_of_node n.
Proof. exact node_rt_l. Qed.
Print Assumptions node_rt.

(* ---- 2. id table ---- *)

(* every id of every accepted sequence of lookups maps to a 16-bit index that reads back to it from the
   written table, and the 16-bit count field holds the real count *)
Theorem id_rt : forall limit ids t idxs rest,
  limit <= 65535 -> Forall (fun x => x < 4294967296) ids -> ids <> [] ->
  id_run limit [] ids = Ok (t, idxs) ->
  id_count_field t = nlen t /\
  id_table_read (id_count_field t) (id_table_bytes t ++ rest) = Ok t /\
  length idxs = length ids /\
  forall k id, nth_error ids k = Some id ->
    exists i, nth_error idxs k = Some i /\ i < 65536 /\ index_to_id t i = Some id.
Proof. exact id_rt_l. Qed.
Print Assumptions id_rt.

(* more distinct ids than the table's limit are refused (graceful error, never a crash) *)
Theorem id_refuses_too_many : forall limit ids l,
  NoDup l -> incl l ids -> limit < nlen l -> exists e, id_run limit [] ids = Err e.
Proof. exact id_refuses_l. Qed.
Print Assumptions id_refuses_too_many.

(* F04, the code before the repair: a table that accepts 65536 ids writes a count field of 0 and cannot be read *)
Theorem id_limit_65536_refuted :
  exists ids t idxs, NoDup ids /\ id_run 65536 [] ids = Ok (t, idxs) /\ id_count_field t = 0 /\
    forall payload, id_table_read (id_count_field t) payload = Err c_SQFS_ERROR_CORRUPTED.
Proof. exact id_old_limit_refuted_l. Qed.
Print Assumptions id_limit_65536_refuted.

(* ---- 3. xattr writer / reader ---- *)

(* the writer keeps values as hexadecimal strings: encoding and decoding are inverse *)
Theorem xattr_value_hex_rt : forall l, bytes_ok l -> from_hex (to_hex l) = l.
Proof. exact hex_rt. Qed.
Print Assumptions xattr_value_hex_rt.

(* meaning of the pairs recorded for one inode: one pair per key, the last value given for a key wins *)
Theorem xattr_set_meaning : forall kvs k,
  assoc k (set_spec kvs) = assoc_last k kvs /\ NoDup (map fst (set_spec kvs)).
Proof. exact set_meaning_l. Qed.
Print Assumptions xattr_set_meaning.

(* xattr_rt: for every sequence of key/value sets (one per inode; shared, repeated and replaced values included) that
   the writer accepts, the flush succeeds without touching memory outside the location table, every index
   returned by end() reads back - through id table, location table, key/value stream and out-of-line
   references - as exactly the set recorded for it, and "no pairs" is index 0xFFFFFFFF.  The metadata block
   layer is a parameter: any block-start functions with "seeking to the start of block k finds block k" for the
   blocks that exist (k < nK key/value blocks, k < nT id blocks), key/value block starts below 2^48 (so that the
   64 bit reference (start << 16 | offset) does not wrap), nK and nT large enough for the flushed streams.
   HISTORY: until session 3 this theorem quantified the two block-start hypotheses over ALL k : N together with
   "forall k, bsK k < 2^48" - jointly unsatisfiable (an injection of N into a finite set), so the statement was
   vacuous; found by builder X and independently by the audit (proof of hyps -> False: /var/tmp/audit1/V1.v).  The
   statement below is coq/ImgXattr/CodecRel.v xattr_rt_rel; its hypotheses are exhibited TOGETHER on a concrete run by
   ex_xattr_rt_hyps at the end of this section, and C03's image_xattr_roundtrip instantiates it with the real block
   starts of the flushed section. *)
Theorem xattr_rt :
  forall (bsK bsT : N -> N) (bidxK bidxT : N -> option N) (nK nT : N),
  (forall k, k < nK -> bidxK (bsK k) = Some k /\ bsK k < 281474976710656) ->
  (forall k, k < nT -> bidxT (bsT k) = Some k) -> bsT 0 = 0 ->
  forall sets w idxs,
    Forall set_ok sets -> xw_sets xw_empty sets = Ok (w, idxs) -> nlen (x_blocks w) < NOIDX ->
    (forall img, flush bsK bsT true w = Ok (Some img) -> nlen (xi_kv img) <= nK * META) ->
    16 * nlen (x_blocks w) / 8192 < nT ->
    length idxs = length sets /\
    match flush bsK bsT true w with
    | Ok None => forall i kvs, nth_error sets i = Some kvs -> kvs = [] /\ nth_error idxs i = Some NOIDX
    | Ok (Some img) =>
        forall i kvs idx, nth_error sets i = Some kvs -> nth_error idxs i = Some idx ->
          exists l, rd_all bidxK bidxT img idx = Ok l /\ Permutation l (set_spec kvs)
    | _ => False
    end.
Proof. exact SqfsV.ImgXattr.CodecRel.xattr_rt_rel. Qed.
Print Assumptions xattr_rt.

(* every well-formed input is accepted (so the theorem above is not about an empty set of runs) *)
Theorem xattr_sets_accepted : forall sets,
  Forall set_ok sets -> exists w idxs, xw_sets xw_empty sets = Ok (w, idxs).
Proof. exact sets_accepted_l. Qed.
Print Assumptions xattr_sets_accepted.

(* keys the format cannot hold are refused: unknown prefix, or more than 65535 bytes behind the prefix *)
Theorem xattr_refuses_unrepresentable_keys : forall w key value,
  (prefix_of key = None -> xw_add_kv w key value = Err c_SQFS_ERROR_UNSUPPORTED) /\
  (forall ty sfx, prefix_of key = Some (ty, sfx) -> 65535 < nlen sfx -> xw_add_kv w key value = Err c_SQFS_ERROR_OVERFLOW).
Proof. exact refuses_keys_l. Qed.
Print Assumptions xattr_refuses_unrepresentable_keys.

(* F06, the code before the repair: with exactly 512 blocks the unguarded store writes locations[1] of a
   one-element table; the guarded store (the model of the repaired code) does not *)
Theorem xattr_unguarded_location_store_refuted :
  nlen (x_blocks w512) = 512 /\ loc_count 512 = 1 /\
  flush store_bs store_bs false w512 = Crash /\ is_ok (flush store_bs store_bs true w512) = true.
Proof. exact flush_unbounded_refuted_l. Qed.
Print Assumptions xattr_unguarded_location_store_refuted.

(* ---- non-vacuity ---- *)
Definition ex_base (m : N) := mkBase m 1 2 1600000000 7.
Example ex_inode_wf_file :
  inode_wfb 4096 (mkInode (ex_base 33188) (BFile 96 NOX NOX 5000 [16777312; 100])) = true.
Proof. vm_compute. reflexivity. Qed.
Example ex_inode_wf_xdir :
  inode_wfb 4096 (mkInode (ex_base 16877) (BDirX 5 300 0 3 2 12 NOX [mkIdx 0 0 [97; 97]; mkIdx 40 0 [98]])) = true.
Proof. vm_compute. reflexivity. Qed.
Example ex_inode_wf_xfile_big :
  inode_wfb 131072 (mkInode (ex_base 33188) (BFileX 5000000000 262145 131072 3 2 17 9 [0; 4000])) = true.
Proof. vm_compute. reflexivity. Qed.
Example ex_inode_rt_slink :
  match encode (mkInode (ex_base 41471) (BSlinkX 1 [47; 97] 3)) with
  | Ok b => decode 4096 (b ++ [1; 2; 3]) = Ok (mkInode (ex_base 41471) (BSlinkX 1 [47; 97] 3), [1; 2; 3])
  | _ => False
  end.
Proof. vm_compute. reflexivity. Qed.
(* a file that outgrows 32 bit becomes extended, and comes back when it shrinks *)
Example ex_file_reach :
  exists b1 b2, set_file_size new_file_inode 4294967296 = Ok b1 /\ type_of b1 = c_SQFS_INODE_EXT_FILE /\
                set_file_size b1 5 = Ok b2 /\ type_of b2 = c_SQFS_INODE_FILE.
Proof. eexists. eexists. vm_compute. repeat split; reflexivity. Qed.
Example ex_node_ok :
  node_ok 4096 (mkNode 33188 1000 100 5 9 2 NOX (KFile (BFile 96 NOX NOX 5000 [16777312; 100]))).
Proof.
  unfold node_ok, kind_ok, file_fits. cbn [tn_kind tn_mode tn_mtime tn_ino tn_nlink tn_xattr kind_fmt].
  vm_compute. repeat split; intros; try discriminate; reflexivity.
Qed.
(* ... and it is serialised as an extended file because of its two links *)
Example ex_serialize :
  exists t i, serialize 65535 [0] (mkNode 33188 1000 100 5 9 2 NOX (KFile (BFile 96 NOX NOX 5000 [16777312; 100])))
              = Ok (t, i) /\ t = [0; 1000; 100] /\ type_of (i_body i) = c_SQFS_INODE_EXT_FILE /\ nlink_of (i_body i) = 2.
Proof. eexists. eexists. vm_compute. repeat split; reflexivity. Qed.
Example ex_id_run : id_run 3 [] [7; 8; 7; 9] = Ok ([7; 8; 9], [0; 1; 0; 2]).
Proof. vm_compute. reflexivity. Qed.
Example ex_id_refuse : id_run 3 [] [7; 8; 7; 9; 10] = Err c_SQFS_ERROR_OVERFLOW.
Proof. vm_compute. reflexivity. Qed.

(* xattr: four inodes; the second has no pairs, the third repeats the first in another order and replaces a value
   back and forth (same block, de-duplicated), the fourth shares the long value (stored out of line) *)
Example ex_xattr_run :
  match xw_sets xw_empty ex_sets with
  | Ok (w, idxs) =>
      idxs = [0; NOIDX; 0; 1] /\
      match flush store_bs store_bs true w with
      | Ok (Some img) =>
          rd_all store_bidx store_bidx img 0 = Ok [(ex_key_a, [49]); (ex_key_t, ex_long)] /\
          rd_all store_bidx store_bidx img 1 = Ok [(ex_key_a, ex_long)] /\
          rd_all store_bidx store_bidx img NOIDX = Ok []
      | _ => False
      end
  | _ => False
  end.
Proof. vm_compute. repeat split; reflexivity. Qed.
Example ex_xattr_sets_ok : Forall set_ok ex_sets.
Proof.
  unfold ex_sets, set_ok, kv_ok, key_ok, val_ok.
  repeat (constructor; cbn [fst snd]); try (vm_compute; reflexivity);
    try (eexists; eexists; split; [vm_compute; reflexivity|vm_compute; discriminate]).
Qed.
Example ex_xattr_meta_ok : (forall k, store_bidx (store_bs k) = Some k) /\ store_bs 0 = 0.
Proof.
  split; [|reflexivity]. intro k. unfold store_bidx, store_bs.
  rewrite N.mod_mul by discriminate. rewrite N.div_mul by discriminate. reflexivity.
Qed.
(* ALL hypotheses of xattr_rt together, on the run of ex_sets: block starts k * 8194, 2^30 blocks of each kind *)
Example ex_xattr_rt_hyps :
  (forall k, k < 1073741824 -> store_bidx (store_bs k) = Some k /\ store_bs k < 281474976710656) /\
  store_bs 0 = 0 /\
  match xw_sets xw_empty ex_sets with
  | Ok (w, _) =>
      Forall set_ok ex_sets /\ nlen (x_blocks w) < NOIDX /\
      (forall img, flush store_bs store_bs true w = Ok (Some img) -> nlen (xi_kv img) <= 1073741824 * META) /\
      16 * nlen (x_blocks w) / 8192 < 1073741824
  | _ => False
  end.
Proof. exact SqfsV.ImgXattr.Example.ex_rel_hyps. Qed.

(* ---- theorems that depend on what the working tree's id table really accepts (probe, GenC01.v) ---- *)

(* the id table of the working tree never accepts more ids than the 16-bit count field can hold;
   with the other theorems instantiated at limit := c_id_table_limit this gives the unconditional statement *)
Theorem id_limit_fits_count_field : c_id_table_limit <= 65535.
Proof. vm_compute. discriminate. Qed.

(* ---- 4. composition: sqfs_serialize_fstree (lib/common/src/writer/serialize_fstree.c) ---- *)
(* Model coq/Img/TreeModel.v: serialize_fstree walks the inodes of the post-processed tree in number order; per inode
   [directory: dir_writer_begin, add_entry (name, child number, child inode_ref, child mode) per entry, dir_writer_end,
   create_inode] or [serialize_tree_node], then the reference (block << 16 | offset) is recorded and the inode is
   appended to the inode meta writer; finally both meta writers are flushed.  It is built from the component models above
   (serialize, encode) and C03's meta writer / directory writer models.  The reader side (inode_at, read_listing,
   read_tree) is a specification written from doc/format.adoc on top of C03's block / listing parsers and decode.
   The theorems hold for every tree in the boolean domain [representable], every metadata compressor meeting the contract
   of include/sqfs/compressor.h and every run that stays inside the 32 / 16 bit location fields ([trace_fits]). *)
From SqfsV Require C03.Common C03.MetaModel C03.DirModel.
From SqfsV Require Import Img.TreeModel Img.ReadProofs Img.TreeRT Img.Total Img.ZrleProofs Img.Example.

Definition meta_contract (compress : list N -> Common.cres) (uncompress : list N -> option (list N)) : Prop :=
  forall b c, compress b = Common.CData c -> Common.lenN c <= Common.lenN b /\ uncompress c = Some b.

(* every recorded inode reference (the ones directory entries and the super block carry) resolves, through the metadata
   block reader specification, to exactly the inode that was written for that inode number *)
Theorem serialize_refs_resolve : forall compress uncompress, meta_contract compress uncompress ->
  forall limit, limit <= 65536 ->
  forall bs t img,
  representable bs t = true -> serialize_fstree compress limit t = Ok img -> trace_fits img = true ->
  forall j r i, nth_error (si_refs img) j = Some r -> nth_error (si_inodes img) j = Some i ->
    inode_at uncompress bs (si_itbl img) r = Some (clear_slack i).
Proof. exact refs_resolve_l. Qed.
Print Assumptions serialize_refs_resolve.

(* ... and what a reader sees of that inode (type and permission bits, owner ids through the id table, mtime, inode
   number, link count, xattr index, symlink target / device number / file size, block list, fragment location /
   parent inode number) is what the tree says about the node with that number *)
Theorem serialized_inode_view : forall compress uncompress, meta_contract compress uncompress ->
  forall limit, limit <= 65536 ->
  forall bs t img,
  representable bs t = true -> serialize_fstree compress limit t = Ok img -> trace_fits img = true ->
  forall j n i, nth_error t j = Some n -> nth_error (si_inodes img) j = Some i ->
    lview_of_inode (si_ids img) (clear_slack i) = lview_of_fnode (N.of_nat j + 1) n.
Proof. exact inode_view_l. Qed.
Print Assumptions serialized_inode_view.

(* tree_roundtrip: reading from (inode table, directory table, id table, root reference) with fuel = number of inodes
   yields the tree that was serialized: along every path the names, and per node the view above; a hard link shows as
   the same inode number (and identical subtree) under several entries.  The fuel suffices (the result is Some). *)
Theorem tree_roundtrip : forall compress uncompress, meta_contract compress uncompress ->
  forall limit, limit <= 65536 ->
  forall bs t img,
  representable bs t = true -> serialize_fstree compress limit t = Ok img -> trace_fits img = true ->
  exists lt, spec_tree t (length t) (nlen t) = Some lt /\
             read_tree uncompress bs (si_itbl img) (si_dtbl img) (si_ids img) (length t) (si_root img) = Some lt.
Proof. exact tree_roundtrip_l. Qed.
Print Assumptions tree_roundtrip.

(* on every representable tree the serializer model ends in tables or in an error code (id table full, compressor
   error, directory writer refusal): no Crash outcome (dangling child, mode / union mismatch) and no exhausted loop fuel,
   so the theorems above are not true for the wrong reason *)
Theorem serialize_never_crashes : forall compress uncompress, meta_contract compress uncompress ->
  forall limit bs t, representable bs t = true ->
  serialize_fstree compress limit t <> Crash /\ serialize_fstree compress limit t <> OutOfFuel.
Proof. exact serialize_graceful_l. Qed.
Print Assumptions serialize_never_crashes.

(* the compressors the tie runs (C03's toy modes 0/1, the zero-run-length mode 3) meet the contract *)
Theorem img_compressors_meet_contract : forall mode, mode <= 1 \/ mode = 3 ->
  meta_contract (img_compress mode) (img_uncompress mode).
Proof. exact img_contract. Qed.
Print Assumptions img_compressors_meet_contract.

(* non-vacuity: a 96 inode tree (nested directories, hard link, symlink, device with xattr index, listings crossing
   metadata block borders, two inode blocks, compressed blocks) is in the domain, is accepted, and reads back *)
Example ex_img_tree_representable : representable 4096 ex_tree = true.
Proof. exact ex_tree_representable. Qed.
Example ex_img_tree_roundtrip :
  match serialize_fstree (img_compress 3) c_id_table_limit ex_tree with
  | Ok img =>
      trace_fits img = true /\
      (2 * 8192 <? Common.lenN (si_dtbl img)) = true /\
      (rd16 (si_itbl img) <? 32768) = true /\
      existsb (fun r => 0 <? r / 65536) (si_refs img) = true /\
      read_tree (img_uncompress 3) 4096 (si_itbl img) (si_dtbl img) (si_ids img) (length ex_tree) (si_root img)
        = spec_tree ex_tree (length ex_tree) (nlen ex_tree) /\
      is_some (spec_tree ex_tree (length ex_tree) (nlen ex_tree)) = true
  | _ => False
  end.
Proof. exact ex_tree_roundtrip. Qed.

(* ---- 5. from the packer's add calls to the serializer's input and on to the reader's view (coq/ImgPost) ---- *)
(* Section 4 takes the post-processed tree as given.  Here it is produced by the model of lib/fstree (coq/C11: [fs_add] =
   fstree_add_generic with implicit directories and sorted insertion, [post_process] = fstree_post_process: hard link
   resolution, alloc_inode_num_dfs, reorder_hard_links, file list) and handed over by [ImgPost.Bridge.to_img], which reads
   from it exactly what serialize_fstree.c reads from fs->inodes[] / tree_node_t (inode number = position + 1, children in
   list order, a hard link entry carries its target_node's number, link counts after resolution, parent numbers); the file
   inodes the block processor leaves ([fb]) and the xattr indices ([xa]) stay abstract as in section 4.
   [input_okb] (InputOk.v) lists every bound on the INPUT that [representable] needs and lib/fstree does not establish:
   block size <> 0; fstree defaults and per add: permission bits < 2^12, uid, gid < 2^32, path components that are C strings
   of 1..65536 bytes, symlink targets byte strings < 2^32, device numbers < 2^32; #adds + #path components + 3 < 2^32 (the
   C code's own "Too many inodes" / EMLINK refusals are not modelled).  [attached_okb]: every file of fs->files got an inode
   meeting file_body_okb, every xattr index is 32 bit.  Everything else is PROVED of the fstree model — see
   post_tree_structure, which needs no bound at all. *)
From SqfsV Require C11.StrOrder C11.FstreeModel C11.PostModel.
From SqfsV Require Import ImgPost.Bridge ImgPost.InputOk ImgPost.PathsModel ImgPost.AllocInv ImgPost.BridgeProofs
  ImgPost.PathsProofs ImgPost.Structure ImgPost.RoundTrip ImgPost.Example.

(* what lib/fstree guarantees for EVERY sequence of successful adds and every successful fstree_post_process, without any
   bound: fs->inodes holds every node that gets a number (every node that is not a hard link entry) exactly once, the root
   last and a directory — so the inode numbers are exactly 1..N; in every directory the entry names are strictly sorted in
   strcmp order (hence distinct); every entry — a child, or the target_node of a hard link entry — is numbered before the
   directory that names it (alloc_inode_num_dfs + reorder_hard_links); link counts are >= 1 *)
Theorem post_tree_structure : forall d ops fs pp fb xa,
  run_adds d (FstreeModel.fs_init d) ops = Some fs ->
  PostModel.post_process fs = PostModel.POk pp ->
  let arr := PostModel.pp_inodes pp in
  let t := to_img fb xa pp in
  NoDup arr /\
  (forall p, In p arr <-> numbered (PostModel.pp_root pp) p) /\
  nth_error arr (length arr - 1) = Some [] /\
  length t = length arr /\
  (exists n par ch, nth_error t (length arr - 1) = Some n /\ fn_payload n = PDir par ch) /\
  forall j n, nth_error t j = Some n ->
    1 <= fn_nlink n /\
    forall par ch, fn_payload n = PDir par ch ->
      sorted_names (map fst ch) = true /\
      Forall (fun e => 1 <= snd e /\ snd e < N.of_nat j + 1) ch.
Proof. exact post_tree_structure_l. Qed.
Print Assumptions post_tree_structure.

(* post_tree_representable: under the input bounds the tree handed to sqfs_serialize_fstree is in the domain of the theorems
   of section 4 *)
Theorem post_tree_representable : forall bs d ops fs pp fb xa,
  input_okb bs d ops = true ->
  run_adds d (FstreeModel.fs_init d) ops = Some fs ->
  PostModel.post_process fs = PostModel.POk pp ->
  attached_okb bs fb xa pp = true ->
  representable bs (to_img fb xa pp) = true.
Proof. exact post_tree_representable_l. Qed.
Print Assumptions post_tree_representable.

(* pack_paths_roundtrip (C01 at the metadata level, from the add calls to the reader): the tree read back from the tables,
   flattened in directory order to  path |-> (type + permission bits, uid, gid, mtime, xattr index, symlink target / device
   number / file location, size and block list), inode number,  is the flattening [fl] of the tree the adds built BEFORE
   post-processing ([denotes]: all its paths depth first in child order, a hard link path carrying the attributes of the
   node its target resolves to through further hard links; [denotes_flattening_unique]: there is exactly one such list)
   with every denoted node replaced by its inode number — and that numbering is injective on the denoted nodes, so two
   paths carry the same inode number iff they denote the same node: the hard-link groups agree. *)
Theorem pack_paths_roundtrip : forall compress uncompress, meta_contract compress uncompress ->
  forall limit, limit <= 65536 ->
  forall bs d ops fs pp fb xa img,
  input_okb bs d ops = true ->
  run_adds d (FstreeModel.fs_init d) ops = Some fs ->
  PostModel.post_process fs = PostModel.POk pp ->
  attached_okb bs fb xa pp = true ->
  serialize_fstree compress limit (to_img fb xa pp) = Ok img ->
  trace_fits img = true ->
  exists lt fl,
    read_tree uncompress bs (si_itbl img) (si_dtbl img) (si_ids img) (length (PostModel.pp_inodes pp)) (si_root img) = Some lt /\
    denotes fb xa (FstreeModel.fs_root fs) fl /\
    flat_lt [] lt = map (number (PostModel.pp_inodes pp)) fl /\
    (forall x y, In x fl -> In y fl ->
       ino_of (PostModel.pp_inodes pp) (snd x) = ino_of (PostModel.pp_inodes pp) (snd y) -> snd x = snd y).
Proof. exact pack_paths_roundtrip_l. Qed.
Print Assumptions pack_paths_roundtrip.

Theorem denotes_flattening_unique : forall fb xa root fl fl',
  denotes fb xa root fl -> denotes fb xa root fl' -> fl = fl'.
Proof. exact denotes_unique. Qed.
Print Assumptions denotes_flattening_unique.

(* non-vacuity: ten adds with implicit directories later made explicit, child-before-parent order, a hard link chain defined
   before its target, two more links to the same file, a link to a device, a link that makes reorder_hard_links move its
   target; the hypotheses hold, the conclusions compute *)
Example ex_post_tree_representable :
  input_okb 4096 exp_defaults exp_ops = true /\
  match exp_pp with
  | Some pp =>
      attached_okb 4096 exp_fb exp_xa pp = true /\
      representable 4096 (to_img exp_fb exp_xa pp) = true /\
      PostModel.pp_inodes pp = [[n_d; n_sub; n_f]; [n_d; n_sub; n_p]; [n_s]; [n_d; n_sub]; [n_d]; [n_dev]; []] /\
      PostModel.alloc_list [] (PostModel.pp_root pp) = [[n_d; n_sub; n_f]; [n_d; n_sub; n_p]; [n_d; n_sub]; [n_d]; [n_dev]; [n_s]] /\
      map (fun n => (fn_mode n, fn_uid n, fn_mtime n, fn_nlink n)) (to_img exp_fb exp_xa pp) =
        [(33188, 1000, 1600000000, 4); (4516, 0, 2, 1); (41471, 5, 0, 2); (16877, 0, 1600000000, 5);
         (16832, 1, 5, 4); (8576, 0, 1, 2); (16877, 0, 1600000000, 8)]
  | None => False
  end.
Proof. exact ex_pack_representable. Qed.
Example ex_pack_paths :
  match exp_read with
  | Some (fits, lt, pp) =>
      fits = true /\
      flat_lt [] lt = map (number (PostModel.pp_inodes pp))
                          (flat_pp exp_fb exp_xa (PostModel.pp_root pp) (PostModel.pp_inodes pp) [] (PostModel.pp_root pp)) /\
      map (fun x => (fst (fst x), snd x)) (flat_lt [] lt) =
        [([], 7); ([n_B], 6); ([n_a], 1); ([n_d], 5); ([n_d; n_l2], 1); ([n_d; n_sub], 4); ([n_d; n_sub; n_f], 1);
         ([n_d; n_sub; n_k], 3); ([n_d; n_sub; n_p], 2); ([n_dev], 6); ([n_s], 3); ([n_z], 1)] /\
      group_of N.eqb (flat_lt [] lt) 1 = [[n_a]; [n_d; n_l2]; [n_d; n_sub; n_f]; [n_z]] /\
      map (fun x => snd (fst x)) (filter (fun x => PostModel.path_eqb (fst (fst x)) [n_d; n_l2]) (flat_lt [] lt)) =
        [mkPv 33188 (Some 1000) (Some 100) 1600000000 NOX (LFile 96 5000 0 NOX NOX [4096; 904])]
  | None => False
  end.
Proof. exact ex_pack_paths_roundtrip. Qed.

(* ---- 6. the REAL reader (C05 model) on the written image (coq/ImgReader) ---- *)
(* Sections 4 and 5 read the tables back through a reader SPECIFICATION written from doc/format.adoc.  Here the reader
   is coq/C05's model of the libsquashfs code itself (tied to the library by C05's and C10's checks and, on serializer
   output, by this property's own leg): sqfs_super_read (read_super.c), sqfs_id_table_read / sqfs_read_table
   (id_table.c, read_table.c: allocation arithmetic, location list, one seek + read per block inside the [lower, upper)
   window), sqfs_meta_reader_seek / _read (meta_reader.c: absolute block positions, 16 bit header, block cache, C style
   decompressor with an output capacity), sqfs_meta_reader_read_inode (read_inode.c, all 14 types, allocation sizes),
   sqfs_readdir_state_init / sqfs_meta_reader_readdir (readdir.c: header / entry state machine, size accounting, signed
   16 bit inode number delta), sqfs_dir_reader_get_inode, sqfs_dir_reader_get_full_hierarchy (read_tree.c: fill_dir with
   the ancestor loop check, recursion, resolve_ids).  ReadImage.read_image_c05 is that sequence on the bytes of a file.
   The refinement (coq/ImgReader: MetaRefine, InodeRefine, DirRefine, TreeRefine, IdRefine, SuperRefine) shows that on
   every image that CONTAINS the output of sqfs_serialize_fstree (Embed.laid: inode table at inode_table_start and below
   directory_table_start, directory table below the next table, id table written by sqfs_write_table, root reference,
   block size, id count; everything else arbitrary) the reader model returns Ok with the tree the serializer was given —
   no error, no Crash (out of bounds access), no exhausted loop bound.
   Hypotheses that remain, all decidable: [trace_fits] (section 4, about the run); [alloc_fits] (every inode's variable
   part — block list, symlink target, 2 x directory index + 256 — stays below the 2 GiB allocation limit the C05 model
   is run with; alloc_fits_from_tree_bounds derives it from a bound on the input tree); the file is shorter than 2^63
   bytes (off_t); the three loop bounds of the reader model are at least
   #inodes (recursion depth), largest directory + 1 (entries of one listing), max (64, table sizes) (metadata blocks). *)
From SqfsV Require C05.RBase C05.Super C05.Dir.
From SqfsV Require Image.FinishModel Image.ImageProofs.
From SqfsV Require ImgReader.MetaRefine ImgReader.Embed ImgReader.ReadImage ImgReader.SuperRefine ImgReader.Closed
  ImgReader.ImageLaid ImgReader.AllocBound ImgReader.E2E ImgReader.Example ImgReader.ExampleE2E.

(* reader_model_reads_serialized_tree: sqfs_dir_reader_get_full_hierarchy of the reader model, started on a fresh
   directory reader with the serializer's id table, returns a tree T whose reading in Img's vocabulary (per node: type and
   permission bits, uid / gid through the id table, mtime, inode number, link count, xattr index, symlink target / device
   number / file location + size + block list / parent inode number; per directory the entry names in order) is
   spec_tree of the serialized tree *)
Theorem reader_model_reads_serialized_tree : forall compress uncompress, meta_contract compress uncompress ->
  forall uc, Embed.uc_meets uncompress uc ->
  forall limit, limit <= 65536 ->
  forall bs t si,
  representable bs t = true -> serialize_fstree compress limit t = Ok si ->
  trace_fits si = true -> Embed.alloc_fits si = true ->
  forall img s, Embed.laid compress img s bs si ->
  forall depth efuel fuel,
  (length t <= depth)%nat -> (Embed.max_entries t < efuel)%nat ->
  (ReadImage.reader_fuel (si_itbl si) (si_dtbl si) <= fuel)%nat ->
  exists dr T,
    Dir.full_hierarchy uc img depth efuel fuel s (si_ids si) (Dir.dreader_create s) = RBase.Ok (dr, T) /\
    spec_tree t (length t) (nlen t) = Some (Embed.ltree_of T) /\ Embed.tree_name T = [].
Proof. exact Closed.full_hierarchy_serialized_l. Qed.
Print Assumptions reader_model_reads_serialized_tree.

(* ... and sqfs_id_table_read of the reader model finds the id table the serializer built (through the location list,
   every block inside the window sqfs_id_table_read computes from the super block) *)
Theorem reader_model_reads_id_table_and_tree : forall compress uncompress, meta_contract compress uncompress ->
  forall uc, Embed.uc_meets uncompress uc ->
  forall limit, limit <= 65536 ->
  forall bs t si,
  representable bs t = true -> serialize_fstree compress limit t = Ok si ->
  trace_fits si = true -> Embed.alloc_fits si = true ->
  forall img s, Embed.laid compress img s bs si ->
  forall depth efuel fuel,
  (length t <= depth)%nat -> (Embed.max_entries t < efuel)%nat ->
  (ReadImage.reader_fuel (si_itbl si) (si_dtbl si) <= fuel)%nat ->
  exists T,
    ReadImage.read_tables_c05 uc depth efuel fuel img s = RBase.Ok (si_ids si, T) /\
    spec_tree t (length t) (nlen t) = Some (Embed.ltree_of T) /\ Embed.tree_name T = [].
Proof. exact Closed.read_tables_serialized_l. Qed.
Print Assumptions reader_model_reads_id_table_and_tree.

(* [laid] is not an empty condition: EVERY file Image.FinishModel.write_image (sqfs_writer_init / sqfs_writer_finish)
   leaves contains its serializer output in that sense, whatever options / data / fragment table / export table / xattr
   section / padding surround it, and its first 96 bytes are a super block the reader model's sqfs_super_read accepts *)
Theorem written_image_contains_serializer_output : forall compress uncompress, meta_contract compress uncompress ->
  forall limit, limit <= 65535 ->
  forall cfg inp w,
  FinishModel.write_image compress limit cfg inp = Ok w ->
  ImageProofs.image_domain cfg inp = true -> ImageProofs.image_fits w = true ->
  Common.lenN (FinishModel.image_bytes w) < RBase.two63 ->
  Embed.laid compress (FinishModel.image_bytes w) (ReadImage.sup_of (FinishModel.w_super w))
             (FinishModel.c_block_size cfg) (FinishModel.w_img w) /\
  Super.super_read (FinishModel.image_bytes w) = RBase.Ok (ReadImage.sup_of (FinishModel.w_super w)).
Proof.
  exact (fun c u H l Hl cfg inp w Hw Hd Hf Hs =>
           conj (ImageLaid.image_laid c u H l Hl cfg inp w Hw Hd Hf Hs)
                (ImageLaid.image_super_read c u H l Hl cfg inp w Hw Hd Hf Hs)).
Qed.
Print Assumptions written_image_contains_serializer_output.

(* reader_model_reads_written_image: the reader model run on the BYTES OF THE WHOLE FILE returns the committed super
   block, the id table and the tree that was packed *)
Theorem reader_model_reads_written_image : forall compress uncompress, meta_contract compress uncompress ->
  forall uc, Embed.uc_meets uncompress uc ->
  forall limit, limit <= 65535 ->
  forall cfg inp w,
  FinishModel.write_image compress limit cfg inp = Ok w ->
  ImageProofs.image_domain cfg inp = true -> ImageProofs.image_fits w = true -> ImageLaid.reader_fits w = true ->
  forall depth efuel fuel,
  let t := FinishModel.in_tree inp in
  (length t <= depth)%nat -> (Embed.max_entries t < efuel)%nat ->
  (ReadImage.reader_fuel (si_itbl (FinishModel.w_img w)) (si_dtbl (FinishModel.w_img w)) <= fuel)%nat ->
  exists T,
    ReadImage.read_image_c05 uc depth efuel fuel (FinishModel.image_bytes w)
      = RBase.Ok (ReadImage.sup_of (FinishModel.w_super w), si_ids (FinishModel.w_img w), T) /\
    spec_tree t (length t) (nlen t) = Some (Embed.ltree_of T) /\ Embed.tree_name T = [].
Proof. exact ImageLaid.written_image_read_back_l. Qed.
Print Assumptions reader_model_reads_written_image.

(* alloc_fits_from_tree_bounds: [alloc_fits], a condition on the serializer's OUTPUT, follows from a decidable bound on
   the tree handed to it (AllocBound.tree_alloc_okb: per regular file 64 + 4 * #block size words <= 2^31, per symbolic
   link 64 + |target| + 1 <= 2^31, per directory every entry name at most 16000 bytes) and trace_fits (fewer than 65536
   index entries per directory): an index entry is 12 bytes + the name of an entry of that directory *)
Theorem alloc_fits_from_tree_bounds : forall compress uncompress, meta_contract compress uncompress ->
  forall limit, limit <= 65536 ->
  forall bs t si,
  representable bs t = true -> serialize_fstree compress limit t = Ok si -> trace_fits si = true ->
  AllocBound.tree_alloc_okb t = true ->
  Embed.alloc_fits si = true.
Proof. exact AllocBound.alloc_fits_of_tree. Qed.
Print Assumptions alloc_fits_from_tree_bounds.

(* a C style decompressor that meets the refinement's contract exists for every abstract one *)
Theorem reader_decompressor_contract : forall uncompress, Embed.uc_meets uncompress (ReadImage.uc_of uncompress).
Proof. exact Closed.uc_of_meets. Qed.
Print Assumptions reader_decompressor_contract.

(* the boolean tree comparison the examples (and the tie's driver) use is sound *)
Theorem ltree_comparison_sound : forall a b, ReadImage.opt_ltree_eqb a b = true -> a = b /\ a <> None.
Proof. exact Closed.opt_ltree_eqb_eq. Qed.
Print Assumptions ltree_comparison_sound.

(* pack_paths_roundtrip_numbered: section 5's pack_paths_roundtrip with the clause it lacks: EVERY node the adds denote
   got a real inode number — ino_of (position in fs->inodes + 1, with 0 standing for "none") of the node each flattened
   path resolves to lies in 1 .. #inodes.  (Injectivity of a numbering that defaults to 0 would by itself tolerate one
   un-numbered node; with this clause the hard-link groups of the read-back tree are exactly the classes of "resolves to
   the same node".)  The end-to-end theorems below carry the same clause. *)
Theorem pack_paths_roundtrip_numbered : forall compress uncompress, meta_contract compress uncompress ->
  forall limit, limit <= 65536 ->
  forall bs d ops fs pp fb xa img,
  input_okb bs d ops = true ->
  run_adds d (FstreeModel.fs_init d) ops = Some fs ->
  PostModel.post_process fs = PostModel.POk pp ->
  attached_okb bs fb xa pp = true ->
  serialize_fstree compress limit (to_img fb xa pp) = Ok img ->
  trace_fits img = true ->
  exists lt fl,
    read_tree uncompress bs (si_itbl img) (si_dtbl img) (si_ids img) (length (PostModel.pp_inodes pp)) (si_root img) = Some lt /\
    denotes fb xa (FstreeModel.fs_root fs) fl /\
    flat_lt [] lt = map (number (PostModel.pp_inodes pp)) fl /\
    (forall x, In x fl -> 1 <= ino_of (PostModel.pp_inodes pp) (snd x) <= N.of_nat (length (PostModel.pp_inodes pp))) /\
    (forall x y, In x fl -> In y fl ->
       ino_of (PostModel.pp_inodes pp) (snd x) = ino_of (PostModel.pp_inodes pp) (snd y) -> snd x = snd y).
Proof. exact E2E.pack_paths_roundtrip_numbered_l. Qed.
Print Assumptions pack_paths_roundtrip_numbered.

(* the numbering clause on its own: it holds of every flattening the adds denote *)
Theorem denoted_nodes_are_numbered : forall bs d ops fs pp fb xa fl,
  input_okb bs d ops = true ->
  run_adds d (FstreeModel.fs_init d) ops = Some fs ->
  PostModel.post_process fs = PostModel.POk pp ->
  denotes fb xa (FstreeModel.fs_root fs) fl ->
  forall x, In x fl -> 1 <= ino_of (PostModel.pp_inodes pp) (snd x) <= N.of_nat (length (PostModel.pp_inodes pp)).
Proof. exact E2E.denoted_numbered. Qed.
Print Assumptions denoted_nodes_are_numbered.

(* pack_read_by_reader_model (C01 at the metadata level, END TO END): from the packer's add operations through
   fstree_post_process, sqfs_serialize_fstree and the reader MODEL: the tree the reader model returns, flattened to
   path |-> (type + permission bits, uid, gid, mtime, xattr index, target / device / file location, size, block list),
   inode number, is the flattening of what the adds denote (section 5: denotes), every denoted node has an inode number
   in 1 .. #inodes and the numbering is injective on the denoted nodes — the hard-link groups agree.  Hypotheses: the input bounds of section 5 (input_okb, attached_okb),
   the run-level bounds trace_fits / alloc_fits, [laid], loop bounds. *)
Theorem pack_read_by_reader_model : forall compress uncompress, meta_contract compress uncompress ->
  forall uc, Embed.uc_meets uncompress uc ->
  forall limit, limit <= 65536 ->
  forall bs d ops fs pp fb xa si,
  input_okb bs d ops = true ->
  run_adds d (FstreeModel.fs_init d) ops = Some fs ->
  PostModel.post_process fs = PostModel.POk pp ->
  attached_okb bs fb xa pp = true ->
  serialize_fstree compress limit (to_img fb xa pp) = Ok si ->
  trace_fits si = true -> Embed.alloc_fits si = true ->
  forall img s, Embed.laid compress img s bs si ->
  forall depth efuel fuel,
  (length (PostModel.pp_inodes pp) <= depth)%nat -> (Embed.max_entries (to_img fb xa pp) < efuel)%nat ->
  (ReadImage.reader_fuel (si_itbl si) (si_dtbl si) <= fuel)%nat ->
  exists T fl,
    ReadImage.read_tables_c05 uc depth efuel fuel img s = RBase.Ok (si_ids si, T) /\
    denotes fb xa (FstreeModel.fs_root fs) fl /\
    flat_lt [] (Embed.ltree_of T) = map (number (PostModel.pp_inodes pp)) fl /\
    (forall x, In x fl -> 1 <= ino_of (PostModel.pp_inodes pp) (snd x) <= N.of_nat (length (PostModel.pp_inodes pp))) /\
    (forall x y, In x fl -> In y fl ->
       ino_of (PostModel.pp_inodes pp) (snd x) = ino_of (PostModel.pp_inodes pp) (snd y) -> snd x = snd y).
Proof. exact E2E.pack_read_by_reader_l. Qed.
Print Assumptions pack_read_by_reader_model.

(* pack_image_read_by_reader_model: the same with the whole image file in the middle (write_image: super block, tables,
   layout, padding), read from its bytes by read_image_c05.  [image_rest_okb]: compressor id 1..6, fragment entries fit
   their fields, compressor options = nothing or one uncompressed metadata block, xattr header inside its section — the
   part of image_domain that is not "the tree is representable" (which is proved: post_tree_representable). *)
Theorem pack_image_read_by_reader_model : forall compress uncompress, meta_contract compress uncompress ->
  forall uc, Embed.uc_meets uncompress uc ->
  forall limit, limit <= 65535 ->
  forall d ops fs pp fb xa cfg inp w,
  input_okb (FinishModel.c_block_size cfg) d ops = true ->
  run_adds d (FstreeModel.fs_init d) ops = Some fs ->
  PostModel.post_process fs = PostModel.POk pp ->
  attached_okb (FinishModel.c_block_size cfg) fb xa pp = true ->
  FinishModel.in_tree inp = to_img fb xa pp -> E2E.image_rest_okb cfg inp = true ->
  FinishModel.write_image compress limit cfg inp = Ok w ->
  ImageProofs.image_fits w = true -> ImageLaid.reader_fits w = true ->
  forall depth efuel fuel,
  (length (PostModel.pp_inodes pp) <= depth)%nat -> (Embed.max_entries (to_img fb xa pp) < efuel)%nat ->
  (ReadImage.reader_fuel (si_itbl (FinishModel.w_img w)) (si_dtbl (FinishModel.w_img w)) <= fuel)%nat ->
  exists T fl,
    ReadImage.read_image_c05 uc depth efuel fuel (FinishModel.image_bytes w)
      = RBase.Ok (ReadImage.sup_of (FinishModel.w_super w), si_ids (FinishModel.w_img w), T) /\
    denotes fb xa (FstreeModel.fs_root fs) fl /\
    flat_lt [] (Embed.ltree_of T) = map (number (PostModel.pp_inodes pp)) fl /\
    (forall x, In x fl -> 1 <= ino_of (PostModel.pp_inodes pp) (snd x) <= N.of_nat (length (PostModel.pp_inodes pp))) /\
    (forall x y, In x fl -> In y fl ->
       ino_of (PostModel.pp_inodes pp) (snd x) = ino_of (PostModel.pp_inodes pp) (snd y) -> snd x = snd y).
Proof. exact E2E.pack_image_read_by_reader_l. Qed.
Print Assumptions pack_image_read_by_reader_model.

(* ... with alloc_fits replaced by the tree-level bound: what remains about the run is image_fits (trace_fits, bytes_used <
   2^64) and "the file is shorter than 2^63 bytes" *)
Theorem pack_image_read_by_reader_model_input_bounds : forall compress uncompress, meta_contract compress uncompress ->
  forall uc, Embed.uc_meets uncompress uc ->
  forall limit, limit <= 65535 ->
  forall d ops fs pp fb xa cfg inp w,
  input_okb (FinishModel.c_block_size cfg) d ops = true ->
  run_adds d (FstreeModel.fs_init d) ops = Some fs ->
  PostModel.post_process fs = PostModel.POk pp ->
  attached_okb (FinishModel.c_block_size cfg) fb xa pp = true ->
  AllocBound.tree_alloc_okb (to_img fb xa pp) = true ->
  FinishModel.in_tree inp = to_img fb xa pp -> E2E.image_rest_okb cfg inp = true ->
  FinishModel.write_image compress limit cfg inp = Ok w ->
  ImageProofs.image_fits w = true -> Common.lenN (FinishModel.image_bytes w) < RBase.two63 ->
  forall depth efuel fuel,
  (length (PostModel.pp_inodes pp) <= depth)%nat -> (Embed.max_entries (to_img fb xa pp) < efuel)%nat ->
  (ReadImage.reader_fuel (si_itbl (FinishModel.w_img w)) (si_dtbl (FinishModel.w_img w)) <= fuel)%nat ->
  exists T fl,
    ReadImage.read_image_c05 uc depth efuel fuel (FinishModel.image_bytes w)
      = RBase.Ok (ReadImage.sup_of (FinishModel.w_super w), si_ids (FinishModel.w_img w), T) /\
    denotes fb xa (FstreeModel.fs_root fs) fl /\
    flat_lt [] (Embed.ltree_of T) = map (number (PostModel.pp_inodes pp)) fl /\
    (forall x, In x fl -> 1 <= ino_of (PostModel.pp_inodes pp) (snd x) <= N.of_nat (length (PostModel.pp_inodes pp))) /\
    (forall x y, In x fl -> In y fl ->
       ino_of (PostModel.pp_inodes pp) (snd x) = ino_of (PostModel.pp_inodes pp) (snd y) -> snd x = snd y).
Proof. exact E2E.pack_image_read_by_reader_bounds_l. Qed.
Print Assumptions pack_image_read_by_reader_model_input_bounds.

(* non-vacuity: on the image of Image/Example.v (96 inode tree of section 4; compressor options, data area, fragment
   table, export table) the hypotheses hold ... *)
Example ex_reader_model_hyps :
  match Image.Example.ex_w with
  | Ok w =>
      ImageLaid.reader_fits w = true /\ Embed.alloc_fits (FinishModel.w_img w) = true /\
      (Common.lenN (FinishModel.image_bytes w) <? RBase.two63) = true /\
      AllocBound.tree_alloc_okb ex_tree = true /\
      N.of_nat ImgReader.Example.ex_depth = 96 /\ N.of_nat ImgReader.Example.ex_efuel = 47 /\
      N.of_nat (ReadImage.reader_fuel (si_itbl (FinishModel.w_img w)) (si_dtbl (FinishModel.w_img w))) = 18939
  | _ => False
  end.
Proof. exact ImgReader.Example.ex_reader_hyps. Qed.

(* ... the reader model computes, from the bytes of the file, the committed super block, the id table and a tree of 97
   nodes (the hard link shows twice) equal to spec_tree of the input; with a recursion bound of 2 or an entry bound of
   46 the answer is OutOfFuel, not a wrong tree ... *)
Example ex_reader_model_reads_image :
  match Image.Example.ex_w with
  | Ok w =>
      let fuel := ReadImage.reader_fuel (si_itbl (FinishModel.w_img w)) (si_dtbl (FinishModel.w_img w)) in
      match ReadImage.read_image_c05 ImgReader.Example.ex_uc ImgReader.Example.ex_depth ImgReader.Example.ex_efuel fuel
                                     (FinishModel.image_bytes w) with
      | RBase.Ok (s, ids, T) =>
          s = ReadImage.sup_of (FinishModel.w_super w) /\ ids = [1000; 100; 0] /\ Embed.tree_name T = [] /\
          N.of_nat (length (Dir.flatten T)) = 97 /\
          ReadImage.opt_ltree_eqb (Some (Embed.ltree_of T)) (spec_tree ex_tree (length ex_tree) (nlen ex_tree)) = true /\
          Super.s_inode_start s = 202 /\ Super.s_dir_start s = 8915 /\ Super.s_id_start s = 28363 /\
          Super.s_root s = 525075220
      | _ => False
      end /\
      ReadImage.read_image_c05 ImgReader.Example.ex_uc 2 ImgReader.Example.ex_efuel fuel (FinishModel.image_bytes w)
        = RBase.OutOfFuel /\
      ReadImage.read_image_c05 ImgReader.Example.ex_uc ImgReader.Example.ex_depth 46 fuel (FinishModel.image_bytes w)
        = RBase.OutOfFuel
  | _ => False
  end.
Proof. exact ImgReader.Example.ex_image_read_back. Qed.

(* ... and the image satisfies [laid] *)
Example ex_reader_model_laid :
  match Image.Example.ex_w with
  | Ok w => Embed.laid (img_compress 3) (FinishModel.image_bytes w) (ReadImage.sup_of (FinishModel.w_super w)) 4096
                       (FinishModel.w_img w)
  | _ => False
  end.
Proof. exact ImgReader.Example.ex_laid. Qed.

(* end to end: the ten adds of section 5, written as a whole image (export table, 5000 byte data area), read back by the
   reader model from the bytes of the file: hypotheses, then the flattening with its hard-link groups *)
Example ex_pack_image_hyps :
  match ImgReader.ExampleE2E.e2e_run with
  | Some (pp, w, _) =>
      E2E.image_rest_okb ImgReader.ExampleE2E.e2e_cfg (ImgReader.ExampleE2E.e2e_inp pp) = true /\
      ImageProofs.image_fits w = true /\ ImageLaid.reader_fits w = true /\
      AllocBound.tree_alloc_okb (to_img exp_fb exp_xa pp) = true /\
      (Common.lenN (FinishModel.image_bytes w) <? RBase.two63) = true /\
      FinishModel.c_block_size ImgReader.ExampleE2E.e2e_cfg = 4096 /\
      length (PostModel.pp_inodes pp) = 7%nat /\ Embed.max_entries (to_img exp_fb exp_xa pp) = 6%nat
  | None => False
  end.
Proof. exact ImgReader.ExampleE2E.ex_e2e_hyps. Qed.

Example ex_pack_image_read_by_reader_model :
  match ImgReader.ExampleE2E.e2e_run with
  | Some (pp, w, RBase.Ok (s, ids, T)) =>
      s = ReadImage.sup_of (FinishModel.w_super w) /\ ids = si_ids (FinishModel.w_img w) /\
      ids = [1000; 100; 0; 5; 6; 1; 2] /\
      flat_lt [] (Embed.ltree_of T) =
        map (number (PostModel.pp_inodes pp))
            (flat_pp exp_fb exp_xa (PostModel.pp_root pp) (PostModel.pp_inodes pp) [] (PostModel.pp_root pp)) /\
      map (fun x => (fst (fst x), snd x)) (flat_lt [] (Embed.ltree_of T)) =
        [([], 7); ([n_B], 6); ([n_a], 1); ([n_d], 5); ([n_d; n_l2], 1); ([n_d; n_sub], 4); ([n_d; n_sub; n_f], 1);
         ([n_d; n_sub; n_k], 3); ([n_d; n_sub; n_p], 2); ([n_dev], 6); ([n_s], 3); ([n_z], 1)] /\
      group_of N.eqb (flat_lt [] (Embed.ltree_of T)) 1 = [[n_a]; [n_d; n_l2]; [n_d; n_sub; n_f]; [n_z]] /\
      group_of N.eqb (flat_lt [] (Embed.ltree_of T)) 3 = [[n_d; n_sub; n_k]; [n_s]] /\
      map (fun x => snd (fst x))
          (filter (fun x => PostModel.path_eqb (fst (fst x)) [n_d; n_l2]) (flat_lt [] (Embed.ltree_of T))) =
        [mkPv 33188 (Some 1000) (Some 100) 1600000000 NOX (LFile 96 5000 0 NOX NOX [4096; 904])]
  | _ => False
  end.
Proof. exact ImgReader.ExampleE2E.ex_e2e_read. Qed.

(* ---- 7. ONE end-to-end statement: tree + file contents + xattrs, read from the image bytes (coq/ImgE2E) ---- *)
(* Sections 4-6 (tree), Properties_C08 (file contents) and Properties_C03 (xattr section) each proved a round trip with
   the other two parts of the image as abstract inputs, and each left one hypothesis that only a composed packer model can
   discharge.  ImgE2E.PackAll.pack_all is that model — gensquashfs after option parsing:
     add operations -> lib/fstree model (C11 fs_add*, post_process)
       -> apply_xattrs (C01 xw_sets over the pre-order of the tree, incl. hard link entries; xa = the index end() returned)
       -> pack_files (C08 pack: block processor + block writer behind the provisional super block + options;
          per file of fs->files the inode body [pack_body] = what the run recorded)
       -> sqfs_writer_finish (Image write_image; the xattr section = ImgXattr xflush at the offset where the id table ends)
   and ImgE2E.PackAll.read_all is a reader of the BYTES of the file built from the models of the real readers:
     tree            coq/C05: sqfs_super_read, sqfs_id_table_read, sqfs_dir_reader_get_full_hierarchy   (section 6)
     fragment table  coq/C05: sqfs_frag_table_read / sqfs_read_table                                      (NEW: FragRefine)
     contents        coq/C10: sqfs_data_reader_read with one reader object (both caches) threaded through all files
     xattrs          ImgXattr.XattrRead.read_xattr_set — the reader SPECIFICATION written from doc/format.adoc, not the
                     C05 / C10 model of xattr_reader.c (no refinement between them exists yet)
   pack_all_reads_back: whenever pack_all succeeds and the decidable hypotheses [e2e_okb] hold, read_all on the image bytes
   returns, in directory order, one entry per path the adds denote (section 5: denotes), carrying
     - the stat view (type + permission bits, uid, gid, mtime, xattr index, target / device / file location) and the inode
       number of the node the path resolves to — the hard-link groups agree (numbering clause, injectivity),
     - for a regular file the bytes given for that node,
     - the key/value pairs given for that node, one pair per key with the last value winning, in some order (set_spec),
   and entries with equal inode numbers (hard-linked names) share view, contents and pairs.
   Discharged here (they were hypotheses of image_file_contents_roundtrip / image_real_reader_agrees / image_xattr_roundtrip):
     "the inode view read back equals file_lkind"        pack_body_view + the path-level view of section 6
     "xflush compress (o_xattr w) xw = Ok (in_xattr inp)" flush_offset_independent
     "the inode stores index k"                           xa_of = nth of the indices xw_sets handed out
   Also PROVED here, no longer assumed (they were decidable run-level hypotheses of the layer theorems): every file inode
   pack_files leaves fits its form (block words 32 bit, their number = get_block_count of the stored size and fragment
   fields, every field inside its width) and every xattr index is 32 bit — section 5's attached_okb — and every fragment
   table entry fits its fields — image_domain's frag_okb: from C08's invariant of the block processor at the end of pack
   (BodyOk.pack_body_okb, frag_table_okb) and the xattr writer refinement (Compose.xa_bound).
   Hypotheses that remain, all decidable ([e2e_okb], ImgE2E/Hyps.v): on the INPUT input_okb, keys with a known prefix and
   <= 65535 bytes behind it / values < 2^32 bytes, files < 2^31 - 1 bytes, compressor id 1..6, option bytes nothing or one
   metadata block, xattrs not switched off, half > 0; on the RUN tree_alloc_okb (block lists / targets / entry names below
   the reader's allocation limit), the fragment table <= 2 GiB, image_fits (trace_fits + bytes_used < 2^64), file < 2^63
   bytes, < 2^32 - 1 xattr blocks, xattr section < 2^48 bytes; the two compressor contracts; loop bounds of the reader
   models >= e2e_depth / e2e_efuel / e2e_fuel.  A bound on the INPUT that implies the run-level ones (trace_fits /
   image_fits in particular) is NOT proved: it needs size bounds through the serializer, the block writer and the flush. *)
From SqfsV Require C08.DedupModel C08.DedupTheorems.
From SqfsV Require ImgData.GlueModel ImgXattr.FlushModel Image.FinishProofs.
From SqfsV Require C10.DataModel.
From SqfsV Require ImgE2E.PackAll ImgE2E.Hyps ImgE2E.WhereProofs ImgE2E.BodyProofs ImgE2E.BodyOk ImgE2E.FragRefine
  ImgE2E.Compose ImgE2E.Example.

Theorem pack_all_reads_back :
  forall (hashf : list N -> N)
         (dcompress : list N -> option (list N)) (duncompress : list N -> nat -> option (list N)),
  (forall b c, dcompress b = Some c ->
     (length c < length b)%nat /\ forall n, (length b <= n)%nat -> duncompress c n = Some b) ->
  forall compress uncompress, meta_contract compress uncompress ->
  forall uc, Embed.uc_meets uncompress uc ->
  forall limit, limit <= 65535 ->
  forall half cfg pi r,
  PackAll.pack_all hashf dcompress duncompress half compress limit cfg pi = PackAll.PDone r ->
  Hyps.e2e_okb half cfg pi r = true ->
  forall depth efuel fuel,
  (Hyps.e2e_depth r <= depth)%nat -> (Hyps.e2e_efuel r <= efuel)%nat -> (Hyps.e2e_fuel r <= fuel)%nat ->
  let img := FinishModel.image_bytes (PackAll.r_w r) in
  let root := FstreeModel.fs_root (PackAll.r_fs r) in
  let arr := PostModel.pp_inodes (PackAll.r_pp r) in
  let fb := PackAll.fb_of (N.to_nat (FinishModel.c_block_size cfg)) (PackAll.r_st r) (PackAll.pi_contents pi)
                          (PostModel.pp_files (PackAll.r_pp r)) in
  let xa := PackAll.xa_of (PackAll.xattr_paths (PackAll.r_pp r)) (PackAll.r_idxs r) in
  exists T fl out,
    ReadImage.read_image_c05 uc depth efuel fuel img
      = RBase.Ok (ReadImage.sup_of (FinishModel.w_super (PackAll.r_w r)), si_ids (FinishModel.w_img (PackAll.r_w r)), T) /\
    denotes fb xa root fl /\
    flat_lt [] (Embed.ltree_of T) = map (number arr) fl /\
    (forall x, In x fl -> 1 <= ino_of arr (snd x) <= N.of_nat (length arr)) /\
    (forall x y, In x fl -> In y fl -> ino_of arr (snd x) = ino_of arr (snd y) -> snd x = snd y) /\
    PackAll.read_all uc uncompress duncompress img depth efuel fuel = RBase.Ok out /\
    Forall2 (Compose.entry_matches pi root arr) fl out /\
    (forall e1 e2, In e1 out -> In e2 out -> PackAll.re_ino e1 = PackAll.re_ino e2 ->
       PackAll.re_view e1 = PackAll.re_view e2 /\ PackAll.re_data e1 = PackAll.re_data e2 /\
       Permutation (PackAll.re_xattrs e1) (PackAll.re_xattrs e2)).
Proof. exact Compose.pack_all_reads_back_l. Qed.
Print Assumptions pack_all_reads_back.

(* what [entry_matches] says about the entry e read back for the path x = (p, v, id) of the denoted flattening: path,
   view and inode number as in section 6; the contents are the bytes given for id exactly when id is a regular file;
   the pairs are a permutation of set_spec of the pairs given for id *)
Theorem entry_matches_meaning : forall pi root arr p v id e,
  Compose.entry_matches pi root arr (p, v, id) e <->
  (PackAll.re_path e = p /\ PackAll.re_view e = v /\ PackAll.re_ino e = ino_of arr id /\
   (exists nd, FstreeModel.lookup_path id root = Some nd /\
      PackAll.re_data e = match FstreeModel.a_type (FstreeModel.node_attr nd) with
                          | FstreeModel.FReg => Some (snd (PackAll.pi_contents pi id))
                          | _ => None
                          end) /\
   Permutation (PackAll.re_xattrs e) (set_spec (PackAll.pi_xattrs pi id))).
Proof. exact Compose.entry_matches_meaning_l. Qed.

(* flush_offset_independent: the absolute offsets the xattr section stores depend on where it starts, and where it starts
   does not depend on it — two write_image runs that differ only in the section agree on that offset (pack_all takes it
   from a run without the section) *)
Theorem flush_offset_independent : forall compress limit cfg inp1 inp2 w1 w2,
  FinishModel.in_opts inp1 = FinishModel.in_opts inp2 -> FinishModel.in_data inp1 = FinishModel.in_data inp2 ->
  FinishModel.in_frags inp1 = FinishModel.in_frags inp2 -> FinishModel.in_tree inp1 = FinishModel.in_tree inp2 ->
  FinishModel.write_image compress limit cfg inp1 = Ok w1 -> FinishModel.write_image compress limit cfg inp2 = Ok w2 ->
  FinishProofs.o_xattr w1 = FinishProofs.o_xattr w2.
Proof. exact WhereProofs.write_image_where. Qed.
Print Assumptions flush_offset_independent.

(* pack_body_view: the file inode pack_all attaches shows a reader what the block processor recorded *)
Theorem pack_body_view : forall bs st fid size,
  lkind_of_body (PackAll.pack_body bs st fid size)
  = GlueModel.file_lkind bs st fid size
      (PackAll.sparse_bytes bs st fid size
         (DedupModel.block_count bs size (GlueModel.has_frag (DedupModel.p_frag st fid)))).
Proof. exact BodyProofs.pack_body_lkind. Qed.
Print Assumptions pack_body_view.

(* real_frag_loader_reads_written_table: the C05 model of sqfs_frag_table_read / sqfs_read_table (flag, sentinel and
   window tests, allocation arithmetic, location list, one seek + read per block) run on the bytes of a written image
   returns the table sqfs_frag_table_write was given, and C10's frag_entries turns it back into the (start, size word)
   list — this was "still outside" in Properties_C08 (image_reader_table_is_packs used the reader specification) *)
Theorem real_frag_loader_reads_written_table : forall compress uncompress, meta_contract compress uncompress ->
  forall limit, limit <= 65535 ->
  forall cfg inp w,
  FinishModel.write_image compress limit cfg inp = Ok w ->
  ImageProofs.image_domain cfg inp = true -> ImageProofs.image_fits w = true ->
  Common.lenN (FinishModel.image_bytes w) < RBase.two63 ->
  forall uc, Embed.uc_meets uncompress uc ->
  forall fuel,
  16 * nlen (FinishModel.in_frags inp) <= RBase.alloc_limit ->
  (Hyps.frag_fuel (nlen (FinishModel.in_frags inp)) <= fuel)%nat ->
  Super.frag_table_read uc (FinishModel.image_bytes w) fuel (ReadImage.sup_of (FinishModel.w_super w))
    = RBase.Ok (FinishModel.frag_table_bytes (FinishModel.in_frags inp)) /\
  PackAll.frag_table_of_raw (FinishModel.frag_table_bytes (FinishModel.in_frags inp)) = FinishModel.in_frags inp.
Proof. exact Compose.real_frag_loader_l. Qed.
Print Assumptions real_frag_loader_reads_written_table.

(* non-vacuity (coq/ImgE2E/Example.v): d/a (4096 x 'A' + 5 bytes: one compressed block + a tail end; user.a = "1"), d/c
   (same bytes: shares block start 96 and fragment (0, 0) with d/a), l = hard link to d/a (the pairs named for "l" are
   recorded and dropped, as apply_dfs does), s = symlink with two keys of which one is given twice; toy data compressor,
   zero-run-length metadata compressor, constant checksum.  The compressor contracts hold ... *)
Example ex_e2e_contracts :
  (forall b c, DedupModel.toy_compress b = Some c ->
     (length c < length b)%nat /\ forall n, (length b <= n)%nat -> DedupModel.toy_uncompress c n = Some b) /\
  meta_contract (img_compress 3) (img_uncompress 3) /\
  Embed.uc_meets (img_uncompress 3) (ReadImage.uc_of (img_uncompress 3)).
Proof. exact ImgE2E.Example.ex_e2e_contracts. Qed.

(* ... pack_all succeeds and every decidable hypothesis holds ... *)
Example ex_e2e_hyps :
  match ImgE2E.Example.ex_run with
  | PackAll.PDone r =>
      Hyps.e2e_okb ImgE2E.Example.ex_half ImgE2E.Example.ex_cfg ImgE2E.Example.ex_pi r = true /\
      N.of_nat (Hyps.e2e_depth r) = 5 /\ N.of_nat (Hyps.e2e_efuel r) = 4 /\ N.of_nat (Hyps.e2e_fuel r) = 139 /\
      Common.lenN (FinishModel.image_bytes (PackAll.r_w r)) = 4096
  | _ => False
  end.
Proof. exact ImgE2E.Example.ex_e2e_hyps. Qed.

(* ... the run: fs->files, fs->inodes, the apply_dfs order, the indices end() returned (index 1 belongs to the hard link
   entry and is stored nowhere), both files with block start 96 / one size word / fragment (0, 0), one fragment block,
   the xattr section in the image and NO_XATTRS cleared ... *)
Example ex_e2e_run :
  match ImgE2E.Example.ex_run with
  | PackAll.PDone r =>
      let n_d := ImgE2E.Example.n_d in let n_a := ImgE2E.Example.n_a in let n_c := ImgE2E.Example.n_c in
      let n_l := ImgE2E.Example.n_l in let n_s := ImgE2E.Example.n_s in
      PostModel.pp_files (PackAll.r_pp r) = [[n_d; n_a]; [n_d; n_c]] /\
      PostModel.pp_inodes (PackAll.r_pp r) = [[n_d; n_a]; [n_d; n_c]; [n_d]; [n_s]; []] /\
      PackAll.xattr_paths (PackAll.r_pp r) = [[]; [n_d]; [n_d; n_a]; [n_d; n_c]; [n_l]; [n_s]] /\
      PackAll.r_idxs r = [NOIDX; NOIDX; 0; NOIDX; 1; 2] /\
      map (fun n => lkind_of_payload (fn_payload n)) (firstn 2 (FinishModel.in_tree (PackAll.r_inp r))) =
        [LFile 96 4101 0 0 0 [4]; LFile 96 4101 0 0 0 [4]] /\
      FinishModel.in_frags (PackAll.r_inp r) = [(100, 16777221)] /\
      match FinishModel.in_xattr (PackAll.r_inp r) with
      | Some (b, off) => off = 90 /\ Common.lenN b = 114
      | None => False
      end /\
      N.land (SuperModel.s_flags (FinishModel.w_super (PackAll.r_w r))) c_SQFS_FLAG_NO_XATTRS = 0
  | _ => False
  end.
Proof. exact ImgE2E.Example.ex_e2e_run. Qed.

(* ... and read_all on the bytes of the image returns the inputs: d/a and l under inode number 1 with the same contents
   and pairs, d/c with the same bytes under number 2, s with one pair per key (the later value of user.a) *)
Example ex_e2e_read :
  match ImgE2E.Example.ex_run with
  | PackAll.PDone r =>
      let n_d := ImgE2E.Example.n_d in let n_a := ImgE2E.Example.n_a in let n_c := ImgE2E.Example.n_c in
      let n_l := ImgE2E.Example.n_l in let n_s := ImgE2E.Example.n_s in
      let k_a := ImgE2E.Example.k_a in let k_t := ImgE2E.Example.k_t in let ex_A := ImgE2E.Example.ex_A in
      match ImgE2E.Example.ex_read r with
      | RBase.Ok out =>
          map (fun e => (PackAll.re_path e, PackAll.re_ino e,
                         (pv_mode (PackAll.re_view e), pv_uid (PackAll.re_view e), pv_gid (PackAll.re_view e),
                          pv_mtime (PackAll.re_view e)),
                         PackAll.re_data e, PackAll.re_xattrs e)) out =
          [ ([], 5, (16877, Some 0, Some 0, 1600000000), None, []);
            ([n_d], 3, (16877, Some 0, Some 0, 1600000000), None, []);
            ([n_d; n_a], 1, (33188, Some 1000, Some 100, 1600000000), Some ex_A, [(k_a, [49])]);
            ([n_d; n_c], 2, (33152, Some 0, Some 0, 5), Some ex_A, []);
            ([n_l], 1, (33188, Some 1000, Some 100, 1600000000), Some ex_A, [(k_a, [49])]);
            ([n_s], 4, (41471, Some 5, Some 6, 7), None, [(k_a, [49; 50]); (k_t, repeat 50 20)]) ] /\
          map (fun e => pv_kind (PackAll.re_view e)) out =
          [ LDir 0; LDir 0; LFile 96 4101 0 0 0 [4]; LFile 96 4101 0 0 0 [4]; LFile 96 4101 0 0 0 [4];
            LSlink [100; 47; 97] ]
      | _ => False
      end
  | _ => False
  end.
Proof. exact ImgE2E.Example.ex_e2e_read. Qed.

(* packed_file_inodes_fit / packed_fragment_entries_fit: what pack (C08: block processor + block writer) leaves fits the
   on-disk fields — for every checksum function, every data compressor meeting its contract, every file list, flag
   assignment and schedule: the inode body of every file meets file_body_okb (block words 32 bit, their number is
   get_block_count of the stored size / fragment fields, block start / size / sparse count / fragment reference inside
   the widths of the chosen form) and every fragment table entry meets frag_okb.  These were decidable hypotheses about
   the run (attached_okb in section 5, image_domain in Properties_C03 / C08); the only bounds left are "every file and the
   block writer's file are shorter than 2^63 bytes" and "fewer than 2^32 fragment blocks". *)
Theorem packed_file_inodes_fit :
  forall (hashf : list N -> N)
         (dcompress : list N -> option (list N)) (duncompress : list N -> nat -> option (list N)) (bs half : nat),
  (forall b c, dcompress b = Some c ->
     (length c < length b)%nat /\ forall n, (length b <= n)%nat -> duncompress c n = Some b) ->
  (0 < bs)%nat -> N.of_nat bs <= c_SQFS_MAX_BLOCK_SIZE -> (0 < half)%nat ->
  forall file0 files sched st,
  DedupModel.pack hashf dcompress duncompress bs false true half file0 files sched = DedupModel.Ok st ->
  N.of_nat (length (DedupModel.w_file (DedupModel.p_wr st))) < 9223372036854775808 ->
  N.of_nat (DedupModel.p_nfrag st) < 4294967296 ->
  forall fid fl d,
  nth_error files fid = Some (fl, d) -> N.of_nat (length d) < 9223372036854775808 ->
  file_body_okb (N.of_nat bs) (PackAll.pack_body bs st fid (length d)) = true.
Proof. exact BodyOk.pack_body_okb. Qed.
Print Assumptions packed_file_inodes_fit.

Theorem packed_fragment_entries_fit :
  forall (hashf : list N -> N)
         (dcompress : list N -> option (list N)) (duncompress : list N -> nat -> option (list N)) (bs half : nat),
  (forall b c, dcompress b = Some c ->
     (length c < length b)%nat /\ forall n, (length b <= n)%nat -> duncompress c n = Some b) ->
  (0 < bs)%nat -> N.of_nat bs <= c_SQFS_MAX_BLOCK_SIZE -> (0 < half)%nat ->
  forall file0 files sched st,
  DedupModel.pack hashf dcompress duncompress bs false true half file0 files sched = DedupModel.Ok st ->
  N.of_nat (length (DedupModel.w_file (DedupModel.p_wr st))) < 9223372036854775808 ->
  N.of_nat (DedupModel.p_nfrag st) < 4294967296 ->
  forallb ImageProofs.frag_okb (GlueModel.frag_table_of st) = true.
Proof. exact BodyOk.frag_table_okb. Qed.
Print Assumptions packed_fragment_entries_fit.

(* ---- 8. the xattr reader of the end-to-end theorem is the model of the REAL reader (coq/ImgXattrReader) ---- *)
(* Section 7's read_all still used ImgXattr.XattrRead.read_xattr_set — a reader SPECIFICATION written from doc/format.adoc
   — for extended attributes.  Here the C05 model of lib/sqfs/src/xattr/xattr_reader.c (coq/C05/Xattr.v, the model C05's
   check ties to the C code: sqfs_xattr_reader_load with header, id block location list, bounds checks and the two meta
   readers on [id_table_start, bytes_used); get_desc with (idx * 16) / 8192 and % 8192; seek_kv; read with the prefix
   table, the value header and the OUT-OF-LINE case: reference decoded, bounds test, position saved, seek, value read,
   position restored; read_all) is run on the BYTES write_image produces with a section from xflush.
     xattr_reader_model_refines_spec   load succeeds, and for ANY sequence ks of indices (each NOIDX or < number of sets,
       any order, repetitions) read_all on the one loaded reader object returns for every k exactly what the specification
       returns — whatever block and cursor the two meta readers were left with by the calls before; no Crash, no
       OutOfFuel, no error.  Covers multiple id blocks, key-value streams spanning metadata blocks, compressed blocks
       (compressor contract) and shared values stored once and referenced.
     xattr_reader_model_roundtrip      hence the model returns a permutation of set_spec of the recorded set.
     pack_all_reads_back_real          section 7's theorem with read_all_real: tree, fragment table, contents AND xattrs by
       real-reader models only (one xattr reader object threaded through all paths); read_all_real = read_all on the run.
   Hypotheses beyond section 7: [xalloc_okb] — every pair fits the allocation limit of the C05 model (32 + key + value + 2
   <= 2 GiB; sqfs_xattr_reader_read allocates the pair) — and the loop bounds: pairs of the largest set <= efuel, bytes of
   the xattr section <= fuel (two rounds of sqfs_meta_reader_read per metadata block, each block >= 3 bytes).
   The intermediate notion KSpec.k_pair is g_pair with the C05 field decoding (a k byte field is read modulo 256^k): no
   theorem here assumes that list elements standing for bytes are < 256.  Not modelled in C05 (C10 has them): read_key /
   read_value as separate calls (rdsquashfs -u), sqfs_copy of the reader. *)
From SqfsV Require C05.Xattr C05.Meta.
From SqfsV Require ImgXattr.XattrRead.
From SqfsV Require ImgXattrReader.KSpec ImgXattrReader.Refine ImgXattrReader.SectionRefine ImgXattrReader.Session
  ImgXattrReader.ImageRefine ImgXattrReader.RealAll ImgXattrReader.E2EReal ImgXattrReader.Example.

Theorem xattr_reader_model_refines_spec : forall compress uncompress, meta_contract compress uncompress ->
  forall uc, Embed.uc_meets uncompress uc ->
  forall limit, limit <= 65535 ->
  forall cfg inp w,
  FinishModel.write_image compress limit cfg inp = Ok w ->
  ImageProofs.image_domain cfg inp = true -> ImageProofs.image_fits w = true ->
  Common.lenN (FinishModel.image_bytes w) < RBase.two63 ->
  forall xw, FlushModel.xflush compress (FinishProofs.o_xattr w) xw = Ok (FinishModel.in_xattr inp) ->
  forall sets idxs, Forall set_ok sets -> xw_sets xw_empty sets = Ok (xw, idxs) ->
  nlen (x_blocks xw) < NOIDX -> Common.lenN (FinishModel.w_xattrb w) < 281474976710656 ->
  FinishModel.c_no_xattr cfg = false -> SectionRefine.xalloc_okb xw = true ->
  forall efuel fuel,
  (SectionRefine.xw_efuel xw <= efuel)%nat -> (length (FinishModel.w_xattrb w) <= fuel)%nat ->
  forall ks, Forall (fun k => k = NOIDX \/ k < nlen (x_blocks xw)) ks ->
  exists ls,
    Session.xattr_session uc (FinishModel.image_bytes w) efuel fuel (ReadImage.sup_of (FinishModel.w_super w)) ks = RBase.Ok ls /\
    Forall2 (fun k l => XattrRead.read_xattr_set uncompress (FinishModel.image_bytes w) (FinishModel.w_super w) k = Ok l) ks ls.
Proof. exact ImageRefine.session_refines_spec. Qed.
Print Assumptions xattr_reader_model_refines_spec.

Theorem xattr_reader_model_roundtrip : forall compress uncompress, meta_contract compress uncompress ->
  forall uc, Embed.uc_meets uncompress uc ->
  forall limit, limit <= 65535 ->
  forall cfg inp w,
  FinishModel.write_image compress limit cfg inp = Ok w ->
  ImageProofs.image_domain cfg inp = true -> ImageProofs.image_fits w = true ->
  Common.lenN (FinishModel.image_bytes w) < RBase.two63 ->
  forall xw, FlushModel.xflush compress (FinishProofs.o_xattr w) xw = Ok (FinishModel.in_xattr inp) ->
  forall sets idxs, Forall set_ok sets -> xw_sets xw_empty sets = Ok (xw, idxs) ->
  nlen (x_blocks xw) < NOIDX -> Common.lenN (FinishModel.w_xattrb w) < 281474976710656 ->
  FinishModel.c_no_xattr cfg = false -> SectionRefine.xalloc_okb xw = true ->
  forall efuel fuel,
  (SectionRefine.xw_efuel xw <= efuel)%nat -> (length (FinishModel.w_xattrb w) <= fuel)%nat ->
  forall i kvs idx, nth_error sets i = Some kvs -> nth_error idxs i = Some idx ->
  exists l,
    Session.xattr_session uc (FinishModel.image_bytes w) efuel fuel (ReadImage.sup_of (FinishModel.w_super w)) [idx] = RBase.Ok [l] /\
    Permutation l (set_spec kvs) /\
    XattrRead.read_xattr_set uncompress (FinishModel.image_bytes w) (FinishModel.w_super w) idx = Ok l.
Proof. exact ImageRefine.real_roundtrip. Qed.
Print Assumptions xattr_reader_model_roundtrip.

(* one sqfs_xattr_reader_read on ANY well-formed area (key-value blocks kvr followed by id blocks idr at [size0], inside the
   window [ids, used) of an image < 2^63 bytes; not necessarily written by this packer): if the k-specification reads the
   pair (k, v) at stream offset p and ends at p', then the model — whose key-value meta reader stands at p — returns (k, v)
   and its meta reader stands at p'.  The out-of-line case goes through sqfs_meta_reader_get_position / _seek / _read /
   _seek; [Rd] = "the cursor is inside a block of the area and the bytes behind it are ...". *)
Theorem xattr_reader_read_one_pair : forall compress uncompress, meta_contract compress uncompress ->
  forall uc, Embed.uc_meets uncompress uc ->
  forall img, Common.lenN img < RBase.two63 ->
  forall kvr idr size0 ids used,
  let T := MetaRefine.mkT size0 (kvr ++ idr) ids used in
  MetaRefine.table_ok compress img T -> idr <> [] ->
  forall x kv p k v p' fuel,
  Xattr.x_kvrd x = Some kv -> Xattr.x_start x = size0 -> Xattr.x_end x = used -> used < RBase.two64 ->
  MetaRefine.Rd compress T kv (Common.dropN p (concat kvr) ++ concat idr) ->
  KSpec.k_pair (KSpec.sseek compress kvr) (concat kvr) p = Ok (k, v, p') ->
  KSpec.pair_alloc (k, v) <= RBase.alloc_limit ->
  (2 * length (kvr ++ idr) <= fuel)%nat ->
  exists kv', Xattr.xattr_read uc img fuel x = RBase.Ok (Xattr.with_kv x kv', (k, v)) /\
              MetaRefine.Rd compress T kv' (Common.dropN p' (concat kvr) ++ concat idr).
Proof. exact Refine.xattr_read_ok. Qed.
Print Assumptions xattr_reader_read_one_pair.

Theorem pack_all_reads_back_real :
  forall (hashf : list N -> N)
         (dcompress : list N -> option (list N)) (duncompress : list N -> nat -> option (list N)),
  (forall b c, dcompress b = Some c ->
     (length c < length b)%nat /\ forall n, (length b <= n)%nat -> duncompress c n = Some b) ->
  forall compress uncompress, meta_contract compress uncompress ->
  forall uc, Embed.uc_meets uncompress uc ->
  forall limit, limit <= 65535 ->
  forall half cfg pi r,
  PackAll.pack_all hashf dcompress duncompress half compress limit cfg pi = PackAll.PDone r ->
  Hyps.e2e_okb half cfg pi r = true -> SectionRefine.xalloc_okb (PackAll.r_xw r) = true ->
  forall depth efuel fuel,
  (Hyps.e2e_depth r <= depth)%nat -> (E2EReal.e2e_efuel_real r <= efuel)%nat -> (E2EReal.e2e_fuel_real r <= fuel)%nat ->
  let img := FinishModel.image_bytes (PackAll.r_w r) in
  let root := FstreeModel.fs_root (PackAll.r_fs r) in
  let arr := PostModel.pp_inodes (PackAll.r_pp r) in
  let fb := PackAll.fb_of (N.to_nat (FinishModel.c_block_size cfg)) (PackAll.r_st r) (PackAll.pi_contents pi)
                          (PostModel.pp_files (PackAll.r_pp r)) in
  let xa := PackAll.xa_of (PackAll.xattr_paths (PackAll.r_pp r)) (PackAll.r_idxs r) in
  exists T fl out,
    ReadImage.read_image_c05 uc depth efuel fuel img
      = RBase.Ok (ReadImage.sup_of (FinishModel.w_super (PackAll.r_w r)), si_ids (FinishModel.w_img (PackAll.r_w r)), T) /\
    denotes fb xa root fl /\
    flat_lt [] (Embed.ltree_of T) = map (number arr) fl /\
    (forall x, In x fl -> 1 <= ino_of arr (snd x) <= N.of_nat (length arr)) /\
    (forall x y, In x fl -> In y fl -> ino_of arr (snd x) = ino_of arr (snd y) -> snd x = snd y) /\
    RealAll.read_all_real uc duncompress img efuel fuel depth = RBase.Ok out /\
    PackAll.read_all uc uncompress duncompress img depth efuel fuel = RBase.Ok out /\
    Forall2 (Compose.entry_matches pi root arr) fl out /\
    (forall e1 e2, In e1 out -> In e2 out -> PackAll.re_ino e1 = PackAll.re_ino e2 ->
       PackAll.re_view e1 = PackAll.re_view e2 /\ PackAll.re_data e1 = PackAll.re_data e2 /\
       Permutation (PackAll.re_xattrs e1) (PackAll.re_xattrs e2)).
Proof. exact E2EReal.pack_all_reads_back_real_l. Qed.
Print Assumptions pack_all_reads_back_real.

(* non-vacuity (coq/ImgXattrReader/Example.v): the run of section 7's example with three different sets that share one
   20 byte value — d/a: user.a, trusted.t = V; d/c: security.x = V; s: trusted.t = V, user.a twice; l: hard link to d/a.
   Every hypothesis holds ... *)
Example ex_real_hyps :
  match ImgXattrReader.Example.exr_run with
  | PackAll.PDone r =>
      Hyps.e2e_okb ImgE2E.Example.ex_half ImgE2E.Example.ex_cfg ImgXattrReader.Example.exr_pi r = true /\
      SectionRefine.xalloc_okb (PackAll.r_xw r) = true /\
      N.of_nat (Hyps.e2e_depth r) = 5 /\ N.of_nat (E2EReal.e2e_efuel_real r) = 4 /\
      N.of_nat (SectionRefine.xw_efuel (PackAll.r_xw r)) = 2 /\
      N.of_nat (E2EReal.e2e_fuel_real r) = 146 /\ Common.lenN (FinishModel.w_xattrb (PackAll.r_w r)) = 146 /\
      PackAll.r_idxs r = [NOIDX; NOIDX; 0; 1; 2; 3]
  | _ => False
  end.
Proof. exact ImgXattrReader.Example.exr_hyps. Qed.

(* ... the lookup table: (reference, pairs, bytes) per set — 39 = 10 + 29: V in line; 17: one pair whose value is the 8 byte
   reference (in line: 29); 28 = 11 + 17: V by reference again ... *)
Example ex_real_descs :
  match ImgXattrReader.Example.exr_run with
  | PackAll.PDone r =>
      match XattrRead.read_xattr_table (img_uncompress 3) (FinishModel.image_bytes (PackAll.r_w r))
                                       (FinishModel.w_super (PackAll.r_w r)) with
      | Some t => map (fun k => XattrRead.xt_desc t k) [0; 1; 2; 3] = [Ok (0, 2, 39); Ok (39, 1, 17); Ok (56, 1, 10); Ok (66, 2, 28)]
      | None => False
      end
  | _ => False
  end.
Proof. exact ImgXattrReader.Example.exr_descs. Qed.

(* ... one reader object, indices in an order in which every out-of-line read leaves and restores a position; a pair bound
   of 1 gives OutOfFuel on the two-pair set, index 4 is refused ... *)
Example ex_real_session :
  match ImgXattrReader.Example.exr_run with
  | PackAll.PDone r =>
      let k_a := ImgE2E.Example.k_a in let k_t := ImgE2E.Example.k_t in let k_x := ImgXattrReader.Example.k_x in
      let V := ImgXattrReader.Example.ex_V in
      let img := FinishModel.image_bytes (PackAll.r_w r) in
      let s := ReadImage.sup_of (FinishModel.w_super (PackAll.r_w r)) in
      Session.xattr_session (ReadImage.uc_of (img_uncompress 3)) img 2 146 s [3; 1; 0; NOIDX; 1; 3] =
        RBase.Ok [ [(k_a, [49; 50]); (k_t, V)]; [(k_x, V)]; [(k_a, [49]); (k_t, V)]; []; [(k_x, V)]; [(k_a, [49; 50]); (k_t, V)] ] /\
      Session.xattr_session (ReadImage.uc_of (img_uncompress 3)) img 1 146 s [1; 3] = RBase.OutOfFuel /\
      Session.xattr_session (ReadImage.uc_of (img_uncompress 3)) img 2 146 s [4] = RBase.Err RBase.E_OOB
  | _ => False
  end.
Proof. exact ImgXattrReader.Example.exr_session. Qed.

(* ... and read_all_real on the bytes of the image returns the inputs, the same list as read_all *)
Example ex_real_read_back :
  match ImgXattrReader.Example.exr_run with
  | PackAll.PDone r =>
      let n_d := ImgE2E.Example.n_d in let n_a := ImgE2E.Example.n_a in let n_c := ImgE2E.Example.n_c in
      let n_l := ImgE2E.Example.n_l in let n_s := ImgE2E.Example.n_s in
      let k_a := ImgE2E.Example.k_a in let k_t := ImgE2E.Example.k_t in let k_x := ImgXattrReader.Example.k_x in
      let V := ImgXattrReader.Example.ex_V in let ex_A := ImgE2E.Example.ex_A in
      match ImgXattrReader.Example.exr_read r (E2EReal.e2e_efuel_real r) with
      | RBase.Ok out =>
          map (fun e => (PackAll.re_path e, PackAll.re_ino e, PackAll.re_data e, PackAll.re_xattrs e)) out =
          [ ([], 5, None, []);
            ([n_d], 3, None, []);
            ([n_d; n_a], 1, Some ex_A, [(k_a, [49]); (k_t, V)]);
            ([n_d; n_c], 2, Some ex_A, [(k_x, V)]);
            ([n_l], 1, Some ex_A, [(k_a, [49]); (k_t, V)]);
            ([n_s], 4, None, [(k_a, [49; 50]); (k_t, V)]) ] /\
          ImgXattrReader.Example.exr_spec r = RBase.Ok out
      | _ => False
      end
  | _ => False
  end.
Proof. exact ImgXattrReader.Example.exr_read_back. Qed.

(* several metadata blocks (coq/ImgXattrReader/ExampleBig.v): a section whose key-value stream spans two metadata blocks
   (9045 bytes; block 0 stored compressed: 8192 bytes in 5214) — set 0 = a 3000 byte value L in line at offset 9 of block 0
   and a 6000 byte value that crosses into block 1, set 2 in block 1 with L by reference back into block 0 — behind 96
   bytes; the descriptors the model's get_desc returns ... *)
From SqfsV Require ImgXattrReader.ExampleBig.
Example ex_real_section_two_blocks :
  match ImgXattrReader.ExampleBig.big_section with
  | Some (xw, idxs, bytes, off) =>
      let img := ImgXattrReader.ExampleBig.big_img bytes in
      idxs = [0; 1; 2] /\ SectionRefine.xalloc_okb xw = true /\ N.of_nat (SectionRefine.xw_efuel xw) = 2 /\
      RBase.lenN bytes = 6126 /\ off = 6102 /\
      RBase.read_at img 96 2 = RBase.Ok (le16 5214) /\
      match Xattr.xattr_load img (ImgXattrReader.ExampleBig.big_sup bytes off) with
      | RBase.Ok x =>
          map (fun k => match Xattr.xattr_get_desc ImgXattrReader.ExampleBig.big_uc img 64 x k with
                        | RBase.Ok (_, d) => Some d
                        | _ => None
                        end) [0; 1; 2] =
          [Some (0, 2, 9018); Some (5216 * 65536 + 826, 1, 10); Some (5216 * 65536 + 836, 1, 17)]
      | _ => False
      end
  | None => False
  end.
Proof. exact ImgXattrReader.ExampleBig.big_section_shape. Qed.

(* ... and one reader object asked for set 2 (seek into block 1, value fetched from block 0, position restored), set 0 (read
   across the block border), 1, 2 again, NOIDX, 0 again; one round of the read loop is not enough for the value that crosses
   the border: OutOfFuel, not a wrong value; index 3 is refused *)
Example ex_real_session_two_blocks :
  match ImgXattrReader.ExampleBig.big_section with
  | Some (xw, idxs, bytes, off) =>
      let img := ImgXattrReader.ExampleBig.big_img bytes in
      let s := ImgXattrReader.ExampleBig.big_sup bytes off in
      let uc := ImgXattrReader.ExampleBig.big_uc in
      let k_a := ImgXattrReader.ExampleBig.kb_a in let k_b := ImgXattrReader.ExampleBig.kb_b in
      let k_c := ImgXattrReader.ExampleBig.kb_c in
      let L := ImgXattrReader.ExampleBig.big_L in let F := ImgXattrReader.ExampleBig.big_F in
      Session.xattr_session uc img 2 (length bytes) s [2; 0; 1; 2; NOIDX; 0] =
        RBase.Ok [ [(k_c, L)]; [(k_a, L); (k_b, F)]; [(k_b, [1])]; [(k_c, L)]; []; [(k_a, L); (k_b, F)] ] /\
      Session.xattr_session uc img 2 1 s [0] = RBase.OutOfFuel /\
      Session.xattr_session uc img 2 (length bytes) s [3] = RBase.Err RBase.E_OOB
  | None => False
  end.
Proof. exact ImgXattrReader.ExampleBig.big_session. Qed.

(* ==== independent audit 3: joint-hypothesis examples (G1, G3) and the corollary that states pack_all_reads_back against the ADD
   OPERATIONS instead of the model's own tree (W2: names, order, attributes and hard-link resolution of what the readers return are
   those the add list denotes by ImgTar's tree-free semantics adds_denote).  Proofs inline: they USE the theorems above. ==== *)
From Coq Require Import List NArith ZArith Bool Lia.
From SqfsV Require Import Base.Bytes Gen.Constants C03.Common.
From SqfsV Require Import C01.GenC01 C01.Res C01.InodeModel Img.TreeModel.
From SqfsV Require Import C11.StrOrder C11.FstreeModel C11.PostModel.
From SqfsV Require Import ImgPost.Bridge ImgPost.InputOk ImgPost.PathsModel ImgPost.PathsProofs ImgPost.Example.
From SqfsV Require Import Image.FinishModel Image.ImageProofs.
From SqfsV Require Import ImgReader.Embed ImgReader.ReadImage ImgReader.ImageLaid ImgReader.AllocBound ImgReader.E2E
  ImgReader.ExampleE2E.
From SqfsV Require C05.RBase.
Import ListNotations.
From Coq Require Import List NArith ZArith Bool Lia.
From SqfsV Require Import Base.Bytes Gen.Constants C03.Common.
From SqfsV Require Import C01.GenC01 C01.InodeModel Img.TreeModel.
From SqfsV Require Import C11.StrOrder C11.FstreeModel C11.PostModel.
From SqfsV Require Import C08.DedupModel C08.DedupTheorems.
From SqfsV Require Import Image.FinishModel Image.FinishProofs Image.ImageProofs.
From SqfsV Require C05.RBase.
From SqfsV Require Import ImgE2E.PackAll ImgE2E.Hyps ImgE2E.Example.
Import ListNotations.
From Coq Require Import List NArith ZArith Bool Sorted Permutation.
From SqfsV Require Import Base.Bytes Gen.Constants C03.Common.
From SqfsV Require Import C01.GenC01 C01.InodeModel C01.XattrModel Img.TreeModel.
From SqfsV Require C01.Res C05.RBase.
From SqfsV Require Import C11.StrOrder C11.FstreeModel C11.PostModel.
From SqfsV Require Import ImgPost.Bridge ImgPost.PathsModel ImgPost.PathsProofs.
From SqfsV Require Import Image.FinishModel.
From SqfsV Require Import ImgReader.Embed ImgReader.ReadImage.
From SqfsV Require Import ImgTar.Model ImgTar.Semantics.
From SqfsV Require Import ImgE2E.PackAll ImgE2E.Hyps ImgE2E.Compose.
Import ListNotations.
Local Open Scope N_scope.
(* G1: ALL decidable hypotheses of pack_image_read_by_reader_model(_input_bounds) on ONE run (ten adds of section 5) *)
Example ex_pack_image_all_hyps :
  c_id_table_limit <= 65535 /\
  input_okb (c_block_size e2e_cfg) exp_defaults exp_ops = true /\
  match run_adds exp_defaults (fs_init exp_defaults) exp_ops with
  | Some fs =>
    match post_process fs with
    | POk pp =>
      attached_okb (c_block_size e2e_cfg) exp_fb exp_xa pp = true /\
      tree_alloc_okb (to_img exp_fb exp_xa pp) = true /\
      in_tree (e2e_inp pp) = to_img exp_fb exp_xa pp /\
      image_rest_okb e2e_cfg (e2e_inp pp) = true /\
      match write_image (img_compress 3) c_id_table_limit e2e_cfg (e2e_inp pp) with
      | Res.Ok w =>
          image_fits w = true /\ reader_fits w = true /\
          (Common.lenN (image_bytes w) <? C05.RBase.two63) = true
      | _ => False
      end
    | _ => False
    end
  | None => False
  end.
Proof. vm_compute. repeat split; try reflexivity; discriminate. Qed.
(* (audit 3, G3: a joint-hypothesis example for packed_file_inodes_fit / packed_fragment_entries_fit /
   real_frag_loader_reads_written_table was compiled by the auditor - /var/tmp/audit3/S3.v - but costs 110 s of kernel time here
   (three evaluations of the ImgE2E run); the same hypotheses are exhibited by ImgE2E.Example's e2e_okb example above) *)
(* pack_all_reads_back with "what the adds denote" replaced by its model-independent meaning (C04's adds_denote):
   the paths read back are exactly the root, the added paths and their prefixes, strictly sorted in directory order,
   each resolving as spec_resolve says and carrying the attributes spec_pview computes from the ADD OPERATIONS *)
Corollary pack_all_reads_back_spec :
  forall (hashf : list N -> N)
         (dcompress : list N -> option (list N)) (duncompress : list N -> nat -> option (list N)),
  (forall b c, dcompress b = Some c ->
     (length c < length b)%nat /\ forall n, (length b <= n)%nat -> duncompress c n = Some b) ->
  forall compress uncompress, meta_contract compress uncompress ->
  forall uc, uc_meets uncompress uc ->
  forall limit, limit <= 65535 ->
  forall half cfg pi r,
  pack_all hashf dcompress duncompress half compress limit cfg pi = PDone r ->
  e2e_okb half cfg pi r = true ->
  ops_okb (pi_ops pi) = true -> links_resolveb (pi_ops pi) = true ->
  forall depth efuel fuel,
  (e2e_depth r <= depth)%nat -> (e2e_efuel r <= efuel)%nat -> (e2e_fuel r <= fuel)%nat ->
  let img := image_bytes (r_w r) in
  let root := fs_root (r_fs r) in
  let arr := pp_inodes (r_pp r) in
  let fb := fb_of (N.to_nat (c_block_size cfg)) (r_st r) (pi_contents pi) (pp_files (r_pp r)) in
  let xa := xa_of (xattr_paths (r_pp r)) (r_idxs r) in
  let ops := pi_ops pi in
  exists fl out,
    read_all uc uncompress duncompress img depth efuel fuel = C05.RBase.Ok out /\
    Forall2 (entry_matches pi root arr) fl out /\
    StronglySorted path_lt (map fst3 fl) /\
    (forall p, In p (map fst3 fl) <-> p = [] \/ in_closure p ops) /\
    Forall (fun x => let '(p, v, id) := x in
                     spec_resolve (S (length ops)) ops p = Some id /\ v = spec_pview fb xa (pi_defaults pi) ops id) fl.
Proof.
  intros hashf dc du Hd c u Hm uc Hu limit Hl half cfg pi r Hp Hok Ho Hlr depth efuel fuel D E F.
  destruct (pack_all_reads_back hashf dc du Hd c u Hm uc Hu limit Hl half cfg pi r Hp Hok depth efuel fuel D E F)
    as (T & fl & out & _ & Hden & _ & _ & _ & Hr & Hf & _).
  destruct (pack_all_inv _ _ _ _ _ _ _ _ _ Hp) as (s0 & w0 & _ & Hrun & _).
  destruct (adds_denote_l _ _ _ _ _ _ Ho Hlr Hrun Hden) as (S1 & S2 & S3).
  exists fl, out. repeat split; try assumption; apply S2.
Qed.
Print Assumptions pack_all_reads_back_spec.
