(* C19 - copies of libsquashfs objects are independent, equivalent to the
   original and safely destroyable in either order.  Statements only; every
   proof is one [exact] of a lemma from C19/*.v (or a closed computation).

   Layer (ii): heap of cells (C19/ObjHeap.v), sqfs_copy / sqfs_drop driven by the
   per-kind transcription of the C hooks (C19/ObjHooks.v, C19/ObjKinds.v).
   Layer (i): pointer-free abstraction [abs_obj] (C19/ObjSpec.v) and the pure
   machines of C19/ObjMach.v. *)
From Coq Require Import List NArith ZArith Bool Arith.
From SqfsV Require Import C19.ObjHeap C19.ObjHooks C19.ObjKinds C19.ObjSpec C19.ObjCheckDefs
     C19.ObjBase C19.ObjFrame C19.ObjDrop C19.ObjCopyBase C19.ObjCopy C19.ObjCopy4 C19.ObjPair
     C19.ObjCheck C19.ObjOps C19.ObjTouch C19.ObjInst C19.ObjMach.
Import ListNotations.

(* ---- the transcribed hooks of every kind match the struct layouts ---- *)
Theorem hooks_fixed_ok : hooks_ok HK_fixed = true.
Proof. vm_compute. reflexivity. Qed.
Print Assumptions hooks_fixed_ok.

(* ---- copy_wellformed ----
   For every hook table matching the layouts, every well-formed object of every
   kind and nesting depth, in every heap: sqfs_copy succeeds without fault and
   returns a new object [c = length h] such that
   - c is well-formed of the same kind: header with non-NULL destroy and copy,
     typed fields, every internal pointer of c and of its cells points to a cell
     of c ([wf_obj]); its reference count is 1;
   - all cells of c are fresh (allocated by this copy) and owned once;
   - every pre-existing cell is unchanged, except that each shared object got
     one more reference per reference the original holds ([grown]);
   - original and copy form a separated pair ([pair_inv]). *)
Theorem copy_wellformed : forall HK, hooks_ok HK = true ->
  forall n fuel h o k,
    n <= fuel -> wf_obj n h o k -> sep_obj n h o -> slack h (all_refs n h o) ->
    exists h',
      sqfs_copy HK fuel h o = Ok (h', Some (length h)) /\
      grown (length h) (all_refs n h o) h h' /\
      wf_obj n h' (length h) k /\ rc_of h' (length h) = 1%N /\
      (forall x, In x (fp n h' (length h)) -> length h <= x < length h') /\
      NoDup (fp n h' (length h)) /\
      all_refs n h' (length h) = all_refs n h o /\
      pair_inv n h' o (length h) k.
Proof.
  intros HK OK n fuel h o k Hf W S SL.
  destruct (copy_establishes HK OK n fuel h o k Hf W S SL) as (h' & E & G & SF & P & _).
  destruct SF as (A & B & C & D & E' & _). exists h'. auto 10.
Qed.
Print Assumptions copy_wellformed.

(* following the internal pointers of a well-formed object stays inside live cells *)
Theorem wellformed_pointers_live : forall n h a k, wf_obj n h a k -> touch_obj h a = Ok tt.
Proof. exact touch_wf_ok. Qed.
Print Assumptions wellformed_pointers_live.

(* ---- copy_refines_value ----
   The abstraction (layer (i) value) of the copy equals that of the original,
   and the original's abstraction is unchanged by the copy. *)
Theorem copy_refines_value : forall HK, hooks_ok HK = true ->
  forall n fuel h o k,
    n <= fuel -> wf_obj n h o k -> sep_obj n h o -> slack h (all_refs n h o) ->
    exists h',
      sqfs_copy HK fuel h o = Ok (h', Some (length h)) /\
      abs_obj n h' (length h) = abs_obj n h o /\
      abs_obj n h' o = abs_obj n h o.
Proof.
  intros HK OK n fuel h o k Hf W S SL.
  destruct (copy_establishes HK OK n fuel h o k Hf W S SL) as (h' & E & G & SF & P & _ & AO).
  destruct SF as (_ & _ & _ & _ & _ & AC). exists h'. auto.
Qed.
Print Assumptions copy_refines_value.

(* Operations on original and copy, interleaved in any way: every operation that
   is local to its object and a function of the abstract value ([local_op]) gives,
   on either side, the answers of the layer-(i) machine [step] run on that side's
   own operations only; the other side's abstraction is not affected; the pair
   stays separated. *)
Theorem interleaving_independent :
  forall (n : nat) (k : kind) (op ans : Type)
         (run : op -> heap -> addr -> heap * ans) (step : op -> aval -> aval * ans),
    local_op n k op ans run step ->
    forall s h o c h' rs,
      pair_inv n h o c k -> exec op ans run s h o c = (h', rs) ->
      pair_inv n h' o c k /\
      rc_of h' o = rc_of h o /\ rc_of h' c = rc_of h c /\
      abs_obj n h' o = fst (exec_abs op ans step (side true s) (abs_obj n h o)) /\
      side true rs = snd (exec_abs op ans step (side true s) (abs_obj n h o)) /\
      abs_obj n h' c = fst (exec_abs op ans step (side false s) (abs_obj n h c)) /\
      side false rs = snd (exec_abs op ans step (side false s) (abs_obj n h c)).
Proof. exact ObjOps.interleaving_independent. Qed.
Print Assumptions interleaving_independent.

(* ---- release_safe ----
   A separated pair can be released in either order: no call through NULL, no
   access to a freed cell, no double free (the result is [Ok]); afterwards every
   cell of both footprints is freed, every other cell is unchanged except that
   each shared object lost exactly the references the two objects held; both
   orders end in the same heap. *)
Theorem release_safe : forall HK, hooks_ok HK = true ->
  forall n fuel h o c k,
    n + 1 <= fuel -> pair_inv n h o c k -> (rc_of h o <= 1)%N -> (rc_of h c <= 1)%N ->
    exists h1 h2 h1' h2',
      sqfs_drop DK fuel h o = Ok h1 /\ sqfs_drop DK fuel h1 c = Ok h2 /\
      sqfs_drop DK fuel h c = Ok h1' /\ sqfs_drop DK fuel h1' o = Ok h2' /\
      h2' = h2 /\
      released h h2 (fp n h o ++ fp n h c) (all_refs n h o ++ all_refs n h c).
Proof. exact release_either_order. Qed.
Print Assumptions release_safe.

(* the hypothesis [rc <= 1] of release_safe is the case in which a drop releases;
   when somebody else (e.g. a stream created from a data reader) still holds the
   object a drop only decrements its count *)
Theorem drop_of_held_object_only_decrements : forall fuel h a,
    shared_ok h a -> (1 < rc_of h a)%N ->
    exists h', sqfs_drop DK (S fuel) h a = Ok h' /\ released h h' [] [a].
Proof. exact (drop_held DK). Qed.
Print Assumptions drop_of_held_object_only_decrements.

(* after the first release the survivor is exactly what it was: well-formed,
   same abstraction, internal pointers alive *)
Theorem survivor_intact : forall HK, hooks_ok HK = true ->
  forall n fuel h o c k,
    n + 1 <= fuel -> pair_inv n h o c k -> (rc_of h o <= 1)%N ->
    exists h1,
      sqfs_drop DK fuel h o = Ok h1 /\
      wf_obj n h1 c k /\ abs_obj n h1 c = abs_obj n h c /\ touch_obj h1 c = Ok tt.
Proof.
  intros HK OK n fuel h o c k Hf P R.
  destruct (drop_first HK OK n fuel h o c k Hf P R) as (h1 & E & _ & W & _ & _ & _ & _ & _ & A).
  exists h1. split; [assumption|]. split; [assumption|]. split; [assumption|].
  eapply touch_wf_ok; eauto.
Qed.
Print Assumptions survivor_intact.

(* the whole life cycle: copy, any interleaving of local operations, release in
   either order *)
Theorem copy_ops_release : forall HK, hooks_ok HK = true ->
  forall (n : nat) (k : kind) (op ans : Type)
         (run : op -> heap -> addr -> heap * ans) (step : op -> aval -> aval * ans),
    local_op n k op ans run step ->
    forall fuel h o s,
      n + 1 <= fuel -> wf_obj n h o k -> sep_obj n h o -> slack h (all_refs n h o) ->
      (rc_of h o <= 1)%N ->
      exists h1 h2 rs h3 h4,
        sqfs_copy HK fuel h o = Ok (h1, Some (length h)) /\
        exec op ans run s h1 o (length h) = (h2, rs) /\
        side true rs = snd (exec_abs op ans step (side true s) (abs_obj n h o)) /\
        side false rs = snd (exec_abs op ans step (side false s) (abs_obj n h o)) /\
        sqfs_drop DK fuel h2 o = Ok h3 /\ sqfs_drop DK fuel h3 (length h) = Ok h4 /\
        (exists h3', sqfs_drop DK fuel h2 (length h) = Ok h3' /\ sqfs_drop DK fuel h3' o = Ok h4) /\
        released h2 h4 (fp n h2 o ++ fp n h2 (length h)) (all_refs n h2 o ++ all_refs n h2 (length h)).
Proof. exact life_cycle. Qed.
Print Assumptions copy_ops_release.

(* the decidable checks the tie runs on every heap it builds imply the hypotheses *)
Theorem copyable_sound : forall n h a k,
    copyable n h a k = true -> wf_obj n h a k /\ sep_obj n h a /\ slack h (all_refs n h a).
Proof. exact copyable_ok. Qed.
Print Assumptions copyable_sound.

(* ---- the hooks of the unpatched tree (F19, F20) ---- *)

(* F19: frag_table_copy / id_table_copy calloc without sqfs_object_init: the
   copy's destroy pointer is NULL, dropping it calls NULL *)
Theorem frag_table_copy_null_destroy_refuted :
  exists h o, copyable 3 h o KFrag = true /\
    exists h1 c, sqfs_copy HK_old 3 h o = Ok (h1, Some c) /\ sqfs_drop DK 4 h1 c = Crash NullCall.
Proof. exists (fst (mk_table KFrag 1 2)), (snd (mk_table KFrag 1 2)). vm_compute. eauto. Qed.

Theorem id_table_copy_null_destroy_refuted :
  exists h o, copyable 3 h o KId = true /\
    exists h1 c, sqfs_copy HK_old 3 h o = Ok (h1, Some c) /\ sqfs_drop DK 4 h1 c = Crash NullCall.
Proof. exists (fst (mk_table KId 1 2)), (snd (mk_table KId 1 2)). vm_compute. eauto. Qed.

(* ... and so does dropping a copied data reader (its fragment table is such a copy) *)
Theorem data_reader_copy_drop_refuted :
  exists h o, copyable 3 h o KData = true /\
    exists h1 c, sqfs_copy HK_old 3 h o = Ok (h1, Some c) /\ sqfs_drop DK 4 h1 c = Crash NullCall.
Proof.
  exists (fst (mk_data 1 2 true false 2 2)), (snd (mk_data 1 2 true false 2 2)). vm_compute. eauto.
Qed.

(* F20: xattr_writer_copy keeps key_context / kv_block_first pointing at the
   original: after the original is released, following the copy's internal
   pointers reads freed memory; with the repaired hook the same run is fine *)
Theorem xattr_writer_copy_aliases_refuted :
  exists h o, copyable 3 h o KXwr = true /\
    exists h1 c h2, sqfs_copy HK_old 3 h o = Ok (h1, Some c) /\
                    sqfs_drop DK 4 h1 o = Ok h2 /\ touch_obj h2 c = Crash UseAfterFree.
Proof. exists (fst (mk_xwr 1 2 2 3 2)), (snd (mk_xwr 1 2 2 3 2)). vm_compute. eauto 10. Qed.
Print Assumptions xattr_writer_copy_aliases_refuted.

Example xattr_writer_copy_fixed_ok :
  let '(h, o) := mk_xwr 1 2 2 3 2 in
  exists h1 c h2, sqfs_copy HK_fixed 3 h o = Ok (h1, Some c) /\
                  sqfs_drop DK 4 h1 o = Ok h2 /\ touch_obj h2 c = Ok tt.
Proof. vm_compute. eauto 10. Qed.

Theorem hooks_old_not_ok : hooks_ok HK_old = false.
Proof. vm_compute. reflexivity. Qed.

(* ---- non-vacuity: the hypotheses are met by heaps of every kind and shape ---- *)
Definition chk (p : heap * addr) (k : kind) : bool := let '(h, o) := p in copyable 3 h o k.

Example ex_copyable_compressors :
  (chk (mk_flat KXz 1) KXz && chk (mk_flat KLz4 1) KLz4 && chk (mk_flat KLzma 1) KLzma &&
   chk (mk_res KGzip 1) KGzip && chk (mk_res KZstd 1) KZstd && chk (mk_res KFile 1) KFile) = true.
Proof. vm_compute. reflexivity. Qed.

Example ex_copyable_tables_readers :
  (chk (mk_table KId 1 3) KId && chk (mk_table KFrag 1 0) KFrag && chk (mk_meta 1 2 2) KMeta &&
   chk (mk_data 1 2 true true 2 2) KData && chk (mk_data 2 0 false false 2 2) KData &&
   chk (mk_dir 1 3 3 3) KDir && chk (mk_dir 1 0 3 3) KDir &&
   chk (mk_xrd 1 true true true 3 3) KXrd && chk (mk_xrd 1 false false false 1 1) KXrd) = true.
Proof. vm_compute. reflexivity. Qed.

Example ex_copyable_xattr_writer :
  (chk (mk_xwr 1 2 3 4 3) KXwr && chk (mk_xwr 1 0 0 0 0) KXwr && chk (mk_xwr 1 1 1 1 1) KXwr) = true.
Proof. vm_compute. reflexivity. Qed.

(* a directory reader with three cached directories: copy, release the original
   first, then the copy: everything freed, file and compressor back at their
   counts, 16 cells in total of which the 4 of the environment survive *)
Example ex_dir_reader_life :
  let '(h, o) := mk_dir 1 3 3 3 in
  exists h1 c h2 h3,
    sqfs_copy HK_fixed 3 h o = Ok (h1, Some c) /\
    rc_of h1 a_file = 5%N /\ rc_of h1 a_cmp = 5%N /\
    sqfs_drop DK 4 h1 o = Ok h2 /\ sqfs_drop DK 4 h2 c = Ok h3 /\
    rc_of h3 a_file = 1%N /\ rc_of h3 a_cmp = 1%N /\ live_count h3 = 4.
Proof. vm_compute. eauto 12. Qed.

(* the hypotheses of [interleaving_independent] are satisfiable: overwriting the
   id array in place is a local operation of the id table *)
Theorem set_ids_is_local : local_op 1 KId (list N) (list N) run_set step_set.
Proof. exact run_set_local. Qed.
Print Assumptions set_ids_is_local.

Example ex_interleaving :
  let '(h, o) := mk_table KId 1 2 in
  exists h1 c h2 rs,
    sqfs_copy HK_fixed 3 h o = Ok (h1, Some c) /\
    exec (list N) (list N) run_set [(true, [7%N]); (false, [8%N; 9%N]); (true, [])] h1 o c = (h2, rs) /\
    rs = [(true, [0%N; 1%N]); (false, [0%N; 1%N]); (true, [7%N])].
Proof. vm_compute. eauto 10. Qed.

(* ---- layer (i): the machines answer like the C objects (checked by the tie) ---- *)
Example ex_idtbl :
  let '(t1, a1) := id_to_index [] 1000 in
  let '(t2, a2) := id_to_index t1 0 in
  let '(t3, a3) := id_to_index t2 1000 in
  (a1, a2, a3, snd (index_to_id t3 1), snd (index_to_id t3 2))
  = ((0%Z, 0%N), (0%Z, 1%N), (0%Z, 0%N), (0%Z, 0%N), ((-8)%Z, 4294967295%N)).
Proof. vm_compute. reflexivity. Qed.

(* user.a=1 ; user.b=2 ; user.a=1 again: the third block is the first one *)
Example ex_xwr :
  let k_a := [117; 115; 101; 114; 46; 97]%N in
  let k_b := [117; 115; 101; 114; 46; 98]%N in
  let w1 := fst (xwr_add (fst (xwr_begin xwr_empty)) k_a [49%N]) in
  let '(w2, r1) := xwr_end w1 in
  let w3 := fst (xwr_add (fst (xwr_begin w2)) k_b [50%N]) in
  let '(w4, r2) := xwr_end w3 in
  let w5 := fst (xwr_add (fst (xwr_begin w4)) k_a [49%N]) in
  let '(w6, r3) := xwr_end w5 in
  (r1, r2, r3, snd (xwr_end (fst (xwr_begin w6)))) =
  ((0%Z, 0%N), (0%Z, 1%N), (0%Z, 0%N), (0%Z, 4294967295%N)).
Proof. vm_compute. reflexivity. Qed.

(* ======================================================================================
   Containers (session 3): lib/util/src/{hash_table,rbtree,str_table,array}.c as verified
   data structures (coq/Util).  So far the object models above treated rbtree_copy /
   str_table_copy / array_init_copy as "a set of cells is duplicated"; C08 and C01 treat the
   hash table / tree as an association list.  The statements below are about executable
   models that follow the C code statement by statement (tied to the working tree by an
   operation-sequence differential, props/C19/util_tie.py); constants come from
   Util/GenUtil.v, generated from the sources on every run.  No bound on the number of
   operations or keys, except where a C type imposes one (stated as a hypothesis).
   Allocation failure is not modelled.
   ====================================================================================== *)
From Coq Require Import Permutation Znumtheory Sorting.Sorted.
From SqfsV Require Import Gen.Constants Util.GenUtil Util.FastRem Util.Primes Util.HashModel Util.HashBase
     Util.HashRows Util.HashInv Util.HashContracts Util.RbModel Util.RbOrder Util.RbBalance Util.RbTheorems
     Util.RbExamples Util.RbPair Util.ArrayModel Util.ArrayProofs.

(* ---- hash_table.c ---- *)

(* util_fast_urem32 with the magic of its divisor is the remainder (the assert in the C code
   never fires): the start address and the step of the probing sequence are hash mod size and
   1 + hash mod rehash *)
Theorem fast_urem32_is_mod : forall n d,
  (n < two32)%N -> (1 < d)%N -> (d < two32)%N -> fast_urem32 n d (remainder_magic d) = (n mod d)%N.
Proof. exact fast_urem32_correct. Qed.
Print Assumptions fast_urem32_is_mod.

(* every size of hash_sizes[] is prime, so the probing sequence visits every slot *)
Theorem hash_sizes_prime : forall i r,
  nth_error util_hash_sizes i = Some r -> prime (Z.of_N (row_size r)).
Proof. exact rows_prime. Qed.
Print Assumptions hash_sizes_prime.

Theorem probing_visits_every_slot : forall size rehash, geom size rehash ->
  forall h p, (p < size)%N -> exists i, (i < size)%N /\ ppath size rehash h i = p.
Proof. exact ppath_surj. Qed.
Print Assumptions probing_visits_every_slot.

(* hash_table_create yields a well-formed empty table ([wf]: fields of the row, size slots,
   counters = numbers of present / deleted slots, entries + deleted <= max_entries, and every
   present entry lies on the probing sequence of its own hash with no free slot before it) *)
Theorem hash_table_create_wf : forall K V : Type,
  exists t, ht_create K V = Some t /\ wf K V t /\ livel K V (ht_table K V t) = nil.
Proof. exact ht_create_wf. Qed.
Print Assumptions hash_table_create_wf.

(* hash_table_search_pre_hashed: terminates without leaving the table and returns an entry whose
   stored hash is the given one and for which the callback said yes; NULL only if the callback
   says no for every live entry with that hash -- tombstones in between notwithstanding.
   No hypothesis about the callback. *)
Theorem hash_table_search_contract : forall (K V : Type) (keq : K -> K -> bool) t hash key,
  wf K V t -> (hash < two32)%N ->
  exists r, ht_search K V keq t hash key = Ok r /\
    match r with
    | Some a => exists k d, nthN (ht_table K V t) a = Some (SPresent hash k d) /\ keq key k = true
    | None => forall p k d, nthN (ht_table K V t) p = Some (SPresent hash k d) -> keq key k = false
    end.
Proof. exact ht_search_spec. Qed.
Print Assumptions hash_table_search_contract.

(* hash_table_insert_pre_hashed, including the rehash into the next row (entries = max_entries)
   or the same row (tombstones) it may start with: never returns NULL, never loops, keeps [wf],
   and either replaces one live entry of the same hash the callback declares equal (key and data
   replaced, count unchanged) or -- if the callback says no for all of them -- adds the entry.
   Live entries are otherwise preserved (as a multiset: a rehash permutes the slots). *)
Theorem hash_table_insert_contract : forall (K V : Type) (keq : K -> K -> bool) t hash key data,
  wf K V t -> (hash < two32)%N -> (ht_entries K V t < ht_safe_limit)%N ->
  exists t' a,
    ht_insert K V keq t hash key data = Ok (t', Some a) /\ wf K V t' /\
    nthN (ht_table K V t') a = Some (SPresent hash key data) /\
    ((exists k0 d0 rest,
        keq key k0 = true /\
        Permutation (livel K V (ht_table K V t)) ((hash, k0, d0) :: rest) /\
        Permutation (livel K V (ht_table K V t')) ((hash, key, data) :: rest) /\
        ht_entries K V t' = ht_entries K V t)
     \/
     ((forall k0 d0, In (hash, k0, d0) (livel K V (ht_table K V t)) -> keq key k0 = false) /\
      Permutation (livel K V (ht_table K V t')) ((hash, key, data) :: livel K V (ht_table K V t)) /\
      ht_entries K V t' = (ht_entries K V t + 1)%N)).
Proof. exact ht_insert_spec. Qed.
Print Assumptions hash_table_insert_contract.

(* removing an entry (key = deleted_key, entries--, deleted_entries++) keeps [wf] *)
Theorem hash_table_remove_contract : forall (K V : Type) (t : htab K V) a h k d,
  wf K V t -> nthN (ht_table K V t) a = Some (SPresent h k d) ->
  wf K V (ht_remove_entry K V t a) /\
  exists rest, Permutation (livel K V (ht_table K V t)) ((h, k, d) :: rest) /\
               livel K V (ht_table K V (ht_remove_entry K V t a)) = rest.
Proof. exact ht_remove_spec. Qed.
Print Assumptions hash_table_remove_contract.

(* the table as a finite map keyed by (hash, equivalence class of the callback): if the callback
   is symmetric and transitive and at most one live entry answers any search ([uniq]; true of the
   empty table), insert keeps that - across rehash and tombstones - and search returns THE entry
   of the class.  (The clause for hash_table_remove_entry: hash_table_refines_map_remove at the end of
   this file.) *)
From SqfsV Require Import Util.HashMapView.

Theorem hash_table_refines_map : forall (K V : Type) (keq : K -> K -> bool),
  (forall a b, keq a b = true -> keq b a = true) ->
  (forall a b c, keq a b = true -> keq b c = true -> keq a c = true) ->
  uniq K V keq nil /\
  (forall t hash key data t' a,
     wf K V t -> (hash < two32)%N -> (ht_entries K V t < ht_safe_limit)%N ->
     uniq K V keq (livel K V (ht_table K V t)) ->
     ht_insert K V keq t hash key data = Ok (t', Some a) ->
     uniq K V keq (livel K V (ht_table K V t'))) /\
  (forall t hash key k0 d0,
     wf K V t -> (hash < two32)%N -> uniq K V keq (livel K V (ht_table K V t)) ->
     In (hash, k0, d0) (livel K V (ht_table K V t)) -> keq key k0 = true ->
     exists a, ht_search K V keq t hash key = Ok (Some a) /\ ht_entry K V t a = Some (hash, k0, d0)).
Proof.
  intros K V keq S T. split; [exact (uniq_nil K V keq)|].
  split; [exact (ht_insert_keeps_uniq K V keq S T)|exact (ht_search_unique K V keq)].
Qed.
Print Assumptions hash_table_refines_map.

(* why [ht_safe_limit] = 2^30 entries: in the last row of hash_sizes[] the 32 bit addition
   hash_address += double_hash can wrap and the sequence leaves (s + i*d) mod size *)
Theorem hash_table_last_row_wraps :
  exists r addr dh,
    nth_error util_hash_sizes (pred (length util_hash_sizes)) = Some r /\
    (addr < row_size r)%N /\ (dh <= row_rehash r)%N /\
    next_addr (row_size r) addr dh <> ((addr + dh) mod row_size r)%N.
Proof. exact last_row_wraps. Qed.

Example ex_ht_limit : ht_safe_limit = 1073741824%N /\ safe_rows = 30%nat.
Proof. exact ht_safe_limit_val. Qed.

(* a run through rehash and tombstones: the table of 5 slots (max_entries 2) grows at the third
   insert although that insert only replaces an entry of the same class; removal leaves a
   tombstone, the search across it still ends, the other entry is still found *)
Example ex_ht_run :
  (let keq := fun a b : N => N.eqb (a / 4) (b / 4) in
  match ht_create N N with
  | Some t0 =>
    match ht_insert N N keq t0 7 1 100 with
    | Ok (t1, _) =>
      match ht_insert N N keq t1 12 9 200 with
      | Ok (t2, _) =>
        match ht_insert N N keq t2 7 2 300 with
        | Ok (t3, Some a3) =>
          match ht_search N N keq t3 12 8 with
          | Ok (Some a) =>
            let t4 := ht_remove_entry N N t3 a in
            match ht_insert N N keq t4 17 20 400 with
            | Ok (t5, _) =>
              (ht_size_index N N t3, ht_entries N N t3, ht_entry N N t3 a3, ht_deleted N N t4,
               ht_size_index N N t5, ht_entries N N t5, ht_deleted N N t5,
               ht_search N N keq t5 12 8, ht_search N N keq t5 7 3)
              = (1%nat, 2, Some (7, 2, 300), 1, 1%nat, 2, 1, Ok None, Ok (Some 0))
            | _ => False
            end
          | _ => False
          end
        | _ => False
        end
      | _ => False
      end
    | _ => False
    end
  | None => False
  end)%N.
Proof. vm_compute. reflexivity. Qed.

(* ---- rbtree.c ---- *)

(* the hypothesis of the order theorems: the comparator is a strict weak order (its sign is
   antisymmetric, <= is transitive).  The directory reader's comparator and memcmp meet it. *)
Theorem dcache_key_compare_is_order :
  (forall a b, (cmp_u32 a b < 0 <-> 0 < cmp_u32 b a)%Z) /\
  (forall a b c, (cmp_u32 a b <= 0 -> cmp_u32 b c <= 0 -> cmp_u32 a c <= 0)%Z).
Proof. exact (conj cmp_u32_antisym cmp_u32_trans). Qed.
Print Assumptions dcache_key_compare_is_order.

Theorem memcmp_is_order :
  (forall a b, (cmp_bytes a b < 0 <-> 0 < cmp_bytes b a)%Z) /\
  (forall a b c, (cmp_bytes a b <= 0 -> cmp_bytes b c <= 0 -> cmp_bytes a c <= 0)%Z).
Proof. exact (conj cmp_bytes_antisym cmp_bytes_trans). Qed.

(* rbtree_init (return value 0): key_size_padded = key_size rounded up to pointer size, and the
   empty tree satisfies [rbtree_inv]: in-order sequence sorted by the comparator, black root,
   no red node with a red child, no red right child, equal black height on all paths, every node
   with value_offset = key_size_padded and key_size_padded + value_size data bytes *)
Theorem rbtree_init_inv_holds : forall cmp ks vs,
  fst (rbtree_init ks vs) = 0%Z ->
  let t := snd (rbtree_init ks vs) in
  rb_root t = Leaf /\ rb_key_size t = ks /\ rb_value_size t = vs /\
  (ks <= rb_key_size_padded t)%N /\ (rb_key_size_padded t mod util_sizeof_ptr = 0)%N /\
  (rb_key_size_padded t < ks + util_sizeof_ptr)%N /\ rbtree_inv cmp t.
Proof. exact rbtree_init_inv. Qed.
Print Assumptions rbtree_init_inv_holds.

(* rbtree_insert never dereferences NULL, allocates exactly one node, preserves [rbtree_inv]
   (rotations, colour flips and the recursion as in the C code), and the in-order sequence of
   the new tree is the sorted insertion of the new node *)
Theorem rbtree_insert_preserves_inv : forall cmp,
  (forall a b, (cmp a b < 0 <-> 0 < cmp b a)%Z) ->
  (forall a b c, (cmp a b <= 0 -> cmp b c <= 0 -> cmp a c <= 0)%Z) ->
  forall t next key value,
  rbtree_inv cmp t -> RbModel.lenN key = rb_key_size t -> RbModel.lenN value = rb_value_size t ->
  exists t',
    rbtree_insert cmp t next key value = Some (t', (next + 1)%N) /\
    rbtree_inv cmp t' /\
    rb_key_size t' = rb_key_size t /\ rb_key_size_padded t' = rb_key_size_padded t /\
    rb_value_size t' = rb_value_size t /\
    elements (rb_root t') =
      ins_sorted cmp (rb_key_size t) (new_elem t next key value) (elements (rb_root t)).
Proof. exact rbtree_insert_inv. Qed.
Print Assumptions rbtree_insert_preserves_inv.

(* rbtree_lookup finds a node with an equal key iff the tree holds one *)
Theorem rbtree_lookup_contract : forall cmp,
  (forall a b, (cmp a b < 0 <-> 0 < cmp b a)%Z) ->
  (forall a b c, (cmp a b <= 0 -> cmp b c <= 0 -> cmp a c <= 0)%Z) ->
  forall t k, rbtree_inv cmp t ->
  match rbtree_lookup cmp t k with
  | Leaf => forall e, In e (elements (rb_root t)) -> cmp k (key (rb_key_size t) e) <> 0%Z
  | Node i _ _ v d _ => In (i, v, d) (elements (rb_root t)) /\ cmp k (firstnN (rb_key_size t) d) = 0%Z
  end.
Proof. exact rbtree_lookup_spec. Qed.
Print Assumptions rbtree_lookup_contract.

(* the tree is the finite map: any sequence of "look up, insert if absent" (what dir_reader.c,
   dir_hl.c and xattr_writer.c do) from a tree with distinct keys ends in the tree whose in-order
   sequence is the association list obtained by the same puts, and every lookup answers as
   [find] on that list *)
Theorem rbtree_refines_map_thm : forall cmp,
  (forall a b, (cmp a b < 0 <-> 0 < cmp b a)%Z) ->
  (forall a b c, (cmp a b <= 0 -> cmp b c <= 0 -> cmp a c <= 0)%Z) ->
  forall ops t next,
  rbtree_inv cmp t -> ssorted cmp (rb_key_size t) (elements (rb_root t)) ->
  Forall (fun kv => RbModel.lenN (fst kv) = rb_key_size t /\ RbModel.lenN (snd kv) = rb_value_size t) ops ->
  exists t' next',
    rb_puts cmp (t, next) ops = Some (t', next') /\
    (elements (rb_root t'), next') = fold_left (amap_put cmp t) ops (elements (rb_root t), next) /\
    rbtree_inv cmp t' /\ ssorted cmp (rb_key_size t') (elements (rb_root t')) /\ same_sizes t' t /\
    forall k, node_elem (rbtree_lookup cmp t' k) = amap_find cmp (rb_key_size t') k (elements (rb_root t')).
Proof. exact rbtree_refines_map. Qed.
Print Assumptions rbtree_refines_map_thm.

(* rbtree_copy: succeeds, the copy is the same tree (shape, colours, value offsets and ALL
   key_size_padded + value_size bytes of every node) made of exactly tsize fresh nodes
   (next, next+1, ... in calloc order), none of them a node of the original *)
Theorem rbtree_copy_equiv_thm : forall t next, layout_ok t ->
  exists t',
    rbtree_copy t next = Some (t', (next + tsize (rb_root t))%N) /\
    erase (rb_root t') = erase (rb_root t) /\ same_sizes t' t /\
    map (fun e => (e_voff e, e_data e)) (elements (rb_root t')) =
      map (fun e => (e_voff e, e_data e)) (elements (rb_root t)) /\
    Forall (fun i => (next <= i < next + tsize (rb_root t))%N) (ids (rb_root t')) /\
    NoDup (ids (rb_root t')) /\
    (Forall (fun i => (i < next)%N) (ids (rb_root t)) ->
     forall i, In i (ids (rb_root t)) -> ~ In i (ids (rb_root t'))).
Proof. exact rbtree_copy_equiv. Qed.
Print Assumptions rbtree_copy_equiv_thm.

Theorem rbtree_copy_keeps_inv : forall cmp t next t' next',
  rbtree_inv cmp t -> rbtree_copy t next = Some (t', next') -> rbtree_inv cmp t'.
Proof. exact rbtree_copy_inv. Qed.
Print Assumptions rbtree_copy_keeps_inv.

(* C19 for the tree: a copy (any tree equal up to node addresses) answers every later sequence
   of inserts and lookups like the original ... *)
Theorem rbtree_copy_answers_like_original : forall cmp ops a b na nb,
  equiv_trees a b ->
  match rb_run cmp (a, na) ops, rb_run cmp (b, nb) ops with
  | Some ((a', _), la), Some ((b', _), lb) => la = lb /\ equiv_trees a' b'
  | None, None => True
  | _, _ => False
  end.
Proof. exact rbtree_equiv_run. Qed.
Print Assumptions rbtree_copy_answers_like_original.

(* ... and for every interleaving of operations on two trees with disjoint nodes that share the
   allocator, each side's answers are those of running its own operations alone and the node
   sets stay disjoint (an operation changes only nodes of its own tree and fresh ones) *)
Theorem rbtree_pair_independent_thm : forall cmp,
  (forall x y, (cmp x y < 0 <-> 0 < cmp y x)%Z) ->
  (forall x y z, (cmp x y <= 0 -> cmp y z <= 0 -> cmp x z <= 0)%Z) ->
  forall ops a b next,
  rbtree_inv cmp a -> rbtree_inv cmp b -> same_sizes a b -> pair_ok a b next ->
  Forall (fun wo => op_sized a (snd wo)) ops ->
  exists a' b' next' ans,
    pair_run cmp (a, b, next) ops = Some (a', b', next', ans) /\
    rbtree_inv cmp a' /\ rbtree_inv cmp b' /\ pair_ok a' b' next' /\
    (exists na la, rb_run cmp (a, next) (ops_of true ops) = Some (na, la) /\
                   la = answers_of true ans /\ equiv_trees (fst na) a') /\
    (exists nb lb, rb_run cmp (b, next) (ops_of false ops) = Some (nb, lb) /\
                   lb = answers_of false ans /\ equiv_trees (fst nb) b').
Proof. exact rbtree_pair_independent. Qed.
Print Assumptions rbtree_pair_independent_thm.

(* the hypotheses are met by a run of the directory reader's tree (keys 2^31 apart included),
   and every key is found again with all its value bytes *)
Example ex_rbtree_hypotheses :
  fst (rbtree_init 4 8) = 0%Z /\
  Forall (fun kv => RbModel.lenN (fst kv) = rb_key_size ex_tree0 /\
                    RbModel.lenN (snd kv) = rb_value_size ex_tree0) ex_ops /\
  rb_key_size_padded ex_tree0 = 8%N.
Proof. exact ex_rb_hypotheses. Qed.

Example ex_rbtree_found :
  match rb_puts cmp_u32 (ex_tree0, 0%N) ex_ops with
  | Some (t, next) =>
    next = 5%N /\
    map (fun kv => node_value 8 (rbtree_lookup cmp_u32 t (fst kv))) ex_ops = map snd ex_ops
  | None => False
  end.
Proof. exact ex_rb_found. Qed.

(* why the order hypothesis: the comparator  return (int)(lhs - rhs);  on sqfs_u32 keys is not
   transitive, and the same five puts lose a key that is in the tree *)
Theorem cmp_sub32_not_an_order_refuted :
  exists a b c, (cmp_sub32 a b <= 0 /\ cmp_sub32 b c <= 0 /\ ~ cmp_sub32 a c <= 0)%Z.
Proof. exact cmp_sub32_not_transitive_refuted. Qed.

Theorem rbtree_lookup_loses_key_without_order_refuted :
  exists ops k,
    In k (map fst ops) /\
    match rb_puts cmp_sub32 (ex_tree0, 0%N) ops with
    | Some (t, _) =>
      rbtree_lookup cmp_sub32 t k = Leaf /\
      In k (map (fun e => firstnN 4 (e_data e)) (elements (rb_root t)))
    | None => False
    end.
Proof. exact rbtree_lookup_loses_key_refuted. Qed.

(* why key_size_padded: copy_node with a memcpy of sizeof(node) + key_size + value_size bytes
   yields a tree that differs from the original (the tail of every value is lost) *)
Theorem rbtree_copy_unpadded_refuted :
  exists t next,
    layout_ok t /\
    let short := (util_sizeof_rbnode + rb_key_size t + rb_value_size t)%N in
    let full := (util_sizeof_rbnode + rb_key_size_padded t + rb_value_size t)%N in
    match copy_node full short (rb_root t) next, copy_node full full (rb_root t) next with
    | Some (c1, _), Some (c2, _) => erase c2 = erase (rb_root t) /\ erase c1 <> erase (rb_root t)
    | _, _ => False
    end.
Proof. exact copy_node_unpadded_refuted. Qed.

(* ---- array.c ---- *)

Theorem array_append_refines_list : forall (E : Type) (a : arr E) x,
  arr_inv E a ->
  match array_append E a x with
  | (0%Z, a') => arr_inv E a' /\ a_data a' = a_data a ++ x :: nil /\ a_used a' = (a_used a + 1)%N /\
                 a_size a' = a_size a /\ (a_count a <= a_count a')%N
  | (e, a') => e = c_SQFS_ERROR_ALLOC /\ a' = a
  end.
Proof. exact array_append_spec. Qed.
Print Assumptions array_append_refines_list.

Theorem array_init_copy_equiv_thm : forall (E : Type) (src : arr E),
  arr_inv E src ->
  match array_init_copy E src with
  | (0%Z, a) => arr_inv E a /\ a_data a = a_data src /\ a_used a = a_used src /\
                a_size a = a_size src /\ a_count a = a_used src
  | (e, _) => e = c_SQFS_ERROR_OVERFLOW /\ (util_size_max < a_size src * a_used src)%N
  end.
Proof. exact array_init_copy_equiv. Qed.
Print Assumptions array_init_copy_equiv_thm.

Theorem array_set_capacity_terminates : forall (E : Type) (a : arr E) cap,
  arr_inv E a -> (cap <= util_size_max)%N ->
  exists z a', array_set_capacity E a cap = Ok (z, a') /\
    a_data a' = a_data a /\ a_used a' = a_used a /\ a_size a' = a_size a /\ arr_inv E a' /\
    (z = 0%Z -> (cap <= a_count a')%N /\ (a_count a <= a_count a')%N) /\
    (z <> 0%Z -> z = c_SQFS_ERROR_ALLOC /\ a' = a).
Proof. exact array_set_capacity_spec. Qed.
Print Assumptions array_set_capacity_terminates.

Example ex_array :
  match array_init (list N) 3 0 with
  | (0%Z, a0) =>
    let a1 := snd (array_append (list N) a0 (1 :: 2 :: 3 :: nil)%N) in
    let a2 := snd (array_append (list N) a1 (4 :: 5 :: 6 :: nil)%N) in
    arr_inv (list N) a2 /\ a_count a2 = util_array_first_count /\
    fst (array_init_copy (list N) a2) = 0%Z /\ a_count (snd (array_init_copy (list N) a2)) = 2%N
  | _ => False
  end.
Proof. vm_compute. repeat split; try reflexivity; discriminate. Qed.

(* ---- str_table.c ---- *)
From SqfsV Require Import Util.StrModel Util.StrProofs.

(* [str_inv h t]: the hash table is well-formed, array index i <-> bucket with index i <-> the hash
   entry of that bucket's string (key pointer into the bucket itself), all strings distinct.
   It holds for the table str_table_init returns; its abstract value is the empty list. *)
Theorem str_table_init_inv_thm :
  exists t, str_table_init = Some (0%Z, t) /\ st_next_index t = 0%N /\
            forall h, str_inv h t /\ str_abs h t = nil.
Proof. exact str_table_init_inv. Qed.
Print Assumptions str_table_init_inv_thm.

(* lookups by index answer from the abstract list (string, reference count) by index *)
Theorem str_table_get_string_thm : forall h t i, str_inv h t ->
  str_table_get_string h t i = SOk (option_map fst (nth_error (str_abs h t) (N.to_nat i))).
Proof. exact str_table_get_string_spec. Qed.
Print Assumptions str_table_get_string_thm.

Theorem str_table_get_ref_count_thm : forall h t i, str_inv h t ->
  str_table_get_ref_count h t i =
    SOk (match nth_error (str_abs h t) (N.to_nat i) with Some (_, rc) => rc | None => 0%N end).
Proof. exact str_table_get_ref_count_spec. Qed.
Print Assumptions str_table_get_ref_count_thm.

(* add_ref / del_ref change exactly the count of that index (saturating at SIZE_MAX / 0); the
   string <-> index bijection, the invariant and the allocator are untouched *)
Theorem str_table_add_ref_thm : forall h t i, str_inv h t ->
  exists h', str_table_add_ref h t i = SOk h' /\ str_inv h' t /\
    str_abs h' t = set_rc (fun rc => if (rc <? util_size_max)%N then (rc + 1)%N else rc) (str_abs h t) i /\
    strings h' t = strings h t /\ bh_next h' = bh_next h.
Proof. exact str_table_add_ref_spec. Qed.
Print Assumptions str_table_add_ref_thm.

Theorem str_table_del_ref_thm : forall h t i, str_inv h t ->
  exists h', str_table_del_ref h t i = SOk h' /\ str_inv h' t /\
    str_abs h' t = set_rc (fun rc => if (0 <? rc)%N then (rc - 1)%N else rc) (str_abs h t) i /\
    strings h' t = strings h t /\ bh_next h' = bh_next h.
Proof. exact str_table_del_ref_spec. Qed.
Print Assumptions str_table_del_ref_thm.

(* a run of the model: two strings, the first again, references, a copy made the way
   xattr_writer_copy does (destination struct = source struct first); the copy has its own
   buckets (ids 2, 3), the same strings, counts and next_index, and diverges independently *)
Example ex_str_table :
  (let h0 := mk_bheap 0 nil in
   match str_table_init with
   | Some (_, t0) =>
     match str_table_get_index h0 t0 (117 :: 115 :: nil) with
     | SOk (h1, t1, _, i1) =>
       match str_table_get_index h1 t1 (97 :: nil) with
       | SOk (h2, t2, _, i2) =>
         match str_table_get_index h2 t2 (117 :: 115 :: nil), str_table_add_ref h2 t2 1 with
         | SOk (_, _, _, i3), SOk h3 =>
           match str_table_copy h3 t2 t2 with
           | SOk (h4, c, ret) =>
             match str_table_get_index h4 c (98 :: nil), str_table_del_ref h4 c 1 with
             | SOk (h5, c', _, i4), SOk h6 =>
               (i1, i2, i3, ret, st_next_index c, a_data (st_arr c), str_abs h4 c, str_abs h4 t2, i4,
                str_abs h5 t2, str_abs h6 t2, str_abs h6 c)
               = (0, 1, 0, 0%Z, 2, 2 :: 3 :: nil,
                  (117 :: 115 :: nil, 0) :: (97 :: nil, 1) :: nil,
                  (117 :: 115 :: nil, 0) :: (97 :: nil, 1) :: nil, 2,
                  (117 :: 115 :: nil, 0) :: (97 :: nil, 1) :: nil,
                  (117 :: 115 :: nil, 0) :: (97 :: nil, 1) :: nil,
                  (117 :: 115 :: nil, 0) :: (97 :: nil, 0) :: nil)
             | _, _ => False
             end
           | _ => False
           end
         | _, _ => False
         end
       | _ => False
       end
     | _ => False
     end
   | None => False
   end)%N.
Proof. vm_compute. reflexivity. Qed.

(* str_table_get_index: a string of the table yields its index and nothing changes ... *)
From SqfsV Require Import Util.StrIndex Util.StrCopy.

Theorem str_table_get_index_found_thm : forall h t s i,
  str_inv h t -> nth_error (strings h t) i = Some s ->
  str_table_get_index h t s = SOk (h, t, 0%Z, N.of_nat i).
Proof. exact str_table_get_index_found. Qed.
Print Assumptions str_table_get_index_found_thm.

(* ... a new string gets the next index: one new bucket (the next allocation), one new hash entry
   whose key pointer points into that bucket, the abstract list grows by (s, 0), every older
   bucket is untouched.  Hypotheses: fewer than 2^30 strings (the hash table's bound), pointer-sized
   array elements, capacity below 2^40 (no size_t overflow when the array doubles) - the last two
   are again part of the conclusion *)
Theorem str_table_get_index_new_thm : forall h t s,
  str_inv h t -> ~ In s (strings h t) ->
  (st_next_index t < ht_safe_limit)%N ->
  a_size (st_arr t) = util_sizeof_ptr -> (a_count (st_arr t) <= 1099511627776)%N ->
  exists h' t',
    str_table_get_index h t s = SOk (h', t', 0%Z, st_next_index t) /\
    str_inv h' t' /\
    str_abs h' t' = str_abs h t ++ (s, 0%N) :: nil /\
    st_next_index t' = (st_next_index t + 1)%N /\
    bh_next h' = (bh_next h + 1)%N /\
    (forall id, (id < bh_next h)%N -> bh_get h' id = bh_get h id) /\
    a_size (st_arr t') = util_sizeof_ptr /\ (a_count (st_arr t') <= 1099511627776)%N /\
    a_data (st_arr t') = a_data (st_arr t) ++ bh_next h :: nil.
Proof. exact str_table_get_index_new. Qed.
Print Assumptions str_table_get_index_new_thm.

(* str_table_copy(dst, src) with dst->next_index = src->next_index (the caller memcpy's the struct
   first; the function itself never assigns next_index): succeeds, the copy satisfies the
   invariant, has the same abstract value (strings, counts, by index) and the same next_index,
   consists of new buckets only, and the source - buckets, invariant, value - is untouched *)
Theorem str_table_copy_equiv_thm : forall h dst src,
  str_inv h src -> st_next_index dst = st_next_index src ->
  a_size (st_arr src) = util_sizeof_ptr -> (st_next_index src < ht_safe_limit)%N ->
  exists h' t',
    str_table_copy h dst src = SOk (h', t', 0%Z) /\
    str_inv h' t' /\ str_abs h' t' = str_abs h src /\
    st_next_index t' = st_next_index src /\
    (forall i bid, nthN (a_data (st_arr t')) i = Some bid -> (bh_next h <= bid)%N) /\
    (forall id, (id < bh_next h)%N -> bh_get h' id = bh_get h id) /\
    str_inv h' src /\ str_abs h' src = str_abs h src.
Proof. exact str_table_copy_equiv. Qed.
Print Assumptions str_table_copy_equiv_thm.

(* C19 for the string table: source and copy share no bucket, and any operation (get_index of a
   known or new string, add_ref, del_ref) on one of two tables that share no bucket keeps that
   table's invariant, leaves the other table's invariant and abstract value alone, and the two
   still share no bucket.  (ONE step: the hypothesis st_roomy is not re-established for the successor - independent
   audit 4, item 12; the statement for whole interleavings is str_table_interleaving_independent /
   str_table_copy_interleaving at the end of this file) *)
Theorem str_table_copy_disjoint_thm : forall h dst src h' t',
  str_inv h src -> st_next_index dst = st_next_index src ->
  a_size (st_arr src) = util_sizeof_ptr -> (st_next_index src < ht_safe_limit)%N ->
  str_table_copy h dst src = SOk (h', t', 0%Z) ->
  disjoint_tables src t' /\ disjoint_tables t' src.
Proof. exact str_table_copy_disjoint. Qed.
Print Assumptions str_table_copy_disjoint_thm.

Theorem str_table_step_independent_thm : forall h a b op,
  str_inv h a -> str_inv h b -> disjoint_tables a b -> st_roomy a ->
  exists h' a', st_step h a op = SOk (h', a') /\
    str_inv h' a' /\ str_inv h' b /\ str_abs h' b = str_abs h b /\ disjoint_tables a' b.
Proof. exact str_table_step_independent. Qed.
Print Assumptions str_table_step_independent_thm.

(* ======================================================================================
   Follow-up to the audit of this file (items on copy_wellformed / release_safe /
   interleaving_independent / copy_ops_release above).
   ====================================================================================== *)
From SqfsV Require Import C19.ObjInst2.

(* (a) Scope of [slack].  copy_wellformed, copy_refines_value, release_safe, survivor_intact and
   copy_ops_release assume [slack]: for the whole life cycle somebody OUTSIDE the object (pair)
   holds a further reference to every shared file / compressor, so the objects' own references
   are never the last ones.  The case "the reader holds the LAST reference" is NOT covered by
   those theorems (the cascade into the destroy hook of the shared object); the model itself
   handles it, as the computed life cycles below show, and the harness observes it on the
   implementation.  The general theorems without [slack] are at the end of this file
   (release_safe_general, survivor_intact_general, copy_wellformed_general ...). *)
Example ex_no_slack_not_covered :
  let '(h, o) := mk_dir 1%N 3%nat 2%N 2%N in copyable 3%nat h o KDir = false.
Proof. vm_compute. reflexivity. Qed.

Example ex_no_slack_life_dir :
  let '(h, o) := mk_dir 1%N 3%nat 2%N 2%N in
  exists h1 c h2 h3 h2' h3',
    sqfs_copy HK_fixed 3%nat h o = ObjHeap.Ok (h1, Some c) /\
    sqfs_drop DK 4%nat h1 o = ObjHeap.Ok h2 /\ sqfs_drop DK 4%nat h2 c = ObjHeap.Ok h3 /\
    sqfs_drop DK 4%nat h1 c = ObjHeap.Ok h2' /\ sqfs_drop DK 4%nat h2' o = ObjHeap.Ok h3' /\
    h3 = h3' /\ live_count h3 = 0%nat.
Proof. vm_compute. do 6 eexists. repeat split; reflexivity. Qed.

Example ex_no_slack_life_meta :
  let '(h, o) := mk_meta 1%N 1%N 1%N in
  exists h1 c h2 h3 h2' h3',
    sqfs_copy HK_fixed 3%nat h o = ObjHeap.Ok (h1, Some c) /\
    sqfs_drop DK 4%nat h1 o = ObjHeap.Ok h2 /\ sqfs_drop DK 4%nat h2 c = ObjHeap.Ok h3 /\
    sqfs_drop DK 4%nat h1 c = ObjHeap.Ok h2' /\ sqfs_drop DK 4%nat h2' o = ObjHeap.Ok h3' /\
    h3 = h3' /\ live_count h3 = 0%nat.
Proof. vm_compute. do 6 eexists. repeat split; reflexivity. Qed.

(* (b) [local_op] is met by real operations of the id table: sqfs_id_table_id_to_index and
   sqfs_id_table_index_to_id as heap operations (C19/ObjInst2.v) whose abstract view is the
   layer-(i) machine of C19/ObjMach.v.  Operations of the readers go through the SHARED
   compressor cell and are not instances of [local_op] as it is defined (it demands that every
   cell outside the object's footprint is unchanged); for them the independence of original
   and copy is proved at the end of this file under the weaker notion [shared_preserving_op]
   (interleaving_independent_shared, meta_read_is_shared_preserving ...). *)
Theorem id_to_index_is_local : local_op 1%nat KId N (Z * N) run_id_to_index step_id_to_index.
Proof. exact id_to_index_local. Qed.
Print Assumptions id_to_index_is_local.

Theorem index_to_id_is_local : local_op 1%nat KId N (Z * N) run_index_to_id step_index_to_id.
Proof. exact index_to_id_local. Qed.
Print Assumptions index_to_id_is_local.

(* original and copy of an id table, id_to_index interleaved: every answer is the machine's *)
Example ex_interleaving_id_to_index :
  let '(h, o) := mk_table KId 1%N 2%nat in
  exists h1 c h2 rs,
    sqfs_copy HK_fixed 3%nat h o = ObjHeap.Ok (h1, Some c) /\
    exec N (Z * N) run_id_to_index [(true, 7%N); (false, 8%N); (true, 7%N); (false, 0%N); (true, 9%N)] h1 o c = (h2, rs) /\
    rs = [(true, (0%Z, 2%N)); (false, (0%Z, 2%N)); (true, (0%Z, 2%N)); (false, (0%Z, 0%N)); (true, (0%Z, 3%N))].
Proof. vm_compute. eauto 10. Qed.

(* (c) the hypotheses of copy_ops_release, jointly, on the same n, with a real operation *)
Example ex_copy_ops_release_hyps :
  let '(h, o) := mk_table KId 1%N 2%nat in
  hooks_ok HK_fixed = true /\
  local_op 1%nat KId N (Z * N) run_id_to_index step_id_to_index /\
  (1 + 1 <= 3)%nat /\ wf_obj 1%nat h o KId /\ sep_obj 1%nat h o /\ slack h (all_refs 1%nat h o) /\ (rc_of h o <= 1)%N.
Proof.
  cbv beta iota zeta.
  destruct (mk_table KId 1%N 2%nat) as [h o] eqn:E.
  assert (C : copyable 1%nat h o KId = true) by (replace h with (fst (mk_table KId 1%N 2%nat)) by (rewrite E; reflexivity);
     replace o with (snd (mk_table KId 1%N 2%nat)) by (rewrite E; reflexivity); vm_compute; reflexivity).
  destruct (copyable_sound _ _ _ _ C) as (W & S & SL).
  split; [exact hooks_fixed_ok|]. split; [exact id_to_index_is_local|]. split; [auto|].
  split; [exact W|]. split; [exact S|]. split; [exact SL|].
  replace h with (fst (mk_table KId 1%N 2%nat)) by (rewrite E; reflexivity);
  replace o with (snd (mk_table KId 1%N 2%nat)) by (rewrite E; reflexivity). vm_compute. discriminate.
Qed.

(* the hypotheses of release_safe ([pair_inv] and both reference counts <= 1) for a concrete
   pair, obtained through copy_wellformed *)
Example ex_release_safe_hyps :
  exists n h o c k, hooks_ok HK_fixed = true /\ (n + 1 <= 4)%nat /\ pair_inv n h o c k /\
                    (rc_of h o <= 1)%N /\ (rc_of h c <= 1)%N.
Proof.
  pose (p := mk_dir 1%N 3%nat 3%N 3%N).
  assert (C : copyable 3%nat (fst p) (snd p) KDir = true) by (vm_compute; reflexivity).
  destruct (copyable_sound _ _ _ _ C) as (W & S & SL).
  destruct (copy_wellformed HK_fixed hooks_fixed_ok 3%nat 3%nat (fst p) (snd p) KDir (le_n _) W S SL)
    as (h' & E & G & W' & RC & _ & _ & _ & P).
  exists 3%nat, h', (snd p), (length (fst p)), KDir.
  split; [exact hooks_fixed_ok|]. split; [auto|]. split; [exact P|]. split.
  - assert (E2 : sqfs_copy HK_fixed 3%nat (fst p) (snd p) = ObjHeap.Ok (h', Some (length (fst p)))) by exact E.
    vm_compute in E2. inversion E2; subst h'. vm_compute. discriminate.
  - rewrite RC. vm_compute. discriminate.
Qed.

(* ------------------------------------------------------------------------------------------------
   Comparator census (session 3, strengthening after seed C04-5).  The rbtree theorems above hold
   for a comparator that is a strict weak order; [dcache_key_compare_is_order] discharged that for
   ONE caller.  Here the obligation is stated and proved per comparator model for the other callers
   (coq/C19/CmpCensus.v, tied to the static C functions by props/C19/cmp_census.py, which also finds
   the call sites in the working tree so that a new one cannot enter without a probe), and the
   comparator "difference of the 64 bit keys returned as int" is refuted on inode references. *)
From SqfsV Require Import C19.CmpCensus.

(* dir_hl.c compare_inum (hard link filter, keys (dev, inode reference)): an order, and zero exactly
   on equal keys - no two inodes are taken for one *)
Theorem compare_inum_is_order :
  (forall a b, (cmp_inum a b < 0 <-> 0 < cmp_inum b a)%Z) /\
  (forall a b c, (cmp_inum a b <= 0 -> cmp_inum b c <= 0 -> cmp_inum a c <= 0)%Z) /\
  (forall a b, cmp_inum a b = 0%Z <-> key_dev a = key_dev b /\ key_inum a = key_inum b).
Proof. exact (conj cmp_inum_antisym (conj cmp_inum_trans cmp_inum_zero)). Qed.
Print Assumptions compare_inum_is_order.

(* xattr_writer_record.c compare_u64 (qsort of an inode's pairs) *)
Theorem compare_u64_is_order :
  (forall a b, (cmp_u64 a b < 0 <-> 0 < cmp_u64 b a)%Z) /\
  (forall a b c, (cmp_u64 a b <= 0 -> cmp_u64 b c <= 0 -> cmp_u64 a c <= 0)%Z).
Proof. exact (conj cmp_u64_antisym cmp_u64_trans). Qed.
Print Assumptions compare_u64_is_order.

(* xattr_writer.c block_compare, for every content of the pair array it compares through *)
Theorem block_compare_is_order : forall pairs,
  (forall a b, (cmp_block pairs a b < 0 <-> 0 < cmp_block pairs b a)%Z) /\
  (forall a b c, (cmp_block pairs a b <= 0 -> cmp_block pairs b c <= 0 -> cmp_block pairs a c <= 0)%Z).
Proof. exact (fun pairs => conj (cmp_block_antisym pairs) (cmp_block_trans pairs)). Qed.
Print Assumptions block_compare_is_order.

(* the hard link filter's tree is a map: rbtree_refines_map_thm with its hypotheses discharged *)
Theorem hard_link_filter_tree_refines_map : forall ops t next,
  rbtree_inv cmp_inum t -> ssorted cmp_inum (rb_key_size t) (elements (rb_root t)) ->
  Forall (fun kv => RbModel.lenN (fst kv) = rb_key_size t /\ RbModel.lenN (snd kv) = rb_value_size t) ops ->
  exists t' next',
    rb_puts cmp_inum (t, next) ops = Some (t', next') /\
    (elements (rb_root t'), next') = fold_left (amap_put cmp_inum t) ops (elements (rb_root t), next) /\
    rbtree_inv cmp_inum t' /\ ssorted cmp_inum (rb_key_size t') (elements (rb_root t')) /\ same_sizes t' t /\
    forall k, node_elem (rbtree_lookup cmp_inum t' k) = amap_find cmp_inum (rb_key_size t') k (elements (rb_root t')).
Proof. exact (rbtree_refines_map cmp_inum cmp_inum_antisym cmp_inum_trans). Qed.
Print Assumptions hard_link_filter_tree_refines_map.

Example ex_hard_link_filter_hypotheses :
  fst (rbtree_init 16 8) = 0%Z /\
  Forall (fun kv => RbModel.lenN (fst kv) = rb_key_size hl_tree0 /\ RbModel.lenN (snd kv) = rb_value_size hl_tree0) hl_ops /\
  rb_key_size_padded hl_tree0 = 16%N.
Proof. exact ex_hl_hypotheses. Qed.

Example ex_hard_link_filter_finds_all :
  match rb_puts cmp_inum (hl_tree0, 0%N) hl_ops with
  | Some (t, next) =>
    next = 5%N /\ map (fun kv => node_value 8 (rbtree_lookup cmp_inum t (fst kv))) hl_ops = map snd hl_ops
  | None => False
  end.
Proof. exact ex_hl_found. Qed.

(* "return l->inum - r->inum;": on inode references 3 metadata blocks apart "<=" is not transitive, and
   inodes 2^32 apart compare equal *)
Theorem compare_inum_truncated_difference_refuted :
  (exists a b c, (cmp_inum_sub a b <= 0 /\ cmp_inum_sub b c <= 0 /\ ~ cmp_inum_sub a c <= 0)%Z) /\
  (exists a b, key_inum a <> key_inum b /\ key_dev a = key_dev b /\ cmp_inum_sub a b = 0%Z).
Proof. exact (conj cmp_inum_sub_not_transitive cmp_inum_sub_merges). Qed.

(* ... and the filter loses an inode: first names of five inodes in metadata blocks 0, 5, 2, 8, 11
   (uncompressed inode table), lookup + insert as the filter does; the inode in block 5 is stored in
   the tree but not found again, so its second name would be written as an independent file *)
Theorem hard_link_filter_loses_inode_refuted :
  exists ops k,
    In k (map fst ops) /\
    match rb_puts cmp_inum_sub (hl_tree0, 0%N) ops with
    | Some (t, _) =>
      rbtree_lookup cmp_inum_sub t k = Leaf /\
      In k (map (fun e => firstnN 16 (e_data e)) (elements (rb_root t)))
    | None => False
    end.
Proof. exact hl_filter_loses_inode. Qed.

(* ======================================================================================
   Closing the audit's findings 1 and 2 (session 3, builder H2).

   Finding 1 - [slack].  The theorems below replace the hypothesis "somebody OUTSIDE holds a
   further reference to every shared object" by [counted]: every reference the object (pair)
   holds is counted (cnt R s <= refcount s).  "<" is the old slack case, "=" is "the reader
   (or the pair original + copy) holds the LAST reference to file / compressor" - the creator
   dropped its own reference.  When a count reaches 0, sqfs_drop enters the shared object's
   destroy hook; the theorems follow it: the shared objects are themselves well-formed objects
   whose cells nobody else owns and that hold no references of their own ([closed_obj], depth m:
   file and the five compressors), pairwise disjoint and disjoint from the object (pair)
   ([env_sep]).  [obj_inv] / [pair_inv_g] = well-formed + [env_ok] (closed, separated, counted).
   [dead h R] = the shared objects whose count equals the number of references in R - the ones
   that die with R; [dead_fp] their cells.  Every heap the object constructors of the model
   produce with counted references is in the domain: THEOREM constructors_establish_obj_inv at the
   end of this file (all builders, all parameters; the ex_general_domain examples below are
   instances), and so is every state reachable from there (reachable_obj_inv).
   ====================================================================================== *)
From SqfsV Require Import C19.ObjGenDefs C19.ObjGenBase C19.ObjGenDrop C19.ObjGenPair C19.ObjGenCheck
     C19.ObjShared C19.ObjSharedDefs C19.ObjSharedInst C19.ObjGenLife C19.ObjSharedEx.

(* [slack] is the special case of [counted] in which nothing dies *)
Theorem slack_is_special_case : forall h R, slack h R -> counted h R /\ dead h R = nil.
Proof. exact (fun h R S => conj (slack_counted h R S) (slack_dead_nil h R S)). Qed.
Print Assumptions slack_is_special_case.

(* ---- copy_wellformed_general / copy_refines_value_general: copy_wellformed and
   copy_refines_value without [slack].  In addition: every shared object keeps its cells and
   its abstraction and has one more count per reference the original holds. *)
Theorem copy_wellformed_general : forall HK, hooks_ok HK = true ->
  forall m n fuel h o k,
    (n <= fuel)%nat -> obj_inv m n h o k ->
    exists h',
      sqfs_copy HK fuel h o = ObjHeap.Ok (h', Some (length h)) /\
      grown (length h) (all_refs n h o) h h' /\
      wf_obj n h' (length h) k /\ rc_of h' (length h) = 1%N /\
      (forall x, In x (fp n h' (length h)) -> (length h <= x < length h')%nat) /\
      NoDup (fp n h' (length h)) /\
      all_refs n h' (length h) = all_refs n h o /\
      pair_inv_g m n h' o (length h) k /\
      (forall s, In s (all_refs n h o) ->
                 fp m h' s = fp m h s /\ abs_obj m h' s = abs_obj m h s /\
                 rc_of h' s = (rc_of h s + N.of_nat (cnt (all_refs n h o) s))%N).
Proof.
  intros HK OK m n fuel h o k Hf I.
  destruct (copy_establishes_g HK OK m n fuel h o k Hf I) as (h' & E & G & SF & P & _ & _ & _ & _ & Sh).
  destruct SF as (A & B & C & D & E' & _). exists h'. auto 12.
Qed.
Print Assumptions copy_wellformed_general.

Theorem copy_refines_value_general : forall HK, hooks_ok HK = true ->
  forall m n fuel h o k,
    (n <= fuel)%nat -> obj_inv m n h o k ->
    exists h',
      sqfs_copy HK fuel h o = ObjHeap.Ok (h', Some (length h)) /\
      abs_obj n h' (length h) = abs_obj n h o /\
      abs_obj n h' o = abs_obj n h o.
Proof.
  intros HK OK m n fuel h o k Hf I.
  destruct (copy_establishes_g HK OK m n fuel h o k Hf I) as (h' & E & _ & SF & _ & _ & _ & AO & _).
  destruct SF as (_ & _ & _ & _ & _ & AC). exists h'. auto.
Qed.
Print Assumptions copy_refines_value_general.

(* ---- release_safe_general: release_safe without [slack] (and without the unused table of
   copy hooks).  Both orders are Ok - no call through NULL, no access to a freed cell, no double
   free, also inside the destroy hooks of file / compressor when the pair held their last
   references - and end in the same heap, which is the initial one with the cells of both
   footprints AND of every shared object whose last holders the two were freed, and one count
   per reference taken from the other shared objects. *)
Theorem release_safe_general : forall m n fuel h o c k,
    (n + m + 1 <= fuel)%nat -> pair_inv_g m n h o c k -> (rc_of h o <= 1)%N -> (rc_of h c <= 1)%N ->
    exists h1 h2 h1' h2',
      sqfs_drop DK fuel h o = ObjHeap.Ok h1 /\ sqfs_drop DK fuel h1 c = ObjHeap.Ok h2 /\
      sqfs_drop DK fuel h c = ObjHeap.Ok h1' /\ sqfs_drop DK fuel h1' o = ObjHeap.Ok h2' /\
      h2' = h2 /\
      released h h2 ((fp n h o ++ fp n h c) ++ dead_fp m h (all_refs n h o ++ all_refs n h c))
               (all_refs n h o ++ all_refs n h c).
Proof. exact release_either_order_g. Qed.
Print Assumptions release_safe_general.

(* how to read the [released] of release_safe_general (F = the cells, R = the references of
   the pair): all of F is freed; a shared object whose count was exactly the number of
   references in R is freed with all its cells; a shared object with an outside holder is still
   a closed well-formed object with the same cells and abstraction and has its count back;
   no other cell changed *)
Theorem release_general_reading : forall m h h2 F R,
    released h h2 (F ++ dead_fp m h R) R -> env_ok m h F R ->
    (forall x, In x F -> is_freed h2 x) /\
    (forall s, In s R -> N.of_nat (cnt R s) = rc_of h s -> forall x, In x (fp m h s) -> is_freed h2 x) /\
    (forall s, In s R -> (N.of_nat (cnt R s) < rc_of h s)%N ->
               closed_obj m h2 s /\ fp m h2 s = fp m h s /\ abs_obj m h2 s = abs_obj m h s /\
               rc_of h2 s = (rc_of h s - N.of_nat (cnt R s))%N) /\
    (forall x, ~ In x F -> ~ In x (shared_fp m h R) -> nth_error h2 x = nth_error h x).
Proof. exact released_reading. Qed.
Print Assumptions release_general_reading.

(* a single object (no copy): the same *)
Theorem drop_safe_general : forall m n fuel h a k,
    (n + m + 1 <= fuel)%nat -> obj_inv m n h a k -> (rc_of h a <= 1)%N ->
    exists h', sqfs_drop DK fuel h a = ObjHeap.Ok h' /\
               released h h' (fp n h a ++ dead_fp m h (all_refs n h a)) (all_refs n h a).
Proof. exact (fun m n fuel h a k Hf I => drop_ok_g DK DK_ok m n fuel Hf h a k (proj1 I) (proj2 I)). Qed.
Print Assumptions drop_safe_general.

(* ---- survivor_intact_general: after releasing one of the pair the other is what it was -
   well-formed, same abstraction, internal pointers alive - and still satisfies [obj_inv]: every
   shared object it references is alive, with the same cells and abstraction *)
Theorem survivor_intact_general : forall m n fuel h o c k,
    (n + m + 1 <= fuel)%nat -> pair_inv_g m n h o c k -> (rc_of h o <= 1)%N ->
    exists h1,
      sqfs_drop DK fuel h o = ObjHeap.Ok h1 /\
      wf_obj n h1 c k /\ abs_obj n h1 c = abs_obj n h c /\ touch_obj h1 c = ObjHeap.Ok tt /\
      obj_inv m n h1 c k /\ all_refs n h1 c = all_refs n h c /\
      (forall s, In s (all_refs n h c) ->
                 closed_obj m h1 s /\ fp m h1 s = fp m h s /\ abs_obj m h1 s = abs_obj m h s /\
                 rc_of h1 s = (rc_of h s - N.of_nat (cnt (all_refs n h o) s))%N).
Proof. exact survivor_intact_g. Qed.
Print Assumptions survivor_intact_general.

(* the decidable check implies the hypotheses of the general theorems *)
Theorem copyable_general_sound : forall m n h a k, copyable_g m n h a k = true -> obj_inv m n h a k.
Proof. exact copyable_g_ok. Qed.
Print Assumptions copyable_general_sound.

(* ---- non-vacuity, the same object kinds with and without an outside holder: a directory
   reader (two meta readers sharing file and compressor, three cached nodes) whose meta readers
   hold the LAST references (file 2, cmp 2), one with outside holders (3, 3), one mixed (file
   last, compressor not); a data reader with fragment table and both buffers, last holder
   (1, 1) and not (2, 2); a meta reader and an xattr reader holding the last references *)
Definition chkg (p : heap * addr) (k : kind) : bool := let '(h, o) := p in copyable_g 1%nat 3%nat h o k.

Example ex_general_domain_readers :
  (chkg (mk_dir 1%N 3%nat 2%N 2%N) KDir && chkg (mk_dir 1%N 3%nat 3%N 3%N) KDir && chkg (mk_dir 1%N 3%nat 2%N 5%N) KDir &&
   chkg (mk_data 1%N 2%nat true true 1%N 1%N) KData && chkg (mk_data 1%N 2%nat true true 2%N 2%N) KData &&
   chkg (mk_meta 1%N 1%N 1%N) KMeta && chkg (mk_xrd 1%N true true true 2%N 2%N) KXrd)%bool = true.
Proof. vm_compute. reflexivity. Qed.

(* ... of which the old check accepts only those with an outside holder *)
Example ex_general_domain_beyond_slack :
  (chk (mk_dir 1%N 3%nat 2%N 2%N) KDir, chk (mk_dir 1%N 3%nat 3%N 3%N) KDir, chk (mk_dir 1%N 3%nat 2%N 5%N) KDir,
   chk (mk_data 1%N 2%nat true true 1%N 1%N) KData, chk (mk_data 1%N 2%nat true true 2%N 2%N) KData)
  = (false, true, false, false, true).
Proof. vm_compute. reflexivity. Qed.

(* ... and every other builder shape (no shared objects at all) is in the domain as well *)
Example ex_general_domain_rest :
  (chkg (mk_flat KXz 1%N) KXz && chkg (mk_res KGzip 1%N) KGzip && chkg (mk_res KFile 1%N) KFile &&
   chkg (mk_table KId 1%N 3%nat) KId && chkg (mk_table KFrag 1%N 0%nat) KFrag &&
   chkg (mk_xwr 1%N 2%nat 3%nat 4%nat 3%nat) KXwr && chkg (mk_xrd 1%N false false false 1%N 1%N) KXrd)%bool = true.
Proof. vm_compute. reflexivity. Qed.

(* references that are NOT counted (two references, count 1) are outside the domain, and there
   the second drop of a reference does crash: the hypothesis is not an artefact *)
Example ex_uncounted_rejected :
  let '(h, o) := mk_dir 1%N 0%nat 1%N 2%N in
  copyable_g 1%nat 3%nat h o KDir = false /\ sqfs_drop DK 5%nat h o = ObjHeap.Crash UseAfterFree.
Proof. vm_compute. split; reflexivity. Qed.

(* the hypotheses of release_safe_general, jointly, for the last-holder directory reader
   (through copy_wellformed_general), and what the theorem then yields *)
Example ex_release_safe_general_hyps :
  exists m n h o c k, (n + m + 1 <= 5)%nat /\ pair_inv_g m n h o c k /\ (rc_of h o <= 1)%N /\ (rc_of h c <= 1)%N /\
                      dead h (all_refs n h o ++ all_refs n h c) <> nil.
Proof.
  pose (p := mk_dir 1%N 3%nat 2%N 2%N).
  assert (C : copyable_g 1%nat 3%nat (fst p) (snd p) KDir = true) by (vm_compute; reflexivity).
  pose proof (copyable_general_sound _ _ _ _ _ C) as I.
  destruct (copy_wellformed_general HK_fixed hooks_fixed_ok 1%nat 3%nat 3%nat (fst p) (snd p) KDir (le_n _) I)
    as (h' & E & G & W' & RC & _ & _ & AR & P & _).
  exists 1%nat, 3%nat, h', (snd p), (length (fst p)), KDir.
  assert (E2 : sqfs_copy HK_fixed 3%nat (fst p) (snd p) = ObjHeap.Ok (h', Some (length (fst p)))) by exact E.
  vm_compute in E2. inversion E2; subst h'.
  split; [auto|]. split; [exact P|]. split; [vm_compute; discriminate|]. split; [rewrite RC; vm_compute; discriminate|].
  vm_compute. discriminate.
Qed.

(* computed life cycles on the same kinds: last holder - everything is freed, file and
   compressor included, in both orders; outside holder - the counts are back *)
Example ex_last_holder_life_data :
  let '(h, o) := mk_data 1%N 2%nat true true 1%N 1%N in
  exists h1 c h2 h3 h2' h3',
    sqfs_copy HK_fixed 3%nat h o = ObjHeap.Ok (h1, Some c) /\
    rc_of h1 a_file = 2%N /\ rc_of h1 a_cmp = 2%N /\
    sqfs_drop DK 5%nat h1 o = ObjHeap.Ok h2 /\ sqfs_drop DK 5%nat h2 c = ObjHeap.Ok h3 /\
    sqfs_drop DK 5%nat h1 c = ObjHeap.Ok h2' /\ sqfs_drop DK 5%nat h2' o = ObjHeap.Ok h3' /\
    h3 = h3' /\ live_count h3 = 0%nat.
Proof. vm_compute. do 6 eexists. repeat split; reflexivity. Qed.

Example ex_mixed_holder_life_dir :
  let '(h, o) := mk_dir 1%N 3%nat 2%N 5%N in
  exists h1 c h2 h3,
    sqfs_copy HK_fixed 3%nat h o = ObjHeap.Ok (h1, Some c) /\
    sqfs_drop DK 5%nat h1 c = ObjHeap.Ok h2 /\ sqfs_drop DK 5%nat h2 o = ObjHeap.Ok h3 /\
    is_freed h3 a_file /\ is_freed h3 1%nat /\ rc_of h3 a_cmp = 3%N /\ live_count h3 = 2%nat.
Proof. vm_compute. do 4 eexists. repeat split; reflexivity. Qed.

(* ======================================================================================
   Finding 2 - [local_op].  [shared_preserving_op] (C19/ObjShared.v) is the weaker notion the
   read operations of the readers meet: cells outside the object's footprint AND outside the
   shared objects are untouched; of every shared object the top cell (header, reference count,
   hooks, configuration, pointers) is untouched, it stays closed and well-formed with the same
   cells, and a VIEW of its abstraction is kept ([cfg_view]: for a gzip / zstd compressor all
   but the stream cell, for file and flat compressors everything) - the stream / scratch cell
   it owns may change; answer and new value are a function of the object's abstract value and
   of the views of the shared objects it references ([step] gets them as a list, [senv]).
   ====================================================================================== *)

(* the new notion is weaker: every [local_op] is shared-preserving (so the id table operations
   id_to_index_is_local / index_to_id_is_local above are instances too) *)
Theorem shared_preserving_weaker_than_local :
  forall m n k view (op ans : Type) (run : op -> heap -> addr -> heap * ans) (step : op -> aval -> aval * ans),
    local_op n k op ans run step ->
    shared_preserving_op m n k view op ans run (fun _ => step).
Proof. exact local_is_shared_preserving. Qed.
Print Assumptions shared_preserving_weaker_than_local.

(* interleaving_independent for shared-preserving operations, on pairs without [slack]: for
   every schedule each side's answers are those of the layer-(i) machine - parametrised by the
   views of the shared objects, which no operation of either side changes - run on that side's
   own operations; the pair invariant is kept *)
Theorem interleaving_independent_shared :
  forall (m n : nat) (k : kind) (view : aval -> aval) (op ans : Type)
         (run : op -> heap -> addr -> heap * ans) (step : list aval -> op -> aval -> aval * ans),
    shared_preserving_op m n k view op ans run step ->
    forall s h o c h' rs,
      pair_inv_g m n h o c k -> exec op ans run s h o c = (h', rs) ->
      pair_inv_g m n h' o c k /\
      rc_of h' o = rc_of h o /\ rc_of h' c = rc_of h c /\
      all_refs n h' o = all_refs n h o /\ all_refs n h' c = all_refs n h c /\
      senv m view h' (all_refs n h o) = senv m view h (all_refs n h o) /\
      senv m view h' (all_refs n h c) = senv m view h (all_refs n h c) /\
      abs_obj n h' o = fst (exec_abs op ans (step (senv m view h (all_refs n h o))) (side true s) (abs_obj n h o)) /\
      side true rs = snd (exec_abs op ans (step (senv m view h (all_refs n h o))) (side true s) (abs_obj n h o)) /\
      abs_obj n h' c = fst (exec_abs op ans (step (senv m view h (all_refs n h c))) (side false s) (abs_obj n h c)) /\
      side false rs = snd (exec_abs op ans (step (senv m view h (all_refs n h c))) (side false s) (abs_obj n h c)).
Proof. exact ObjShared.interleaving_independent_shared. Qed.
Print Assumptions interleaving_independent_shared.

(* ... hence: in every interleaving each object's answers equal those it gives when it is run
   alone (the same heap, the other object's operations removed from the schedule) *)
Theorem interleaving_equals_solo_run :
  forall (m n : nat) (k : kind) (view : aval -> aval) (op ans : Type)
         (run : op -> heap -> addr -> heap * ans) (step : list aval -> op -> aval -> aval * ans),
    shared_preserving_op m n k view op ans run step ->
    forall s h o c h' rs h1 rs1 h2 rs2,
      pair_inv_g m n h o c k ->
      exec op ans run s h o c = (h', rs) ->
      exec op ans run (only true s) h o c = (h1, rs1) ->
      exec op ans run (only false s) h o c = (h2, rs2) ->
      side true rs = side true rs1 /\ side false rs = side false rs2.
Proof. exact interleaving_equals_solo. Qed.
Print Assumptions interleaving_equals_solo_run.

(* copy_ops_release without [slack] and for shared-preserving operations: copy; any schedule;
   release in either order.  (release_general_reading applies to the last conjunct.) *)
Theorem copy_ops_release_shared : forall HK, hooks_ok HK = true ->
  forall (m n : nat) (k : kind) (view : aval -> aval) (op ans : Type)
         (run : op -> heap -> addr -> heap * ans) (step : list aval -> op -> aval -> aval * ans),
    shared_preserving_op m n k view op ans run step ->
    forall fuel h o s,
      (n + m + 1 <= fuel)%nat -> obj_inv m n h o k -> (rc_of h o <= 1)%N ->
      exists h1 h2 rs h3 h4,
        sqfs_copy HK fuel h o = ObjHeap.Ok (h1, Some (length h)) /\
        exec op ans run s h1 o (length h) = (h2, rs) /\
        side true rs = snd (exec_abs op ans (step (senv m view h (all_refs n h o))) (side true s) (abs_obj n h o)) /\
        side false rs = snd (exec_abs op ans (step (senv m view h (all_refs n h o))) (side false s) (abs_obj n h o)) /\
        pair_inv_g m n h2 o (length h) k /\
        sqfs_drop DK fuel h2 o = ObjHeap.Ok h3 /\ sqfs_drop DK fuel h3 (length h) = ObjHeap.Ok h4 /\
        (exists h3', sqfs_drop DK fuel h2 (length h) = ObjHeap.Ok h3' /\ sqfs_drop DK fuel h3' o = ObjHeap.Ok h4) /\
        released h2 h4 ((fp n h2 o ++ fp n h2 (length h)) ++
                        dead_fp m h2 (all_refs n h2 o ++ all_refs n h2 (length h)))
                 (all_refs n h2 o ++ all_refs n h2 (length h)).
Proof. exact life_cycle_shared. Qed.
Print Assumptions copy_ops_release_shared.

(* ---- a real reader operation is an instance.  Meta reader "seek + read" (C19/ObjSharedDefs.v:
   run_meta): operand and reader state select the compressed block in the bytes of the shared
   file ([req]), the SHARED compressor unpacks it - cmp->do_block = [blk configuration
   stream-state input], which overwrites the stream cell the shared compressor owns -, the reader
   stores the block in its own state and answers ([fin]).  It is shared-preserving for every
   req / fin, PROVIDED do_block's output is a function of (configuration, input): it may not
   depend on what an earlier call - of the original or of the copy - left in the stream.
   Seed C10-3 (gzip: inflateReset moved behind the inflate call, so that a block is unpacked in
   whatever state the previous call left) and finding F22 (gzip_create_copy building the copy's
   stream from the options instead of the original's stream state) are exactly violations of
   this proviso: C10's tie / this property's twin comparison are what checks it on the C code. *)
Theorem meta_read_is_shared_preserving :
  forall (P A : Type) (blk : list N -> list N -> list N -> list N * list N),
    (forall cfg z z' i, snd (blk cfg z i) = snd (blk cfg z' i)) ->
    forall (req : P -> list N -> list N -> list N) (fin : P -> list N -> list N -> list N * A) (dflt : A),
      shared_preserving_op 1%nat 1%nat KMeta cfg_view P A
                           (run_meta P A blk req fin dflt) (step_meta P A blk req fin dflt).
Proof. exact run_meta_shared_preserving. Qed.
Print Assumptions meta_read_is_shared_preserving.

(* the hypotheses of copy_ops_release_shared, jointly, with that operation on a meta reader
   that holds the LAST references to file and compressor *)
Example ex_copy_ops_release_shared_hyps :
  let '(h, o) := ex_meta 1%N 1%N in
  hooks_ok HK_fixed = true /\
  shared_preserving_op 1%nat 1%nat KMeta cfg_view N (list N) run_ok step_ok /\
  (1 + 1 + 1 <= 3)%nat /\ obj_inv 1%nat 1%nat h o KMeta /\ (rc_of h o <= 1)%N /\
  dead h (all_refs 1%nat h o) = [a_file; a_cmp].
Proof.
  split; [exact hooks_fixed_ok|].
  split; [exact (meta_read_is_shared_preserving N (list N) blk_ok blk_ok_stateless req_ex fin_ex nil)|].
  split; [auto|]. split; [apply copyable_general_sound; vm_compute; reflexivity|].
  split; [vm_compute; discriminate|vm_compute; reflexivity].
Qed.

(* that life cycle computed: the interleaved answers, each side's answers when run alone
   (equal), and at the end nothing is left alive - file and compressor died with the pair *)
Example ex_meta_read_last_holder :
  ex_life run_ok (ex_meta 1%N 1%N) ex_sched =
  Some ([(true, [11; 12; 110; 120]); (false, [11; 12; 130; 140]);
         (true, [110; 120; 120; 130]); (false, [130; 140; 110; 120])]%N, Some (0%nat, 0%N, 0%N)) /\
  side true (match ex_life run_ok (ex_meta 1%N 1%N) (only true ex_sched) with Some (rs, _) => rs | None => nil end)
  = [[11; 12; 110; 120]; [110; 120; 120; 130]]%N /\
  side false (match ex_life run_ok (ex_meta 1%N 1%N) (only false ex_sched) with Some (rs, _) => rs | None => nil end)
  = [[11; 12; 130; 140]; [130; 140; 110; 120]]%N.
Proof. exact ex_meta_last_holder_life. Qed.

(* with outside holders (file 2, compressor 3): same answers, counts back at 1 and 2 *)
Example ex_meta_read_outside_holder :
  ex_life run_ok (ex_meta 2%N 3%N) ex_sched =
  Some ([(true, [11; 12; 110; 120]); (false, [11; 12; 130; 140]);
         (true, [110; 120; 120; 130]); (false, [130; 140; 110; 120])]%N, Some (4%nat, 1%N, 2%N)).
Proof. exact ex_meta_outside_holder_life. Qed.

(* the proviso is necessary: with a do_block whose output depends on the stream state the
   previous call left (blk_bad), the copy's answers in the interleaving are not the answers it
   gives alone *)
Theorem stateful_do_block_breaks_independence_refuted :
  (~ forall cfg z z' i, snd (blk_bad cfg z i) = snd (blk_bad cfg z' i)) /\
  exists rs rs1 fin fin1,
    ex_life run_bad (ex_meta 1%N 1%N) ex_sched = Some (rs, fin) /\
    ex_life run_bad (ex_meta 1%N 1%N) (only false ex_sched) = Some (rs1, fin1) /\
    side false rs <> side false rs1.
Proof.
  split; [exact blk_bad_not_stateless|].
  destruct ex_stateful_breaks as (rs & rs1 & f & f1 & A & B & _ & _ & C). exists rs, rs1, f, f1. auto.
Qed.

(* ---- a second real instance: a data reader block read (C19/ObjSharedData.v: run_dblock;
   sqfs_data_reader_t = [Obj frag_tbl; Ref cmp; Ref file; Own data_block; Own frag_block; D],
   nesting depth 2).  The compressed block is taken from the bytes of the shared file, unpacked
   by the SHARED compressor, and lands in the reader's OWN data_block buffer; fragment table and
   fragment buffer are untouched.  Same proviso. *)
From SqfsV Require Import C19.ObjSharedData.

Theorem data_block_read_is_shared_preserving :
  forall (P A : Type) (blk : list N -> list N -> list N -> list N * list N)
         (req : P -> list N -> list N -> list N) (fin : P -> list N -> list N -> list N * A) (dflt : A),
    (forall cfg z z' i, snd (blk cfg z i) = snd (blk cfg z' i)) ->
    shared_preserving_op 1%nat 2%nat KData cfg_view P A
                         (run_dblock P A blk req fin dflt) (step_dblock P A blk req fin dflt).
Proof. exact run_dblock_shared_preserving. Qed.
Print Assumptions data_block_read_is_shared_preserving.

(* a data reader with fragment table (two entries) and both buffers: block reads on original and
   copy interleaved, each side's answers when run alone (equal); holding the last references to
   file and compressor (everything freed at the end) and with outside holders (counts back at 2
   and 1); both heaps satisfy the hypotheses *)
Example ex_data_block_read :
  ex_life run_dblock_ok (ex_data 1%N 1%N) ex_sched =
  Some ([(true, [4096; 110; 120]); (false, [4096; 130; 140]);
         (true, [110; 120; 120; 130]); (false, [130; 140; 110; 120])]%N, Some (0%nat, 0%N, 0%N)) /\
  side true (match ex_life run_dblock_ok (ex_data 1%N 1%N) (only true ex_sched) with Some (rs, _) => rs | None => nil end)
  = [[4096; 110; 120]; [110; 120; 120; 130]]%N /\
  side false (match ex_life run_dblock_ok (ex_data 1%N 1%N) (only false ex_sched) with Some (rs, _) => rs | None => nil end)
  = [[4096; 130; 140]; [130; 140; 110; 120]]%N /\
  ex_life run_dblock_ok (ex_data 3%N 2%N) ex_sched =
  Some ([(true, [4096; 110; 120]); (false, [4096; 130; 140]);
         (true, [110; 120; 120; 130]); (false, [130; 140; 110; 120])]%N, Some (4%nat, 2%N, 1%N)) /\
  copyable_g 1%nat 2%nat (fst (ex_data 1%N 1%N)) (snd (ex_data 1%N 1%N)) KData = true /\
  copyable_g 1%nat 2%nat (fst (ex_data 3%N 2%N)) (snd (ex_data 3%N 2%N)) KData = true.
Proof. exact ex_data_last_holder_life. Qed.

(* ---- a third instance: an xattr reader lookup (C19/ObjSharedXrd.v: run_xlookup;
   sqfs_xattr_reader_t = [D; Own id_block_starts; Obj idrd; Obj kvrd], nesting depth 2).  The lookup
   runs an operation of the id meta reader and then, with an operand computed from that answer, an
   operation of the key/value meta reader: two exclusively owned sub-readers that reference the
   SAME shared file and compressor - the pair situation inside one object.  EVERY shared-preserving
   operation of a meta reader (for instance meta_read_is_shared_preserving above, with its proviso)
   lifts to the xattr reader. *)
From SqfsV Require Import C19.ObjSharedXrd.

Theorem xattr_lookup_is_shared_preserving :
  forall (P1 A1 : Type) (view : aval -> aval)
         (runM : P1 -> heap -> addr -> heap * A1) (stepM : list aval -> P1 -> aval -> aval * A1),
    shared_preserving_op 1%nat 1%nat KMeta view P1 A1 runM stepM ->
    forall (P : Type) (sel1 : P -> list N -> P1) (sel2 : P -> list N -> A1 -> P1) (dflt : A1 * A1),
      shared_preserving_op 1%nat 2%nat KXrd view P (A1 * A1)
                           (run_xlookup P1 A1 runM P sel1 sel2 dflt) (step_xlookup P1 A1 stepM P sel1 sel2 dflt).
Proof. exact run_xlookup_shared_preserving. Qed.
Print Assumptions xattr_lookup_is_shared_preserving.

(* an xattr reader with id_block_starts and both sub-readers, the lookup built from the meta reader
   operation of the examples above: interleaved on original and copy, each side alone (equal);
   holding the last references (file 2, compressor 2: everything freed) and with outside holders
   (3, 4: counts back at 1 and 2); both heaps satisfy the hypotheses; and with the stateful back end
   the answers of an interleaving differ from the solo answers *)
Example ex_xattr_lookup :
  ex_life_g _ run_xl_ok (ex_xrd 2%N 2%N) ex_xsched =
  Some ([(true, ([11; 12; 110; 120], [11; 12; 120; 130])); (false, ([11; 12; 130; 140], [11; 12; 110; 120]));
         (true, ([110; 120; 120; 130], [120; 130; 130; 140]))]%N, Some (0%nat, 0%N, 0%N)) /\
  side true (match ex_life_g _ run_xl_ok (ex_xrd 2%N 2%N) (only true ex_xsched) with Some (rs, _) => rs | None => nil end)
  = [([11; 12; 110; 120], [11; 12; 120; 130]); ([110; 120; 120; 130], [120; 130; 130; 140])]%N /\
  side false (match ex_life_g _ run_xl_ok (ex_xrd 2%N 2%N) (only false ex_xsched) with Some (rs, _) => rs | None => nil end)
  = [([11; 12; 130; 140], [11; 12; 110; 120])]%N /\
  ex_life_g _ run_xl_ok (ex_xrd 3%N 4%N) ex_xsched =
  Some ([(true, ([11; 12; 110; 120], [11; 12; 120; 130])); (false, ([11; 12; 130; 140], [11; 12; 110; 120]));
         (true, ([110; 120; 120; 130], [120; 130; 130; 140]))]%N, Some (4%nat, 1%N, 2%N)) /\
  copyable_g 1%nat 2%nat (fst (ex_xrd 2%N 2%N)) (snd (ex_xrd 2%N 2%N)) KXrd = true /\
  copyable_g 1%nat 2%nat (fst (ex_xrd 3%N 4%N)) (snd (ex_xrd 3%N 4%N)) KXrd = true /\
  side false (match ex_life_g _ run_xl_bad (ex_xrd 2%N 2%N) ex_xsched with Some (rs, _) => rs | None => nil end)
  <> side false (match ex_life_g _ run_xl_bad (ex_xrd 2%N 2%N) (only false ex_xsched) with Some (rs, _) => rs | None => nil end).
Proof. exact ex_xrd_lookup_life. Qed.

(* ---- non-vacuity and a run-level statement (independent audit 4).  Proofs inline: they USE the theorems of this file. ---- *)
Local Open Scope N_scope.
From Coq Require Import List NArith ZArith Bool Lia.
From SqfsV Require Import Util.GenUtil Util.RbModel Util.RbOrder Util.RbBalance Util.RbTheorems Util.RbExamples Util.RbPair.
(* all hypotheses of rbtree_pair_independent_thm, jointly, on (original, copy): the five-node tree of
   ex_rbtree_found (keys 2^31 apart), copied by rbtree_copy with the allocator at 5 *)
Example ex_rbtree_pair_hyps :
  exists a b next,
    rb_puts cmp_u32 (ex_tree0, 0) ex_ops = Some (a, 5) /\ rbtree_copy a 5 = Some (b, next) /\ next = 10 /\
    length (ids (rb_root a)) = 5%nat /\
    (forall x y, (cmp_u32 x y < 0 <-> 0 < cmp_u32 y x)%Z) /\
    (forall x y z, (cmp_u32 x y <= 0 -> cmp_u32 y z <= 0 -> cmp_u32 x z <= 0)%Z) /\
    rbtree_inv cmp_u32 a /\ rbtree_inv cmp_u32 b /\ same_sizes a b /\ pair_ok a b next /\
    Forall (fun wo : bool * rb_op => op_sized a (snd wo))
           [(true, RbInsert (le4 9) [4;4;4;4;4;4;4;4]); (false, RbLookup (le4 9)); (false, RbInsert (le4 6) [5;5;5;5;5;5;5;5]);
            (true, RbLookup (le4 6))].
Proof.
  destruct dcache_key_compare_is_order as [A T].
  assert (I0 : rbtree_inv cmp_u32 ex_tree0).
  { apply (rbtree_init_inv_holds cmp_u32 4 8). vm_compute. reflexivity. }
  assert (S0 : ssorted cmp_u32 (rb_key_size ex_tree0) (elements (rb_root ex_tree0))) by (vm_compute; constructor).
  destruct ex_rbtree_hypotheses as (_ & F & _).
  destruct (rbtree_refines_map_thm cmp_u32 A T ex_ops ex_tree0 0 I0 S0 F) as (a & n & E & _ & Ia & _ & _ & _).
  assert (En : n = 5) by (vm_compute in E; inversion E; reflexivity). subst n.
  destruct (rbtree_copy_equiv_thm a 5 (proj2 (proj2 Ia))) as (b & Ec & _ & Sz & _ & Fb & _ & Dj).
  exists a, b, (5 + tsize (rb_root a)).
  assert (Ea : a = match rb_puts cmp_u32 (ex_tree0, 0) ex_ops with Some (t, _) => t | None => ex_tree0 end)
    by (rewrite E; reflexivity).
  assert (Fa : Forall (fun i => i < 5) (ids (rb_root a))).
  { rewrite Ea. vm_compute. repeat constructor. }
  split; [exact E|]. split; [exact Ec|].
  split; [rewrite Ea; vm_compute; reflexivity|].
  split; [rewrite Ea; vm_compute; reflexivity|].
  split; [exact A|]. split; [exact T|]. split; [exact Ia|].
  split; [exact (rbtree_copy_keeps_inv cmp_u32 a 5 b _ Ia Ec)|].
  split; [destruct Sz as (s1 & s2 & s3); repeat split; congruence|].
  split.
  - split; [|split].
    + eapply Forall_impl; [|exact Fa]. cbv beta. intros; lia.
    + eapply Forall_impl; [|exact Fb]. cbv beta. intros; lia.
    + exact (Dj Fa).
  - rewrite Ea. repeat constructor.
Qed.
Print Assumptions ex_rbtree_pair_hyps.
From Coq Require Import List NArith ZArith Bool Lia.
From SqfsV Require Import Util.GenUtil Util.HashModel Util.HashRows Util.ArrayModel Util.StrModel Util.StrProofs Util.StrIndex Util.StrCopy.
(* all hypotheses of str_table_step_independent_thm (and of str_table_copy_equiv_thm / _disjoint_thm before it),
   jointly: the table str_table_init returns, one string added, copied the way xattr_writer_copy does *)
Example ex_str_table_step_independent_hyps :
  exists h a b,
    str_inv h a /\ str_inv h b /\ disjoint_tables a b /\ disjoint_tables b a /\ st_roomy a /\
    str_abs h a = [([117; 115], 0)] /\ str_abs h b = str_abs h a.
Proof.
  destruct str_table_init_inv_thm as (t0 & E0 & N0 & I0).
  assert (T0 : t0 = match str_table_init with Some (_, t) => t | None => t0 end) by (rewrite E0; reflexivity).
  pose (h0 := mk_bheap 0 nil).
  destruct (I0 h0) as [Inv0 Abs0].
  assert (NI : ~ In [117; 115] (strings h0 t0)).
  { rewrite T0. vm_compute. tauto. }
  assert (R0 : a_size (st_arr t0) = util_sizeof_ptr /\ a_count (st_arr t0) <= 1099511627776).
  { rewrite T0. vm_compute. split; [reflexivity|discriminate]. }
  assert (L0 : st_next_index t0 < ht_safe_limit) by (rewrite N0; vm_compute; reflexivity).
  destruct (str_table_get_index_new_thm h0 t0 [117; 115] Inv0 NI L0 (proj1 R0) (proj2 R0))
    as (h1 & t1 & _ & Inv1 & Abs1 & N1 & _ & _ & S1 & C1 & _).
  assert (L1 : st_next_index t1 < ht_safe_limit) by (rewrite N1, N0; vm_compute; reflexivity).
  destruct (str_table_copy_equiv_thm h1 t1 t1 Inv1 eq_refl S1 L1)
    as (h2 & c & Ec & Invc & Absc & _ & _ & _ & Inv1' & Abs1').
  destruct (str_table_copy_disjoint_thm h1 t1 t1 h2 c Inv1 eq_refl S1 L1 Ec) as [D1 D2].
  exists h2, t1, c.
  split; [exact Inv1'|]. split; [exact Invc|]. split; [exact D1|]. split; [exact D2|].
  split; [exact (conj L1 (conj S1 C1))|].
  split; [rewrite Abs1', Abs1, Abs0; reflexivity|rewrite Absc, Abs1'; reflexivity].
Qed.
Print Assumptions ex_str_table_step_independent_hyps.
From Coq Require Import List NArith ZArith Bool Lia Permutation.
From SqfsV Require Import Util.GenUtil Util.FastRem Util.HashModel Util.HashBase Util.HashRows Util.HashInv Util.HashContracts.
(* the hash table's REAL operation sequence: hash_table_create, then any sequence of
   search / insert / "search, then remove the entry found" (what block_processor.c and str_table.c do).
   Every call returns, [wf] holds throughout: the single-step contracts of Properties_C19 compose from the constructor. *)
Section Run.
Variables K V : Type.
Variable keq : K -> K -> bool.

Inductive hop := HFind (hash : N) (key : K) | HIns (hash : N) (key : K) (data : V) | HDel (hash : N) (key : K).
Definition hop_hash (o : hop) : N := match o with HFind h _ | HIns h _ _ | HDel h _ => h end.

Definition ht_step (t : htab K V) (o : hop) : res (htab K V) :=
  match o with
  | HFind h k => match ht_search K V keq t h k with Ok _ => Ok t | Crash => Crash | OutOfFuel => OutOfFuel end
  | HIns h k d => match ht_insert K V keq t h k d with Ok (t', _) => Ok t' | Crash => Crash | OutOfFuel => OutOfFuel end
  | HDel h k => match ht_search K V keq t h k with
                | Ok (Some a) => Ok (ht_remove_entry K V t a)
                | Ok None => Ok t
                | Crash => Crash | OutOfFuel => OutOfFuel
                end
  end.

Fixpoint ht_run (t : htab K V) (ops : list hop) : res (htab K V) :=
  match ops with
  | [] => Ok t
  | o :: r => match ht_step t o with Ok t' => ht_run t' r | e => e end
  end.

Lemma step_ok : forall t o, wf K V t -> hop_hash o < two32 -> ht_entries K V t < ht_safe_limit ->
  exists t', ht_step t o = Ok t' /\ wf K V t' /\ ht_entries K V t' <= ht_entries K V t + 1.
Proof.
  intros t o W H L. destruct o as [h k|h k d|h k]; cbn [ht_step hop_hash] in *.
  - destruct (hash_table_search_contract K V keq t h k W H) as (r & E & _). rewrite E. exists t. split; [reflexivity|split; [exact W|lia]].
  - destruct (hash_table_insert_contract K V keq t h k d W H L) as (t' & a & E & W' & _ & [(k0 & d0 & rest & _ & _ & _ & Q)|(_ & _ & Q)]);
      rewrite E; exists t'; (split; [reflexivity|split; [exact W'|lia]]).
  - destruct (hash_table_search_contract K V keq t h k W H) as (r & E & S). rewrite E. destruct r as [a|].
    + destruct S as (k1 & d1 & Hn & _).
      destruct (hash_table_remove_contract K V t a h k1 d1 W Hn) as (W' & rest & P & Lv).
      exists (ht_remove_entry K V t a). split; [reflexivity|]. split; [exact W'|].
      rewrite (wf_entries K V _ W'), (wf_entries K V _ W), Lv. unfold lenN. rewrite (Permutation_length P). cbn [length]. lia.
    + exists t. split; [reflexivity|split; [exact W|lia]].
Qed.

Theorem hash_table_run_from_create : forall ops,
  Forall (fun o => hop_hash o < two32) ops -> N.of_nat (length ops) < ht_safe_limit ->
  exists t0 t, ht_create K V = Some t0 /\ ht_run t0 ops = Ok t /\ wf K V t.
Proof.
  intros ops F B. destruct (hash_table_create_wf K V) as (t0 & E0 & W0 & L0).
  exists t0. assert (E00 : ht_entries K V t0 = 0) by (rewrite (wf_entries K V _ W0), L0; reflexivity).
  assert (G : forall ops t, wf K V t -> Forall (fun o => hop_hash o < two32) ops ->
              ht_entries K V t + N.of_nat (length ops) < ht_safe_limit -> exists t', ht_run t ops = Ok t' /\ wf K V t').
  { clear. induction ops as [|o r IH]; intros t W F B.
    - exists t. split; [reflexivity|exact W].
    - inversion F as [|? ? Ho Fr]; subst. cbn [length] in B.
      destruct (step_ok t o W Ho) as (t1 & E & W1 & L1); [lia|].
      cbn [ht_run]. rewrite E. apply IH; [exact W1|exact Fr|lia]. }
  destruct (G ops t0 W0 F) as (t & E & W); [rewrite E00; lia|]. exists t. auto.
Qed.
End Run.
Print Assumptions hash_table_run_from_create.

(* ======================================================================================
   Audit 4, findings 4, 8, 12 (session 3, builder H3).

   Finding 4 - [obj_inv] is ESTABLISHED by the constructors, as a theorem.  C19/ObjBuild.v: for every
   builder of C19/ObjKinds.v (mk_flat, mk_res, mk_table, mk_meta, mk_data, mk_dir, mk_xrd, mk_xwr - the header of
   ObjBuild.v lists which sqfs_*_create each transcribes and which fields / references it sets) and ALL its
   parameters - the object's own count, the counts of the shared file and compressor, which nullable members are
   set, the number of table entries / cached nodes / strings / pairs / block nodes - the returned heap satisfies
   [obj_inv], provided the references the object holds are counted: one per meta reader (mk_meta: 1, mk_dir: 2,
   mk_xrd: one per sub-reader present), one for the data reader.  [built] closes the builder outputs under
   [heap_like] (same cells, headers and pointers; the CONTENTS of plain-data members arbitrary: file bytes,
   compressor configuration and stream state, table payload, tree keys, strings): the literal payloads of the
   builders are immaterial.  What remains a modelling decision and not a theorem: that the shared compressor has
   the shape of gzip/zstd (one owned stream cell) - flat compressors are covered as objects of their own
   (mk_flat), not as the shared object of a reader; that the mk_* builders transcribe the C constructors is the
   comment table of ObjBuild.v plus the tie (the probes report the shape of the C objects, the model heap is built
   from that report by these builders and compared token by token).
   ====================================================================================== *)
From SqfsV Require Import C19.ObjBuildBase C19.ObjBuild C19.ObjReach.

Theorem constructors_establish_obj_inv : forall k h o, built k h o ->
  forall m n, (1 <= m)%nat -> (kind_depth k <= n)%nat -> obj_inv m n h o k.
Proof. exact constructors_establish_obj_inv_l. Qed.
Print Assumptions constructors_establish_obj_inv.

(* the same, builder by builder, at the depth the examples above use (m = 1, n = 3) *)
Theorem constructors_establish_obj_inv_explicit :
  (forall k rc, is_flat_kind k = true -> obj_inv 1 3 (fst (mk_flat k rc)) (snd (mk_flat k rc)) k) /\
  (forall k rc, is_res_kind k = true -> obj_inv 1 3 (fst (mk_res k rc)) (snd (mk_res k rc)) k) /\
  (forall k rc used, is_table_kind k = true -> obj_inv 1 3 (fst (mk_table k rc used)) (snd (mk_table k rc used)) k) /\
  (forall rc rcf rcc, (1 <= rcf)%N -> (1 <= rcc)%N ->
     obj_inv 1 3 (fst (mk_meta rc rcf rcc)) (snd (mk_meta rc rcf rcc)) KMeta) /\
  (forall rc frag_used db fb rcf rcc, (1 <= rcf)%N -> (1 <= rcc)%N ->
     obj_inv 1 3 (fst (mk_data rc frag_used db fb rcf rcc)) (snd (mk_data rc frag_used db fb rcf rcc)) KData) /\
  (forall rc nodes rcf rcc, (2 <= rcf)%N -> (2 <= rcc)%N ->
     obj_inv 1 3 (fst (mk_dir rc nodes rcf rcc)) (snd (mk_dir rc nodes rcf rcc)) KDir) /\
  (forall rc ids idrd kvrd rcf rcc, (b2n idrd + b2n kvrd <= rcf)%N -> (b2n idrd + b2n kvrd <= rcc)%N ->
     obj_inv 1 3 (fst (mk_xrd rc ids idrd kvrd rcf rcc)) (snd (mk_xrd rc ids idrd kvrd rcf rcc)) KXrd) /\
  (forall rc keys values pairs nodes,
     obj_inv 1 3 (fst (mk_xwr rc keys values pairs nodes)) (snd (mk_xwr rc keys values pairs nodes)) KXwr).
Proof.
  assert (G : forall k h o, built k h o -> obj_inv 1 3 h o k).
  { intros k h o B. apply constructors_establish_obj_inv_l; [exact B|apply le_n|destruct k; cbn; auto]. }
  split; [intros; apply G; apply B_flat; assumption|]. split; [intros; apply G; apply B_res; assumption|].
  split; [intros; apply G; apply B_table; assumption|]. split; [intros; apply G; apply B_meta; assumption|].
  split; [intros; apply G; apply B_data; assumption|]. split; [intros; apply G; apply B_dir; assumption|].
  split; [intros; apply G; apply B_xrd; assumption|intros; apply G; apply B_xwr].
Qed.
Print Assumptions constructors_establish_obj_inv_explicit.

(* obj_inv is monotone in the two depth bounds and blind to plain data *)
Theorem obj_inv_depth_monotone : forall m n m' n' h o k,
  (m <= m')%nat -> (n <= n')%nat -> obj_inv m n h o k -> obj_inv m' n' h o k.
Proof. exact obj_inv_mono. Qed.
Print Assumptions obj_inv_depth_monotone.

Theorem obj_inv_blind_to_payload : forall m n h h' o k, heap_like h h' -> obj_inv m n h o k -> obj_inv m n h' o k.
Proof. exact obj_inv_payload_independent. Qed.
Print Assumptions obj_inv_blind_to_payload.

(* the counting condition is exact for the meta reader: without a count for it on file or compressor the
   heap is outside [obj_inv] (for the directory reader: ex_uncounted_rejected above, where the second drop
   crashes) *)
Theorem meta_counting_condition_necessary : forall rc rcf rcc,
  obj_inv 1 1 (fst (mk_meta rc rcf rcc)) (snd (mk_meta rc rcf rcc)) KMeta -> (1 <= rcf)%N /\ (1 <= rcc)%N.
Proof. exact meta_counting_necessary. Qed.
Print Assumptions meta_counting_condition_necessary.

(* non-vacuity: a directory reader with 1000 cached nodes whose two meta readers hold the last references, an
   xattr writer with 300 keys / 200 values / 500 pairs / 40 blocks - sizes no vm_compute example reaches -, and the
   example heaps of the shared-operation theorems (other file bytes, other configuration) are [built] *)
Example ex_built :
  built KDir (fst (mk_dir 1%N 1000%nat 2%N 2%N)) (snd (mk_dir 1%N 1000%nat 2%N 2%N)) /\
  built KXwr (fst (mk_xwr 1%N 300%nat 200%nat 500%nat 40%nat)) (snd (mk_xwr 1%N 300%nat 200%nat 500%nat 40%nat)) /\
  built KMeta (fst (ex_meta 1%N 1%N)) (snd (ex_meta 1%N 1%N)) /\
  built KData (fst (ex_data 3%N 2%N)) (snd (ex_data 3%N 2%N)) /\
  built KXrd (fst (ex_xrd 2%N 2%N)) (snd (ex_xrd 2%N 2%N)).
Proof.
  split; [apply B_dir; discriminate|]. split; [apply B_xwr|].
  split; [apply (B_payload KMeta (fst (mk_meta 1%N 1%N 1%N))); [apply B_meta; discriminate|]; repeat constructor|].
  split; [apply (B_payload KData (fst (mk_data 1%N 2%nat true true 3%N 2%N))); [apply B_data; discriminate|]; repeat constructor|].
  apply (B_payload KXrd (fst (mk_xrd 1%N true true true 2%N 2%N))); [apply B_xrd; discriminate|]; repeat constructor.
Qed.

(* ---- reachable_obj_inv.  C19/ObjReach.v: a state is one object or an original with its copy; reachable =
   a [built] heap, followed by any sequence of: a shared-preserving operation on a single object; sqfs_copy;
   any schedule of shared-preserving operations on the pair (a different operation table each time, if one
   likes); the pair seen the other way round; the release of one of the two (its count at most 1), which
   leaves a single object - that can be copied again.  Every reachable single object satisfies [obj_inv],
   every reachable pair [pair_inv_g]: the hypotheses of the general theorems above hold throughout. *)
Theorem reachable_obj_inv : forall HK, hooks_ok HK = true ->
  forall m n k, (1 <= m)%nat -> (kind_depth k <= n)%nat ->
  forall st, reach HK m n k st ->
    match st with
    | One h o => obj_inv m n h o k
    | Two h o c => pair_inv_g m n h o c k
    end.
Proof. intros HK OK m n k Hm Hn st R. exact (reachable_obj_inv_l HK m n k OK Hm Hn st R). Qed.
Print Assumptions reachable_obj_inv.

Theorem reachable_release_safe : forall HK, hooks_ok HK = true ->
  forall m n k, (1 <= m)%nat -> (kind_depth k <= n)%nat ->
  forall h o c fuel,
    reach HK m n k (Two h o c) -> (n + m + 1 <= fuel)%nat -> (rc_of h o <= 1)%N -> (rc_of h c <= 1)%N ->
    exists h1 h2 h1',
      sqfs_drop DK fuel h o = ObjHeap.Ok h1 /\ sqfs_drop DK fuel h1 c = ObjHeap.Ok h2 /\
      sqfs_drop DK fuel h c = ObjHeap.Ok h1' /\ sqfs_drop DK fuel h1' o = ObjHeap.Ok h2.
Proof. intros HK OK m n k Hm Hn. exact (reachable_release_safe_l HK m n k OK Hm Hn). Qed.
Print Assumptions reachable_release_safe.

Theorem reachable_copy_ok : forall HK, hooks_ok HK = true ->
  forall m n k, (1 <= m)%nat -> (kind_depth k <= n)%nat ->
  forall h o fuel, reach HK m n k (One h o) -> (n <= fuel)%nat ->
    exists h', sqfs_copy HK fuel h o = ObjHeap.Ok (h', Some (length h)) /\ reach HK m n k (Two h' o (length h)).
Proof. intros HK OK m n k Hm Hn. exact (reachable_copy_ok_l HK m n k OK Hm Hn). Qed.
Print Assumptions reachable_copy_ok.

(* shared-preserving operations keep [obj_inv] of a single object (no copy beside it) *)
Theorem shared_preserving_keeps_single : forall m n k view (op ans : Type)
    (run : op -> heap -> addr -> heap * ans) (step : list aval -> op -> aval -> aval * ans),
  shared_preserving_op m n k view op ans run step ->
  forall p h x h' r, obj_inv m n h x k -> run p h x = (h', r) ->
    obj_inv m n h' x k /\ rc_of h' x = rc_of h x /\ all_refs n h' x = all_refs n h x.
Proof. exact shared_preserving_keeps_obj_inv. Qed.
Print Assumptions shared_preserving_keeps_single.

(* non-vacuity: a reachable history of the meta reader that holds the LAST references to file and compressor -
   built; one read alone; copied; four interleaved reads through the shared compressor; the ORIGINAL released;
   the surviving copy reads again; the survivor is copied once more - ends in a reachable pair *)
Example ex_reachable :
  exists h1 h2 c h3 h4 h5 h6 c2,
    reach HK_fixed 1 1 KMeta (One (fst (ex_meta 1%N 1%N)) (snd (ex_meta 1%N 1%N))) /\
    fst (run_ok 1%N (fst (ex_meta 1%N 1%N)) (snd (ex_meta 1%N 1%N))) = h1 /\
    sqfs_copy HK_fixed 3 h1 (snd (ex_meta 1%N 1%N)) = ObjHeap.Ok (h2, Some c) /\
    fst (exec N (list N) run_ok ex_sched h2 (snd (ex_meta 1%N 1%N)) c) = h3 /\
    sqfs_drop DK 4 h3 (snd (ex_meta 1%N 1%N)) = ObjHeap.Ok h4 /\
    fst (run_ok 2%N h4 c) = h5 /\
    sqfs_copy HK_fixed 3 h5 c = ObjHeap.Ok (h6, Some c2) /\
    reach HK_fixed 1 1 KMeta (Two h6 c c2) /\ c <> c2 /\ rc_of h6 a_file = 2%N.
Proof.
  set (p := ex_meta 1%N 1%N). pose (Sp := meta_read_is_shared_preserving N (list N) blk_ok blk_ok_stateless req_ex fin_ex nil).
  assert (R0 : reach HK_fixed 1 1 KMeta (One (fst p) (snd p))) by (apply R_built; apply ex_built).
  destruct (run_ok 1%N (fst p) (snd p)) as [h1 r1] eqn:E1.
  assert (R1 : reach HK_fixed 1 1 KMeta (One h1 (snd p))) by (eapply R_op; [exact R0|exact Sp|exact E1]).
  destruct (sqfs_copy HK_fixed 3 h1 (snd p)) as [[h2 [c|]]| |] eqn:E2;
    try (exfalso; vm_compute in E1; inversion E1; subst h1; vm_compute in E2; discriminate).
  assert (R2 : reach HK_fixed 1 1 KMeta (Two h2 (snd p) c)) by (eapply R_copy; [exact R1| |exact E2]; auto).
  destruct (exec N (list N) run_ok ex_sched h2 (snd p) c) as [h3 rs] eqn:E3.
  assert (R3 : reach HK_fixed 1 1 KMeta (Two h3 (snd p) c)) by (eapply R_ops; [exact R2|exact Sp|exact E3]).
  destruct (sqfs_drop DK 4 h3 (snd p)) as [h4| |] eqn:E4;
    try (exfalso; vm_compute in E1; inversion E1; subst h1; vm_compute in E2; inversion E2; subst h2 c;
         vm_compute in E3; inversion E3; subst h3; vm_compute in E4; discriminate).
  assert (RC3 : (rc_of h3 (snd p) <= 1)%N).
  { vm_compute in E1; inversion E1; subst h1; vm_compute in E2; inversion E2; subst h2 c;
      vm_compute in E3; inversion E3; subst h3. vm_compute. discriminate. }
  assert (R4 : reach HK_fixed 1 1 KMeta (One h4 c)) by (eapply (R_drop HK_fixed 1 1 KMeta h3 (snd p) c 4); [exact R3|auto|exact RC3|exact E4]).
  destruct (run_ok 2%N h4 c) as [h5 r5] eqn:E5.
  assert (R5 : reach HK_fixed 1 1 KMeta (One h5 c)) by (eapply R_op; [exact R4|exact Sp|exact E5]).
  destruct (reachable_copy_ok HK_fixed hooks_fixed_ok 1 1 KMeta (le_n _) (le_n _) h5 c 3 R5 (le_S _ _ (le_S _ _ (le_n _)))) as (h6 & E6 & R6).
  exists h1, h2, c, h3, h4, h5, h6, (length h5).
  split; [exact R0|]. split; [reflexivity|]. split; [exact E2|]. split; [rewrite E3; reflexivity|]. split; [exact E4|].
  split; [rewrite E5; reflexivity|]. split; [exact E6|]. split; [exact R6|].
  vm_compute in E1; inversion E1; subst h1; vm_compute in E2; inversion E2; subst h2 c;
    vm_compute in E3; inversion E3; subst h3; vm_compute in E4; inversion E4; subst h4;
    vm_compute in E5; inversion E5; subst h5. vm_compute in E6. inversion E6; subst h6.
  split; [vm_compute; discriminate|vm_compute; reflexivity].
Qed.

(* ======================================================================================
   Finding 12 - the string table, run level.  C19/StrRun.v.  [srun]: any interleaving of get_index / get_string /
   get_ref_count / add_ref / del_ref on two tables over one bucket heap; [abs_run]: the abstract machine on the
   list (string, count) by index.  The growth step re-establishes element size and capacity bound ([st_sized]);
   next_index grows by at most one per get_index call: with [new_budget] = number of get_index calls of a side
   (an upper bound for its new strings) below the room left under 2^30 the whole schedule runs.  Each side's
   answers and final value are a function of ITS OWN initial value and ITS OWN operations.
   ====================================================================================== *)
From SqfsV Require Import C19.StrRun.

Theorem str_table_interleaving_independent : forall s h a b,
  str_inv h a -> str_inv h b -> disjoint_tables a b -> st_sized a -> st_sized b ->
  (st_next_index a + new_budget (pick true s) < ht_safe_limit)%N ->
  (st_next_index b + new_budget (pick false s) < ht_safe_limit)%N ->
  exists h' a' b' rs,
    srun s h a b = SOk (h', a', b', rs) /\
    str_inv h' a' /\ str_inv h' b' /\ disjoint_tables a' b' /\ st_sized a' /\ st_sized b' /\
    str_abs h' a' = fst (abs_run (pick true s) (str_abs h a)) /\
    pick true rs = snd (abs_run (pick true s) (str_abs h a)) /\
    str_abs h' b' = fst (abs_run (pick false s) (str_abs h b)) /\
    pick false rs = snd (abs_run (pick false s) (str_abs h b)).
Proof. exact str_table_interleaving_independent_l. Qed.
Print Assumptions str_table_interleaving_independent.

(* source and copy: the SAME initial value on both sides - the copy answers every later operation exactly as
   the original would have, whatever is done to the original in between *)
Theorem str_table_copy_interleaving : forall h dst src s,
  str_inv h src -> st_next_index dst = st_next_index src -> st_sized src ->
  (st_next_index src + new_budget (pick true s) < ht_safe_limit)%N ->
  (st_next_index src + new_budget (pick false s) < ht_safe_limit)%N ->
  exists h0 c h' a' c' rs,
    str_table_copy h dst src = SOk (h0, c, 0%Z) /\
    srun s h0 src c = SOk (h', a', c', rs) /\
    str_inv h' a' /\ str_inv h' c' /\ disjoint_tables a' c' /\
    str_abs h' a' = fst (abs_run (pick true s) (str_abs h src)) /\
    pick true rs = snd (abs_run (pick true s) (str_abs h src)) /\
    str_abs h' c' = fst (abs_run (pick false s) (str_abs h src)) /\
    pick false rs = snd (abs_run (pick false s) (str_abs h src)).
Proof. exact str_table_copy_interleaving_l. Qed.
Print Assumptions str_table_copy_interleaving.

Definition ex_str_sched : list (bool * sop) :=
  [(true, OGetIndex [97]); (false, OGetIndex [98]); (true, OGetString 1); (false, OGetString 1);
   (false, OAddRef 0); (true, OGetRc 0); (false, OGetRc 0); (false, OGetIndex [117; 115]); (true, ODelRef 0)]%N.

(* all hypotheses of str_table_copy_interleaving, jointly (the table str_table_init returns, one string added),
   and the run it then guarantees, computed: the original learns "a", the copy "b" - index 1 on either side -,
   the copy's add_ref is invisible to the original *)
Example ex_str_table_copy_interleaving :
  exists h src,
    str_inv h src /\ st_sized src /\ str_abs h src = [([117; 115], 0)]%N /\
    (st_next_index src + new_budget (pick true ex_str_sched) < ht_safe_limit)%N /\
    (st_next_index src + new_budget (pick false ex_str_sched) < ht_safe_limit)%N /\
    abs_run (pick true ex_str_sched) (str_abs h src)
      = ([([117; 115], 0); ([97], 0)], [AIndex 0 1; AString (Some [97]); ARc 0; ADone])%N /\
    abs_run (pick false ex_str_sched) (str_abs h src)
      = ([([117; 115], 1); ([98], 0)], [AIndex 0 1; AString (Some [98]); ADone; ARc 1; AIndex 0 0])%N.
Proof.
  destruct str_table_init_inv_thm as (t0 & E0 & N0 & I0).
  assert (T0 : t0 = match str_table_init with Some (_, t) => t | None => t0 end) by (rewrite E0; reflexivity).
  pose (h0 := mk_bheap 0 nil).
  destruct (I0 h0) as [Inv0 Abs0].
  assert (NI : ~ In [117; 115] (strings h0 t0)) by (rewrite T0; vm_compute; tauto).
  assert (R0 : a_size (st_arr t0) = util_sizeof_ptr /\ a_count (st_arr t0) <= 1099511627776)
    by (rewrite T0; vm_compute; split; [reflexivity|discriminate]).
  assert (L0 : st_next_index t0 < ht_safe_limit) by (rewrite N0; vm_compute; reflexivity).
  destruct (str_table_get_index_new_thm h0 t0 [117; 115] Inv0 NI L0 (proj1 R0) (proj2 R0))
    as (h1 & t1 & _ & Inv1 & Abs1 & N1 & _ & _ & S1 & C1 & _).
  exists h1, t1. rewrite Abs1, Abs0, N1, N0. split; [exact Inv1|]. split; [exact (conj S1 C1)|].
  split; [reflexivity|]. vm_compute. repeat split; reflexivity.
Qed.
Print Assumptions ex_str_table_copy_interleaving.

(* ======================================================================================
   Finding 8 - the REMOVE clause of the map view of the hash table.  C19/HashMapRemove.v: tombstoning the entry
   in slot a keeps [wf] and [uniq], makes every search for its class answer NULL, and every other live entry is
   still THE answer of the searches for its class.  With hash_table_refines_map (empty table, insert, search)
   this is the finite map with all four operations.
   ====================================================================================== *)
From SqfsV Require Import C19.HashMapRemove.

Theorem hash_table_refines_map_remove : forall (K V : Type) (keq : K -> K -> bool) (t : htab K V) a h k d,
  wf K V t -> (h < two32)%N -> nthN (ht_table K V t) a = Some (SPresent h k d) ->
  uniq K V keq (livel K V (ht_table K V t)) ->
  wf K V (ht_remove_entry K V t a) /\
  uniq K V keq (livel K V (ht_table K V (ht_remove_entry K V t a))) /\
  (forall key, keq key k = true -> ht_search K V keq (ht_remove_entry K V t a) h key = Ok None) /\
  (forall h1 k1 d1 key, (h1 < two32)%N ->
     In (h1, k1, d1) (livel K V (ht_table K V t)) -> (h1, k1, d1) <> (h, k, d) -> keq key k1 = true ->
     exists a1, ht_search K V keq (ht_remove_entry K V t a) h1 key = Ok (Some a1) /\
                ht_entry K V (ht_remove_entry K V t a) a1 = Some (h1, k1, d1)).
Proof. exact ht_remove_map_view. Qed.
Print Assumptions hash_table_refines_map_remove.

(* all hypotheses jointly (hash_table_create, two inserts through the contracts), and the conclusion read off *)
Example ex_hash_table_remove_hyps :
  exists (t : htab N N) a,
    wf N N t /\ (7 < two32)%N /\ nthN (ht_table N N t) a = Some (SPresent 7 1 100) /\
    uniq N N N.eqb (livel N N (ht_table N N t)) /\ In (12, 9, 200) (livel N N (ht_table N N t)) /\
    ht_search N N N.eqb (ht_remove_entry N N t a) 7 1 = Ok None /\
    exists a1, ht_search N N N.eqb (ht_remove_entry N N t a) 12 9 = Ok (Some a1).
Proof.
  assert (S : forall a b : N, N.eqb a b = true -> N.eqb b a = true) by (intros a b H; rewrite N.eqb_sym; exact H).
  assert (T : forall a b c : N, N.eqb a b = true -> N.eqb b c = true -> N.eqb a c = true)
    by (intros a b c H1 H2; apply N.eqb_eq in H1; apply N.eqb_eq in H2; apply N.eqb_eq; congruence).
  destruct (hash_table_refines_map N N N.eqb S T) as (U0 & UI & US).
  destruct (hash_table_create_wf N N) as (t0 & E0 & W0 & L0).
  assert (En0 : ht_entries N N t0 = 0) by (rewrite (wf_entries N N _ W0), L0; reflexivity).
  assert (B7 : 7 < two32) by (vm_compute; reflexivity). assert (B12 : 12 < two32) by (vm_compute; reflexivity).
  assert (Lim0 : ht_entries N N t0 < ht_safe_limit) by (rewrite En0; vm_compute; reflexivity).
  destruct (hash_table_insert_contract N N N.eqb t0 12 9 200 W0 B12 Lim0) as (t1 & a1 & E1 & W1 & _ & C1).
  assert (P1 : Permutation (livel N N (ht_table N N t1)) [(12, 9, 200)]).
  { destruct C1 as [(k0 & d0 & rest & _ & P & _)|(_ & P & _)]; [rewrite L0 in P; apply Permutation_nil_cons in P; destruct P|].
    rewrite L0 in P. exact P. }
  assert (U1 : uniq N N N.eqb (livel N N (ht_table N N t1))) by (apply (UI t0 12 9 200 t1 a1 W0 B12 Lim0); [rewrite L0; exact U0|exact E1]).
  assert (Lim1 : ht_entries N N t1 < ht_safe_limit).
  { rewrite (wf_entries N N _ W1). unfold lenN. rewrite (Permutation_length P1). vm_compute. reflexivity. }
  destruct (hash_table_insert_contract N N N.eqb t1 7 1 100 W1 B7 Lim1) as (t2 & a2 & E2 & W2 & Sl2 & C2).
  assert (U2 : uniq N N N.eqb (livel N N (ht_table N N t2))) by (exact (UI t1 7 1 100 t2 a2 W1 B7 Lim1 U1 E2)).
  assert (P2 : Permutation (livel N N (ht_table N N t2)) [(7, 1, 100); (12, 9, 200)]).
  { destruct C2 as [(k0 & d0 & rest & _ & P & _)|(_ & P & _)].
    - exfalso. apply (Permutation_trans (Permutation_sym P1)) in P. apply Permutation_length_1_inv in P. inversion P.
    - eapply Permutation_trans; [exact P|]. constructor. exact P1. }
  assert (I12 : In (12, 9, 200) (livel N N (ht_table N N t2))) by (eapply Permutation_in; [symmetry; exact P2|right; left; reflexivity]).
  destruct (hash_table_refines_map_remove N N N.eqb t2 a2 7 1 100 W2 B7 Sl2 U2) as (_ & _ & R1 & R2).
  exists t2, a2. split; [exact W2|]. split; [exact B7|]. split; [exact Sl2|]. split; [exact U2|]. split; [exact I12|].
  split; [apply R1; reflexivity|].
  destruct (R2 12 9 200 9 B12 I12 ltac:(discriminate) eq_refl) as (a3 & E3 & _). exists a3. exact E3.
Qed.
Print Assumptions ex_hash_table_remove_hyps.
