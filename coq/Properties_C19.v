(* C19 - copies of libsquashfs objects are independent, equivalent to the
   original and safely destroyable in either order.  Statements only; every
   proof is one [exact] of a lemma from C19/*.v (or a closed computation).

   Layer (ii): heap of cells (C19/ObjHeap.v), sqfs_copy / sqfs_drop driven by the
   per-kind transcription of the C hooks (C19/ObjHooks.v, C19/ObjKinds.v).
   Layer (i): pointer-free abstraction [abs_obj] (C19/ObjSpec.v) and the pure
   machines of C19/ObjMach.v. *)
From Coq Require Import List NArith ZArith Bool Arith.
From SqfsV Require Import C19.ObjHeap C19.ObjHooks C19.ObjKinds C19.ObjSpec C19.ObjCheckDefs
     C19.ObjBase C19.ObjFrame C19.ObjDrop C19.ObjCopyBase C19.ObjCopy C19.ObjCopy4 C19.ObjPair
     C19.ObjCheck C19.ObjOps C19.ObjTouch C19.ObjInst C19.ObjMach.
Import ListNotations.

(* ---- the transcribed hooks of every kind match the struct layouts ---- *)
Theorem hooks_fixed_ok : hooks_ok HK_fixed = true.
Proof. vm_compute. reflexivity. Qed.
Print Assumptions hooks_fixed_ok.

(* ---- copy_wellformed ----
   For every hook table matching the layouts, every well-formed object of every
   kind and nesting depth, in every heap: sqfs_copy succeeds without fault and
   returns a new object [c = length h] such that
   - c is well-formed of the same kind: header with non-NULL destroy and copy,
     typed fields, every internal pointer of c and of its cells points to a cell
     of c ([wf_obj]); its reference count is 1;
   - all cells of c are fresh (allocated by this copy) and owned once;
   - every pre-existing cell is unchanged, except that each shared object got
     one more reference per reference the original holds ([grown]);
   - original and copy form a separated pair ([pair_inv]). *)
Theorem copy_wellformed : forall HK, hooks_ok HK = true ->
  forall n fuel h o k,
    n <= fuel -> wf_obj n h o k -> sep_obj n h o -> slack h (all_refs n h o) ->
    exists h',
      sqfs_copy HK fuel h o = Ok (h', Some (length h)) /\
      grown (length h) (all_refs n h o) h h' /\
      wf_obj n h' (length h) k /\ rc_of h' (length h) = 1%N /\
      (forall x, In x (fp n h' (length h)) -> length h <= x < length h') /\
      NoDup (fp n h' (length h)) /\
      all_refs n h' (length h) = all_refs n h o /\
      pair_inv n h' o (length h) k.
Proof.
  intros HK OK n fuel h o k Hf W S SL.
  destruct (copy_establishes HK OK n fuel h o k Hf W S SL) as (h' & E & G & SF & P & _).
  destruct SF as (A & B & C & D & E' & _). exists h'. auto 10.
Qed.
Print Assumptions copy_wellformed.

(* following the internal pointers of a well-formed object stays inside live cells *)
Theorem wellformed_pointers_live : forall n h a k, wf_obj n h a k -> touch_obj h a = Ok tt.
Proof. exact touch_wf_ok. Qed.
Print Assumptions wellformed_pointers_live.

(* ---- copy_refines_value ----
   The abstraction (layer (i) value) of the copy equals that of the original,
   and the original's abstraction is unchanged by the copy. *)
Theorem copy_refines_value : forall HK, hooks_ok HK = true ->
  forall n fuel h o k,
    n <= fuel -> wf_obj n h o k -> sep_obj n h o -> slack h (all_refs n h o) ->
    exists h',
      sqfs_copy HK fuel h o = Ok (h', Some (length h)) /\
      abs_obj n h' (length h) = abs_obj n h o /\
      abs_obj n h' o = abs_obj n h o.
Proof.
  intros HK OK n fuel h o k Hf W S SL.
  destruct (copy_establishes HK OK n fuel h o k Hf W S SL) as (h' & E & G & SF & P & _ & AO).
  destruct SF as (_ & _ & _ & _ & _ & AC). exists h'. auto.
Qed.
Print Assumptions copy_refines_value.

(* Operations on original and copy, interleaved in any way: every operation that
   is local to its object and a function of the abstract value ([local_op]) gives,
   on either side, the answers of the layer-(i) machine [step] run on that side's
   own operations only; the other side's abstraction is not affected; the pair
   stays separated. *)
Theorem interleaving_independent :
  forall (n : nat) (k : kind) (op ans : Type)
         (run : op -> heap -> addr -> heap * ans) (step : op -> aval -> aval * ans),
    local_op n k op ans run step ->
    forall s h o c h' rs,
      pair_inv n h o c k -> exec op ans run s h o c = (h', rs) ->
      pair_inv n h' o c k /\
      rc_of h' o = rc_of h o /\ rc_of h' c = rc_of h c /\
      abs_obj n h' o = fst (exec_abs op ans step (side true s) (abs_obj n h o)) /\
      side true rs = snd (exec_abs op ans step (side true s) (abs_obj n h o)) /\
      abs_obj n h' c = fst (exec_abs op ans step (side false s) (abs_obj n h c)) /\
      side false rs = snd (exec_abs op ans step (side false s) (abs_obj n h c)).
Proof. exact ObjOps.interleaving_independent. Qed.
Print Assumptions interleaving_independent.

(* ---- release_safe ----
   A separated pair can be released in either order: no call through NULL, no
   access to a freed cell, no double free (the result is [Ok]); afterwards every
   cell of both footprints is freed, every other cell is unchanged except that
   each shared object lost exactly the references the two objects held; both
   orders end in the same heap. *)
Theorem release_safe : forall HK, hooks_ok HK = true ->
  forall n fuel h o c k,
    n + 1 <= fuel -> pair_inv n h o c k -> (rc_of h o <= 1)%N -> (rc_of h c <= 1)%N ->
    exists h1 h2 h1' h2',
      sqfs_drop DK fuel h o = Ok h1 /\ sqfs_drop DK fuel h1 c = Ok h2 /\
      sqfs_drop DK fuel h c = Ok h1' /\ sqfs_drop DK fuel h1' o = Ok h2' /\
      h2' = h2 /\
      released h h2 (fp n h o ++ fp n h c) (all_refs n h o ++ all_refs n h c).
Proof. exact release_either_order. Qed.
Print Assumptions release_safe.

(* the hypothesis [rc <= 1] of release_safe is the case in which a drop releases;
   when somebody else (e.g. a stream created from a data reader) still holds the
   object a drop only decrements its count *)
Theorem drop_of_held_object_only_decrements : forall fuel h a,
    shared_ok h a -> (1 < rc_of h a)%N ->
    exists h', sqfs_drop DK (S fuel) h a = Ok h' /\ released h h' [] [a].
Proof. exact (drop_held DK). Qed.
Print Assumptions drop_of_held_object_only_decrements.

(* after the first release the survivor is exactly what it was: well-formed,
   same abstraction, internal pointers alive *)
Theorem survivor_intact : forall HK, hooks_ok HK = true ->
  forall n fuel h o c k,
    n + 1 <= fuel -> pair_inv n h o c k -> (rc_of h o <= 1)%N ->
    exists h1,
      sqfs_drop DK fuel h o = Ok h1 /\
      wf_obj n h1 c k /\ abs_obj n h1 c = abs_obj n h c /\ touch_obj h1 c = Ok tt.
Proof.
  intros HK OK n fuel h o c k Hf P R.
  destruct (drop_first HK OK n fuel h o c k Hf P R) as (h1 & E & _ & W & _ & _ & _ & _ & _ & A).
  exists h1. split; [assumption|]. split; [assumption|]. split; [assumption|].
  eapply touch_wf_ok; eauto.
Qed.
Print Assumptions survivor_intact.

(* the whole life cycle: copy, any interleaving of local operations, release in
   either order *)
Theorem copy_ops_release : forall HK, hooks_ok HK = true ->
  forall (n : nat) (k : kind) (op ans : Type)
         (run : op -> heap -> addr -> heap * ans) (step : op -> aval -> aval * ans),
    local_op n k op ans run step ->
    forall fuel h o s,
      n + 1 <= fuel -> wf_obj n h o k -> sep_obj n h o -> slack h (all_refs n h o) ->
      (rc_of h o <= 1)%N ->
      exists h1 h2 rs h3 h4,
        sqfs_copy HK fuel h o = Ok (h1, Some (length h)) /\
        exec op ans run s h1 o (length h) = (h2, rs) /\
        side true rs = snd (exec_abs op ans step (side true s) (abs_obj n h o)) /\
        side false rs = snd (exec_abs op ans step (side false s) (abs_obj n h o)) /\
        sqfs_drop DK fuel h2 o = Ok h3 /\ sqfs_drop DK fuel h3 (length h) = Ok h4 /\
        (exists h3', sqfs_drop DK fuel h2 (length h) = Ok h3' /\ sqfs_drop DK fuel h3' o = Ok h4) /\
        released h2 h4 (fp n h2 o ++ fp n h2 (length h)) (all_refs n h2 o ++ all_refs n h2 (length h)).
Proof. exact life_cycle. Qed.
Print Assumptions copy_ops_release.

(* the decidable checks the tie runs on every heap it builds imply the hypotheses *)
Theorem copyable_sound : forall n h a k,
    copyable n h a k = true -> wf_obj n h a k /\ sep_obj n h a /\ slack h (all_refs n h a).
Proof. exact copyable_ok. Qed.
Print Assumptions copyable_sound.

(* ---- the hooks of the unpatched tree (F19, F20) ---- *)

(* F19: frag_table_copy / id_table_copy calloc without sqfs_object_init: the
   copy's destroy pointer is NULL, dropping it calls NULL *)
Theorem frag_table_copy_null_destroy_refuted :
  exists h o, copyable 3 h o KFrag = true /\
    exists h1 c, sqfs_copy HK_old 3 h o = Ok (h1, Some c) /\ sqfs_drop DK 4 h1 c = Crash NullCall.
Proof. exists (fst (mk_table KFrag 1 2)), (snd (mk_table KFrag 1 2)). vm_compute. eauto. Qed.

Theorem id_table_copy_null_destroy_refuted :
  exists h o, copyable 3 h o KId = true /\
    exists h1 c, sqfs_copy HK_old 3 h o = Ok (h1, Some c) /\ sqfs_drop DK 4 h1 c = Crash NullCall.
Proof. exists (fst (mk_table KId 1 2)), (snd (mk_table KId 1 2)). vm_compute. eauto. Qed.

(* ... and so does dropping a copied data reader (its fragment table is such a copy) *)
Theorem data_reader_copy_drop_refuted :
  exists h o, copyable 3 h o KData = true /\
    exists h1 c, sqfs_copy HK_old 3 h o = Ok (h1, Some c) /\ sqfs_drop DK 4 h1 c = Crash NullCall.
Proof.
  exists (fst (mk_data 1 2 true false 2 2)), (snd (mk_data 1 2 true false 2 2)). vm_compute. eauto.
Qed.

(* F20: xattr_writer_copy keeps key_context / kv_block_first pointing at the
   original: after the original is released, following the copy's internal
   pointers reads freed memory; with the repaired hook the same run is fine *)
Theorem xattr_writer_copy_aliases_refuted :
  exists h o, copyable 3 h o KXwr = true /\
    exists h1 c h2, sqfs_copy HK_old 3 h o = Ok (h1, Some c) /\
                    sqfs_drop DK 4 h1 o = Ok h2 /\ touch_obj h2 c = Crash UseAfterFree.
Proof. exists (fst (mk_xwr 1 2 2 3 2)), (snd (mk_xwr 1 2 2 3 2)). vm_compute. eauto 10. Qed.
Print Assumptions xattr_writer_copy_aliases_refuted.

Example xattr_writer_copy_fixed_ok :
  let '(h, o) := mk_xwr 1 2 2 3 2 in
  exists h1 c h2, sqfs_copy HK_fixed 3 h o = Ok (h1, Some c) /\
                  sqfs_drop DK 4 h1 o = Ok h2 /\ touch_obj h2 c = Ok tt.
Proof. vm_compute. eauto 10. Qed.

Theorem hooks_old_not_ok : hooks_ok HK_old = false.
Proof. vm_compute. reflexivity. Qed.

(* ---- non-vacuity: the hypotheses are met by heaps of every kind and shape ---- *)
Definition chk (p : heap * addr) (k : kind) : bool := let '(h, o) := p in copyable 3 h o k.

Example ex_copyable_compressors :
  (chk (mk_flat KXz 1) KXz && chk (mk_flat KLz4 1) KLz4 && chk (mk_flat KLzma 1) KLzma &&
   chk (mk_res KGzip 1) KGzip && chk (mk_res KZstd 1) KZstd && chk (mk_res KFile 1) KFile) = true.
Proof. vm_compute. reflexivity. Qed.

Example ex_copyable_tables_readers :
  (chk (mk_table KId 1 3) KId && chk (mk_table KFrag 1 0) KFrag && chk (mk_meta 1 2 2) KMeta &&
   chk (mk_data 1 2 true true 2 2) KData && chk (mk_data 2 0 false false 2 2) KData &&
   chk (mk_dir 1 3 3 3) KDir && chk (mk_dir 1 0 3 3) KDir &&
   chk (mk_xrd 1 true true true 3 3) KXrd && chk (mk_xrd 1 false false false 1 1) KXrd) = true.
Proof. vm_compute. reflexivity. Qed.

Example ex_copyable_xattr_writer :
  (chk (mk_xwr 1 2 3 4 3) KXwr && chk (mk_xwr 1 0 0 0 0) KXwr && chk (mk_xwr 1 1 1 1 1) KXwr) = true.
Proof. vm_compute. reflexivity. Qed.

(* a directory reader with three cached directories: copy, release the original
   first, then the copy: everything freed, file and compressor back at their
   counts, 16 cells in total of which the 4 of the environment survive *)
Example ex_dir_reader_life :
  let '(h, o) := mk_dir 1 3 3 3 in
  exists h1 c h2 h3,
    sqfs_copy HK_fixed 3 h o = Ok (h1, Some c) /\
    rc_of h1 a_file = 5%N /\ rc_of h1 a_cmp = 5%N /\
    sqfs_drop DK 4 h1 o = Ok h2 /\ sqfs_drop DK 4 h2 c = Ok h3 /\
    rc_of h3 a_file = 1%N /\ rc_of h3 a_cmp = 1%N /\ live_count h3 = 4.
Proof. vm_compute. eauto 12. Qed.

(* the hypotheses of [interleaving_independent] are satisfiable: overwriting the
   id array in place is a local operation of the id table *)
Theorem set_ids_is_local : local_op 1 KId (list N) (list N) run_set step_set.
Proof. exact run_set_local. Qed.
Print Assumptions set_ids_is_local.

Example ex_interleaving :
  let '(h, o) := mk_table KId 1 2 in
  exists h1 c h2 rs,
    sqfs_copy HK_fixed 3 h o = Ok (h1, Some c) /\
    exec (list N) (list N) run_set [(true, [7%N]); (false, [8%N; 9%N]); (true, [])] h1 o c = (h2, rs) /\
    rs = [(true, [0%N; 1%N]); (false, [0%N; 1%N]); (true, [7%N])].
Proof. vm_compute. eauto 10. Qed.

(* ---- layer (i): the machines answer like the C objects (checked by the tie) ---- *)
Example ex_idtbl :
  let '(t1, a1) := id_to_index [] 1000 in
  let '(t2, a2) := id_to_index t1 0 in
  let '(t3, a3) := id_to_index t2 1000 in
  (a1, a2, a3, snd (index_to_id t3 1), snd (index_to_id t3 2))
  = ((0%Z, 0%N), (0%Z, 1%N), (0%Z, 0%N), (0%Z, 0%N), ((-8)%Z, 4294967295%N)).
Proof. vm_compute. reflexivity. Qed.

(* user.a=1 ; user.b=2 ; user.a=1 again: the third block is the first one *)
Example ex_xwr :
  let k_a := [117; 115; 101; 114; 46; 97]%N in
  let k_b := [117; 115; 101; 114; 46; 98]%N in
  let w1 := fst (xwr_add (fst (xwr_begin xwr_empty)) k_a [49%N]) in
  let '(w2, r1) := xwr_end w1 in
  let w3 := fst (xwr_add (fst (xwr_begin w2)) k_b [50%N]) in
  let '(w4, r2) := xwr_end w3 in
  let w5 := fst (xwr_add (fst (xwr_begin w4)) k_a [49%N]) in
  let '(w6, r3) := xwr_end w5 in
  (r1, r2, r3, snd (xwr_end (fst (xwr_begin w6)))) =
  ((0%Z, 0%N), (0%Z, 1%N), (0%Z, 0%N), (0%Z, 4294967295%N)).
Proof. vm_compute. reflexivity. Qed.
