(* C10 — reader answers depend only on the image and the query, never on
   earlier queries.  Statements only; every proof is one [exact] of a lemma from
   coq/C10/*Proofs.v (or a closed computation for witnesses and examples).

   All theorems are for EVERY image (any list of bytes, valid or damaged), EVERY
   decompressor function and EVERY finite history of calls with arbitrary
   arguments, successful or failed.  The model follows the code with the patches
   props/C10/fixes/F02-*.patch and F03-*.patch applied; the *_refuted theorems
   show that the code as found violates the statement. *)
From Coq Require Import List NArith ZArith Bool.
From SqfsV Require Import Gen.Constants Base.Bytes C10.GenC10 C10.MetaModel C10.MetaProofs
     C10.ClientModel C10.ClientProofs C10.DataModel C10.DataProofs C10.ApiModel C10.ApiProofs C10.AgreeProofs.
Import ListNotations.
Local Open Scope N_scope.

(* ================= meta reader (lib/sqfs/src/meta_reader.c) ================= *)

(* cache coherence is an invariant of every history: the cached block, if tagged
   t, holds exactly what a fresh load of t yields (content, data_used, next_block) *)
Theorem meta_cache_coherent :
  forall (uncompress : list N -> N -> uresult) (file : N -> N -> rd_res) (fsize : N) (start limit : N) (ops : list mop),
  limit <= c10_meta_init_tag ->
  coherent uncompress file (snd (run uncompress file fsize true (mr_create start limit) ops)).
Proof. exact meta_cache_coherent_l. Qed.
Print Assumptions meta_cache_coherent.

(* after any history, the result of any call equals the stateless specification
   of that call: the same call on a reader that has just fetched the block of the
   current (block, offset) position from the image *)
Theorem meta_history_free :
  forall (uncompress : list N -> N -> uresult) (file : N -> N -> rd_res) (fsize : N) (start limit : N) (ops : list mop) (op : mop),
  limit <= c10_meta_init_tag ->
  let m := snd (run uncompress file fsize true (mr_create start limit) ops) in
  fst (step uncompress file fsize true m op) = spec_step uncompress file fsize true start limit (pos_of m) op.
Proof. exact meta_history_free_l. Qed.
Print Assumptions meta_history_free.

Corollary meta_history_free_image :
  forall (uncompress : list N -> N -> uresult) (img : list N) (start limit : N) (ops : list mop) (op : mop),
  limit <= c10_meta_init_tag ->
  let m := snd (run uncompress (read_at img) (len img) true (mr_create start limit) ops) in
  fst (step uncompress (read_at img) (len img) true m op) = spec_step uncompress (read_at img) (len img) true start limit (pos_of m) op.
Proof. intros u img. exact (meta_history_free_l u (read_at img) (len img)). Qed.

(* two histories that end at the same position are indistinguishable *)
Theorem meta_same_position_same_answer :
  forall (uncompress : list N -> N -> uresult) (file : N -> N -> rd_res) (fsize : N) (start limit : N) (ops1 ops2 : list mop) (op : mop),
  limit <= c10_meta_init_tag ->
  let m1 := snd (run uncompress file fsize true (mr_create start limit) ops1) in
  let m2 := snd (run uncompress file fsize true (mr_create start limit) ops2) in
  pos_of m1 = pos_of m2 ->
  fst (step uncompress file fsize true m1 op) = fst (step uncompress file fsize true m2 op).
Proof. exact meta_same_position_l. Qed.
Print Assumptions meta_same_position_same_answer.

(* a query that starts with a seek (every libsquashfs metadata access does)
   answers after any history exactly as on a freshly created reader: the status
   of the seek always, every later answer whenever the seek succeeds *)
Theorem meta_query_fresh :
  forall (uncompress : list N -> N -> uresult) (file : N -> N -> rd_res) (fsize : N) (start limit : N)
         (ops : list mop) (b o : N) (rest : list mop),
  limit <= c10_meta_init_tag ->
  let m := snd (run uncompress file fsize true (mr_create start limit) ops) in
  let r_hist := fst (run uncompress file fsize true m (MSeek b o :: rest)) in
  let r_fresh := fst (run uncompress file fsize true (mr_create start limit) (MSeek b o :: rest)) in
  hd_error r_hist = hd_error r_fresh /\
  (hd_error r_fresh = Some (RSeek (Ok tt)) -> r_hist = r_fresh).
Proof. exact meta_query_fresh_l. Qed.
Print Assumptions meta_query_fresh.

(* the read loop of the model never stops for lack of fuel (for a file of size fsize;
   ex_file_bounded: every image is one) *)
Theorem meta_read_total :
  forall (uncompress : list N -> N -> uresult) (file : N -> N -> rd_res) (fsize : N) (start limit : N) (ops : list mop) (n : N),
  (forall off k bytes, file off k = RdOk bytes -> k = 0 \/ off + k <= fsize) ->
  limit <= c10_meta_init_tag ->
  fst (read uncompress file fsize true (snd (run uncompress file fsize true (mr_create start limit) ops)) n) <> Fuel.
Proof. intros u f fs st li ops n B L. exact (meta_read_total_l u f fs B st li ops n L). Qed.
Print Assumptions meta_read_total.

(* every client program of the reader interface (inode, directory, xattr and
   table readers are instances), over any number of reader objects each with its
   own arbitrary past, computes the same result as on freshly created objects *)
Theorem client_history_free :
  forall (uncompress : list N -> N -> uresult) (file : N -> N -> rd_res) (fsize : N) (R : Type) (c : client R)
         (hist : nat -> N * N * list mop),
  fst (run_client uncompress file fsize true c (after_history uncompress file fsize hist) nothing_positioned) =
  fst (run_client uncompress file fsize true c (fresh_objects hist) nothing_positioned).
Proof. exact client_history_free_l. Qed.
Print Assumptions client_history_free.

(* ---- the code as found (fx = false) violates it: DESIGN F02 ----
   image: block A at 0 (uncompressed, 4 bytes 1 2 3 4), block B at 6 (uncompressed, 2 bytes 9 9).
   history: seek A 0 (ok); seek B 5 (B is copied over data[], then OUT_OF_BOUNDS; tag still A).
   query:   seek A 0; read 2  ->  9 9  instead of  1 2. *)
Definition f02_img : list N := [4; 128; 1; 2; 3; 4; 2; 128; 9; 9].
Definition no_codec : list N -> N -> uresult := fun _ _ => UErr 0%Z.
Theorem meta_stale_tag_refuted :
  exists (img : list N) (start limit : N) (ops : list mop) (b o : N) (rest : list mop),
  limit <= c10_meta_init_tag /\
  let m := snd (run no_codec (read_at img) (len img) false (mr_create start limit) ops) in
  let r_hist := fst (run no_codec (read_at img) (len img) false m (MSeek b o :: rest)) in
  let r_fresh := fst (run no_codec (read_at img) (len img) false (mr_create start limit) (MSeek b o :: rest)) in
  hd_error r_fresh = Some (RSeek (Ok tt)) /\ r_hist <> r_fresh.
Proof.
  exists f02_img, 0, 10, [MSeek 0 0; MSeek 6 5], 0, 0, [MRead 2].
  split; [vm_compute; discriminate|]. vm_compute. split; [reflexivity|discriminate].
Qed.
Print Assumptions meta_stale_tag_refuted.

(* ---- non-vacuity ---- *)
Example ex_file_bounded : forall (img : list N) off k bytes,
  read_at img off k = RdOk bytes -> k = 0 \/ off + k <= len img.
Proof.
  intros img off k bytes. unfold read_at.
  destruct (N.eqb_spec k 0); [auto|].
  destruct (off_t_limit <=? off); [discriminate|].
  destruct (N.leb_spec (off + k) (len img)); [auto|discriminate].
Qed.
(* the same history on the repaired code: the query answers 1 2 as on a fresh reader,
   and the failed seek in the middle really happened *)
Example ex_meta_repaired :
  let m := snd (run no_codec (read_at f02_img) (len f02_img) true (mr_create 0 10) [MSeek 0 0; MSeek 6 5]) in
  fst (run no_codec (read_at f02_img) (len f02_img) true (mr_create 0 10) [MSeek 0 0; MSeek 6 5]) =
    [RSeek (Ok tt); RSeek (Err c_SQFS_ERROR_OUT_OF_BOUNDS)] /\
  fst (run no_codec (read_at f02_img) (len f02_img) true m [MSeek 0 0; MRead 2]) = [RSeek (Ok tt); RRead (Ok [1; 2])].
Proof. vm_compute. split; reflexivity. Qed.
(* a read that crosses from block A into block B, and the position afterwards *)
Example ex_meta_cross :
  fst (run no_codec (read_at f02_img) (len f02_img) true (mr_create 0 10) [MSeek 0 2; MRead 3; MGetPos; MRead 1; MGetPos; MRead 1]) =
    [RSeek (Ok tt); RRead (Ok [3; 4; 9]); RPos (6, 1); RRead (Ok [9]); RPos (10, 0);
     RRead (Err c_SQFS_ERROR_OUT_OF_BOUNDS)].
Proof. vm_compute. reflexivity. Qed.
(* the hypothesis limit <= 2^64-1 is the range of the sqfs_u64 parameter *)
Example ex_limit_range : c10_meta_init_tag = 18446744073709551615.
Proof. reflexivity. Qed.
(* a client: seek into A, read 2 bytes, use them as the next seek target; on objects with a past *)
Example ex_client :
  let c := CSeek 0 0 2 (fun _ => CRead 0 1 (fun r => match r with
             | Ok [x] => CSeek 1 (x + 3) 0 (fun _ => CRead 1 2 (fun r2 => CRet r2))
             | _ => CRet (Err 0%Z) end)) in
  fst (run_client no_codec (read_at f02_img) (len f02_img) true c
        (after_history no_codec (read_at f02_img) (len f02_img) (fun _ => (0, 10, [MSeek 0 0; MSeek 6 5; MRead 1]))) nothing_positioned)
  = Done (Ok [9; 9]).
Proof. vm_compute. reflexivity. Qed.

(* ================= data reader (lib/sqfs/src/data_reader.c) ================= *)

(* both block caches are coherent after every history: a cached block is exactly
   what unpacking its key (location + size word; fragment index) yields now *)
Theorem data_cache_coherent :
  forall (uncompress : list N -> N -> uresult) (file : N -> N -> rd_res) (fsize : N) (bs : N) (ops : list dop),
  dcoherent uncompress file bs (snd (drun uncompress file fsize bs true dr_create ops)).
Proof. exact data_cache_coherent_l. Qed.
Print Assumptions data_cache_coherent.

(* after any history of fragment-table loads, positional reads, get_block,
   get_fragment and stream reads (on files and stream objects given as arbitrary
   arguments), the answer to any call equals the stateless specification: the same
   call on a reader with empty caches that holds the table of the last load *)
Theorem data_history_free :
  forall (uncompress : list N -> N -> uresult) (file : N -> N -> rd_res) (fsize : N) (bs : N) (ops : list dop) (op : dop),
  fst (dstep uncompress file fsize bs true (snd (drun uncompress file fsize bs true dr_create ops)) op) =
  dspec uncompress file fsize bs true (fold_left (table_step uncompress file fsize) ops []) op.
Proof. exact data_history_free_l. Qed.
Print Assumptions data_history_free.

(* ---- the code as found (fx = false) violates it: DESIGN F03 ----
   4 data bytes at location 0, block size 4; file A = 2 bytes stored uncompressed at 0,
   file B = 4 bytes stored uncompressed at 0 (same location, other size word).
   read A; read B  ->  B gets A's cached block 10 11 0 0 instead of 10 11 12 13. *)
Definition f03_img : list N := [10; 11; 12; 13].
Definition f03_a : finode := mkFinode 2 0 4294967295 0 [16777216 + 2].
Definition f03_b : finode := mkFinode 4 0 4294967295 0 [16777216 + 4].
Theorem data_alias_refuted :
  exists (img : list N) (bs : N) (ops : list dop) (op : dop),
  fst (dstep no_codec (read_at img) (len img) bs false (snd (drun no_codec (read_at img) (len img) bs false dr_create ops)) op) <>
  dspec no_codec (read_at img) (len img) bs false (fold_left (table_step no_codec (read_at img) (len img)) ops []) op.
Proof.
  exists f03_img, 4, [DRead f03_a 0 2], (DRead f03_b 0 4). vm_compute. discriminate.
Qed.
Print Assumptions data_alias_refuted.

Example ex_data_repaired :
  fst (drun no_codec (read_at f03_img) (len f03_img) 4 true dr_create [DRead f03_a 0 2; DRead f03_b 0 4; DRead f03_a 1 5]) =
    [RBytes (Ok [10; 11]); RBytes (Ok [10; 11; 12; 13]); RBytes (Ok [11])].
Proof. vm_compute. reflexivity. Qed.

(* a file with one stored block, one sparse block and a tail in fragment block 0
   (table loaded from the image: one metadata block with one entry at 34, index at 52):
   positional read across all three parts, get_fragment, and a stream agree *)
Definition frag_img : list N :=
  [1;2;3;4] ++ [7;8;9;0] ++                                         (* 0: data block; 4: fragment block *)
  [16;128] ++ [4;0;0;0;0;0;0;0; 4;0;0;1; 0;0;0;0] ++                (* 8: meta block: entry (4, 4|1<<24) *)
  [8;0;0;0;0;0;0;0].                                                (* 26: location list *)
Definition frag_args : ftargs := mkFtargs 0 26 1 34 0 34 c10_meta_init_tag.
Definition frag_file : finode := mkFinode 10 0 0 1 [16777216 + 4; 0].
Example ex_data_fragment :
  fst (drun no_codec (read_at frag_img) (len frag_img) 4 true dr_create
         [DLoad frag_args; DRead frag_file 2 8; DGetFragment frag_file; DGetBlock frag_file 1;
          DStreamRead (stream_create frag_file) 100]) =
    [RUnit (Ok tt); RBytes (Ok [3;4; 0;0;0;0; 8;9]); RBytes (Ok [8;9]); RBytes (Ok [0;0;0;0]);
     RStream (Ok [1;2;3;4; 0;0;0;0; 8;9]) (mkStream 0 4 [] 0 1 [] 0)].
Proof. vm_compute. reflexivity. Qed.

(* ---- the alternative file-data APIs agree ----
   For a file laid out the way the library writes files ([wf_file]: consecutive blocks,
   each sparse, stored or compressed, all full except possibly the last; a tail in a
   fragment block only when all blocks are full), after ANY history of the reader:
   stream == positional read == blocks ++ fragment.  Hypotheses: a successful read_at
   returns as many bytes as asked for (read_at_len: every image), and (inside wf_file,
   constructor up_packed) a compressed block unpacks to the same bytes whatever output
   space >= its size the decompressor is offered. *)
Theorem api_agree :
  forall (uncompress : list N -> N -> uresult) (file : N -> N -> rd_res) (fsize : N) (bs : N)
         (ops : list dop) (f : finode) (cs : list (list N)) (tail : list N),
  0 < bs ->
  (forall off n b, file off n = RdOk b -> len b = n) ->
  let d := snd (drun uncompress file fsize bs true dr_create ops) in
  wf_file uncompress file bs (d_tbl d) f cs tail ->
  let content := concat cs ++ tail in
  fst (api_read uncompress file bs true d f 0 (f_size f)) = Ok content /\
  (forall n, f_size f <= n -> fst (fst (stream_read uncompress file bs d (stream_create f) n)) = Ok content) /\
  (forall i, (i < length cs)%nat -> api_get_block uncompress file bs f (N.of_nat i) = Ok (nth i cs [])) /\
  fst (api_get_fragment uncompress file bs d f) = Ok tail.
Proof.
  intros u file fsize bs ops f cs tail BP FL d W content.
  pose proof (data_cache_coherent_l u file fsize bs ops) as C. fold d in C.
  split; [apply (agree_read u file bs BP (d_tbl d)); auto|].
  split; [intros n Hn; apply (agree_stream u file bs BP (d_tbl d)); auto|].
  split; [intros i Hi; apply (agree_get_block u file bs BP (d_tbl d) f cs tail); auto|].
  apply (agree_get_fragment u file bs BP (d_tbl d) f cs tail); auto.
Qed.
Print Assumptions api_agree.

(* non-vacuity: frag_file (one stored block, one sparse block, tail in fragment 0) is well formed *)
Example ex_wf_file :
  wf_file no_codec (read_at frag_img) 4
          (d_tbl (snd (drun no_codec (read_at frag_img) (len frag_img) 4 true dr_create [DLoad frag_args])))
          frag_file [[1;2;3;4]; [0;0;0;0]] [8;9].
Proof.
  constructor.
  - cbn [layout frag_file f_start f_blocks].
    split; [apply up_stored; reflexivity|]. split; [reflexivity|]. split; [vm_compute; discriminate|].
    split; [reflexivity|]. split; [reflexivity|].
    split; [apply up_sparse; reflexivity|]. split; [reflexivity|]. split; [vm_compute; discriminate|].
    split; [intro H; contradiction|]. split; [reflexivity|exact I].
  - reflexivity.
  - reflexivity.
  - right. split; [repeat constructor|]. split; [reflexivity|]. split; [reflexivity|].
    exists [7;8;9;0], 4. split; [vm_compute; reflexivity|]. split; [vm_compute; discriminate|].
    split; [vm_compute; discriminate|reflexivity].
Qed.

(* ================= the metadata API as clients of the meta reader =================
   read_inode.c, readdir.c / dir_reader.c (flags = 0), xattr_reader.c, read_table.c.
   Reader objects 0..3 = the dir reader's meta_inode and meta_dir, the xattr reader's
   idrd and kvrd, each with its own arbitrary history [hist i] = (start, limit, calls).
   Every call returns a value (it never reads a reader it has not positioned itself)
   and that value is the one freshly created reader objects give. *)
Definition history_free {R} (uncompress : list N -> N -> uresult) (file : N -> N -> rd_res) (fsize : N)
           (c : client R) : Prop :=
  forall hist : nat -> N * N * list mop,
  exists r : R,
    fst (run_client uncompress file fsize true c (after_history uncompress file fsize hist) nothing_positioned) = Done r /\
    fst (run_client uncompress file fsize true c (fresh_objects hist) nothing_positioned) = Done r.

(* sqfs_dir_reader_get_inode, for every super block and every (valid or invalid) reference *)
Theorem get_inode_history_free :
  forall uncompress file fsize (sb : super) (ref : N),
  history_free uncompress file fsize (inode_client sb ref).
Proof. intros u f fs sb ref hist. apply api_history_free. apply safe_inode_client. Qed.
Print Assumptions get_inode_history_free.

(* sqfs_dir_reader_open_dir + any number of sqfs_dir_reader_read calls continuing from ANY
   caller-owned cursor (so interleaved listings of several directories are covered) *)
Theorem readdir_history_free :
  forall uncompress file fsize (count : nat) (it : rdstate) acc,
  history_free uncompress file fsize (readdir_many count it acc).
Proof. intros u f fs count it acc hist. apply api_history_free. apply safe_readdir_many. Qed.
Print Assumptions readdir_history_free.

Theorem open_dir_history_free :
  forall uncompress file fsize (sb : super) (ref : N),
  history_free uncompress file fsize (open_dir_client sb ref).
Proof. intros u f fs sb ref hist. apply api_history_free. apply safe_open_dir_client. Qed.

(* sqfs_dir_reader_resolve_path *)
Theorem resolve_path_history_free :
  forall uncompress file fsize (sb : super) (path : list N),
  history_free uncompress file fsize (resolve_path_client sb path).
Proof. intros u f fs sb path hist. apply api_history_free. apply safe_resolve_path_client. Qed.
Print Assumptions resolve_path_history_free.

(* sqfs_xattr_reader_read_all / get_desc, including out-of-line values (position saved and
   restored around them) *)
Theorem xattr_read_all_history_free :
  forall uncompress file fsize (xr : xreader) (idx : N),
  history_free uncompress file fsize (xattr_all_client xr idx).
Proof. intros u f fs xr idx hist. apply api_history_free. apply safe_xattr_all_client. Qed.
Print Assumptions xattr_read_all_history_free.

Theorem xattr_get_desc_history_free :
  forall uncompress file fsize (xr : xreader) (idx : N),
  history_free uncompress file fsize (xattr_desc_client xr idx).
Proof. intros u f fs xr idx hist. apply api_history_free. apply safe_xattr_desc_client. Qed.

(* the key/value API after a seek_kv that the same caller made *)
Theorem xattr_key_value_history_free :
  forall uncompress file fsize (xr : xreader) (b o k count : N),
  history_free uncompress file fsize
    (CSeek R_XKV b o (fun r => match r with
                               | Ok _ => cbind (xattr_partial_loop xr xattr_fuel 0 k count []) (fun x => CRet (Some x))
                               | _ => CRet None end)).
Proof.
  intros u f fs xr b o k count hist. apply api_history_free.
  cbn [safe]. intros [[]|e| |]; cbn [is_ok]; try exact I.
  apply safe_cbind; [apply safe_xattr_partial_loop; reflexivity|]. intros; exact I.
Qed.

(* sqfs_read_table (fragment, id and export tables): creates its own reader *)
Theorem read_table_history_free :
  forall uncompress file fsize (size location lower upper : N),
  history_free uncompress file fsize (read_table_client file size location lower upper).
Proof. intros u f fs size location lower upper hist. apply api_history_free. apply safe_read_table_client. Qed.
Print Assumptions read_table_history_free.

(* non-vacuity: an inode and a directory listing read through objects with a past.
   Image: inode table at 0 (one metadata block: a directory inode, then a FIFO inode),
   directory table at 54 (one block: header + one entry "p" -> the FIFO at offset 32). *)
Definition api_img : list N :=
  [52; 128] ++
  (* dir inode: type 1, mode 0755, uid 0, gid 0, mtime 0, ino 2 | start_block 0, nlink 2, size 3+12+8+1, offset 0, parent 3 *)
  [1;0; 237;1; 0;0; 0;0; 0;0;0;0; 2;0;0;0;  0;0;0;0; 2;0;0;0; 24;0; 0;0; 3;0;0;0] ++
  (* fifo inode: type 6, mode 0644, ino 1 | nlink 1 *)
  [6;0; 164;1; 0;0; 0;0; 0;0;0;0; 1;0;0;0;  1;0;0;0] ++
  [21; 128] ++
  (* dir header: count 0, start_block 0, inode_number 1 ; entry: offset 32, diff 0, type 6, size 0, name "p" *)
  [0;0;0;0; 0;0;0;0; 1;0;0;0;  32;0; 0;0; 6;0; 0;0; 112].
Definition api_sb : super := mkSuper 4096 0 0 1 0 77 77 c10_meta_init_tag 0 54 c10_meta_init_tag c10_meta_init_tag.
Definition api_hist : nat -> N * N * list mop :=
  fun i => match i with
           | O => (0, 54, [MSeek 0 40; MRead 5; MSeek 0 9000])
           | _ => (54, 77, [MSeek 54 3; MRead 100])
           end.
Example ex_api_listing :
  fst (run_client no_codec (read_at api_img) (len api_img) true
         (cbind (open_dir_client api_sb 0) (fun '(_, rs) =>
            match rs with Ok it => readdir_many 5 it [] | _ => CRet ([], REof, mkRd 0 0 0 0 0 0) end))
         (after_history no_codec (read_at api_img) (len api_img) api_hist) nothing_positioned)
  = Done ([([32;0; 0;0; 6;0; 0;0], [112], 32)], REof, mkRd 0 77 0 0 0 1).
Proof. vm_compute. reflexivity. Qed.
Example ex_api_inode :
  fst (run_client no_codec (read_at api_img) (len api_img) true (inode_client api_sb 32)
         (after_history no_codec (read_at api_img) (len api_img) api_hist) nothing_positioned)
  = Done (Ok (mkInode [6; 4096 + 420; 0; 0; 0; 1] [1] [])).
Proof. vm_compute. reflexivity. Qed.

(* ================= directory readers created with SQFS_DIR_READER_DOT_ENTRIES =================
   lib/sqfs/src/dir_reader.c: dcache_key_compare, dcache_add, sqfs_dir_reader_get_inode,
   _resolve_inum, _open_dir (own and parent lookup), _read ("." / ".." first), _resolve_path
   (also with a root inode).  include/sqfs/dir_reader.h: such a reader "caches the locations
   of directory inodes it encounters".  So its answers may depend on WHICH directory inodes
   were fetched through it — never on the order of the fetches, and an answer once given
   stays.  The rbtree of lib/util is an abstract type here, used under its contract
   (DotModel.rbtree_contract: finite map for every comparator that is a strict total order on
   the keys); what dir_reader.c itself has to provide is such a comparator. *)
From SqfsV Require Import C10.GenC10Dot C10.DotModel C10.DotProofs.

(* dcache_key_compare is a strict total order on sqfs_u32 keys *)
Theorem dcache_key_compare_total : strict_total key_compare.
Proof. exact key_compare_strict_total. Qed.
Print Assumptions dcache_key_compare_total.

(* "return (int)(lhs - rhs)" is not (0 and 2^31 are each below the other): a comparator of
   that shape is outside the contract *)
Theorem dcache_sub_compare_refuted : ~ strict_total sub_compare.
Proof. exact sub_compare_not_total. Qed.

(* for every two histories (sequences of get_inode / open_dir on any inode value / read on any
   caller-owned state / resolve_inum / resolve_path, with any arguments, successful or not) of
   a DOT_ENTRIES reader of the same image whose encounter lists — the (inode number,
   reference) of every directory inode that sqfs_dir_reader_get_inode fetched, also inside
   resolve_path — are equal as SETS and assign one reference per number, every later
   sequence of calls gets the same answers from both readers *)
Theorem dcache_order_free :
  forall uncompress file fsize (T : Type) (t_empty : T) t_lookup t_insert,
  rbtree_contract t_empty t_lookup t_insert ->
  forall (sb : super) (h1 h2 qs : list dop),
  let run := drun uncompress file fsize T t_lookup t_insert sb in
  let d1 := snd (run (dot_create T t_empty sb) h1) in
  let d2 := snd (run (dot_create T t_empty sb) h2) in
  same_set (dr_log d1) (dr_log d2) -> functional (dr_log d1) ->
  fst (run d1 qs) = fst (run d2 qs).
Proof. exact dcache_order_free_l. Qed.
Print Assumptions dcache_order_free.

(* a directory inode fetched through the reader resolves after any further history, to the
   reference of its first fetch *)
Theorem dcache_lookup_after_insert :
  forall uncompress file fsize (T : Type) (t_empty : T) t_lookup t_insert,
  rbtree_contract t_empty t_lookup t_insert ->
  forall (sb : super) (h : list dop) (ref : N) (i : inode) (ops : list dop),
  let run := drun uncompress file fsize T t_lookup t_insert sb in
  let get := dot_get_inode uncompress file fsize T t_lookup t_insert sb in
  let d := snd (run (dot_create T t_empty sb) h) in
  fst (get d ref) = Done (Ok i) -> is_dir_inode i = true ->
  let d1 := snd (get d ref) in
  exists r, resolve_inum T t_lookup (dr_t (snd (run d1 ops))) (inum_of i) = Ok r /\
            In (inum_of i, r) (dr_log d1) /\
            (first_assoc (inum_of i) (dr_log d) = None -> r = ref).
Proof. exact dcache_lookup_after_insert_l. Qed.
Print Assumptions dcache_lookup_after_insert.

(* an answer of sqfs_dir_reader_resolve_inum, once given, never changes *)
Theorem dcache_monotone :
  forall uncompress file fsize (T : Type) (t_empty : T) t_lookup t_insert,
  rbtree_contract t_empty t_lookup t_insert ->
  forall (sb : super) (h ops : list dop) (k r : N),
  let run := drun uncompress file fsize T t_lookup t_insert sb in
  let d := snd (run (dot_create T t_empty sb) h) in
  resolve_inum T t_lookup (dr_t d) k = Ok r ->
  resolve_inum T t_lookup (dr_t (snd (run d ops))) k = Ok r.
Proof. exact dcache_answer_stable_l. Qed.
Print Assumptions dcache_monotone.

(* ---- non-vacuity ---- *)

(* the contract is satisfiable: the association list searched with the comparator (the
   instance the extracted model of the tie uses) *)
Theorem dcache_contract_instance : rbtree_contract al_empty al_lookup al_insert.
Proof. exact al_contract. Qed.

(* why the comparator hypothesis is there: a transcription of lib/util/src/rbtree.c
   (the rb_ functions of DotModel) finds every key of 1, 2, 2^31+3, 4, 5 with dcache_key_compare and has lost
   2^31+3 after the fifth insertion with (int)(lhs - rhs) *)
Example ex_rb_key_compare :
  map (rb_lookup key_compare (rb_of key_compare adversarial_keys)) adversarial_keys
  = map (fun k => Some (k + 1000)) adversarial_keys.
Proof. exact rb_key_compare_finds_all. Qed.
Example ex_rb_sub_compare :
  In 2147483651 adversarial_keys /\
  rb_lookup sub_compare (rb_of sub_compare adversarial_keys) 2147483651 = None.
Proof. exact rb_sub_compare_loses_key. Qed.

(* an image (written by vlib/sqfsimg.py Builder, 334 bytes): / (inode number 5) with the
   directories a (2^31+3), b (2), t (2 as well: a twin) and a/c (4).
   References: c 0, a 32, b 64, t 96, / 128. *)
Definition dot_img : list N :=
  [104; 115; 113; 115; 5; 0; 0; 0; 0; 0; 0; 0; 0; 16; 0; 0; 0; 0; 0; 0; 1; 0; 12; 0; 27; 10; 1; 0; 4; 0; 0; 0;
   128; 0; 0; 0; 0; 0; 0; 0; 78; 1; 0; 0; 0; 0; 0; 0; 70; 1; 0; 0; 0; 0; 0; 0; 255; 255; 255; 255; 255; 255; 255; 255;
   96; 0; 0; 0; 0; 0; 0; 0; 2; 1; 0; 0; 0; 0; 0; 0; 255; 255; 255; 255; 255; 255; 255; 255; 255; 255; 255; 255; 255; 255; 255; 255;
   160; 128;
   1; 0; 237; 1; 0; 0; 0; 0; 0; 0; 0; 0; 4; 0; 0; 0; 0; 0; 0; 0; 2; 0; 0; 0; 3; 0; 0; 0; 3; 0; 0; 128;
   1; 0; 237; 1; 0; 0; 0; 0; 0; 0; 0; 0; 3; 0; 0; 128; 0; 0; 0; 0; 3; 0; 0; 0; 24; 0; 0; 0; 5; 0; 0; 0;
   1; 0; 237; 1; 0; 0; 0; 0; 0; 0; 0; 0; 2; 0; 0; 0; 0; 0; 0; 0; 2; 0; 0; 0; 3; 0; 21; 0; 5; 0; 0; 0;
   1; 0; 237; 1; 0; 0; 0; 0; 0; 0; 0; 0; 2; 0; 0; 0; 0; 0; 0; 0; 2; 0; 0; 0; 3; 0; 21; 0; 5; 0; 0; 0;
   1; 0; 237; 1; 0; 0; 0; 0; 0; 0; 0; 0; 5; 0; 0; 0; 0; 0; 0; 0; 5; 0; 0; 0; 42; 0; 21; 0; 6; 0; 0; 0;
   60; 128;
   0; 0; 0; 0; 0; 0; 0; 0; 1; 0; 0; 0; 0; 0; 0; 0; 1; 0; 0; 0; 99;
   2; 0; 0; 0; 0; 0; 0; 0; 2; 0; 0; 0; 32; 0; 0; 0; 1; 0; 0; 0; 97; 64; 0; 1; 0; 1; 0; 0; 0; 98; 96; 0; 2; 0; 1; 0; 0; 0; 116;
   4; 128; 0; 0; 0; 0; 64; 1; 0; 0; 0; 0; 0; 0].
Definition dot_sb : super := mkSuper 4096 0 2587 1 128 334 326 c10_meta_init_tag 96 258 c10_meta_init_tag c10_meta_init_tag.
Definition dot_run := drun no_codec (read_at dot_img) (len dot_img) al_t al_lookup al_insert dot_sb.
Definition dot_new := dot_create al_t al_empty dot_sb.
(* two histories that fetch /, a and a/c: top down; and bottom up with repetitions, a failed
   fetch, a lookup that fails at that point and a listing that fails for want of the parent *)
Definition dot_h1 : list dop := [OGetInode 128; OGetInode 32; OGetInode 0].
Definition dot_h2 : list dop :=
  [OGetInode 0; OResolveInum 2147483651; OGetInode 7; OResolvePath (Some (mkInode [1; 16877; 0; 0; 0; 4] [0; 2; 3; 0; 2147483651] [])) [46; 46];
   OGetInode 32; OGetInode 0; OGetInode 128; OGetInode 32].
Definition dot_queries : list dop :=
  [OResolveInum 2147483651;
   OResolvePath None [97; 47; 99; 47; 46; 46];                         (* "a/c/.." *)
   OResolvePath None [97; 47; 99; 47; 46; 46; 47; 46; 46; 47; 98];     (* "a/c/../../b" *)
   OOpenDir (mkInode [1; 16877; 0; 0; 0; 4] [0; 2; 3; 0; 2147483651] []) 0;
   OResolveInum 2].

Example ex_dot_h2_answers :      (* the second history really contains failures *)
  fst (dot_run dot_new dot_h2) =
  [AInode (Done (Ok (mkInode [1; 16877; 0; 0; 0; 4] [0; 2; 3; 0; 2147483651] [])));
   AInum (Err c_SQFS_ERROR_NO_ENTRY);
   AInode (Done (Err c_SQFS_ERROR_UNSUPPORTED));
   APath (Done (Err c_SQFS_ERROR_NO_ENTRY));
   AInode (Done (Ok (mkInode [1; 16877; 0; 0; 0; 2147483651] [0; 3; 24; 0; 5] [])));
   AInode (Done (Ok (mkInode [1; 16877; 0; 0; 0; 4] [0; 2; 3; 0; 2147483651] [])));
   AInode (Done (Ok (mkInode [1; 16877; 0; 0; 0; 5] [0; 5; 42; 21; 6] [])));
   AInode (Done (Ok (mkInode [1; 16877; 0; 0; 0; 2147483651] [0; 3; 24; 0; 5] [])))].
Proof. vm_compute. reflexivity. Qed.

(* the hypotheses of dcache_order_free hold for the two histories ... *)
Example ex_dot_hyps :
  same_set (dr_log (snd (dot_run dot_new dot_h1))) (dr_log (snd (dot_run dot_new dot_h2))) /\
  functional (dr_log (snd (dot_run dot_new dot_h1))).
Proof.
  assert (E1 : dr_log (snd (dot_run dot_new dot_h1)) = [(5, 128); (2147483651, 32); (4, 0)]) by (vm_compute; reflexivity).
  assert (E2 : dr_log (snd (dot_run dot_new dot_h2)) = [(4, 0); (2147483651, 32); (4, 0); (5, 128); (2147483651, 32)])
    by (vm_compute; reflexivity).
  rewrite E1, E2. split.
  - intro p. simpl. tauto.
  - intros k v v' H1 H2. simpl in H1, H2.
    destruct H1 as [H1|[H1|[H1|[]]]]; destruct H2 as [H2|[H2|[H2|[]]]]; congruence.
Qed.

(* ... and the common answers are not trivial: a resolves to its reference, "a/c/.." is a,
   "a/c/../../b" is b, a/c opens with "." = c and ".." = a, b was never fetched *)
Example ex_dot_answers :
  fst (dot_run (snd (dot_run dot_new dot_h2)) dot_queries) =
  [AInum (Ok 32); APath (Done (Ok 32)); APath (Done (Ok 64));
   AOpen (Ok (mkDs (mkRd 0 258 0 3 0 0) 32 0 0 c10d_STATE_OPENED));
   AInum (Err c_SQFS_ERROR_NO_ENTRY)].
Proof. vm_compute. reflexivity. Qed.
Example ex_dot_same :
  fst (dot_run (snd (dot_run dot_new dot_h1)) dot_queries) = fst (dot_run (snd (dot_run dot_new dot_h2)) dot_queries).
Proof. vm_compute. reflexivity. Qed.

(* the hypothesis [functional] is needed: b and its twin t carry the same inode number; the
   cache keeps the first fetch (dcache_add), so the order of these two fetches shows *)
Example ex_dot_first_wins :
  let ha := [OGetInode 64; OGetInode 96] in
  let hb := [OGetInode 96; OGetInode 64] in
  same_set (dr_log (snd (dot_run dot_new ha))) (dr_log (snd (dot_run dot_new hb))) /\
  fst (dot_run (snd (dot_run dot_new ha)) [OResolveInum 2]) = [AInum (Ok 64)] /\
  fst (dot_run (snd (dot_run dot_new hb)) [OResolveInum 2]) = [AInum (Ok 96)].
Proof.
  cbv zeta.
  assert (E1 : dr_log (snd (dot_run dot_new [OGetInode 64; OGetInode 96])) = [(2, 64); (2, 96)]) by (vm_compute; reflexivity).
  assert (E2 : dr_log (snd (dot_run dot_new [OGetInode 96; OGetInode 64])) = [(2, 96); (2, 64)]) by (vm_compute; reflexivity).
  rewrite E1, E2. split; [intro p; simpl; tauto|].
  split; vm_compute; reflexivity.
Qed.

(* dcache_lookup_after_insert on the image: a is fetched after c and a failed fetch, then
   resolves after a further history *)
Example ex_dot_lookup_after_insert :
  let d := snd (dot_run dot_new [OGetInode 0; OGetInode 7]) in
  let get := dot_get_inode no_codec (read_at dot_img) (len dot_img) al_t al_lookup al_insert dot_sb in
  fst (get d 32) = Done (Ok (mkInode [1; 16877; 0; 0; 0; 2147483651] [0; 3; 24; 0; 5] [])) /\
  first_assoc 2147483651 (dr_log d) = None /\
  resolve_inum al_t al_lookup (dr_t (snd (dot_run (snd (get d 32)) dot_h2))) 2147483651 = Ok 32.
Proof. vm_compute. repeat split; reflexivity. Qed.

(* ================= the DOT_ENTRIES inode cache on the REAL rbtree =================
   The section above runs the directory reader over an abstract container and assumes
   [rbtree_contract].  coq/Util/RbModel.v is a statement-by-statement model of
   lib/util/src/rbtree.c (rbtree_init, mknode, subtree_insert, subtree_balance, rotations,
   flip_colors, rbtree_insert, rbtree_lookup; nodes hold BYTES: key, padding, value), with its
   own theorems in Properties_C19.v (rbtree_insert_preserves_inv, rbtree_lookup_contract, ...;
   hypothesis: the comparator is a strict weak order) and its own tie to the C code.
   coq/C10/DotRbModel.v sets that tree up the way dir_reader.c does --
   rbtree_init(&rd->dcache, sizeof(sqfs_u32), sizeof(sqfs_u64), dcache_key_compare), keys = the
   bytes at &inum, values = the bytes at &ref, comparator = load two sqfs_u32 then compare --
   and coq/C10/DotRbProofs.v proves that it is an instance of the contract.  So the three dcache
   theorems hold for the reader on the real tree with NO hypothesis about the container.
   The sizes (4 / 8 padded / 8) and one real node are read from a reader object the library
   created (coq/C10/GenC10Rb.v, regenerated by the check). *)
From SqfsV Require Util.RbModel.
From SqfsV Require Import C10.GenC10Rb C10.DotRbModel C10.DotRbProofs.

(* ---- the comparator: two models of dcache_key_compare, reconciled ---- *)

(* DotModel.key_compare models the C EXPRESSION  lhs < rhs ? -1 : (lhs > rhs ? 1 : 0)  on the two
   loaded numbers: its sign is their order (no range restriction) *)
Theorem dcache_key_compare_sign : forall a b,
  ((key_compare a b < 0)%Z <-> a < b) /\ (key_compare a b = 0%Z <-> a = b) /\ ((key_compare a b > 0)%Z <-> b < a).
Proof. exact key_compare_sign. Qed.
Print Assumptions dcache_key_compare_sign.

(* Util.RbModel.cmp_u32 models the whole C FUNCTION on the key bytes: the loads
   lhs = *((const sqfs_u32 * )l), rhs = *((const sqfs_u32 * )r)  (c10rb_key_size bytes each, little
   endian), then that expression *)
Theorem dcache_cmp_u32_is_key_compare : forall a b,
  RbModel.cmp_u32 a b = key_compare (RbModel.rd_le (firstn kbytes a)) (RbModel.rd_le (firstn kbytes b)).
Proof. exact cmp_u32_is_key_compare. Qed.

(* both order statements follow from the sign lemma: this development's
   [dcache_key_compare_total] (above) ... *)
Theorem dcache_key_compare_total_from_sign : strict_total key_compare.
Proof. exact key_compare_total_from_sign. Qed.

(* ... and Properties_C19.dcache_key_compare_is_order (same statement, proved there directly) *)
Theorem dcache_cmp_u32_order_from_sign :
  (forall a b, (RbModel.cmp_u32 a b < 0 <-> 0 < RbModel.cmp_u32 b a)%Z) /\
  (forall a b c, (RbModel.cmp_u32 a b <= 0 -> RbModel.cmp_u32 b c <= 0 -> RbModel.cmp_u32 a c <= 0)%Z).
Proof. exact cmp_u32_order_from_sign. Qed.
Print Assumptions dcache_cmp_u32_order_from_sign.

(* the abstract container takes a comparator on loaded keys; at the byte level it becomes
   [lift cmp a b = cmp (dec_key a) (dec_key b)], dec_key = load a sqfs_u32.  For key_compare
   that is cmp_u32 on all keys that are the bytes of numbers < 2^32 *)
Theorem dcache_lift_key_compare_is_cmp_u32 : forall a b,
  inr a -> inr b -> lift key_compare a b = RbModel.cmp_u32 a b.
Proof. exact lift_key_compare_cmp_u32. Qed.

(* ---- byte-level facts, against numbers read from the library ---- *)

(* the rbtree_t that sqfs_dir_reader_create's call of rbtree_init left behind has the sizes the
   Util model of rbtree_init computes from the widths of the key and value types (key_size_padded:
   key_size rounded up to the pointer size), rbtree_init succeeds, and cmp_u32 reads key_size bytes *)
Theorem dcache_rbtree_sizes :
  c10rb_key_size = c10d_inum_bytes /\ c10rb_value_size = c10d_ref_bytes /\
  RbModel.rbtree_init c10rb_key_size c10rb_value_size
    = (0%Z, RbModel.mk_rbtree RbModel.Leaf c10rb_key_size c10rb_key_size_padded c10rb_value_size) /\
  c10rb_root_after_init_is_null = 1 /\
  256 ^ c10rb_key_size = u32m /\
  (forall a b, RbModel.cmp_u32 a b
               = key_compare (RbModel.rd_le (firstn kbytes a)) (RbModel.rd_le (firstn kbytes b))).
Proof. exact rb_sizes_consistent. Qed.

(* the node that dcache_add built in the library for (c10rb_sample_inum >= 2^31, c10rb_sample_ref)
   is, byte for byte (key byte order, zero padding, value at value_offset), the node the model
   builds; both comparators build it; the model resolves the number to what
   sqfs_dir_reader_resolve_inum returned *)
Theorem dcache_sample_node_matches :
  rt_insert key_compare rt_empty c10rb_sample_inum c10rb_sample_ref
    = Some (RbModel.mk_rbtree
              (RbModel.Node 0 RbModel.Leaf (negb (c10rb_sample_is_red =? 0)) c10rb_sample_value_offset
                            c10rb_sample_data RbModel.Leaf)
              c10rb_key_size c10rb_key_size_padded c10rb_value_size, 1) /\
  rtb_insert RbModel.cmp_u32 rt_empty c10rb_sample_inum c10rb_sample_ref
    = rt_insert key_compare rt_empty c10rb_sample_inum c10rb_sample_ref /\
  rt_lookup key_compare (rt_insert key_compare rt_empty c10rb_sample_inum c10rb_sample_ref) c10rb_sample_inum
    = Some c10rb_sample_resolved /\
  RbModel.lenN c10rb_sample_data = c10rb_key_size_padded + c10rb_value_size /\
  2147483648 <= c10rb_sample_inum < u32m.
Proof. exact sample_node_matches. Qed.

(* key and value bytes: a key < 2^32 is stored as bytes and loaded back; a reference is loaded
   back whatever its size (DotModel keeps references unbounded), and for a value of the type
   sqfs_u64 the stored bytes are its 8 byte little-endian representation *)
Theorem dcache_key_value_bytes :
  (forall k, bytes_ok (enc_key k) /\ RbModel.lenN (enc_key k) = c10rb_key_size) /\
  (forall k, k < u32m -> dec_key (enc_key k) = k) /\
  (forall v, dec_val (enc_val v) = v /\ RbModel.lenN (enc_val v) = c10rb_value_size) /\
  (forall v, v < 256 ^ c10rb_value_size -> enc_val v = le vbytes v /\ bytes_ok (enc_val v)).
Proof.
  exact (conj (fun k => conj (enc_key_bytes k) (enc_key_len k))
        (conj dec_enc_key
        (conj (fun v => conj (dec_enc_val v) (enc_val_len v)) enc_val_bytes))).
Qed.
Print Assumptions dcache_key_value_bytes.

(* ---- the contract, discharged ---- *)

(* the model of lib/util/src/rbtree.c, initialised and used as dir_reader.c does, is a finite
   map on sqfs_u32 keys for EVERY comparator that is a strict total order on them: the invariant
   is Util's rbtree_inv (search order, red-black shape, node layout) + pairwise different keys +
   the sizes of rbtree_init + "no NULL dereference happened" *)
Theorem rbtree_c_meets_dcache_contract : rbtree_contract rt_empty rt_lookup rt_insert.
Proof. exact real_contract. Qed.
Print Assumptions rbtree_c_meets_dcache_contract.

(* the same with the comparator the C code passes, in Util's model of it *)
Theorem rbtree_c_dcache_laws_cmp_u32 :
  map_laws rt_empty (rtb_lookup RbModel.cmp_u32) (rtb_insert RbModel.cmp_u32).
Proof. exact real_map_laws_cmp_u32. Qed.
Print Assumptions rbtree_c_dcache_laws_cmp_u32.

(* ---- the three dcache theorems on the real tree: no container hypothesis left ---- *)

Theorem dcache_order_free_real :
  forall uncompress file fsize (sb : super) (h1 h2 qs : list dop),
  let run := drun uncompress file fsize rt rt_lookup rt_insert sb in
  let d1 := snd (run (dot_create rt rt_empty sb) h1) in
  let d2 := snd (run (dot_create rt rt_empty sb) h2) in
  same_set (dr_log d1) (dr_log d2) -> functional (dr_log d1) ->
  fst (run d1 qs) = fst (run d2 qs).
Proof. exact order_free_real. Qed.
Print Assumptions dcache_order_free_real.

Theorem dcache_lookup_after_insert_real :
  forall uncompress file fsize (sb : super) (h : list dop) (ref : N) (i : inode) (ops : list dop),
  let run := drun uncompress file fsize rt rt_lookup rt_insert sb in
  let get := dot_get_inode uncompress file fsize rt rt_lookup rt_insert sb in
  let d := snd (run (dot_create rt rt_empty sb) h) in
  fst (get d ref) = Done (Ok i) -> is_dir_inode i = true ->
  let d1 := snd (get d ref) in
  exists r, resolve_inum rt rt_lookup (dr_t (snd (run d1 ops))) (inum_of i) = Ok r /\
            In (inum_of i, r) (dr_log d1) /\
            (first_assoc (inum_of i) (dr_log d) = None -> r = ref).
Proof. exact lookup_after_insert_real. Qed.
Print Assumptions dcache_lookup_after_insert_real.

Theorem dcache_monotone_real :
  forall uncompress file fsize (sb : super) (h ops : list dop) (k r : N),
  let run := drun uncompress file fsize rt rt_lookup rt_insert sb in
  let d := snd (run (dot_create rt rt_empty sb) h) in
  resolve_inum rt rt_lookup (dr_t d) k = Ok r ->
  resolve_inum rt rt_lookup (dr_t (snd (run d ops))) k = Ok r.
Proof. exact monotone_real. Qed.
Print Assumptions dcache_monotone_real.

(* after EVERY history of the reader: the cache is a tree -- rbtree_insert never dereferenced
   NULL -- that satisfies rtb_inv for Util's cmp_u32 (rbtree_inv, strictly sorted keys, sizes of
   rbtree_init, one node per allocation); driven by cmp_u32 it answers every sqfs_u32 key with
   the first reference the number was fetched under; and every insert the reader performs is
   the insert of the tree driven by cmp_u32 (the comparator argument of the abstract model and
   Util's model of the C function take the tree through the same steps) *)
Theorem dcache_real_tree_invariant :
  forall uncompress file fsize (sb : super) (h : list dop),
  let d := snd (drun uncompress file fsize rt rt_lookup rt_insert sb (dot_create rt rt_empty sb) h) in
  rt_good (dr_t d) /\
  (forall k, k < u32m -> rtb_lookup RbModel.cmp_u32 (dr_t d) k = first_assoc k (dr_log d)) /\
  (forall k v, k < u32m -> dc_insert rt rt_insert (dr_t d) k v = rtb_insert RbModel.cmp_u32 (dr_t d) k v).
Proof. exact real_tree_good. Qed.
Print Assumptions dcache_real_tree_invariant.

Theorem dcache_real_ops_are_cmp_u32 : forall t k,
  rt_good t -> k < u32m ->
  rt_lookup key_compare t k = rtb_lookup RbModel.cmp_u32 t k /\
  forall v, rt_insert key_compare t k v = rtb_insert RbModel.cmp_u32 t k v.
Proof. exact rt_ops_cmp_u32. Qed.

(* ---- non-vacuity ---- *)

(* the insertion sequence of ex_rb_sub_compare (1, 2, 2^31+3, 4, 5) on the REAL tree: with
   dcache_key_compare (lifted from the abstract model, and as cmp_u32: one and the same tree)
   every key is found with its value ... *)
Example ex_real_key_compare :
  map (rt_lookup key_compare (rt_of (lift key_compare) adversarial_keys)) adversarial_keys
    = map (fun k => Some (k + 1000)) adversarial_keys /\
  rt_of RbModel.cmp_u32 adversarial_keys = rt_of (lift key_compare) adversarial_keys /\
  rt_keys (rt_of RbModel.cmp_u32 adversarial_keys) = [1; 2; 4; 5; 2147483651].
Proof. exact real_key_compare_finds_all. Qed.

(* ... with (int)(lhs - rhs) (DotModel.sub_compare lifted, and Util's cmp_sub32: again one tree)
   2^31+3 is in the tree and is not found.  Same phenomenon, other key sequence than
   Properties_C19.rbtree_lookup_loses_key_without_order_refuted (5, 2^31+5, 2^30, 7, 2^31 with a
   lookup before every insert); dcache_sub_compare_refuted above says which hypothesis fails *)
Example ex_real_sub_compare :
  rt_of RbModel.cmp_sub32 adversarial_keys = rt_of (lift sub_compare) adversarial_keys /\
  rt_keys (rt_of (lift sub_compare) adversarial_keys) = [2147483651; 1; 2; 4; 5] /\
  map (rt_lookup sub_compare (rt_of (lift sub_compare) adversarial_keys)) adversarial_keys
    = [Some 1001; Some 1002; None; Some 1004; Some 1005] /\
  rtb_lookup RbModel.cmp_sub32 (rt_of RbModel.cmp_sub32 adversarial_keys) 2147483651 = None.
Proof. exact real_sub_compare_loses_key. Qed.

(* the reader on the real tree over the image of the section above: the hypotheses of
   dcache_order_free_real hold for the two histories, the common answers are the non-trivial
   ones of ex_dot_answers, and the cache after the second history is a three-node tree *)
Definition dot_run_real := drun no_codec (read_at dot_img) (len dot_img) rt rt_lookup rt_insert dot_sb.
Definition dot_new_real := dot_create rt rt_empty dot_sb.

Example ex_dot_real_hyps :
  same_set (dr_log (snd (dot_run_real dot_new_real dot_h1))) (dr_log (snd (dot_run_real dot_new_real dot_h2))) /\
  functional (dr_log (snd (dot_run_real dot_new_real dot_h1))).
Proof.
  assert (E1 : dr_log (snd (dot_run_real dot_new_real dot_h1)) = [(5, 128); (2147483651, 32); (4, 0)]) by (vm_compute; reflexivity).
  assert (E2 : dr_log (snd (dot_run_real dot_new_real dot_h2)) = [(4, 0); (2147483651, 32); (4, 0); (5, 128); (2147483651, 32)])
    by (vm_compute; reflexivity).
  rewrite E1, E2. split.
  - intro p. simpl. tauto.
  - intros k v v' H1 H2. simpl in H1, H2.
    destruct H1 as [H1|[H1|[H1|[]]]]; destruct H2 as [H2|[H2|[H2|[]]]]; congruence.
Qed.

Example ex_dot_real_answers :
  fst (dot_run_real (snd (dot_run_real dot_new_real dot_h2)) dot_queries) =
  [AInum (Ok 32); APath (Done (Ok 32)); APath (Done (Ok 64));
   AOpen (Ok (mkDs (mkRd 0 258 0 3 0 0) 32 0 0 c10d_STATE_OPENED));
   AInum (Err c_SQFS_ERROR_NO_ENTRY)] /\
  fst (dot_run_real (snd (dot_run_real dot_new_real dot_h1)) dot_queries)
  = fst (dot_run_real (snd (dot_run_real dot_new_real dot_h2)) dot_queries).
Proof. vm_compute. split; reflexivity. Qed.

(* rt_good (hypothesis of dcache_real_ops_are_cmp_u32) holds of a non-empty tree: the cache
   after the second history, whose nodes carry the keys 4, 5, 2^31+3 as bytes *)
Example ex_dot_real_tree :
  let t := dr_t (snd (dot_run_real dot_new_real dot_h2)) in
  rt_good t /\ rt_keys t = [4; 5; 2147483651] /\
  match t with
  | Some (tr, next) => next = 3 /\ RbModel.node_key 4 (RbModel.rb_root tr) = [5; 0; 0; 0]
  | None => False
  end.
Proof.
  split; [apply (dcache_real_tree_invariant no_codec (read_at dot_img) (len dot_img) dot_sb dot_h2)|].
  vm_compute. repeat split.
Qed.

(* dcache_lookup_after_insert_real on the image, as ex_dot_lookup_after_insert *)
Example ex_dot_real_lookup_after_insert :
  let d := snd (dot_run_real dot_new_real [OGetInode 0; OGetInode 7]) in
  let get := dot_get_inode no_codec (read_at dot_img) (len dot_img) rt rt_lookup rt_insert dot_sb in
  fst (get d 32) = Done (Ok (mkInode [1; 16877; 0; 0; 0; 2147483651] [0; 3; 24; 0; 5] [])) /\
  first_assoc 2147483651 (dr_log d) = None /\
  resolve_inum rt rt_lookup (dr_t (snd (dot_run_real (snd (get d 32)) dot_h2))) 2147483651 = Ok 32.
Proof. vm_compute. repeat split; reflexivity. Qed.

(* ================= the fine-grained xattr reader API (strengthening, session 3: seed C10-6) =================
   lib/sqfs/src/xattr/xattr_reader.c, one public call per operation on ONE long-lived reader object
   (coq/C10/XFineModel.v): sqfs_xattr_reader_get_desc, _seek_kv, _read_key, _read_value (out-of-line values:
   position saved and restored), _read, _read_all, _load again, sqfs_copy.  The reader's two meta readers are
   separate state: reader objects R_XID (idrd, descriptor blocks) and R_XKV (kvrd, key/value area) of [xf_rs].
   What include/sqfs/xattr_reader.h documents as reader state is ONE position indicator: seek_kv sets it,
   read_key / read_value / read advance it; get_desc is a lookup. *)
From SqfsV Require Import C10.XFineModel C10.XFineProofs.

(* get_desc leaves the key/value cursor (and everything but idrd) as it was, and its answer does not depend on
   the key/value cursor *)
Theorem xattr_lookup_does_not_move_kv_cursor :
  forall uncompress file fsize (sb : super) (s : xstate) (idx : N),
  let s' := snd (xf_step uncompress file fsize sb s (XGet idx)) in
  xf_xr s' = xf_xr s /\
  (forall j, j <> R_XID -> xf_rs s' j = xf_rs s j) /\
  (forall t, xf_xr t = xf_xr s -> xf_rs t R_XID = xf_rs s R_XID ->
             fst (xf_step uncompress file fsize sb t (XGet idx)) = fst (xf_step uncompress file fsize sb s (XGet idx))).
Proof.
  intros u f fs sb s idx s'. destruct (get_desc_frame u f fs sb s idx) as [A B].
  split; [exact A|]. split; [exact B|]. intros t X E. apply get_desc_indep; assumption.
Qed.
Print Assumptions xattr_lookup_does_not_move_kv_cursor.

(* the mirror image: seek_kv / read_key / read_value / read leave the descriptor cursor alone and do not depend
   on it *)
Theorem xattr_kv_calls_do_not_move_id_cursor :
  forall uncompress file fsize (sb : super) (s : xstate) (o : xop),
  is_kv_op o = true ->
  let s' := snd (xf_step uncompress file fsize sb s o) in
  xf_xr s' = xf_xr s /\
  (forall j, j <> R_XKV -> xf_rs s' j = xf_rs s j) /\
  (forall t, xf_xr t = xf_xr s -> xf_rs t R_XKV = xf_rs s R_XKV ->
             fst (xf_step uncompress file fsize sb t o) = fst (xf_step uncompress file fsize sb s o)).
Proof.
  intros u f fs sb s o K s'. destruct (kv_op_frame u f fs sb s o K) as [A B].
  split; [exact A|]. split; [exact B|]. intros t X E. apply kv_op_indep; assumption.
Qed.

(* get_desc commutes with every call on the key/value cursor: both orders give the same two answers and the
   same reader (no hypothesis on the state: any image, any past) *)
Theorem xattr_get_desc_commutes :
  forall uncompress file fsize (sb : super) (s : xstate) (idx : N) (o : xop),
  is_kv_op o = true ->
  let step := xf_step uncompress file fsize sb in
  let s1 := snd (step s (XGet idx)) in
  let s2 := snd (step s o) in
  fst (step s2 (XGet idx)) = fst (step s (XGet idx)) /\
  fst (step s1 o) = fst (step s o) /\
  xf_xr (snd (step s1 o)) = xf_xr (snd (step s2 (XGet idx))) /\
  forall k, xf_rs (snd (step s1 o)) k = xf_rs (snd (step s2 (XGet idx))) k.
Proof. intros u f fs sb s idx o K. exact (get_desc_commutes_l u f fs sb s idx o K). Qed.
Print Assumptions xattr_get_desc_commutes.

(* a reader object in any state it can get into (h0: lookups, seeks, reads, read_all, re-loads, copies, in any
   order, failed or not) against a reader loaded just now: seek_kv gives the same status, and after a
   successful seek_kv the answers to all later calls that are not pure lookups are those of the history
   WITHOUT the lookups on the new reader -- they depend on the image, the sought location and the cursor calls
   since, on nothing else *)
Theorem xattr_fine_history_free :
  forall uncompress file fsize (sb : super) (xr : xreader) (h0 : list xop) (x count : N) (h : list xop),
  xattr_load file sb = Ok xr -> xr_has_table xr = true ->
  let step := xf_step uncompress file fsize sb in
  let run := xf_run uncompress file fsize sb in
  let s1 := snd (run h0 (xf_fresh sb xr)) in
  let s2 := xf_fresh sb xr in
  fst (step s1 (XSeek x count)) = fst (step s2 (XSeek x count)) /\
  (fst (step s1 (XSeek x count)) = ASeek (Ok tt) ->
   cursor_answers h (fst (run h (snd (step s1 (XSeek x count))))) =
   fst (run (cursor_ops h) (snd (step s2 (XSeek x count))))).
Proof. intros u f fs sb xr h0 x count h LD T. exact (fine_history_free u f fs sb xr h0 x count h LD T). Qed.
Print Assumptions xattr_fine_history_free.

(* the same for two reader objects with arbitrary, unrelated pasts (any two coherent reader families over the
   same windows), without reference to how they got there *)
Theorem xattr_fine_history_free_general :
  forall uncompress file fsize (sb : super) (s1 s2 : xstate) (x count : N) (h : list xop),
  xrel uncompress file nothing_positioned s1 s2 -> xr_has_table (xf_xr s1) = true ->
  let step := xf_step uncompress file fsize sb in
  let run := xf_run uncompress file fsize sb in
  fst (step s1 (XSeek x count)) = fst (step s2 (XSeek x count)) /\
  (fst (step s1 (XSeek x count)) = ASeek (Ok tt) ->
   cursor_answers h (fst (run h (snd (step s1 (XSeek x count))))) =
   fst (run (cursor_ops h) (snd (step s2 (XSeek x count))))).
Proof. intros u f fs sb s1 s2 x count h R T. exact (fine_history_free_rel u f fs sb s1 s2 x count h R T). Qed.

(* from whatever state the reader is in (successful seek or not): pure lookups between the calls never matter *)
Theorem xattr_fine_lookups_irrelevant :
  forall uncompress file fsize (sb : super) (xr : xreader) (h0 h : list xop),
  xattr_load file sb = Ok xr ->
  let run := xf_run uncompress file fsize sb in
  let s := snd (run h0 (xf_fresh sb xr)) in
  cursor_answers h (fst (run h s)) = fst (run (cursor_ops h) s).
Proof. intros u f fs sb xr h0 h LD. exact (fine_lookups_irrelevant u f fs sb xr h0 h LD). Qed.
Print Assumptions xattr_fine_lookups_irrelevant.

(* get_desc, seek_kv (status), read_all, load position what they read themselves: history free on their own *)
Theorem xattr_self_positioning_calls_history_free :
  forall uncompress file fsize (sb : super) (s1 s2 : xstate) (o : xop),
  xrel uncompress file nothing_positioned s1 s2 ->
  match o with XGet _ | XAll _ | XSeek _ _ | XLoad | XCopy => True | _ => False end ->
  fst (xf_step uncompress file fsize sb s1 o) = fst (xf_step uncompress file fsize sb s2 o).
Proof. intros u f fs sb s1 s2 o R O. exact (self_positioning_rel u f fs sb s1 s2 o R O). Qed.

(* non-vacuity.  A 108 byte image: key/value block at 0 (set 0 at offset 0: user.a = "xy", trusted.b = out-of-line
   reference to the value of user.a, security.c = "z"; set 1 at offset 38: user.d = "w"), descriptor block at 50
   (two descriptors), xattr id table at 84. *)
Definition xw_img : list N :=
  [48; 128; 0; 0; 1; 0; 97; 2; 0; 0; 0; 120; 121; 1; 1; 1; 0; 98; 8; 0; 0; 0; 5; 0; 0; 0; 0; 0; 0; 0; 2; 0; 1; 0; 99; 1; 0; 0; 0; 122;
   0; 0; 1; 0; 100; 1; 0; 0; 0; 119;
   32; 128; 0; 0; 0; 0; 0; 0; 0; 0; 3; 0; 0; 0; 0; 0; 0; 0; 38; 0; 0; 0; 0; 0; 0; 0; 1; 0; 0; 0; 0; 0; 0; 0;
   0; 0; 0; 0; 0; 0; 0; 0; 2; 0; 0; 0; 0; 0; 0; 0; 50; 0; 0; 0; 0; 0; 0; 0].
Definition xw_sb : super := mkSuper 4096 0 0 1 0 108 0 84 0 0 c10_meta_init_tag c10_meta_init_tag.
Definition xw_xr : xreader := mkXr true 0 108 2 [50] 0.
Definition xw_run := xf_run no_codec (read_at xw_img) (len xw_img) xw_sb.
Definition xw_step := xf_step no_codec (read_at xw_img) (len xw_img) xw_sb.
(* an earlier use of the reader: lookup, seek to set 1, a key, read_all of set 0, a key, a re-load, a key *)
Definition xw_h0 : list xop := [XGet 1; XSeek 38 1; XKey; XAll 0; XKey; XLoad; XKey].
(* after seek_kv to set 0: key, LOOKUP, value, key, LOOKUP, out-of-line value, COPY, pair, LOOKUP (fails), key, value *)
Definition xw_h : list xop := [XKey; XGet 1; XVal 0; XKey; XGet 0; XVal 257; XCopy; XPair; XGet 7; XKey; XVal 0].

Example ex_xfine_hypotheses : xattr_load (read_at xw_img) xw_sb = Ok xw_xr /\ xr_has_table xw_xr = true.
Proof. vm_compute. split; reflexivity. Qed.

Example ex_xfine_earlier_use :
  fst (xw_run xw_h0 (xf_fresh xw_sb xw_xr)) =
  [AGet (Ok (38, 1, 0)); ASeek (Ok tt); AKey (Ok (0, [117; 115; 101; 114; 46; 100]));
   AAll (Ok [([117; 115; 101; 114; 46; 97], [120; 121]); ([116; 114; 117; 115; 116; 101; 100; 46; 98], [120; 121]);
             ([115; 101; 99; 117; 114; 105; 116; 121; 46; 99], [122])]);
   AKey (Ok (0, [117; 115; 101; 114; 46; 100])); ALoad (Ok tt); AKey (Ok (0, [117; 115; 101; 114; 46; 97]))].
Proof. vm_compute. reflexivity. Qed.

(* the instance of xattr_fine_history_free: the seek succeeds, the answers are the real pairs (the out-of-line value
   "xy" included, and the pair after it), and they are those of the lookup-free history on a new reader *)
Example ex_xfine_answers :
  let s1 := snd (xw_run xw_h0 (xf_fresh xw_sb xw_xr)) in
  fst (xw_step s1 (XSeek 0 3)) = ASeek (Ok tt) /\
  cursor_answers xw_h (fst (xw_run xw_h (snd (xw_step s1 (XSeek 0 3))))) =
  [AKey (Ok (0, [117; 115; 101; 114; 46; 97])); AVal (Ok [120; 121]);
   AKey (Ok (257, [116; 114; 117; 115; 116; 101; 100; 46; 98])); AVal (Ok [120; 121]);
   APair (Ok ([115; 101; 99; 117; 114; 105; 116; 121; 46; 99], [122]));
   AKey (Ok (0, [117; 115; 101; 114; 46; 100])); AVal (Ok [119])] /\
  fst (xw_run (cursor_ops xw_h) (snd (xw_step (xf_fresh xw_sb xw_xr) (XSeek 0 3)))) =
  cursor_answers xw_h (fst (xw_run xw_h (snd (xw_step s1 (XSeek 0 3))))).
Proof. vm_compute. repeat split; reflexivity. Qed.

(* the lookups of that history really move the OTHER cursor (so the theorems are not about a get_desc that does
   nothing), and a key/value call that comes first does change what a later key/value call returns (so
   "commutes" is not true of arbitrary pairs of calls) *)
Example ex_xfine_lookup_moves_id_cursor :
  let s := snd (xw_step (xf_fresh xw_sb xw_xr) (XSeek 0 3)) in
  get_position (xf_rs (snd (xw_step s (XGet 0))) R_XID) = (50, 16) /\
  get_position (xf_rs s R_XID) <> (50, 16) /\
  get_position (xf_rs (snd (xw_step s (XGet 0))) R_XKV) = get_position (xf_rs s R_XKV) /\
  fst (xw_step (snd (xw_step s XKey)) XKey) <> fst (xw_step s XKey).
Proof. vm_compute. repeat split; discriminate. Qed.

(* ================= the low-level readdir API with a REUSED cursor object (strengthening, session 3: seed C10-8) =================
   sqfs_readdir_state_init is an initialiser: the object it is given may hold anything (uninitialised memory, the
   cursor of a scan that was abandoned inside a header run).  coq/C10/ReaddirLowModel.v models it as the C function is
   written, as an update of that object.  Tie: props/C10/h_reader.c ops RI / RR (long-lived = the same caller-owned
   object re-initialised, poisoned before its first use; fresh = a zeroed object) vs ReaddirLowModel.readdir_state_init /
   readdir_low_many. *)
From SqfsV Require Import C10.ReaddirLowModel C10.ReaddirLowProofs.

(* return value and every field of the object afterwards are independent of what the object held before *)
Theorem readdir_init_ignores_old_state :
  forall (o1 o2 : rdstate) (sb : super) (i : inode),
  readdir_state_init o1 sb i = readdir_state_init o2 sb i.
Proof. exact ReaddirLowProofs.readdir_init_ignores_old_state. Qed.
Print Assumptions readdir_init_ignores_old_state.

(* and they are the value sqfs_dir_reader_open_dir starts from (a failed init leaves a zeroed object) *)
Theorem readdir_state_init_value :
  forall (old : rdstate) (sb : super) (i : inode),
  readdir_state_init old sb i =
  match readdir_init sb i with
  | Ok it => (Ok tt, it)
  | Err e => (Err e, mkRd 0 0 0 0 0 0)
  | Crash => (Crash, mkRd 0 0 0 0 0 0)
  | Fuel => (Fuel, mkRd 0 0 0 0 0 0)
  end.
Proof. exact ReaddirLowProofs.readdir_state_init_value. Qed.

(* init of a reused object + any number of sqfs_meta_reader_readdir calls (entries with inum and iref), on a meta
   reader with any past  =  the same on a zeroed object and a new meta reader; always a value *)
Theorem low_level_readdir_reused_cursor_history_free :
  forall uncompress file fsize (old : rdstate) (sb : super) (i : inode) (count : nat) (hist : nat -> N * N * list mop),
  exists r,
    fst (run_client uncompress file fsize true (low_scan old sb i count)
           (after_history uncompress file fsize hist) nothing_positioned) = Done r /\
    fst (run_client uncompress file fsize true (low_scan (mkRd 0 0 0 0 0 0) sb i count)
           (fresh_objects hist) nothing_positioned) = Done r.
Proof. exact low_scan_reused_cursor_history_free. Qed.
Print Assumptions low_level_readdir_reused_cursor_history_free.

(* the statement has content: an initialiser that clears field by field and forgets `entries` (the seeded change,
   modelled faithfully) does depend on the old content *)
Theorem forgetful_init_depends_on_old_state :
  exists o1 o2 sb i, readdir_state_init_forgetful o1 sb i <> readdir_state_init_forgetful o2 sb i.
Proof. exact ReaddirLowProofs.forgetful_init_depends_on_old_state. Qed.

(* non-vacuity: the directory of api_img listed through an object that an abandoned scan left inside a header run
   (entries = 7, a foreign inode block and inum base), on reader objects with a past *)
Example ex_low_reused :
  fst (run_client no_codec (read_at api_img) (len api_img) true
         (low_scan (mkRd 9 1000 17 400 7 55) api_sb
                   (mkInode [c_SQFS_INODE_DIR; 16384 + 493; 0; 0; 0; 2] [0; 2; 24; 0; 3] []) 5)
         (after_history no_codec (read_at api_img) (len api_img) api_hist) nothing_positioned)
  = Done (Ok tt, Some ([([32;0; 0;0; 6;0; 0;0], [112], 32, 1)], REof, mkRd 0 77 0 0 0 1)).
Proof. vm_compute. reflexivity. Qed.
Example ex_low_not_dir :
  readdir_state_init (mkRd 9 1000 17 400 7 55) api_sb (mkInode [c_SQFS_INODE_FIFO; 4096 + 420; 0; 0; 0; 1] [1] [])
  = (Err c_SQFS_ERROR_NOT_DIR, mkRd 0 0 0 0 0 0).
Proof. vm_compute. reflexivity. Qed.

(* ======================================================================================================
   Strengthening, session 3 (seed C10-10): the reader caches are keyed by the COMPLETE block descriptor.
   coq/C10/CacheKeyModel.v: the two caches of data_reader.c with the key as a parameter (what of the
   location / of the size word / of the fragment index is compared); with the identity projections they are
   the model of the code (precache_data fx=true, precache_frag).
   ====================================================================================================== *)
From SqfsV Require Import C10.CacheKeyModel C10.CacheKeyProofs.

(* after ANY history of calls from creation, a request of the data-block cache for the descriptor (loc, w)
   -- hit or miss -- answers with the status of a fresh get_block(loc, w) and leaves that block's bytes in the
   buffer; a request of the fragment cache for index idx answers like a fresh table lookup + get_block *)
Theorem cache_key_complete :
  forall (uncompress : list N -> N -> uresult) (file : N -> N -> rd_res) (fsize bs : N) (ops : list DataModel.dop) (loc w idx : N),
  let d := snd (DataModel.drun uncompress file fsize bs true DataModel.dr_create ops) in
  (fst (precache_data uncompress file bs true d loc w) = to_unit (get_block uncompress file loc w bs) /\
   forall b, get_block uncompress file loc w bs = Ok b ->
             blk_buf (snd (precache_data uncompress file bs true d loc w)) = fst b) /\
  (fst (precache_frag uncompress file bs d idx) = to_unit (frag_lookup uncompress file bs (d_tbl d) idx) /\
   forall b, frag_lookup uncompress file bs (d_tbl d) idx = Ok b ->
             frag_buf (snd (precache_frag uncompress file bs d idx)) = b).
Proof. exact cache_key_complete_l. Qed.
Print Assumptions cache_key_complete.

(* the same for every key that determines the descriptor, on every coherent reader state *)
Theorem data_cache_key_complete_general :
  forall (uncompress : list N -> N -> uresult) (file : N -> N -> rd_res) (bs : N) (kl kw : N -> N),
  (forall a b, kl a = kl b -> a = b) -> (forall a b, kw a = kw b -> a = b) ->
  forall d loc w r d', dcoherent uncompress file bs d ->
  precache_data_k uncompress file bs kl kw d loc w = (r, d') ->
  r = to_unit (get_block uncompress file loc w bs) /\ dcoherent uncompress file bs d' /\ d_tbl d' = d_tbl d /\
  (forall b, get_block uncompress file loc w bs = Ok b -> blk_buf d' = fst b).
Proof. exact data_key_complete_l. Qed.
Print Assumptions data_cache_key_complete_general.

Theorem frag_cache_key_complete_general :
  forall (uncompress : list N -> N -> uresult) (file : N -> N -> rd_res) (bs : N) (kf : list (N * N) -> N -> N),
  (forall t a b, kf t a = kf t b -> a = b) ->
  forall d idx r d', dcoherent uncompress file bs d ->
  precache_frag_k uncompress file bs kf d idx = (r, d') ->
  r = to_unit (frag_lookup uncompress file bs (d_tbl d) idx) /\ dcoherent uncompress file bs d' /\ d_tbl d' = d_tbl d /\
  (forall b, frag_lookup uncompress file bs (d_tbl d) idx = Ok b -> frag_buf d' = b).
Proof. exact frag_key_complete_l. Qed.
Print Assumptions frag_cache_key_complete_general.

(* the parameterised caches with the complete keys are the model of the code; the keys meet the hypotheses *)
Example ex_cache_key_is_model :
  forall uncompress file bs d loc w idx,
  precache_data_k uncompress file bs key_id key_id d loc w = precache_data uncompress file bs true d loc w /\
  precache_frag_k uncompress file bs fkey_index d idx = precache_frag uncompress file bs d idx.
Proof. intros. split; reflexivity. Qed.
Example ex_key_id_injective : forall a b, key_id a = key_id b -> a = b.
Proof. exact key_id_injective. Qed.
Example ex_fkey_index_injective : forall (t : list (N * N)) a b, fkey_index t a = fkey_index t b -> a = b.
Proof. exact fkey_index_injective. Qed.

(* a key that drops a part of the descriptor violates the statement (the seeded change and its siblings,
   modelled faithfully): without the flag, without the on-disk size, without the location; fragment cache keyed
   by the start of the entry, by start and on-disk size *)
Theorem cache_key_without_flag_refuted :
  exists img bs loc w1 w2,
    let d1 := snd (precache_data_k ck_codec (read_at img) bs key_id on_disk DataModel.dr_create loc w1) in
    dcoherent ck_codec (read_at img) bs d1 /\
    fst (precache_data_k ck_codec (read_at img) bs key_id on_disk d1 loc w2)
      <> to_unit (get_block ck_codec (read_at img) loc w2 bs).
Proof. exact key_without_flag_refuted_l. Qed.
Print Assumptions cache_key_without_flag_refuted.

Theorem cache_key_without_size_refuted :
  exists img bs loc w1 w2 b,
    let d1 := snd (precache_data_k ck_codec (read_at img) bs key_id key_flag_only DataModel.dr_create loc w1) in
    get_block ck_codec (read_at img) loc w2 bs = Ok b /\
    blk_buf (snd (precache_data_k ck_codec (read_at img) bs key_id key_flag_only d1 loc w2)) <> fst b.
Proof. exact key_without_size_refuted_l. Qed.

Theorem cache_key_without_location_refuted :
  exists img bs l1 l2 w b,
    let d1 := snd (precache_data_k ck_codec (read_at img) bs key_none key_id DataModel.dr_create l1 w) in
    get_block ck_codec (read_at img) l2 w bs = Ok b /\
    blk_buf (snd (precache_data_k ck_codec (read_at img) bs key_none key_id d1 l2 w)) <> fst b.
Proof. exact key_without_location_refuted_l. Qed.

Theorem frag_cache_key_start_refuted :
  exists img bs tbl i j b,
    let d0 := DataModel.mkDr tbl None None in
    let d1 := snd (precache_frag_k ck_codec (read_at img) bs fkey_start d0 i) in
    frag_lookup ck_codec (read_at img) bs tbl j = Ok b /\
    frag_buf (snd (precache_frag_k ck_codec (read_at img) bs fkey_start d1 j)) <> b.
Proof. exact frag_key_start_refuted_l. Qed.

Theorem frag_cache_key_start_size_refuted :
  exists img bs tbl i j,
    let d0 := DataModel.mkDr tbl None None in
    let d1 := snd (precache_frag_k ck_codec (read_at img) bs fkey_start_size d0 i) in
    fst (precache_frag_k ck_codec (read_at img) bs fkey_start_size d1 j)
      <> to_unit (frag_lookup ck_codec (read_at img) bs tbl j).
Proof. exact frag_key_start_size_refuted_l. Qed.
Print Assumptions frag_cache_key_start_size_refuted.

(* the complete keys on the inputs of the witnesses: raw 2 bytes, then the same location as a compressed block
   (error of the codec) and as 4 raw bytes; three fragment entries with one start *)
Example ex_cache_key_complete_flag :
  let d1 := snd (precache_data ck_codec (read_at ck_img) 4 true DataModel.dr_create 0 (ck_flag + 2)) in
  fst (precache_data ck_codec (read_at ck_img) 4 true d1 0 2) = Err 0%Z /\
  blk_buf (snd (precache_data ck_codec (read_at ck_img) 4 true d1 0 (ck_flag + 4))) = [10; 11; 12; 13].
Proof. vm_compute. split; reflexivity. Qed.
Example ex_frag_cache_key_complete :
  let d1 := snd (precache_frag ck_codec (read_at ck_img) 4 (DataModel.mkDr ck_tbl None None) 0) in
  frag_buf d1 = ([10; 11; 0; 0], 2) /\
  frag_buf (snd (precache_frag ck_codec (read_at ck_img) 4 d1 1)) = ([10; 11; 12; 13], 4) /\
  fst (precache_frag ck_codec (read_at ck_img) 4 d1 2) = Err 0%Z.
Proof. vm_compute. repeat split; reflexivity. Qed.

(* ================= sqfs_copy of readers as an operation (session 4) =================
   lib/sqfs/src/meta_reader.c meta_reader_copy: memcpy of the whole object into a new allocation; the file and the
   compressor are shared by counted reference (C10/CopyModel.v).  A family of reader objects over one file: [FOp i op]
   runs the MetaModel step [op] on object i, [FCopy i] appends sqfs_copy(object i).  Every history starts from ONE
   freshly created reader; every other object is a copy (of a copy ...) taken at an arbitrary moment. *)
From SqfsV Require Import C10.CopyModel C10.CopyProofs.

(* cache coherence holds for every object of the family after every family history *)
Theorem meta_family_coherent :
  forall (uncompress : list N -> N -> uresult) (file : N -> N -> rd_res) (fsize : N) (start limit : N)
         (ops : list fop) (j : nat) (m : mr),
  limit <= c10_meta_init_tag ->
  nth_error (snd (frun uncompress file fsize true [mr_create start limit] ops)) j = Some m ->
  coherent uncompress file m /\ m_start m = start /\ m_limit m = limit.
Proof. exact meta_family_coherent_l. Qed.
Print Assumptions meta_family_coherent.

(* after any family history (calls on any objects, copies of any objects, interleaved), the result of any call on
   any object j equals the stateless specification of that call: the same call on a reader that has just fetched
   the block of object j's current (block, offset) position from the image *)
Theorem meta_family_history_free :
  forall (uncompress : list N -> N -> uresult) (file : N -> N -> rd_res) (fsize : N) (start limit : N)
         (ops : list fop) (j : nat) (m : mr) (op : mop),
  limit <= c10_meta_init_tag ->
  let fam := snd (frun uncompress file fsize true [mr_create start limit] ops) in
  nth_error fam j = Some m ->
  fst (fstep uncompress file fsize true fam (FOp j op)) =
    FAns (spec_step uncompress file fsize true start limit (pos_of m) op).
Proof. exact meta_family_history_free_l. Qed.
Print Assumptions meta_family_history_free.

Corollary meta_family_history_free_image :
  forall (uncompress : list N -> N -> uresult) (img : list N) (start limit : N)
         (ops : list fop) (j : nat) (m : mr) (op : mop),
  limit <= c10_meta_init_tag ->
  let fam := snd (frun uncompress (read_at img) (len img) true [mr_create start limit] ops) in
  nth_error fam j = Some m ->
  fst (fstep uncompress (read_at img) (len img) true fam (FOp j op)) =
    FAns (spec_step uncompress (read_at img) (len img) true start limit (pos_of m) op).
Proof. intros u img. exact (meta_family_history_free_l u (read_at img) (len img)). Qed.

(* a query that starts with a seek, on any object of the family after any family history, answers exactly as on a
   freshly created reader: the status of the seek always, every later answer whenever the seek succeeds *)
Theorem meta_family_query_fresh :
  forall (uncompress : list N -> N -> uresult) (file : N -> N -> rd_res) (fsize : N) (start limit : N)
         (ops : list fop) (j : nat) (m : mr) (b o : N) (rest : list mop),
  limit <= c10_meta_init_tag ->
  let fam := snd (frun uncompress file fsize true [mr_create start limit] ops) in
  nth_error fam j = Some m ->
  let r_fam := fst (frun uncompress file fsize true fam (map (FOp j) (MSeek b o :: rest))) in
  let r_fresh := map FAns (fst (run uncompress file fsize true (mr_create start limit) (MSeek b o :: rest))) in
  hd_error r_fam = hd_error r_fresh /\
  (hd_error r_fresh = Some (FAns (RSeek (Ok tt))) -> r_fam = r_fresh).
Proof. exact meta_family_query_fresh_l. Qed.
Print Assumptions meta_family_query_fresh.

(* frame: operations that are not aimed at object j (calls on other objects, copies of any object, j included)
   leave the state of object j unchanged *)
Theorem family_frame :
  forall (uncompress : list N -> N -> uresult) (file : N -> N -> rd_res) (fsize : N)
         (ops : list fop) (fam : list mr) (j : nat) (m : mr),
  nth_error fam j = Some m -> forallb (fun o => negb (touches j o)) ops = true ->
  nth_error (snd (frun uncompress file fsize true fam ops)) j = Some m.
Proof. exact frun_frame_l. Qed.
Print Assumptions family_frame.

(* the copy and its source: sqfs_copy(object i) yields object c = the next free index; both hold the state of the
   source; any calls on the copy get the answers the source would have given at the time of the copy and leave the
   source's state unchanged, and vice versa *)
Theorem copy_independent :
  forall (uncompress : list N -> N -> uresult) (file : N -> N -> rd_res) (fsize : N)
         (fam : list mr) (i : nat) (m : mr) (mops : list mop),
  nth_error fam i = Some m ->
  let fam1 := snd (fstep uncompress file fsize true fam (FCopy i)) in
  let c := length fam in
  fst (fstep uncompress file fsize true fam (FCopy i)) = FCopied c /\
  nth_error fam1 i = Some m /\ nth_error fam1 c = Some m /\
  (fst (frun uncompress file fsize true fam1 (map (FOp c) mops)) = map FAns (fst (run uncompress file fsize true m mops)) /\
   nth_error (snd (frun uncompress file fsize true fam1 (map (FOp c) mops))) i = Some m) /\
  (fst (frun uncompress file fsize true fam1 (map (FOp i) mops)) = map FAns (fst (run uncompress file fsize true m mops)) /\
   nth_error (snd (frun uncompress file fsize true fam1 (map (FOp i) mops))) c = Some m).
Proof. exact copy_independent_l. Qed.
Print Assumptions copy_independent.

(* ---- non-vacuity ----
   image f02_img (block A at 0: 1 2 3 4; block B at 6: 9 9).  Object 0 seeks into A and reads; object 1 = copy of
   object 0 goes to B while object 0 keeps reading A; object 2 = copy of object 1 at the end of B; then object 0
   moves to B too.  The hypotheses [nth_error fam j = Some m] hold for j = 0, 1, 2 with three different positions. *)
Definition copy_hist : list fop :=
  [FOp 0 (MSeek 0 1); FOp 0 (MRead 1); FCopy 0; FOp 1 (MSeek 6 0); FOp 0 (MRead 1); FOp 1 (MRead 2);
   FOp 0 MGetPos; FOp 1 MGetPos; FCopy 1; FOp 2 (MRead 1); FOp 1 (MSeek 0 0); FOp 0 (MSeek 6 1); FOp 0 (MRead 1);
   FOp 1 (MRead 1); FOp 3 MGetPos].
Example ex_copy_history :
  fst (frun no_codec (read_at f02_img) (len f02_img) true [mr_create 0 10] copy_hist) =
    [FAns (RSeek (Ok tt)); FAns (RRead (Ok [2])); FCopied 1; FAns (RSeek (Ok tt)); FAns (RRead (Ok [3]));
     FAns (RRead (Ok [9; 9])); FAns (RPos (0, 3)); FAns (RPos (10, 0)); FCopied 2;
     FAns (RRead (Err c_SQFS_ERROR_OUT_OF_BOUNDS)); FAns (RSeek (Ok tt)); FAns (RSeek (Ok tt)); FAns (RRead (Ok [9]));
     FAns (RRead (Ok [1])); FBad].
Proof. vm_compute. reflexivity. Qed.
Example ex_copy_family_positions :
  map pos_of (snd (frun no_codec (read_at f02_img) (len f02_img) true [mr_create 0 10] copy_hist)) =
    [Some (6, 2); Some (0, 1); Some (6, 2)].
Proof. vm_compute. reflexivity. Qed.
(* a family with a copy that diverges, on the code as found (fx = false): the stale-tag defect F02 travels with the
   copy (the copy of a poisoned reader answers 9 9 for A), the source of the copy being the poisoned object *)
Example ex_copy_unrepaired :
  fst (frun no_codec (read_at f02_img) (len f02_img) false [mr_create 0 10]
         [FOp 0 (MSeek 0 0); FOp 0 (MSeek 6 5); FCopy 0; FOp 1 (MSeek 0 0); FOp 1 (MRead 2)]) =
    [FAns (RSeek (Ok tt)); FAns (RSeek (Err c_SQFS_ERROR_OUT_OF_BOUNDS)); FCopied 1; FAns (RSeek (Ok tt));
     FAns (RRead (Ok [9; 9]))].
Proof. vm_compute. reflexivity. Qed.

(* ---- data_reader_copy (lib/sqfs/src/data_reader.c) ----
   Code as found (fx = false): the cached data and fragment blocks are duplicated into allocations of [data_blk_size] /
   [frag_blk_size] bytes = the number of VALID bytes, whereas get_block() allocates block_size bytes: NOT a deep copy.
   Repaired code (fx = true, props/C19/fixes/F31-data-reader-copy-block-buffer-size.patch, in /repo): the copy's
   buffers are alloc_array(1, block_size) + the valid bytes (C10/DataCopyModel.v). *)
From SqfsV Require Import C10.DataCopyModel C10.DataCopyProofs.

(* repaired code: the copy IS the source state whenever the source's cached buffers hold zeros beyond their valid
   counts (what get_block leaves unless the codec wrote beyond its return value) *)
Theorem data_copy_exact :
  forall (bs : N) (d : dr), dr_clean bs d -> dr_copy true bs d = d.
Proof. exact data_copy_exact_l. Qed.
Print Assumptions data_copy_exact.

(* repaired code, always: the copy's buffers are block_size bytes long with the source's table, keys, valid counts and
   valid bytes; every read of the cached data block at offset + diff <= block_size stays inside the copy's buffer *)
Theorem data_copy_in_bounds :
  forall (bs : N) (d : dr),
  dr_fits bs d ->
  d_tbl (dr_copy true bs d) = d_tbl d /\
  (forall l w b, d_blk d = Some (l, w, b) ->
     exists b', d_blk (dr_copy true bs d) = Some (l, w, b') /\ len (fst b') = bs /\ snd b' = snd b /\
                firstn (N.to_nat (snd b)) (fst b') = firstn (N.to_nat (snd b)) (fst b)) /\
  (forall i b, d_frag d = Some (i, b) ->
     exists b', d_frag (dr_copy true bs d) = Some (i, b') /\ len (fst b') = bs /\ snd b' = snd b /\
                firstn (N.to_nat (snd b)) (fst b') = firstn (N.to_nat (snd b)) (fst b)) /\
  (forall offset diff, d_blk d <> None -> offset + diff <= bs -> blk_read_in_bounds (dr_copy true bs d) offset diff = true).
Proof. exact data_copy_in_bounds_l. Qed.
Print Assumptions data_copy_in_bounds.

(* code as found: exact only when the cached blocks are full *)
Theorem data_copy_exact_when_full :
  forall (bs : N) (d : dr), dr_full d -> dr_copy false bs d = d.
Proof. exact data_copy_exact_when_full_l. Qed.
Print Assumptions data_copy_exact_when_full.

Theorem data_copy_preserves :
  forall (bs : N) (d : dr),
  d_tbl (dr_copy false bs d) = d_tbl d /\
  option_map (fun x => (fst (fst x), snd (fst x), snd (snd x))) (d_blk (dr_copy false bs d)) =
    option_map (fun x => (fst (fst x), snd (fst x), snd (snd x))) (d_blk d) /\
  option_map (fun x => (fst x, snd (snd x))) (d_frag (dr_copy false bs d)) = option_map (fun x => (fst x, snd (snd x))) (d_frag d) /\
  (forall l w b, d_blk d = Some (l, w, b) -> firstn (N.to_nat (snd b)) (blk_buf (dr_copy false bs d)) = firstn (N.to_nat (snd b)) (fst b)) /\
  (forall i b, d_frag d = Some (i, b) -> firstn (N.to_nat (snd b)) (fst (frag_buf (dr_copy false bs d))) = firstn (N.to_nat (snd b)) (fst b)).
Proof. exact data_copy_preserves_l. Qed.
Print Assumptions data_copy_preserves.

(* code as found, with a short block cached (damaged image: a raw block shorter than the inode's file size needs): the
   copy is not equivalent to its source: sqfs_data_reader_read on the copy hits the copied cache key and copies bytes
   from beyond the end of the copy's (shorter) buffer, where the source and a fresh reader deliver the zero fill
   (DESIGN F31; confirmed under ASan; tie: op DC of the size leg) *)
Theorem data_copy_short_block_refuted :
  exists img bs f,
    let d1 := snd (api_read ck_codec (read_at img) bs true DataModel.dr_create f 0 4) in
    fst (api_read ck_codec (read_at img) bs true d1 f 0 4) = Ok [10; 11; 0; 0] /\
    blk_read_in_bounds d1 0 4 = true /\
    snd (precache_data ck_codec (read_at img) bs true (dr_copy false bs d1) 0 (ck_flag + 2)) = dr_copy false bs d1 /\
    blk_read_in_bounds (dr_copy false bs d1) 0 4 = false /\
    fst (api_read ck_codec (read_at img) bs true (dr_copy false bs d1) f 0 4) <> fst (api_read ck_codec (read_at img) bs true d1 f 0 4).
Proof. exact data_copy_short_block_refuted_l. Qed.
Print Assumptions data_copy_short_block_refuted.

(* ---- non-vacuity ---- *)
(* the witness on the repaired code: the state with the short block cached is clean and fits; its copy is the state
   itself, the read on the copy stays inside and answers as the source *)
Example ex_data_copy_repaired :
  let d1 := snd (api_read ck_codec (read_at ck_img) 4 true DataModel.dr_create dc_inode 0 4) in
  d_blk d1 = Some (0, ck_flag + 2, ([10; 11; 0; 0], 2)) /\ dr_clean 4 d1 /\ dr_fits 4 d1 /\ dr_copy true 4 d1 = d1 /\
  blk_read_in_bounds (dr_copy true 4 d1) 0 4 = true /\
  fst (api_read ck_codec (read_at ck_img) 4 true (dr_copy true 4 d1) dc_inode 0 4) = Ok [10; 11; 0; 0].
Proof. vm_compute. repeat split; try reflexivity; discriminate. Qed.
(* a buffer the codec scribbled on beyond its return value (valid 2, tail 7 7): not clean; the repaired copy zeroes the
   tail - the one place where copy and source differ (bytes no comparison of the check looks at) *)
Example ex_data_copy_scribbled :
  let d := DataModel.mkDr [] (Some (0, 2, ([10; 11; 7; 7], 2))) None in
  dr_fits 4 d /\ dr_copy true 4 d = DataModel.mkDr [] (Some (0, 2, ([10; 11; 0; 0], 2))) None.
Proof. vm_compute. repeat split; try reflexivity; discriminate. Qed.
(* non-vacuity of [dr_full]: a full raw block cached by a real call; the copy (either code) is the state itself *)
Example ex_data_copy_full :
  let d1 := snd (api_read ck_codec (read_at ck_img) 4 true DataModel.dr_create (mkFinode 4 0 0 0 [ck_flag + 4]) 0 4) in
  blk_buf d1 = [10; 11; 12; 13] /\ dr_full d1 /\ dr_copy false 4 d1 = d1 /\ dr_copy true 4 d1 = d1 /\
  fst (api_read ck_codec (read_at ck_img) 4 true (dr_copy false 4 d1) (mkFinode 4 0 0 0 [ck_flag + 4]) 1 2) = Ok [11; 12].
Proof. vm_compute. repeat split; reflexivity. Qed.
