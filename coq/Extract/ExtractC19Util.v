(* extraction of the container models of coq/Util for the C19 tie (props/C19/driver_util.ml) *)
From Coq Require Import Extraction ExtrOcamlBasic NArith ZArith.
From SqfsV Require Import Util.GenUtil Util.FastRem Util.HashModel Util.RbModel Util.ArrayModel Util.StrModel.
Extraction "c19_util_model.ml"
  N.add N.mul N.div_eucl N.eqb N.ltb
  ht_create ht_clone ht_search ht_insert ht_remove_entry ht_entry ht_foreach
  rbtree_init rbtree_insert rbtree_lookup rbtree_copy dump node_key node_value
  cmp_u32 cmp_bytes cmp_sub32
  array_init array_init_copy array_append array_set_capacity array_get array_set
  strhash str_table_init str_table_get_index str_table_get_string str_table_add_ref
  str_table_del_ref str_table_get_ref_count str_table_copy bh_get mk_bheap.
