From Coq Require Import Extraction ExtrOcamlBasic.
From SqfsV Require Import CompOpt.GenCompOpt CompOpt.Model CompOpt.Parse.
Extraction "c05_compopt_model.ml" config_init cfg_init_options compressor_create build_avail write_options
  read_options get_configuration open_image as_found repaired co_tokens.
