From Coq Require Import Extraction ExtrOcamlBasic NArith.
From SqfsV Require Import C08.DedupModel C08.DedupTheorems.
From SqfsV Require Import C01.InodeModel Img.TreeModel Image.FinishModel Image.ReaderModel.
From SqfsV Require C14.SuperModel.
From SqfsV Require Import ImgData.GlueModel.
Extraction "c08img_model.ml" pack half_scratch fl0 toy_hash
  p_wr p_nfrag p_ftab p_start p_size p_nwords p_frag w_file
  data_of frag_table_of file_lkind file_words image_read_file image_read_kind views frag_ref
  read_super read_frags read_image_tree
  N.add N.mul N.div_eucl N.compare.
