From Coq Require Import Extraction ExtrOcamlBasic.
From SqfsV Require Import Base.Bytes C10.GenC10 C10.GenC10Dot C10.MetaModel C10.ClientModel C10.DataModel C10.ApiModel C10.DotModel.
Extraction "c10_dot_model.ml" read_at mr_create nothing_positioned
  key_compare sub_compare al_empty al_lookup al_insert rb_insert rb_lookup
  dot_create dot_get_inode dot_open_dir dot_read dot_resolve_path resolve_inum first_assoc
  dstep drun.
