From Coq Require Import Extraction ExtrOcamlBasic NArith ZArith.
From SqfsV Require Import C05.RBase C05.Super.
From SqfsV Require C03.Common.
From SqfsV Require Import C08.FragTableModel.
Extraction "c08frag_model.ml" ft_create ft_read ft_lookup ft_get_size ft_append ft_set ft_write
  MkSup E_COMPRESSOR max64 N.add N.mul N.div_eucl N.compare.
