From Coq Require Import Extraction ExtrOcamlBasic NArith.
From SqfsV Require Import C01.InodeModel Img.TreeModel C11.StrOrder C11.FstreeModel C11.PostModel ImgPost.Bridge
  ImgPost.InputOk.
Extraction "imgpost_model.ml" fs_init run_adds_idx post_process to_img representable input_okb attached_okb alloc_list
  N.add N.mul N.div_eucl N.compare.
