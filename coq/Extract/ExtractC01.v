From Coq Require Import Extraction ExtrOcamlBasic NArith.
From SqfsV Require Import C01.GenC01 C01.Res C01.InodeModel C01.InodeProofs C01.XattrModel.
Extraction "c01_model.ml" encode decode make_extended make_basic set_xattr_index set_file_size
  set_file_block_start set_frag_location serialize inode_wfb clear_slack view_of view_of_node
  id_to_index id_count_field id_table_bytes id_table_read c_id_table_limit
  xw_empty xw_begin xw_add_kv xw_end flush rd_all to_hex from_hex
  N.add N.mul N.div_eucl N.compare.
