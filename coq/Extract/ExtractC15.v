(* nat -> OCaml int (ExtrOcamlNatInt): the stream models count in [nat] up to BUFSZ = 262144 per
   call and unary numbers make the tie ~1000x too slow; all sizes stay far below 2^62. *)
From Coq Require Import Extraction ExtrOcamlBasic ExtrOcamlNatInt.
From SqfsV Require Import C15.XfrmModel C15.ToyCodec.
Extraction "c15_model.ml" reader reader_tr writer istream_init ostream_init log_bytes
  mk_zlib mk_bzip2 mk_zstd mk_old_zlib mk_old_zstd
  toy_dec toy_enc toy_dec_init toy_enc_init bzify noflush
  ref_decode_all id_from_magic tar_probe tar_detect.
