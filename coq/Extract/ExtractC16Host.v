(* C16, contents leg: where gensquashfs --pack-file looks for the contents of a file (coq/ImgDescribe/HostModel.v).
   The pack directory (options.c: -D, else the pack file name up to its last '/'), the directory pack_files changes into,
   the path it opens for a node (the location token the parser stored as input_file, else the canonical node path; the
   fstree is the one the modelled parser builds from the BYTES of the listing), and the two absolute names the model
   gives that file (from gensquashfs' directory; from the directory rdsquashfs unpacked into), for the comparison with
   the chdir()/open() calls the real gensquashfs performs on the listing the real rdsquashfs --describe printed. *)
From Coq Require Import Extraction ExtrOcamlBasic NArith.
From SqfsV Require Import C11.StrOrder C11.FstreeModel.
From SqfsV Require Import C16.ParseModel ImgDescribe.RepackModel ImgDescribe.HostModel.
From SqfsV Require C18.CanonSpec.
Extraction "c16host_model.ml" at_cwd unpack_dir packdir_of gens_dir input_path CanonSpec.join
  fstree_from_file_stream default_options do_add fs_init fs_root N.add N.mul.
