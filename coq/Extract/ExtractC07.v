From Coq Require Import Extraction ExtrOcamlBasic.
From SqfsV Require Import C07.Res C07.GenC07 C07.HardLinkModel C07.NumModel C07.TarModel.
Extraction "c07_model.ml"
  fs_init add_generic resolve_link resolve_all resolve_all_old max_hops_of
  read_number parse parse_int base64_decode hex_decode urldecode strtol10
  read_header tar_walk_all.
