From Coq Require Import Extraction ExtrOcamlBasic.
From SqfsV Require Import C07.Res C07.GenC07 C07.HardLinkModel C07.NumModel C07.TarModel C07.TextModel C07.XattrFileModel.
Extraction "c07_model.ml"
  fs_init add_generic resolve_link resolve_all resolve_all_old max_hops_of
  read_number parse parse_int base64_decode hex_decode urldecode strtol10
  read_header tar_walk_all
  split_line trim cstr_at sort_line xattr_decode xattr_line
  xattr_open_gen xattr_open_close pat_path
  e_quote e_escape z_SPLIT_LINE_UNMATCHED_QUOTE z_SPLIT_LINE_ESCAPE
  c_SQFS_BLK_DONT_COMPRESS c_SQFS_BLK_DONT_FRAGMENT c_SQFS_BLK_DONT_DEDUPLICATE c_SQFS_BLK_IGNORE_SPARSE.
