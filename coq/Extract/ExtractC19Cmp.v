(* extraction of the comparator models for the C19 comparator census (props/C19/driver_cmp.ml) *)
From Coq Require Import Extraction ExtrOcamlBasic NArith ZArith.
From SqfsV Require Import Util.RbModel C19.CmpCensus.
Extraction "c19_cmp_model.ml" N.add N.mul cmp_u32 cmp_inum cmp_u64 cmp_block le8 inum_key.
