From Coq Require Import Extraction ExtrOcamlBasic.
From SqfsV Require Import C12.ListN C12.IoModel.
Extraction "c12_model.ml" run run_ops op_client ops_client istate_init spec_gl.
