From Coq Require Import Extraction ExtrOcamlBasic.
From SqfsV Require Import C12.ListN C12.IoModel C12.Eagain.
(* run_k / classify: the errno-carrying kernel stream of C12/Eagain.v (EAGAIN = KErrno 11);
   the *_k loops are extracted so that the driver can re-observe the simulation lemmas *)
Extraction "c12_model.ml" run run_ops op_client ops_client istate_init spec_gl
  run_k classify c_EINTR c_EIO c_EAGAIN refill_k write_all_k read_at_loop_k write_at_loop_k ftruncate_loop_k.
