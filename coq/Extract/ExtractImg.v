From Coq Require Import Extraction ExtrOcamlBasic NArith.
From SqfsV Require Import C01.GenC01 C01.Res C01.InodeModel C03.Common C03.MetaModel C03.DirModel Img.TreeModel.
Extraction "img_model.ml" serialize_fstree read_tree spec_tree representable trace_fits
  img_compress img_uncompress c_id_table_limit inode_at read_listing
  N.add N.mul N.div_eucl N.compare.
