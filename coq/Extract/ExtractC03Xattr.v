From Coq Require Import Extraction ExtrOcamlBasic NArith.
From SqfsV Require Import C01.GenC01 C01.Res C01.XattrModel C03.Common C03.MetaModel Img.TreeModel.
From SqfsV Require C14.SuperModel.
From SqfsV Require Import Image.ReaderModel Image.ValidModel.
From SqfsV Require Import ImgXattr.FlushModel ImgXattr.XattrRead.
Extraction "c03x_model.ml" xw_sets xw_empty xflush img_compress img_uncompress
  read_super xattr_tail read_xattr_table xt_set xt_count v_xattr v_xattr_inodes valid_xattrs
  N.add N.mul N.div_eucl N.compare.
