From Coq Require Import Extraction ExtrOcamlBasic.
From SqfsV Require Import Base.Bytes C10.GenC10 C10.MetaModel C10.ClientModel C10.DataModel C10.ApiModel C10.XFineModel C10.ReaddirLowModel.
Extraction "c10_model.ml" read_at mr_create seek read get_position step run run_client c_read c_seek cbind
  dr_create api_read api_get_block api_get_fragment stream_create stream_read load_fragment_table
  on_disk nothing_positioned
  inode_client finode_of open_dir_client readdir_many resolve_path_client
  xattr_load xattr_desc_client xattr_all_client xattr_partial_loop xattr_fuel
  id_table_read id_lookup
  xf_step xf_fresh cursor_ops
  readdir_state_init readdir_low_many.
