From Coq Require Import Extraction ExtrOcamlBasic.
From SqfsV Require Import C05.RBase C05.Meta C05.Super C05.Inode C05.Dir C05.Data C05.Xattr C05.Run.
Extraction "c05_model.ml" run_reader run_reader_build item_crash item_oof get_path.
