From Coq Require Import Extraction ExtrOcamlBasic NArith.
From SqfsV Require Import C01.GenC01 C01.Res C01.InodeModel C03.Common C03.MetaModel C03.DirModel Img.TreeModel.
From SqfsV Require C14.SuperModel.
From SqfsV Require Import Image.ReaderModel Image.ValidModel ImgXattr.XattrRead ImgValid.ValidFull.
Extraction "valid_model.ml" valid_image_full first_failure_full read_super SuperModel.fields
  N.add N.mul N.div_eucl N.compare.
