From Coq Require Import Extraction ExtrOcamlBasic.
From SqfsV Require Import C16.ParseModel C16.DescribeModel C16.DescribeOld C16.FsModel.
Extraction "c16_model.ml" describe old_describe fstree_from_file_stream split_line cook_line parse_num fs_add fs_init.
