From Coq Require Import Extraction ExtrOcamlBasic.
From SqfsV Require Import C08.DedupModel C08.DedupTheorems C17.FlagModel.
Extraction "c17_flags_model.ml" tool_pack tool_flags read_back toy_compress toy_uncompress toy_hash half_scratch
  p_wr p_nfrag p_ftab p_start p_size p_nwords p_frag p_evs w_file.
