(* C16, image leg: describe -> pack file parser -> fstree_add_generic on the C11 fstree -> fstree_post_process ->
   the bridge to the serializer -> the serializer (metadata stored uncompressed), for the comparison of the tables the
   composed model of coq/ImgDescribe predicts with those of the image the real gensquashfs --pack-file wrote from the
   listing the real rdsquashfs --describe printed. *)
From Coq Require Import Extraction ExtrOcamlBasic NArith.
From SqfsV Require Import C03.Common C03.MetaModel C01.GenC01 C01.Res C01.InodeModel Img.TreeModel.
From SqfsV Require Import C11.StrOrder C11.FstreeModel C11.PostModel ImgPost.Bridge ImgScan.PackModel.
From SqfsV Require Import C16.ParseModel C16.DescribeModel ImgDescribe.RepackModel.
Extraction "c16img_model.ml" describe fstree_from_file_stream default_options do_add fs_init post_process
  pp_tables toy_compress c_id_table_limit NOX N.add N.mul.
