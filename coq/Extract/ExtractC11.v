From Coq Require Import Extraction ExtrOcamlBasic.
From SqfsV Require Import C11.StrOrder C11.FstreeModel C11.PostModel C11.ScanModel.
Extraction "c11_model.ml" fs_init fs_add glob_target scan_dir post_process join_slash canon insert_sorted.
