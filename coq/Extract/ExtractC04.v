From Coq Require Import Extraction ExtrOcamlBasic.
From SqfsV Require Import C04.TarNum C04.TarHdr C04.TarStream.
Extraction "c04_model.ml" read_number write_number write_number_signed s64_of_u64 checksum
  padding write_tar_header write_entry_hdr write_entries read_header read_archive write_archive stream_go retarget retarget_old
  strip_root clamp_mtime.
