(* C11, image leg: the directory scan, post processing, the bridge to the serializer and the serializer itself
   (metadata stored uncompressed: C03's toy compressor mode 0), for the comparison of the inode / directory / id
   tables the composed model predicts with those of the image the real gensquashfs wrote. *)
From Coq Require Import Extraction ExtrOcamlBasic NArith.
From SqfsV Require Import C03.Common C03.MetaModel C01.GenC01 C01.Res C01.InodeModel Img.TreeModel.
From SqfsV Require Import C11.StrOrder C11.FstreeModel C11.PostModel C11.ScanModel ImgPost.Bridge ImgScan.PackModel.
Extraction "c11img_model.ml" fs_init fs_add glob_target scan_dir post_process join_slash
  to_img serialize_fstree toy_compress c_id_table_limit NOX pp_tables.
