(* C01, section 7: the composed packer model (ImgE2E.PackAll.pack_all), the composed reader (read_all), the decidable
   hypotheses of pack_all_reads_back (Hyps.e2e_okb) and the loop bounds, for props/C01/e2e_driver.ml *)
From Coq Require Import Extraction ExtrOcamlBasic NArith.
From SqfsV Require Import C01.GenC01 C01.Res C01.InodeModel C01.XattrModel C03.Common Img.TreeModel.
From SqfsV Require Import C11.StrOrder C11.FstreeModel C11.PostModel ImgPost.Bridge ImgPost.PathsModel.
From SqfsV Require Import C08.DedupModel C08.DedupTheorems.
From SqfsV Require Import Image.FinishModel.
From SqfsV Require Import ImgE2E.PackAll ImgE2E.Hyps ImgE2E.DriverDefs.
Extraction "c01e2e_model.ml" pack_all_out read_all_out e2e_okb e2e_depth e2e_efuel e2e_fuel
  image_bytes e2e_meta_compress e2e_meta_uncompress e2e_data_compress e2e_data_uncompress half_scratch c_id_table_limit
  pp_files pp_inodes xattr_paths
  N.add N.mul N.div_eucl N.compare.
