(* C17, order leg: the packer from the tree (scanned directory / add operations) and the sort file text to the packing
   order (pack_dir / pack_ops up to and including fstree_sort_files: Properties_C17.run_order_is_order_dir / _ops). *)
From Coq Require Import Extraction ExtrOcamlBasic.
From SqfsV Require Import C11.FstreeModel C11.PostModel C11.ScanModel ImgPost.Bridge C17.SortModel C17.OrderModel.
Extraction "c17_order_model.ml" order_dir order_ops join_slash get_path.
