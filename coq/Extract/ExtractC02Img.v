(* C02, layout leg: the composed pipelines of coq/ImgDet (tar2sqfs: archive order; gensquashfs: fs->files order) down to
   the inodes and the fragment table the block processor leaves, for the comparison with the images the real tools
   write from incompressible file contents. *)
From Coq Require Import Extraction ExtrOcamlBasic NArith.
From SqfsV Require Import C04.TarNum C04.TarHdr C04.TarStream C11.FstreeModel C02.BpModel ImgTar.Model ImgDet.TieModel.
Extraction "c02img_model.ml" read_archive tar_layout gens_layout opts0 N.add N.mul N.div N.modulo.
