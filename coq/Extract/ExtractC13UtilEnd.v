(* extraction of the allocation-aware container models of coq/UtilAlloc for the C13 tie
   (props/C13/driver_ualloc.ml): coq/Extract/ExtractC13Util.v plus the xattr writer's end / destroy /
   flush-allocation models (XattrEndAlloc.v, XattrFlushAlloc.v).  Lives in props/C13 because coq/Extract is
   not among the paths of the extension that added it; ualloc.py passes its absolute path to
   core.build_model_driver. *)
From Coq Require Import Extraction ExtrOcamlBasic NArith ZArith.
From SqfsV Require Import Util.GenUtil Util.FastRem Util.HashModel Util.RbModel Util.ArrayModel Util.StrModel
     UtilAlloc.AllocBase UtilAlloc.ArrayAlloc UtilAlloc.HashAlloc UtilAlloc.RbAlloc UtilAlloc.StrAlloc
     UtilAlloc.XattrAlloc UtilAlloc.XattrEndAlloc UtilAlloc.XattrFlushAlloc.
Extraction "c13_ualloc_model.ml"
  N.add N.mul N.div_eucl N.eqb N.ltb
  heap0 fail_at alloc free
  ht_create_a ht_clone_a ht_destroy_a ht_insert_a ht_search_a ht_remove_a ht_entry
  rbtree_init rbtree_insert_a rbtree_lookup rbtree_copy_a rbtree_cleanup_a dump cmp_bytes
  array_init_a array_init_copy_a array_append_a array_set_capacity_a array_get_a array_set_a array_cleanup_a
  strhash str_table_init_a str_table_get_index_a str_table_get_string str_table_add_ref str_table_del_ref
  str_table_get_ref_count str_table_copy_a str_table_cleanup_a bh_get mk_bheap
  xw_create_a xw_destroy_a xw_begin_a xw_add_kv_a
  xw_create2_a xw_destroy2_a xw_begin2_a xw_end_a xw_add_kv_chk_a key_start key_count elem_idx
  xw_flush_a.
