From Coq Require Import Extraction ExtrOcamlBasic.
From SqfsV Require Import C18.CanonModel C18.CanonSpec.
Extraction "c18_model.ml" canon_model canon_spec is_filename_sane_model.
