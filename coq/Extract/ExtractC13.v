From Coq Require Import Extraction ExtrOcamlBasic.
From SqfsV Require Import C13.FaultMonad C13.FaultModel.
Extraction "c13_model.ml" gensquashfs tar2sqfs reader_tool run_tool repaired unpatched single nofault.
