From Coq Require Import Extraction ExtrOcamlBasic.
From SqfsV Require Import C17.SortModel C17.SortFileModel.
Extraction "c17line_model.ml" parse_sort_line parse_sort_file print_sort_line print_sort_file entry_okb.
