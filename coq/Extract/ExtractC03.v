From Coq Require Import Extraction ExtrOcamlBasic.
From SqfsV Require Import C03.Common C03.MetaModel C03.DirModel C03.TableModel C03.NumModel.
Extraction "c03_model.ml" mw_init mw_append mw_flush mw_position mw_write_to_file mw_disk toy_compress
  dw_create dw_begin dw_add_entry dw_end dw_index_size dw_create_inode gcec
  write_table dw_write_export_table super_init super_write pad_len numbering.
