From Coq Require Import Extraction ExtrOcamlBasic NArith.
From SqfsV Require Import C04.SubdirModel.
Extraction "c04sd_model.ml" s2t_names.
