From Coq Require Import Extraction ExtrOcamlBasic.
From SqfsV Require Import C19.ObjHeap C19.ObjHooks C19.ObjKinds C19.ObjSpec C19.ObjCheckDefs
     C19.ObjInstDefs C19.ObjMach C19.ObjGenDefs.
Extraction "c19_model.ml"
  sqfs_copy sqfs_drop sqfs_grab touch_obj HK_fixed HK_old DK hooks_ok
  mk_flat mk_res mk_meta mk_table mk_data mk_dir mk_xrd mk_xwr a_file a_cmp
  classify rc_of live_count copyable copyable_g abs_obj
  id_to_index index_to_id frag_append frag_set frag_lookup frag_size
  xwr_empty xwr_begin xwr_add xwr_end copy_state.
