From Coq Require Import Extraction ExtrOcamlBasic NArith.
From SqfsV Require Import C04.TarNum C04.TarHdr C04.TarStream C11.FstreeModel C11.PostModel ImgPost.Bridge ImgTar.Model.
Extraction "c04it_model.ml" read_archive write_archive tar2sqfs_trace tar_roundtrip_entries bare_entry join_slash type_bits
  tree_shapeb N.add N.mul N.div N.modulo.
