From Coq Require Import Extraction ExtrOcamlBasic.
From SqfsV Require Import C02.BpModel C02.BpConcrete C02.EnvModel.
Extraction "c02_model.ml" run_concrete obs_writes obs_inodes obs_ftbl obs_file obs_backlog enc_flags setf size_word
  get_source_date_epoch default_mtime
  new_inode i_set_file_size i_set_block_start i_make_extended i_make_basic i_add_sparse i_set_frag.
