From Coq Require Import Extraction ExtrOcamlBasic.
From SqfsV Require Import C05.Lookup.
Extraction "c05_lookup_model.ml" resolve scan match_ent c_strncmp c_strlen wit_dirs.
