(* C01, section 8: read_all_real (tree, fragment table, contents and xattrs by models of the real readers; one xattr reader
   object threaded through all paths) and a session of the C05 xattr reader model on arbitrary index sequences, for
   props/C01/xreal_driver.ml *)
From Coq Require Import Extraction ExtrOcamlBasic NArith.
From SqfsV Require Import ImgPost.PathsModel.
From SqfsV Require Import ImgE2E.PackAll ImgE2E.DriverDefs.
From SqfsV Require Import ImgXattrReader.DriverDefs.
Extraction "c01xreal_model.ml" read_all_real_out xsession_out
  N.add N.mul N.div_eucl N.compare.
