(* C01, section 6: the C05 reader model on a whole image (ReadImage.read_image_c05 through read_image_out) and what
   the driver compares it with (spec_tree of the input, the hypotheses of the refinement theorem) *)
From Coq Require Import Extraction ExtrOcamlBasic NArith.
From SqfsV Require Import C01.GenC01 C01.Res C01.InodeModel C03.Common C03.MetaModel C03.DirModel Img.TreeModel.
From SqfsV Require Import C05.RBase C05.Super C05.Inode C05.Dir ImgReader.Embed ImgReader.ReadImage.
Extraction "c01reader_model.ml" read_image_out hyp_flags uc_of max_entries opt_ltree_eqb ltree_eqb
  spec_tree img_compress img_uncompress c_id_table_limit
  N.add N.mul N.div_eucl N.compare.
