From Coq Require Import Extraction ExtrOcamlBasic NArith.
From SqfsV Require Import C01.GenC01 C01.Res C01.InodeModel C03.Common C03.MetaModel C03.DirModel Img.TreeModel.
From SqfsV Require C14.SuperModel.
From SqfsV Require Import C14.TraceModel C14.RefineModel C14.FineModel C14.SectionModel.
From SqfsV Require Import Image.FinishModel Image.ImageProofs.
Extraction "c14_fine.ml" trace_okb trace_refinesb coarse_of_image predicted_calls image_sections sections_wf section_wf
  apply_ev apply_from size_ev keeps event_eqb TraceModel.list_eqb commit_index
  write_image image_bytes fine_trace ev_one image_domain image_fits img_compress c_id_table_limit
  SuperModel.encode SuperModel.decode
  N.add N.mul N.div_eucl N.compare N.leb.
