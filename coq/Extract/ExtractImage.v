From Coq Require Import Extraction ExtrOcamlBasic NArith.
From SqfsV Require Import C01.GenC01 C01.Res C01.InodeModel C03.Common C03.MetaModel C03.DirModel Img.TreeModel.
From SqfsV Require C14.SuperModel.
From SqfsV Require Import Image.FinishModel Image.ReaderModel Image.ValidModel.
Extraction "image_model.ml" write_image image_bytes read_super read_ids read_frags read_export read_image_tree
  tables_of valid_image first_failure spec_tree representable trace_fits img_compress img_uncompress c_id_table_limit
  SuperModel.fields
  N.add N.mul N.div_eucl N.compare.
