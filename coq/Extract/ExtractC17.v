From Coq Require Import Extraction ExtrOcamlBasic.
From SqfsV Require Import C17.SortModel.
Extraction "c17_model.ml" sort_files pack_flags parse_line get_lines.
