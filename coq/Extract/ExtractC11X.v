(* C11, xattr leg: ExtractC11Img.v plus apply_xattrs (gensquashfs -x: the walk over the sorted tree on C01's xattr writer
   model) and the flush of the xattr section (ImgXattr.FlushModel.xflush, metadata stored uncompressed), for the comparison
   of the per-inode xattr indices (inside the inode table) and of the xattr section with the image the real gensquashfs
   wrote from a directory with xattrs. *)
From Coq Require Import Extraction ExtrOcamlBasic NArith.
From SqfsV Require Import C03.Common C03.MetaModel C01.GenC01 C01.Res C01.InodeModel C01.XattrModel Img.TreeModel.
From SqfsV Require Import C11.StrOrder C11.FstreeModel C11.PostModel C11.ScanModel ImgPost.Bridge ImgScan.PackModel.
From SqfsV Require Import ImgXattr.FlushModel ImgScan.XattrModel.
Extraction "c11x_model.ml" fs_init fs_add glob_target scan_dir post_process join_slash
  to_img serialize_fstree toy_compress c_id_table_limit NOX pp_tables
  apply_xattrs apply_xattrs_scan_order xattr_paths xa_of node_indices xflush.
