From Coq Require Import Extraction ExtrOcamlBasic NArith.
From SqfsV Require Import C14.SuperModel C14.TraceModel.
Extraction "c14_model.ml" super_init encode decode super_read open_verdict accepts
  trace_okb commit_index apply_ev size_ev size_after image_of N.leb.
