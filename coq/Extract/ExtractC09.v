From Coq Require Import Extraction ExtrOcamlBasic.
From SqfsV Require Import C09.PoolModel.
Extraction "c09_model.ml" init step main_enabled worker_enabled serial_init serial_call spec_call.
