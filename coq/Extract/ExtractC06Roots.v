From Coq Require Import Extraction ExtrOcamlBasic.
From SqfsV Require Import C18.CanonModel C18.CanonSpec C06.UnpackModel C06.FsModel C06.RootsModel.
Extraction "c06_roots_model.ml" mkdir_p_calls main_unpack chdir mkdir_p_run unpack_ops world_of split_slash.
