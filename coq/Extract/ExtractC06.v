From Coq Require Import Extraction ExtrOcamlBasic.
From SqfsV Require Import C18.CanonModel C18.CanonSpec C06.UnpackModel C06.FsModel.
Extraction "c06_model.ml" unpack_ops skipped load tree_sort prune ops_of_sorted run exec_op resolve world_of upd split_slash.
