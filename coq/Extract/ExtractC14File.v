(* C14 descriptor leg: the model of lib/sqfs/src/io/file.c's output descriptor (coq/C14/FileLenModel.v), extracted for
   props/C14/file_driver.ml (tie of desc_stage.py / desc_length_tie: real sqfs_file_open / write_at / truncate / get_size /
   sqfs_drop and the tools' fstat log vs fd_step Physical, fd_close, fops_ok, appendsb). *)
From Coq Require Import Extraction ExtrOcamlBasic NArith.
From SqfsV Require Import C14.TraceModel C14.FileLenModel.
Extraction "c14_file.ml" fd0 fd_write fd_trunc fd_step fd_run fd_close fop_ok fops_ok flen appendsb apply_ev apply_from
  N.add N.mul N.leb N.eqb.
