(* C04, section "ImgTarFull": the composed models of tar2sqfs and sqfs2tar (archive entries -> image bytes -> entries with
   contents and xattr lists) for props/C04/full_driver.ml *)
From Coq Require Import Extraction ExtrOcamlBasic NArith.
From SqfsV Require Import C04.TarNum C04.TarHdr C04.TarStream C11.FstreeModel ImgTar.Model.
From SqfsV Require Import ImgTarFull.Model ImgTarFull.Driver.
Extraction "c04full_model.ml" read_archive write_archive drv_conv N.add N.mul N.div N.modulo.
