(* C09 — list lemmas used by the pool proofs: counting, [upd], [seq], [firstn]. *)
From Coq Require Import List ZArith Bool Arith Lia Permutation.
From SqfsV Require Import C09.PoolModel.
Import ListNotations.

Fixpoint cnt (l : list nat) (t : nat) : nat :=
  match l with
  | [] => 0
  | x :: r => (if x =? t then 1 else 0) + cnt r t
  end.

Lemma cnt_app : forall l1 l2 t, cnt (l1 ++ l2) t = cnt l1 t + cnt l2 t.
Proof. induction l1; simpl; intros; [reflexivity|]. rewrite IHl1. lia. Qed.

Lemma cnt_count_occ : forall l t, cnt l t = count_occ Nat.eq_dec l t.
Proof.
  induction l; simpl; intros; [reflexivity|].
  destruct (Nat.eq_dec a t) as [->|n].
  - rewrite Nat.eqb_refl, IHl. reflexivity.
  - apply Nat.eqb_neq in n. rewrite n, IHl. reflexivity.
Qed.

Lemma cnt_In : forall l t, In t l <-> cnt l t > 0.
Proof.
  induction l; simpl; intros.
  - split; [tauto|lia].
  - destruct (Nat.eqb_spec a t).
    + split; [lia|auto].
    + rewrite IHl. split; [intros [?|?]; [congruence|lia]|intros; right; lia].
Qed.

Lemma cnt_notIn : forall l t, ~ In t l <-> cnt l t = 0.
Proof. intros. rewrite cnt_In. lia. Qed.

Lemma cnt_seq : forall n a t, cnt (seq a n) t = if (a <=? t) && (t <? a + n) then 1 else 0.
Proof.
  induction n; simpl; intros.
  - destruct (a <=? t) eqn:E1, (t <? a + 0) eqn:E2; simpl; try reflexivity.
    apply Nat.leb_le in E1. apply Nat.ltb_lt in E2. lia.
  - rewrite IHn.
    destruct (Nat.eqb_spec a t), (Nat.leb_spec a t), (Nat.ltb_spec t (a + S n)),
      (Nat.leb_spec (S a) t), (Nat.ltb_spec t (S a + n)); simpl; lia.
Qed.

Lemma cnt_seq0 : forall n t, cnt (seq 0 n) t = if t <? n then 1 else 0.
Proof. intros. rewrite cnt_seq. simpl. reflexivity. Qed.

Lemma cnt_perm_seq : forall l n,
  (forall t, cnt l t = if t <? n then 1 else 0) -> Permutation l (seq 0 n).
Proof.
  intros. apply (Permutation_count_occ Nat.eq_dec). intros.
  rewrite <- !cnt_count_occ, cnt_seq0. apply H.
Qed.

Lemma cnt_le1_NoDup : forall l, (forall t, cnt l t <= 1) -> NoDup l.
Proof.
  intros. apply (NoDup_count_occ Nat.eq_dec). intros. rewrite <- cnt_count_occ. apply H.
Qed.

(* ---- upd ---- *)
Lemma upd_length : forall A (l : list A) i x, length (upd l i x) = length l.
Proof. induction l; destruct i; simpl; intros; auto. Qed.

Lemma upd_nth_same : forall A (l : list A) i x, i < length l -> nth_error (upd l i x) i = Some x.
Proof. induction l; destruct i; simpl; intros; try lia; auto. apply IHl. lia. Qed.

Lemma upd_nth_other : forall A (l : list A) i j x, i <> j -> nth_error (upd l i x) j = nth_error l j.
Proof. induction l; destruct i, j; simpl; intros; try congruence; auto. Qed.

Lemma upd_upd : forall A (l : list A) i x y, upd (upd l i x) i y = upd l i y.
Proof. induction l; destruct i; simpl; intros; auto. f_equal. apply IHl. Qed.

Lemma upd_In : forall A (l : list A) i x z, In z (upd l i x) -> z = x \/ In z l.
Proof.
  induction l; destruct i; simpl; intros; try tauto.
  - destruct H; auto.
  - destruct H; auto. apply IHl in H. tauto.
Qed.

Lemma upd_In_same : forall A (l : list A) i x, i < length l -> In x (upd l i x).
Proof. intros. eapply nth_error_In. apply upd_nth_same. assumption. Qed.

Lemma upd_In_old : forall A (l : list A) i x y z,
  nth_error l i = Some y -> In z l -> z <> y -> In z (upd l i x).
Proof.
  induction l; destruct i; simpl; intros; try tauto.
  - inversion H; subst. destruct H0; [congruence|auto].
  - destruct H0; auto. right. eapply IHl; eauto.
Qed.

Lemma upd_Forall : forall A (P : A -> Prop) (l : list A) i x, Forall P l -> P x -> Forall P (upd l i x).
Proof.
  induction l; destruct i; simpl; intros; auto; inversion H; subst; constructor; auto.
Qed.

Lemma nth_error_Forall : forall A (P : A -> Prop) (l : list A) i x, Forall P l -> nth_error l i = Some x -> P x.
Proof. intros. rewrite Forall_forall in H. apply H. eapply nth_error_In; eauto. Qed.

Lemma nth_error_lt : forall A (l : list A) i x, nth_error l i = Some x -> i < length l.
Proof. intros. apply nth_error_Some. congruence. Qed.

(* replacing entry i: sums over the list change by the difference of the two entries *)
Lemma upd_flat_cnt : forall (f : wstate -> list nat) l i x y t,
  nth_error l i = Some x ->
  cnt (flat_map f (upd l i y)) t + cnt (f x) t = cnt (flat_map f l) t + cnt (f y) t.
Proof.
  induction l; destruct i; simpl; intros; try discriminate.
  - inversion H; subst. rewrite !cnt_app. lia.
  - rewrite !cnt_app. specialize (IHl _ _ y t H). lia.
Qed.

Fixpoint sum_map {A} (f : A -> nat) (l : list A) : nat :=
  match l with [] => 0 | x :: r => f x + sum_map f r end.

Lemma upd_sum : forall A (f : A -> nat) l i x y,
  nth_error l i = Some x -> sum_map f (upd l i y) + f x = sum_map f l + f y.
Proof.
  induction l; destruct i; simpl; intros; try discriminate.
  - inversion H; subst. lia.
  - specialize (IHl _ _ y H). lia.
Qed.

Lemma sum_map_map_le : forall A (f : A -> nat) (g : A -> A) l,
  (forall x, f (g x) <= S (f x)) -> sum_map f (map g l) <= sum_map f l + length l.
Proof. induction l; simpl; intros; [lia|]. specialize (IHl H). specialize (H a). lia. Qed.

(* ---- firstn / nth_error ---- *)
Lemma firstn_S_nth : forall A (l : list A) n x,
  nth_error l n = Some x -> firstn (S n) l = firstn n l ++ [x].
Proof.
  induction l; destruct n; simpl; intros; try discriminate.
  - inversion H; reflexivity.
  - f_equal. apply IHl. assumption.
Qed.

Lemma firstn_app_le : forall A (l l' : list A) n, n <= length l -> firstn n (l ++ l') = firstn n l.
Proof.
  intros. rewrite firstn_app. replace (n - length l) with 0 by lia. simpl. apply app_nil_r.
Qed.

Lemma nth_error_app_Some : forall A (l l' : list A) n x,
  nth_error l n = Some x -> nth_error (l ++ l') n = Some x.
Proof. intros. rewrite nth_error_app1; [assumption|]. eapply nth_error_lt; eauto. Qed.

Lemma nth_error_app_end : forall A (l : list A) x, nth_error (l ++ [x]) (length l) = Some x.
Proof. intros. rewrite nth_error_app2 by lia. rewrite Nat.sub_diag. reflexivity. Qed.

Lemma seq_cons_inv : forall a n x r, seq a n = x :: r -> x = a /\ exists m, n = S m /\ r = seq (S a) m.
Proof. destruct n; simpl; intros; [discriminate|]. inversion H; subst. eauto. Qed.

(* ---- pool-specific list facts that do not depend on the callback ---- *)
Lemma flat_repeat_nil : forall (f : wstate -> list nat) x n, f x = [] -> flat_map f (repeat x n) = [].
Proof. induction n; simpl; intros; auto. rewrite H. simpl. auto. Qed.

Lemma cnt_insert : forall it l t,
  cnt (map fst (insert_done it l)) t = (if fst it =? t then 1 else 0) + cnt (map fst l) t.
Proof.
  induction l; simpl; intros; [lia|].
  destruct (fst it <=? fst a); simpl; [lia|]. rewrite IHl. lia.
Qed.

Lemma Forall_insert : forall (P : witem -> Prop) it l, P it -> Forall P l -> Forall P (insert_done it l).
Proof.
  induction l; simpl; intros; [constructor; auto|].
  inversion H0; subst. destruct (fst it <=? fst a); constructor; auto.
Qed.

Lemma In_insert : forall it l x, In x (insert_done it l) <-> x = it \/ In x l.
Proof.
  induction l; simpl; intros; [intuition|].
  destruct (fst it <=? fst a); simpl; [intuition|]. rewrite IHl. intuition.
Qed.

Lemma flat_wake : forall (f : wstate -> list nat) l,
  f WWaiting = [] -> f WWoken = [] -> flat_map f (map wake_worker l) = flat_map f l.
Proof.
  induction l; simpl; intros; auto. rewrite IHl by assumption.
  destruct a; simpl; try reflexivity. rewrite H, H0. reflexivity.
Qed.


Lemma nth_error_firstn_lt : forall A (l : list A) n k, k < n -> nth_error (firstn n l) k = nth_error l k.
Proof.
  induction l; destruct n, k; simpl; intros; try lia; auto. apply IHl. lia.
Qed.

Lemma skipn_nth_cons : forall A (l : list A) n x, nth_error l n = Some x -> skipn n l = x :: skipn (S n) l.
Proof.
  induction l; destruct n; simpl; intros; try discriminate.
  - inversion H; reflexivity.
  - apply IHl. assumption.
Qed.

Lemma skipn_app_le : forall A (l l' : list A) n, n <= length l -> skipn n (l ++ l') = skipn n l ++ l'.
Proof.
  induction l; destruct n; simpl; intros; try lia; auto. apply IHl. lia.
Qed.
