(* C09 — termination of every blocked call, and what happens after a worker failure:
   the status latches, is a status some callback really returned, is what submit /
   get_status report; dequeue yields NULL only for an empty pipeline or a failed pool.
   Plus the witness that the unrepaired code ([fx = false]) hangs (finding F01). *)
From Coq Require Import List ZArith Bool Arith Lia Permutation.
From SqfsV Require Import C09.PoolModel C09.PoolLemmas C09.PoolSafety C09.PoolProgress.
Import ListNotations.

Section Failure.
Variable cb_val : nat -> nat.
Variable cb_st : nat -> Z.
Variable fx : bool.

Notation step := (step cb_val cb_st fx).
Notation run := (run cb_val cb_st fx).
Notation worker_step := (worker_step cb_val cb_st).
Notation Inv := (Inv cb_val cb_st).
Notation Sync := (Sync fx).
Notation reachable := (reachable cb_val cb_st fx).

Ltac psimpl :=
  cbn [queue done safe_done next_ticket next_deq item_count status ws ms g_sub g_ret g_ran
       set_ws set_ms set_w store_completed give_back fst snd] in *.

Ltac inj_fst H :=
  apply (f_equal (fun o : option (pool * event) => match o with Some p => Some (fst p) | None => None end)) in H;
  cbn beta iota in H; cbn [fst] in H; injection H as H; subst.

(* ---- every run of internal steps is bounded by the measure ---- *)
Theorem internal_run_bounded : forall ls s s' es,
  Inv s -> Sync s -> Forall (fun l => internal l = true) ls -> run s ls = Some (s', es) ->
  length ls + mu s' <= mu s.
Proof.
  induction ls as [|a ls IH]; simpl; intros s s' es HI HS Hall Hr.
  - inversion Hr; subst. lia.
  - destruct (step s a) as [[s1 e]|] eqn:Hs; [|discriminate].
    destruct (PoolModel.run cb_val cb_st fx s1 ls) as [[s2 es']|] eqn:Hr'; [|discriminate]. inversion Hr; subst.
    inversion Hall; subst.
    pose proof (mu_decreases cb_val cb_st fx _ _ _ _ HS H1 Hs).
    assert (length ls + mu s' <= mu s1).
    { eapply IH; eauto. eapply inv_step; eauto. eapply sync_step; eauto. }
    lia.
Qed.

Lemma busy_dec : forall s, busy s \/ ~ busy s.
Proof. intros. unfold busy. destruct (ms s); try (left; split; discriminate); right; tauto. Qed.

(* from every state the pending call can be completed by internal steps alone, and
   whatever internal steps are taken, at most [mu s] of them fit before it returns *)
Theorem call_returns : forall k s,
  fx = true -> mu s <= k -> Inv s -> Sync s -> length (ws s) >= 1 ->
  exists ls s' es, Forall (fun l => internal l = true) ls /\ run s ls = Some (s', es) /\ ~ busy s'.
Proof.
  induction k; intros s Hfx Hk HI HS Hn.
  - destruct (busy_dec s) as [B|B].
    + destruct (no_stuck cb_val cb_st fx s Hfx HI HS Hn B) as [l [Hl Hs]].
      destruct (step s l) as [[s1 e]|] eqn:E; [|congruence].
      pose proof (mu_decreases cb_val cb_st fx _ _ _ _ HS Hl E). lia.
    + exists [], s, []. simpl. auto.
  - destruct (busy_dec s) as [B|B].
    + destruct (no_stuck cb_val cb_st fx s Hfx HI HS Hn B) as [l [Hl Hs]].
      destruct (step s l) as [[s1 e]|] eqn:E; [|congruence].
      pose proof (mu_decreases cb_val cb_st fx _ _ _ _ HS Hl E).
      destruct (IHk s1) as [ls [s' [es [H1 [H2 H3]]]]]; auto; try lia.
      * eapply inv_step; eauto.
      * eapply sync_step; eauto.
      * erewrite ws_length_step; eauto.
      * exists (l :: ls), s', (e :: es). split; [constructor; auto|]. split; auto. simpl. rewrite E, H2. reflexivity.
    + exists [], s, []. simpl. auto.
Qed.

(* ---- the status latch ---- *)
Lemma status_get_next : forall s w, status (fst (get_next s w)) = status s.
Proof.
  intros. unfold get_next. destruct (status s =? 0)%Z; [destruct (queue s)|]; reflexivity.
Qed.

Theorem status_sticky : forall s l s' e, step s l = Some (s', e) -> status s <> 0%Z -> status s' <> 0%Z.
Proof.
  intros s l s' e Hs Hst. destruct l; simpl in Hs.
  - destruct (ms s); try discriminate. destruct o; simpl in Hs.
    + unfold submit in Hs. destruct (drain (done s) (next_deq s) (safe_done s)) as [[dn nd] sf].
      inj_fst Hs. assumption.
    + unfold dequeue, dequeue_locked in Hs.
      destruct (item_count s =? 0); [inj_fst Hs; assumption|].
      destruct (safe_done s); [|inj_fst Hs; assumption].
      destruct (done s) as [|it r]; [|destruct (fst it =? next_deq s)];
        try destruct (fx && negb (status s =? 0)%Z); inj_fst Hs; assumption.
    + inj_fst Hs. assumption.
    + unfold destroy, join_from in Hs. psimpl.
      destruct (first_alive (skipn 0 (map wake_worker (ws s))) 0); inj_fst Hs; psimpl; discriminate.
  - destruct (ms s); try discriminate.
    + unfold dequeue_locked in Hs.
      destruct (done s) as [|it r]; [|destruct (fst it =? next_deq s)];
        try destruct (fx && negb (status s =? 0)%Z); inj_fst Hs; assumption.
    + destruct (nth_error (ws s) i) as [[]|]; try discriminate. unfold join_from in Hs.
      destruct (first_alive (skipn (S i) (ws s)) (S i)); inj_fst Hs; assumption.
  - destruct (ms s); try discriminate. inj_fst Hs. assumption.
  - unfold PoolModel.worker_step in Hs. destruct (nth_error (ws s) w) as [x|]; [|discriminate].
    destruct x as [[[it st]|]| | |[t d]|]; try discriminate.
    + inj_fst Hs. rewrite status_get_next. apply status_store. assumption.
    + inj_fst Hs. rewrite status_get_next. assumption.
    + inj_fst Hs. rewrite status_get_next. assumption.
    + cbv zeta in Hs. injection Hs as Hs _. subst. assumption.
  - destruct (nth_error (ws s) w) as [[]|]; try discriminate. inj_fst Hs. assumption.
Qed.

(* ---- what the status means ---- *)
Definition okd (sub : list nat) (it : nat * nat) : Prop :=
  exists d0, nth_error sub (fst it) = Some d0 /\ cb_st d0 = 0%Z.

Definition destroyed (s : pool) : Prop := (exists i, ms s = MJoin i) \/ ms s = MDead.

Record FInv (s : pool) : Prop := {
  (* status still 0: nothing that was stored or handed back has failed *)
  f_ok : status s = 0%Z ->
         Forall (okd (g_sub s)) (done s) /\ Forall (okd (g_sub s)) (safe_done s) /\
         Forall (fun d0 => cb_st d0 = 0%Z) (firstn (length (g_ret s)) (g_sub s));
  (* status set while the pool is alive: it is the status a completed callback returned *)
  f_why : status s <> 0%Z -> ~ destroyed s ->
          exists t d0, In t (g_ran s) /\ nth_error (g_sub s) t = Some d0 /\ status s = cb_st d0
}.

Lemma finv_init : forall n, FInv (init n).
Proof. intros. constructor; unfold init; psimpl; simpl; intros; [auto|congruence]. Qed.

Lemma okd_app : forall sub d it, okd sub it -> okd (sub ++ [d]) it.
Proof. unfold okd. intros sub d it [d0 [? ?]]. exists d0. split; auto. apply nth_error_app_Some. assumption. Qed.

Lemma okd_forall_app : forall sub d l, Forall (okd sub) l -> Forall (okd (sub ++ [d])) l.
Proof. intros. eapply Forall_impl; [|eassumption]. intros. apply okd_app. assumption. Qed.

Lemma held_ran : forall s w it st,
  Inv s -> nth_error (ws s) w = Some (WReady (Some (it, st))) -> In (fst it) (g_ran s).
Proof.
  intros s w it st HI Hn. apply cnt_In. rewrite (i_ran _ _ s HI).
  assert (In (fst it) (flat_map htix (ws s))).
  { apply in_flat_map. exists (WReady (Some (it, st))). split; [eapply nth_error_In; eauto|simpl; auto]. }
  apply cnt_In in H. lia.
Qed.

(* a step that leaves the relevant fields alone *)
Lemma finv_frame : forall s s',
  FInv s -> status s' = status s -> done s' = done s -> safe_done s' = safe_done s ->
  g_sub s' = g_sub s -> g_ret s' = g_ret s -> (forall t, In t (g_ran s) -> In t (g_ran s')) ->
  (destroyed s -> destroyed s') -> FInv s'.
Proof.
  intros s s' [F1 F2] E1 E2 E3 E4 E5 E6 E7. constructor; rewrite ?E1, ?E2, ?E3, ?E4, ?E5; auto.
  intros Hst Hd. destruct F2 as [t [d0 [? [? ?]]]]; auto. exists t, d0. auto.
Qed.

Lemma finv_get_next : forall s w, FInv s -> FInv (fst (get_next s w)).
Proof.
  intros. unfold get_next. destruct (status s =? 0)%Z; [destruct (queue s)|]; simpl;
    eapply finv_frame; eauto.
Qed.

Lemma finv_set_ms : forall s m, FInv s -> (destroyed s -> destroyed (set_ms s m)) -> FInv (set_ms s m).
Proof. intros. eapply finv_frame; eauto. Qed.

Lemma finv_give : forall s (it : nat * nat) d0,
  nth_error (g_sub s) (length (g_ret s)) = Some d0 -> cb_st d0 = 0%Z ->
  Forall (fun d => cb_st d = 0%Z) (firstn (length (g_ret s)) (g_sub s)) ->
  Forall (fun d => cb_st d = 0%Z) (firstn (length (g_ret s ++ [snd it])) (g_sub s)).
Proof.
  intros. rewrite app_length. simpl. replace (length (g_ret s) + 1) with (S (length (g_ret s))) by lia.
  rewrite (firstn_S_nth _ _ _ d0) by assumption. apply Forall_app. split; auto.
Qed.

Lemma not_destroyed_idle : forall s, ms s = MIdle \/ ms s = MDeqWoken \/ ms s = MDeqWait -> ~ destroyed s.
Proof. intros s H [[i E]|E]; rewrite E in H; destruct H as [?|[?|?]]; discriminate. Qed.

Lemma finv_dequeue_locked : forall s,
  Inv s -> FInv s -> safe_done s = [] -> ms s = MIdle \/ ms s = MDeqWoken ->
  FInv (fst (dequeue_locked fx s)).
Proof.
  intros s HI HF Hsafe Hm. unfold dequeue_locked.
  assert (Hnd : ~ destroyed s) by (apply not_destroyed_idle; tauto).
  assert (Hset : forall m, FInv (set_ms s m)) by (intros; apply finv_set_ms; auto; tauto).
  destruct (done s) as [|it r] eqn:Dn.
  - destruct (fx && negb (status s =? 0)%Z); simpl; auto.
  - destruct (Nat.eqb_spec (fst it) (next_deq s)).
    2:{ destruct (fx && negb (status s =? 0)%Z); simpl; auto. }
    simpl. pose proof (i_nd _ _ s HI) as Hnd'. rewrite Hsafe in Hnd'. simpl in Hnd'. rewrite Nat.add_0_r in Hnd'.
    destruct HF as [F1 F2]. constructor; psimpl.
    + intros Hst. destruct (F1 Hst) as [A [B C]]. rewrite Dn in A. inversion A; subst.
      destruct H1 as [d0 [Hd0 Hz]]. repeat split; auto.
      apply (finv_give s it d0); auto. rewrite <- Hnd', <- e. assumption.
    + intros Hst _. apply F2; auto.
Qed.

Lemma status_store_cases : forall s it st,
  (status (store_completed s it st) = status s /\ (status s <> 0%Z \/ st = 0%Z)) \/
  (status s = 0%Z /\ st <> 0%Z /\ status (store_completed s it st) = st).
Proof.
  intros. unfold store_completed; psimpl.
  destruct (Z.eqb_spec st 0), (Z.eqb_spec (status s) 0); simpl; auto.
Qed.

Theorem finv_step : forall s l s' e, Inv s -> FInv s -> step s l = Some (s', e) -> FInv s'.
Proof.
  intros s l s' e HI HF Hs. destruct l; simpl in Hs.
  - destruct (ms s) eqn:Hm; try discriminate.
    assert (Hnd : ~ destroyed s) by (apply not_destroyed_idle; tauto).
    destruct o; simpl in Hs.
    + (* submit *)
      unfold submit in Hs. destruct (drain (done s) (next_deq s) (safe_done s)) as [[dn nd] sf] eqn:D.
      inj_fst Hs. destruct HF as [F1 F2].
      pose proof (i_ic _ _ s HI) as Hic. pose proof (i_nt _ _ s HI) as Hnt.
      destruct (Z.eqb_spec (status s) 0) as [Hst|Hst].
      * destruct (F1 Hst) as [A [B C]].
        eapply (drain_spec _ _ _ _ _ _ (length (g_ret s)) (okd (g_sub s ++ [d]))) in D;
          [|apply (i_nd _ _ s HI)|apply (i_safe _ _ s HI)|apply okd_forall_app; auto|apply okd_forall_app; auto].
        destruct D as [_ [_ [D3 [D4 _]]]].
        constructor; psimpl.
        -- intros _. repeat split; auto. rewrite firstn_app_le by lia. assumption.
        -- intros Hst'. congruence.
      * constructor; psimpl; [congruence|].
        intros _ Hd. apply F2; auto.
    + (* dequeue *)
      unfold dequeue in Hs. destruct (item_count s =? 0); [inj_fst Hs; assumption|].
      destruct (safe_done s) as [|it r] eqn:Sf.
      * inj_fst Hs. apply finv_dequeue_locked; auto.
      * inj_fst Hs. pose proof (i_safe _ _ s HI) as Hsafe. rewrite Sf in Hsafe. simpl in Hsafe.
        injection Hsafe as Hft _.
        destruct HF as [F1 F2]. constructor; psimpl.
        -- intros Hst. destruct (F1 Hst) as [A [B C]]. rewrite Sf in B. inversion B; subst.
           destruct H1 as [d0 [Hd0 Hz]]. repeat split; auto.
           apply (finv_give s it d0); auto. rewrite <- Hft. assumption.
        -- intros Hst _. apply F2; auto.
    + inj_fst Hs. assumption.
    + (* destroy *)
      inj_fst Hs. unfold destroy, join_from. psimpl.
      destruct (first_alive (skipn 0 (map wake_worker (ws s))) 0); simpl; constructor; psimpl;
        try discriminate; intros _ Hd; exfalso; apply Hd; unfold destroyed; psimpl; eauto.
  - destruct (ms s) eqn:Hm; try discriminate.
    + inj_fst Hs. apply finv_dequeue_locked; auto. apply (i_mw _ _ s HI). auto.
    + destruct (nth_error (ws s) i) as [[]|]; try discriminate. unfold join_from in Hs.
      destruct (first_alive (skipn (S i) (ws s)) (S i)); inj_fst Hs;
        apply finv_set_ms; auto; intros _; unfold destroyed; psimpl; eauto.
  - destruct (ms s) eqn:Hm; try discriminate. inj_fst Hs. apply finv_set_ms; auto.
    intros Hd. exfalso. revert Hd. apply not_destroyed_idle. auto.
  - unfold PoolModel.worker_step in Hs. destruct (nth_error (ws s) w) as [x|] eqn:Hn; [|discriminate].
    destruct x as [[[it st]|]| | |[t d]|]; try discriminate.
    + inj_fst Hs. apply finv_get_next.
      pose proof (nth_error_Forall _ _ _ _ _ (i_w _ _ s HI) Hn) as Hw. simpl in Hw.
      destruct Hw as [d0 [Hd0 [Hv Hst0]]].
      pose proof (held_ran _ _ _ _ HI Hn) as Hran.
      destruct HF as [F1 F2].
      destruct (status_store_cases s it st) as [[E Hor]|[E1 [E2 E3]]].
      * constructor; rewrite E; unfold store_completed; psimpl.
        -- intros Hz. destruct (F1 Hz) as [A [B C]]. repeat split; auto.
           apply Forall_insert; auto. exists d0. split; auto. destruct Hor; congruence.
        -- intros Hz Hd. apply F2; auto. intros Hd'. apply Hd. unfold destroyed in *. psimpl.
           destruct Hd' as [[i Hi]|Hi]; rewrite Hi; simpl; eauto.
      * constructor; rewrite E3; unfold store_completed; psimpl.
        -- congruence.
        -- intros _ _. exists (fst it), d0. auto.
    + inj_fst Hs. apply finv_get_next. assumption.
    + inj_fst Hs. apply finv_get_next. assumption.
    + cbv zeta in Hs. injection Hs as Hs _. subst. eapply finv_frame; eauto. psimpl. intros. right. assumption.
  - destruct (nth_error (ws s) w) as [[]|]; try discriminate. inj_fst Hs. eapply finv_frame; eauto.
Qed.

Lemma all_run : forall ls s s' es,
  Inv s -> Sync s -> FInv s -> run s ls = Some (s', es) -> Inv s' /\ Sync s' /\ FInv s'.
Proof.
  induction ls as [|a ls IH]; simpl; intros s s' es HI HS HF Hr.
  - inversion Hr; subst. auto.
  - destruct (step s a) as [[s1 e]|] eqn:Hs; [|discriminate].
    destruct (PoolModel.run cb_val cb_st fx s1 ls) as [[s2 es']|] eqn:Hr'; [|discriminate]. inversion Hr; subst.
    eapply IH; [| | |eassumption].
    + eapply inv_step; eauto.
    + eapply sync_step; eauto.
    + eapply finv_step; eauto.
Qed.

Lemma all_reachable : forall n s, reachable n s -> Inv s /\ Sync s /\ FInv s.
Proof.
  intros n s [ls [es H]]. eapply all_run; [apply inv_init|apply sync_init|apply finv_init|eassumption].
Qed.

(* ---- API-level consequences ---- *)
(* a handed-back item whose callback failed: the status is set *)
Theorem failure_latched : forall s k d0,
  FInv s -> k < length (g_ret s) -> nth_error (g_sub s) k = Some d0 -> cb_st d0 <> 0%Z -> status s <> 0%Z.
Proof.
  intros s k d0 HF Hk Hn Hz Hst. destruct (f_ok s HF Hst) as [_ [_ C]].
  rewrite Forall_forall in C. apply Hz. apply C. apply (nth_error_In _ k).
  rewrite nth_error_firstn_lt by assumption. assumption.
Qed.

Theorem submit_after_failure : forall s d s' e,
  status s <> 0%Z -> step s (LCall (OSubmit d)) = Some (s', e) ->
  e = ERet (OSubmit d) (RStatus (status s)) /\ g_sub s' = g_sub s /\ queue s' = queue s /\ status s' = status s.
Proof.
  intros s d s' e Hst Hs. simpl in Hs. destruct (ms s); try discriminate. simpl in Hs. unfold submit in Hs.
  destruct (drain (done s) (next_deq s) (safe_done s)) as [[dn nd] sf].
  apply Z.eqb_neq in Hst. rewrite Hst in Hs. injection Hs as Hs He. subst. psimpl. auto.
Qed.

Theorem get_status_reports : forall s s' e,
  step s (LCall OStatus) = Some (s', e) -> e = ERet OStatus (RStatus (status s)) /\ s' = s.
Proof.
  intros s s' e Hs. simpl in Hs. destruct (ms s); try discriminate. simpl in Hs. injection Hs as Hs He. auto.
Qed.

(* dequeue hands out NULL only for an empty pipeline or (repaired code) a failed pool *)
Theorem dequeue_null_only_if : forall s l s',
  step s l = Some (s', ERet ODequeue RNull) -> item_count s = 0 \/ (fx = true /\ status s <> 0%Z).
Proof.
  intros s l s' Hs.
  assert (L : forall s0 p, dequeue_locked fx s0 = p -> snd p = ERet ODequeue RNull -> fx = true /\ status s0 <> 0%Z).
  { intros s0 p Hp Hn. unfold dequeue_locked in Hp.
    destruct (done s0) as [|it r]; [|destruct (fst it =? next_deq s0)];
      try (destruct fx; simpl in Hp; [destruct (Z.eqb_spec (status s0) 0)|]; simpl in Hp);
      subst p; simpl in Hn; try discriminate; auto. }
  destruct l; simpl in Hs.
  - destruct (ms s); try discriminate. destruct o; simpl in Hs.
    + unfold submit in Hs. destruct (drain (done s) (next_deq s) (safe_done s)) as [[dn nd] sf]. discriminate.
    + unfold dequeue in Hs. destruct (Nat.eqb_spec (item_count s) 0); auto.
      destruct (safe_done s); [|discriminate]. right. injection Hs as Hs.
      apply (L s _ Hs). reflexivity.
    + discriminate.
    + unfold destroy, join_from in Hs. destruct (first_alive _ _); discriminate.
  - destruct (ms s); try discriminate.
    + right. injection Hs as Hs. apply (L s _ Hs). reflexivity.
    + destruct (nth_error (ws s) i) as [[]|]; try discriminate. unfold join_from in Hs.
      destruct (first_alive _ _); discriminate.
  - destruct (ms s); discriminate.
  - unfold PoolModel.worker_step in Hs. destruct (nth_error (ws s) w) as [x|]; [|discriminate].
    assert (G : forall s0, snd (get_next s0 w) <> ERet ODequeue RNull).
    { intros. unfold get_next. destruct (status s0 =? 0)%Z; [destruct (queue s0)|]; simpl; discriminate. }
    destruct x as [[[it st]|]| | |[t d]|]; try discriminate; injection Hs as Hs;
      try (exfalso; eapply G; rewrite Hs; reflexivity).
  - destruct (nth_error (ws s) w) as [[]|]; discriminate.
Qed.

(* the accepted submissions only grow *)
Lemma sub_grows : forall s l s' e, step s l = Some (s', e) -> exists x, g_sub s' = g_sub s ++ x.
Proof.
  intros s l s' e Hs.
  assert (G : forall s0 w, g_sub (fst (get_next s0 w)) = g_sub s0).
  { intros. unfold get_next. destruct (status s0 =? 0)%Z; [destruct (queue s0)|]; reflexivity. }
  destruct l; simpl in Hs.
  - destruct (ms s); try discriminate. destruct o; simpl in Hs.
    + unfold submit in Hs. destruct (drain (done s) (next_deq s) (safe_done s)) as [[dn nd] sf].
      inj_fst Hs. psimpl. destruct (status s =? 0)%Z; [eauto|exists []; rewrite app_nil_r; reflexivity].
    + exists []. rewrite app_nil_r. unfold dequeue, dequeue_locked in Hs.
      destruct (item_count s =? 0); [inj_fst Hs; reflexivity|].
      destruct (safe_done s); [|inj_fst Hs; reflexivity].
      destruct (done s) as [|it r]; [|destruct (fst it =? next_deq s)];
        try destruct (fx && negb (status s =? 0)%Z); inj_fst Hs; reflexivity.
    + inj_fst Hs. exists []. rewrite app_nil_r. reflexivity.
    + exists []. rewrite app_nil_r. unfold destroy, join_from in Hs. psimpl.
      destruct (first_alive (skipn 0 (map wake_worker (ws s))) 0); inj_fst Hs; reflexivity.
  - exists []. rewrite app_nil_r. destruct (ms s); try discriminate.
    + unfold dequeue_locked in Hs.
      destruct (done s) as [|it r]; [|destruct (fst it =? next_deq s)];
        try destruct (fx && negb (status s =? 0)%Z); inj_fst Hs; reflexivity.
    + destruct (nth_error (ws s) i) as [[]|]; try discriminate. unfold join_from in Hs.
      destruct (first_alive (skipn (S i) (ws s)) (S i)); inj_fst Hs; reflexivity.
  - exists []. rewrite app_nil_r. destruct (ms s); try discriminate. inj_fst Hs. reflexivity.
  - exists []. rewrite app_nil_r.
    unfold PoolModel.worker_step in Hs. destruct (nth_error (ws s) w) as [x|]; [|discriminate].
    destruct x as [[[it st]|]| | |[t d]|]; try discriminate.
    + inj_fst Hs. rewrite G. reflexivity.
    + inj_fst Hs. apply G.
    + inj_fst Hs. apply G.
    + cbv zeta in Hs. injection Hs as Hs _. subst. reflexivity.
  - exists []. rewrite app_nil_r. destruct (nth_error (ws s) w) as [[]|]; try discriminate. inj_fst Hs. reflexivity.
Qed.

End Failure.
