(* C09 — the client contract of the pool about OWNERSHIP of work items.

   submit() transfers an item to the pool exactly when it returns 0; a submit that is refused
   (non-zero status: some worker failed before) leaves the pool's holdings untouched, the item
   stays with the caller, who has to dispose of it exactly once.  Everything dequeue() ever
   hands back is f(item) of an ACCEPTED submission, in order; a refused item never comes back,
   is never processed and is never freed by the pool.

   This is the contract lib/sqfs/src/block_processor/frontend.c:enqueue_block relies on when it
   puts a refused block on its free list (and its callers on when they forget their pointer to
   the block whatever enqueue_block returned): seeded change C09-4 broke exactly that on the
   caller's side.  The block processor itself is not modelled here; props/C09/h_bpfail.c checks
   its side of the contract on the implementation (ownership oracle after every API call). *)
From Coq Require Import List ZArith Bool Arith Lia Permutation.
From SqfsV Require Import C09.PoolModel C09.PoolLemmas C09.PoolSafety.
Import ListNotations.

Section Ownership.
Variable cb_val : nat -> nat.
Variable cb_st : nat -> Z.
Variable fx : bool.

Notation step := (step cb_val cb_st fx).
Notation run := (run cb_val cb_st fx).

(* what one event says about a transfer of ownership *)
Definition accepted1 (e : event) : list nat :=
  match e with
  | ERet (OSubmit d) (RStatus z) => if (z =? 0)%Z then [d] else []
  | _ => []
  end.
Definition refused1 (e : event) : list nat :=
  match e with
  | ERet (OSubmit d) (RStatus z) => if (z =? 0)%Z then [] else [d]
  | _ => []
  end.
Definition returned1 (e : event) : list nat :=
  match e with ERet ODequeue (RItem d) => [d] | _ => [] end.

(* data of the submit calls that returned 0 / non-zero, data handed back by dequeue, in order *)
Definition accepted (es : list event) : list nat := flat_map accepted1 es.
Definition refused (es : list event) : list nat := flat_map refused1 es.
Definition returned (es : list event) : list nat := flat_map returned1 es.

(* the tickets the pool holds: completed (safe_done, done), held by a worker between callback
   and store, being processed, queued *)
Definition owned (s : pool) : list nat :=
  map fst (safe_done s) ++ map fst (done s) ++ flat_map htix (ws s) ++ flat_map ktix (ws s)
  ++ map fst (queue s).

Lemma tickets_owned : forall s, tickets s = seq 0 (length (g_ret s)) ++ owned s.
Proof. reflexivity. Qed.

Ltac psimpl :=
  cbn [queue done safe_done next_ticket next_deq item_count status ws ms g_sub g_ret g_ran
       set_ws set_ms set_w store_completed give_back fst snd] in *.

(* the try_dequeue_done loop of submit only moves a prefix of done to the end of safe_done *)
Lemma drain_app : forall dn nd sf dn' nd' sf',
  drain dn nd sf = (dn', nd', sf') -> sf' ++ dn' = sf ++ dn.
Proof.
  induction dn as [|it r IH]; simpl; intros nd sf dn' nd' sf' H.
  - inversion H; subst. reflexivity.
  - destruct (fst it =? nd).
    + apply IH in H. rewrite H, <- app_assoc. reflexivity.
    + inversion H; subst. reflexivity.
Qed.

(* the pool's holdings after submit's bookkeeping (drain, broadcast), with queue [q] *)
Lemma owned_frame : forall s q dn sf nt nd ic st m gs gr gn,
  sf ++ dn = safe_done s ++ done s ->
  owned (mkPool q dn sf nt nd ic st (map wake_worker (ws s)) m gs gr gn) =
  map fst (safe_done s) ++ map fst (done s) ++ flat_map htix (ws s) ++ flat_map ktix (ws s) ++ map fst q.
Proof.
  intros. unfold owned. psimpl. rewrite !flat_wake by reflexivity.
  rewrite !(app_assoc (map fst sf)), !(app_assoc (map fst (safe_done s))). rewrite <- !map_app, H. reflexivity.
Qed.

(* ---- one submit: the transfer happens iff the call returns 0 ---- *)
Theorem submit_refused_not_owned : forall s d s' e,
  step s (LCall (OSubmit d)) = Some (s', e) -> status s <> 0%Z ->
  e = ERet (OSubmit d) (RStatus (status s)) /\ accepted1 e = [] /\ refused1 e = [d] /\
  owned s' = owned s /\ tickets s' = tickets s /\ next_ticket s' = next_ticket s /\
  item_count s' = item_count s /\ g_sub s' = g_sub s /\ g_ret s' = g_ret s.
Proof.
  intros s d s' e Hs Hst. simpl in Hs. destruct (ms s); try discriminate. simpl in Hs. unfold submit in Hs.
  destruct (drain (done s) (next_deq s) (safe_done s)) as [[dn nd] sf] eqn:D.
  apply drain_app in D.
  assert (Hb : (status s =? 0)%Z = false) by (apply Z.eqb_neq; assumption).
  rewrite Hb in Hs. cbn iota in Hs. injection Hs as Hs He. subst s' e.
  cbn [accepted1 refused1]. rewrite Hb. rewrite !tickets_owned.
  rewrite (owned_frame s _ _ _ _ _ _ _ _ _ _ _ D). psimpl. repeat split; reflexivity.
Qed.

Theorem submit_accepted_owned : forall s d s' e,
  step s (LCall (OSubmit d)) = Some (s', e) -> status s = 0%Z ->
  e = ERet (OSubmit d) (RStatus 0%Z) /\ accepted1 e = [d] /\ refused1 e = [] /\
  owned s' = owned s ++ [next_ticket s] /\ next_ticket s' = S (next_ticket s) /\
  item_count s' = S (item_count s) /\ g_sub s' = g_sub s ++ [d] /\ g_ret s' = g_ret s.
Proof.
  intros s d s' e Hs Hst. simpl in Hs. destruct (ms s); try discriminate. simpl in Hs. unfold submit in Hs.
  destruct (drain (done s) (next_deq s) (safe_done s)) as [[dn nd] sf] eqn:D.
  apply drain_app in D.
  rewrite Hst in Hs. cbn [Z.eqb] in Hs. cbn iota in Hs. injection Hs as Hs He. subst s' e.
  cbn [accepted1 refused1 Z.eqb].
  rewrite (owned_frame s _ _ _ _ _ _ _ _ _ _ _ D). psimpl.
  unfold owned. rewrite map_app. cbn [map fst]. rewrite <- !app_assoc. repeat split; reflexivity.
Qed.

(* ---- every step: the ghost histories are exactly what the API events say ---- *)
Lemma get_next_hist : forall s w,
  g_sub (fst (get_next s w)) = g_sub s /\ g_ret (fst (get_next s w)) = g_ret s /\
  accepted1 (snd (get_next s w)) = [] /\ returned1 (snd (get_next s w)) = [] /\ refused1 (snd (get_next s w)) = [].
Proof.
  intros. unfold get_next. destruct (status s =? 0)%Z; [destruct (queue s)|]; repeat split; reflexivity.
Qed.

Lemma dequeue_locked_hist : forall s,
  g_sub (fst (dequeue_locked fx s)) = g_sub s /\
  g_ret (fst (dequeue_locked fx s)) = g_ret s ++ returned1 (snd (dequeue_locked fx s)) /\
  accepted1 (snd (dequeue_locked fx s)) = [] /\ refused1 (snd (dequeue_locked fx s)) = [].
Proof.
  intros. unfold dequeue_locked.
  destruct (done s) as [|it r]; [|destruct (fst it =? next_deq s)];
    try destruct (fx && negb (status s =? 0)%Z); psimpl; cbn [returned1 accepted1 refused1];
    rewrite ?app_nil_r; repeat split; reflexivity.
Qed.

Lemma join_from_hist : forall s i,
  g_sub (fst (join_from s i)) = g_sub s /\ g_ret (fst (join_from s i)) = g_ret s /\
  accepted1 (snd (join_from s i)) = [] /\ returned1 (snd (join_from s i)) = [] /\ refused1 (snd (join_from s i)) = [].
Proof.
  intros. unfold join_from. destruct (first_alive (skipn i (ws s)) i); repeat split; reflexivity.
Qed.

Lemma step_hist : forall s l s' e,
  step s l = Some (s', e) ->
  g_sub s' = g_sub s ++ accepted1 e /\ g_ret s' = g_ret s ++ returned1 e.
Proof.
  intros s l s' e Hs.
  destruct l; simpl in Hs.
  - destruct (ms s) eqn:M; try discriminate. destruct o; simpl in Hs.
    + destruct (Z.eq_dec (status s) 0) as [Hz|Hz].
      * assert (Hs' : step s (LCall (OSubmit d)) = Some (s', e)) by (simpl; rewrite M; exact Hs).
        destruct (submit_accepted_owned _ _ _ _ Hs' Hz) as [He [Ha [_ [_ [_ [_ [Hg Hr]]]]]]].
        rewrite Ha, Hg, Hr. subst e. cbn [returned1]. rewrite app_nil_r. auto.
      * assert (Hs' : step s (LCall (OSubmit d)) = Some (s', e)) by (simpl; rewrite M; exact Hs).
        destruct (submit_refused_not_owned _ _ _ _ Hs' Hz) as [He [Ha [_ [_ [_ [_ [_ [Hg Hr]]]]]]]].
        rewrite Ha, Hg, Hr. subst e. cbn [returned1]. rewrite !app_nil_r. auto.
    + unfold dequeue in Hs.
      destruct (item_count s =? 0).
      { injection Hs as Hs He. subst. cbn [accepted1 returned1]. rewrite !app_nil_r. auto. }
      destruct (safe_done s) as [|it r].
      { pose proof (dequeue_locked_hist s) as [H1 [H2 [H3 _]]].
        destruct (dequeue_locked fx s) as [s1 e1]. injection Hs as Hs He. subst. cbn [fst snd] in *.
        rewrite H1, H2, H3, app_nil_r. auto. }
      injection Hs as Hs He. subst. psimpl. cbn [accepted1 returned1]. rewrite app_nil_r. auto.
    + injection Hs as Hs He. subst. cbn [accepted1 returned1]. rewrite !app_nil_r. auto.
    + unfold destroy in Hs.
      match type of Hs with Some (join_from ?x ?i) = _ => pose proof (join_from_hist x i) as [H1 [H2 [H3 [H4 _]]]];
        destruct (join_from x i) as [s1 e1] end.
      injection Hs as Hs He. subst. cbn [fst snd] in *. psimpl. rewrite H1, H2, H3, H4, !app_nil_r. auto.
  - destruct (ms s); try discriminate.
    + pose proof (dequeue_locked_hist s) as [H1 [H2 [H3 _]]].
      destruct (dequeue_locked fx s) as [s1 e1]. injection Hs as Hs He. subst. cbn [fst snd] in *.
      rewrite H1, H2, H3, app_nil_r. auto.
    + destruct (nth_error (ws s) i) as [[]|]; try discriminate.
      pose proof (join_from_hist s (S i)) as [H1 [H2 [H3 [H4 _]]]].
      destruct (join_from s (S i)) as [s1 e1]. injection Hs as Hs He. subst. cbn [fst snd] in *.
      rewrite H1, H2, H3, H4, !app_nil_r. auto.
  - destruct (ms s); try discriminate. injection Hs as Hs He. subst. psimpl. cbn [accepted1 returned1].
    rewrite !app_nil_r. auto.
  - unfold PoolModel.worker_step in Hs. destruct (nth_error (ws s) w) as [x|]; [|discriminate].
    destruct x as [[[it st]|]| | |[t d]|]; try discriminate.
    + pose proof (get_next_hist (store_completed s it st) w) as [H1 [H2 [H3 [H4 _]]]].
      destruct (get_next (store_completed s it st) w) as [s1 e1]. injection Hs as Hs He. subst.
      cbn [fst snd] in *. psimpl. rewrite H1, H2, H3, H4, !app_nil_r. auto.
    + pose proof (get_next_hist s w) as [H1 [H2 [H3 [H4 _]]]].
      destruct (get_next s w) as [s1 e1]. injection Hs as Hs He. subst.
      cbn [fst snd] in *. rewrite H1, H2, H3, H4, !app_nil_r. auto.
    + pose proof (get_next_hist s w) as [H1 [H2 [H3 [H4 _]]]].
      destruct (get_next s w) as [s1 e1]. injection Hs as Hs He. subst.
      cbn [fst snd] in *. rewrite H1, H2, H3, H4, !app_nil_r. auto.
    + cbv zeta in Hs. injection Hs as Hs He. subst. psimpl. cbn [accepted1 returned1]. rewrite !app_nil_r. auto.
  - destruct (nth_error (ws s) w) as [[]|]; try discriminate. injection Hs as Hs He. subst. psimpl.
    cbn [accepted1 returned1]. rewrite !app_nil_r. auto.
Qed.

Lemma run_hist : forall ls s s' es,
  run s ls = Some (s', es) ->
  g_sub s' = g_sub s ++ accepted es /\ g_ret s' = g_ret s ++ returned es.
Proof.
  induction ls as [|l ls IH]; simpl; intros s s' es Hr.
  - inversion Hr; subst. unfold accepted, returned. simpl. rewrite !app_nil_r. auto.
  - destruct (step s l) as [[s1 e]|] eqn:Hs; [|discriminate].
    destruct (PoolModel.run cb_val cb_st fx s1 ls) as [[s2 es']|] eqn:Hr'; [|discriminate].
    inversion Hr; subst. apply step_hist in Hs. destruct Hs as [Ha Hb].
    apply IH in Hr'. destruct Hr' as [Hc Hd]. unfold accepted, returned in *. simpl.
    rewrite Hc, Hd, Ha, Hb, <- !app_assoc. auto.
Qed.

(* ---- the contract, for every run from the initial pool ---- *)
(* the pool has accepted exactly the items of the submit calls that returned 0, and handed back
   exactly what dequeue returned *)
Theorem accepts_exactly : forall n ls s es,
  run (init n) ls = Some (s, es) -> g_sub s = accepted es /\ g_ret s = returned es.
Proof. intros n ls s es Hr. apply run_hist in Hr. simpl in Hr. exact Hr. Qed.

(* everything dequeue hands back is f of an ACCEPTED item, in order of acceptance: the item of a
   refused submit never comes back *)
Theorem returned_are_accepted : forall n ls s es,
  run (init n) ls = Some (s, es) ->
  returned es = map cb_val (firstn (length (returned es)) (accepted es)).
Proof.
  intros n ls s es Hr. pose proof (accepts_exactly _ _ _ _ Hr) as [Ha Hb].
  assert (I : Inv cb_val cb_st s) by (eapply inv_reachable; exists ls, es; exact Hr).
  pose proof (fifo cb_val cb_st s I) as F. rewrite Ha, Hb in F. exact F.
Qed.

(* the pool owns exactly the accepted and not yet returned tickets, each once; their number is
   item_count: refused submits are not among them *)
Theorem owned_are_accepted_minus_returned : forall n ls s es,
  run (init n) ls = Some (s, es) ->
  Permutation (owned s) (seq (length (returned es)) (length (accepted es) - length (returned es))) /\
  item_count s + length (returned es) = length (accepted es) /\ length (owned s) = item_count s.
Proof.
  intros n ls s es Hr. pose proof (accepts_exactly _ _ _ _ Hr) as [Ha Hb].
  assert (I : Inv cb_val cb_st s) by (eapply inv_reachable; exists ls, es; exact Hr).
  pose proof (exactly_once cb_val cb_st s I) as P. rewrite tickets_owned in P.
  pose proof (i_nt _ _ s I) as Hnt. pose proof (i_ic _ _ s I) as Hic.
  rewrite Ha in Hnt. rewrite Hb in Hic, P. rewrite Hnt in Hic, P.
  assert (Hle : length (returned es) <= length (accepted es)) by lia.
  replace (length (accepted es)) with (length (returned es) + (length (accepted es) - length (returned es))) in P at 1 by lia.
  rewrite seq_app in P. simpl in P. apply Permutation_app_inv_l in P.
  split; [exact P|]. split; [exact Hic|].
  apply Permutation_length in P. rewrite seq_length in P. lia.
Qed.

End Ownership.

(* ---- non-vacuity: a run in which a submit is refused after a worker failure ---- *)
(* 1 worker, items 0 and 1 accepted, the callback fails on item 0 (status 5); item 2 is refused;
   item 0 comes back, the pool is destroyed with ticket 1 still inside: the refused item 2 is
   neither accepted, nor owned, nor returned *)
Definition own_schedule : list label :=
  [LCall (OSubmit 0); LCall (OSubmit 1); LWorker 0; LWorker 0; LWorker 0;
   LCall (OSubmit 2); LCall ODequeue; LCall ODequeue; LCall ODestroy].

Example ex_refused_not_owned :
  exists s es, PoolModel.run (fun d => 100 + d) (fun d => if d =? 0 then 5%Z else 0%Z) true (init 1) own_schedule = Some (s, es) /\
    accepted es = [0; 1] /\ refused es = [2] /\ returned es = [100] /\ owned s = [1] /\ item_count s = 1 /\
    status s = (-1)%Z.
Proof. eexists. eexists. split; [vm_compute; reflexivity|]. repeat split. Qed.
