(* C09 — per-worker context exclusivity: worker w is the only user of context w and
   its callback invocations never overlap (begin / end events alternate). *)
From Coq Require Import List ZArith Bool Arith Lia.
From SqfsV Require Import C09.PoolModel C09.PoolLemmas.
Import ListNotations.

Section Ctx.
Variable cb_val : nat -> nat.
Variable cb_st : nat -> Z.
Variable fx : bool.

Notation step := (step cb_val cb_st fx).
Notation run := (run cb_val cb_st fx).

Ltac psimpl :=
  cbn [queue done safe_done next_ticket next_deq item_count status ws ms g_sub g_ret g_ran
       set_ws set_ms set_w store_completed give_back fst snd] in *.

Definition is_working (x : option wstate) : bool :=
  match x with Some (WWorking _) => true | _ => false end.
Definition working (s : pool) (w : nat) : bool := is_working (nth_error (ws s) w).

(* the callback events of context w alternate begin / end; [active] = inside a callback *)
Fixpoint ctx_alt (w : nat) (active : bool) (es : list event) : Prop :=
  match es with
  | [] => True
  | ECbBegin w' _ :: t => if w' =? w then active = false /\ ctx_alt w true t else ctx_alt w active t
  | ECbEnd w' _ _ :: t => if w' =? w then active = true /\ ctx_alt w false t else ctx_alt w active t
  | _ :: t => ctx_alt w active t
  end.

Definition ctx_effect (s s' : pool) (e : event) : Prop :=
  match e with
  | ECbBegin w' _ => working s w' = false /\ working s' w' = true /\ forall w, w <> w' -> working s' w = working s w
  | ECbEnd w' _ _ => working s w' = true /\ working s' w' = false /\ forall w, w <> w' -> working s' w = working s w
  | _ => forall w, working s' w = working s w
  end.

Lemma working_wake : forall l w, is_working (nth_error (map wake_worker l) w) = is_working (nth_error l w).
Proof.
  intros. rewrite nth_error_map. destruct (nth_error l w) as [[]|]; reflexivity.
Qed.

Lemma working_upd_same : forall l w x y,
  nth_error l w = Some x -> is_working (nth_error (upd l w y) w) = is_working (Some y).
Proof. intros. rewrite upd_nth_same; [reflexivity|]. eapply nth_error_lt; eauto. Qed.

Lemma ctx_get_next : forall s w x,
  nth_error (ws s) w = Some x -> is_working (Some x) = false ->
  ctx_effect s (fst (get_next s w)) (snd (get_next s w)).
Proof.
  intros s w x Hn Hx. unfold get_next, ctx_effect, working.
  assert (Hsame : forall y, is_working (Some y) = false ->
            forall w0, is_working (nth_error (upd (ws s) w y) w0) = is_working (nth_error (ws s) w0)).
  { intros y Hy w0. destruct (Nat.eq_dec w w0).
    - subst. rewrite (working_upd_same _ _ x) by assumption. rewrite Hn, Hx. assumption.
    - rewrite upd_nth_other by assumption. reflexivity. }
  destruct (status s =? 0)%Z; [destruct (queue s) as [|it r]|]; simpl; unfold set_w; psimpl.
  - apply Hsame. reflexivity.
  - rewrite Hn, Hx. split; [reflexivity|]. split.
    + rewrite (working_upd_same _ _ x) by assumption. reflexivity.
    + intros w0 Hw. rewrite upd_nth_other by auto. reflexivity.
  - apply Hsame. reflexivity.
Qed.

Lemma ctx_frame : forall s s' e,
  ws s' = ws s -> (forall w it, e <> ECbBegin w it) -> (forall w it st, e <> ECbEnd w it st) -> ctx_effect s s' e.
Proof.
  intros s s' e E H1 H2. unfold ctx_effect, working. destruct e; try (intros; rewrite E; reflexivity).
  - exfalso. eapply H1. reflexivity.
  - exfalso. eapply H2. reflexivity.
Qed.

Lemma ctx_step : forall s l s' e, step s l = Some (s', e) -> ctx_effect s s' e.
Proof.
  intros s l s' e Hs. destruct l; simpl in Hs.
  - destruct (ms s); try discriminate. destruct o; simpl in Hs.
    + unfold submit in Hs. destruct (drain (done s) (next_deq s) (safe_done s)) as [[dn nd] sf].
      injection Hs as Hs He. subst. simpl. intros w. unfold working; psimpl. apply working_wake.
    + unfold dequeue, dequeue_locked in Hs.
      destruct (item_count s =? 0); [injection Hs as Hs He; subst; apply ctx_frame; auto; discriminate|].
      destruct (safe_done s); [|injection Hs as Hs He; subst; apply ctx_frame; auto; discriminate].
      destruct (done s) as [|it r]; [|destruct (fst it =? next_deq s)];
        try destruct (fx && negb (status s =? 0)%Z); injection Hs as Hs He; subst; apply ctx_frame; auto; discriminate.
    + injection Hs as Hs He. subst. apply ctx_frame; auto; discriminate.
    + unfold destroy, join_from in Hs. psimpl.
      destruct (first_alive (skipn 0 (map wake_worker (ws s))) 0); injection Hs as Hs He; subst; simpl;
        intros w; unfold working; psimpl; apply working_wake.
  - destruct (ms s); try discriminate.
    + unfold dequeue_locked in Hs.
      destruct (done s) as [|it r]; [|destruct (fst it =? next_deq s)];
        try destruct (fx && negb (status s =? 0)%Z); injection Hs as Hs He; subst; apply ctx_frame; auto; discriminate.
    + destruct (nth_error (ws s) i) as [[]|]; try discriminate. unfold join_from in Hs.
      destruct (first_alive (skipn (S i) (ws s)) (S i)); injection Hs as Hs He; subst; apply ctx_frame; auto; discriminate.
  - destruct (ms s); try discriminate. injection Hs as Hs He. subst. apply ctx_frame; auto; discriminate.
  - unfold worker_step in Hs. destruct (nth_error (ws s) w) as [x|] eqn:Hn; [|discriminate].
    destruct x as [[[it st]|]| | |[t d]|]; try discriminate.
    + injection Hs as Hs.
      pose proof (ctx_get_next (store_completed s it st) w _ Hn eq_refl) as C. rewrite Hs in C. exact C.
    + injection Hs as Hs. pose proof (ctx_get_next s w _ Hn eq_refl) as C. rewrite Hs in C. exact C.
    + injection Hs as Hs. pose proof (ctx_get_next s w _ Hn eq_refl) as C. rewrite Hs in C. exact C.
    + cbv zeta in Hs. injection Hs as Hs He. subst. simpl. unfold working; psimpl. rewrite Hn. split; [reflexivity|]. split.
      * rewrite (working_upd_same _ _ (WWorking (t, d))) by assumption. reflexivity.
      * intros w0 Hw. rewrite upd_nth_other by auto. reflexivity.
  - destruct (nth_error (ws s) w) as [x|] eqn:Hn; try discriminate. destruct x; try discriminate.
    injection Hs as Hs He. subst. simpl. intros w0. unfold working, set_w; psimpl.
    destruct (Nat.eq_dec w w0).
    + subst. rewrite (working_upd_same _ _ WWaiting) by assumption. rewrite Hn. reflexivity.
    + rewrite upd_nth_other by assumption. reflexivity.
Qed.

Theorem ctx_run : forall ls s s' es w,
  run s ls = Some (s', es) -> ctx_alt w (working s w) es.
Proof.
  induction ls as [|a ls IH]; simpl; intros s s' es w Hr.
  - inversion Hr; subst. exact I.
  - destruct (step s a) as [[s1 e]|] eqn:Hs; [|discriminate].
    destruct (PoolModel.run cb_val cb_st fx s1 ls) as [[s2 es']|] eqn:Hr'; [|discriminate]. inversion Hr; subst.
    pose proof (ctx_step _ _ _ _ Hs) as C. specialize (IH _ _ _ w Hr').
    destruct e; simpl in *; try (rewrite <- C; exact IH).
    + destruct C as [C1 [C2 C3]]. destruct (Nat.eqb_spec w0 w).
      * subst. rewrite C1. rewrite C2 in IH. auto.
      * rewrite <- C3 by auto. exact IH.
    + destruct C as [C1 [C2 C3]]. destruct (Nat.eqb_spec w0 w).
      * subst. rewrite C1. rewrite C2 in IH. auto.
      * rewrite <- C3 by auto. exact IH.
Qed.

Lemma working_init : forall n w, working (init n) w = false.
Proof.
  intros. unfold working, init; psimpl. destruct (nth_error (repeat (WReady None) n) w) eqn:E; [|reflexivity].
  apply nth_error_In in E. apply repeat_spec in E. subst. reflexivity.
Qed.

Theorem ctx_exclusive_l : forall n ls s es w,
  run (init n) ls = Some (s, es) -> ctx_alt w false es.
Proof. intros. rewrite <- (working_init n w). eapply ctx_run; eauto. Qed.

(* a callback only ever runs in the context of an existing worker *)
Theorem ctx_valid_l : forall s l s' w it, step s l = Some (s', ECbBegin w it) -> w < length (ws s) /\ l = LWorker w.
Proof.
  intros s l s' w it Hs. destruct l; simpl in Hs.
  - destruct (ms s); try discriminate. destruct o; simpl in Hs.
    + unfold submit in Hs. destruct (drain (done s) (next_deq s) (safe_done s)) as [[dn nd] sf]. discriminate.
    + unfold dequeue, dequeue_locked in Hs. destruct (item_count s =? 0); [discriminate|].
      destruct (safe_done s); [|discriminate].
      destruct (done s) as [|i r]; [|destruct (fst i =? next_deq s)];
        try destruct (fx && negb (status s =? 0)%Z); discriminate.
    + discriminate.
    + unfold destroy, join_from in Hs. destruct (first_alive _ _); discriminate.
  - destruct (ms s); try discriminate.
    + unfold dequeue_locked in Hs.
      destruct (done s) as [|i r]; [|destruct (fst i =? next_deq s)];
        try destruct (fx && negb (status s =? 0)%Z); discriminate.
    + destruct (nth_error (ws s) i) as [[]|]; try discriminate. unfold join_from in Hs.
      destruct (first_alive _ _); discriminate.
  - destruct (ms s); discriminate.
  - unfold worker_step in Hs. destruct (nth_error (ws s) w0) as [x|] eqn:Hn; [|discriminate].
    assert (G : forall s0, snd (get_next s0 w0) = ECbBegin w it -> w = w0).
    { intros s0. unfold get_next. destruct (status s0 =? 0)%Z; [destruct (queue s0)|]; simpl; try discriminate.
      intros E. injection E as E _. auto. }
    apply nth_error_lt in Hn.
    destruct x as [[[i st]|]| | |[t d]|]; try discriminate; injection Hs as Hs;
      try (assert (w = w0) by (eapply G; rewrite Hs; reflexivity); subst; auto).
  - destruct (nth_error (ws s) w0) as [[]|]; discriminate.
Qed.

End Ctx.
