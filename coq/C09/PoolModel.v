(* C09 — worker pool.  Executable model of lib/util/src/threadpool.c as a labelled
   transition system at mutex / condition-variable granularity, of
   lib/util/src/threadpool_serial.c, and of the specification both refine
   ("FIFO queue of f(item)").  Definitions only.

   One step = one critical-section segment of one thread: from acquiring the mutex
   to releasing it (pthread_mutex_unlock or pthread_cond_wait), plus the
   thread-local code up to the next point where the thread needs the mutex again.
   All shared fields of thread_pool_impl_t are only touched with the mutex held, so
   the mutex itself needs no component in the state.  Condition variables are
   explicit: a thread inside pthread_cond_wait is [Waiting] (blocked) until a
   broadcast or a spurious wake-up (a label that is always enabled for a waiter)
   makes it [Woken]; a woken thread re-acquires the mutex and re-evaluates its loop
   condition in its next step.

   The model follows the code with the repair of finding F01 when [fx = true]
   (dequeue leaves its wait loop when the error status is set) and the code as
   found when [fx = false]. *)
From Coq Require Import List ZArith Bool Arith Lia.
Import ListNotations.

(* a work item of the pool: (ticket, data) *)
Notation witem := (nat * nat)%type (only parsing).

Section Pool.

(* the worker callback: effect on the work item and return status (0 = success) *)
Variable cb_val : nat -> nat.
Variable cb_st : nat -> Z.


Inductive wstate :=
| WReady (held : option (witem * Z))  (* about to lock at the top of worker_proc's loop *)
| WWaiting                             (* in pthread_cond_wait(queue_cond), not signalled *)
| WWoken                               (* in pthread_cond_wait(queue_cond), signalled *)
| WWorking (it : witem)                (* unlocked, callback running on [it] *)
| WExited.

Inductive mstate :=
| MIdle                  (* between API calls *)
| MDeqWait               (* dequeue: in pthread_cond_wait(done_cond), not signalled *)
| MDeqWoken              (* dequeue: signalled *)
| MJoin (i : nat)        (* destroy: in pthread_join on worker i *)
| MDead.                 (* destroy returned; pool freed *)

Inductive op := OSubmit (d : nat) | ODequeue | OStatus | ODestroy.

Inductive ret := RStatus (z : Z) | RItem (d : nat) | RNull | RVoid.

Inductive event :=
| ENone
| ERet (o : op) (r : ret)                      (* API call o returned r *)
| ECbBegin (w : nat) (it : witem)              (* worker w = context w enters the callback *)
| ECbEnd (w : nat) (it : witem) (st : Z).      (* callback returned; it = item after the callback *)

Inductive label :=
| LCall (o : op)        (* main thread, idle: perform the call up to its return or its first wait *)
| LMain                 (* main thread continues: woken in dequeue, or its join target exited *)
| LSpurMain             (* spurious wake-up of the main thread *)
| LWorker (w : nat)     (* next step of worker w *)
| LSpurWorker (w : nat).

Record pool := mkPool {
  queue : list witem;
  done : list witem;        (* sorted by ticket *)
  safe_done : list witem;
  next_ticket : nat;
  next_deq : nat;           (* next_dequeue_ticket *)
  item_count : nat;
  status : Z;
  ws : list wstate;
  ms : mstate;
  (* history (ghost) *)
  g_sub : list nat;         (* data of the accepted submissions, in order *)
  g_ret : list nat;         (* data handed back by non-NULL dequeues, in order *)
  g_ran : list nat          (* tickets whose callback has completed, latest first *)
}.

Definition init (n : nat) : pool :=
  mkPool [] [] [] 0 0 0 0%Z (repeat (WReady None) n) MIdle [] [] [].

(* ---- field updates ---- *)
Definition set_ws (s : pool) (x : list wstate) : pool :=
  mkPool (queue s) (done s) (safe_done s) (next_ticket s) (next_deq s) (item_count s) (status s)
         x (ms s) (g_sub s) (g_ret s) (g_ran s).
Definition set_ms (s : pool) (m : mstate) : pool :=
  mkPool (queue s) (done s) (safe_done s) (next_ticket s) (next_deq s) (item_count s) (status s)
         (ws s) m (g_sub s) (g_ret s) (g_ran s).

Fixpoint upd {A} (l : list A) (i : nat) (x : A) : list A :=
  match l, i with
  | [], _ => []
  | _ :: r, O => x :: r
  | y :: r, S j => y :: upd r j x
  end.

Definition set_w (s : pool) (w : nat) (x : wstate) : pool := set_ws s (upd (ws s) w x).

(* ---- store_completed ---- *)
Fixpoint insert_done (it : witem) (l : list witem) : list witem :=
  match l with
  | [] => [it]
  | x :: r => if fst it <=? fst x then it :: x :: r else x :: insert_done it r
  end.

Definition wake_main (m : mstate) : mstate :=
  match m with MDeqWait => MDeqWoken | x => x end.

Definition store_completed (s : pool) (it : witem) (st : Z) : pool :=
  mkPool (queue s) (insert_done it (done s)) (safe_done s) (next_ticket s) (next_deq s) (item_count s)
         (if (negb (st =? 0)%Z) && (status s =? 0)%Z then st else status s)
         (ws s) (wake_main (ms s))                       (* broadcast done_cond *)
         (g_sub s) (g_ret s) (g_ran s).

(* ---- get_next_work_item, from the evaluation of the loop condition ---- *)
Definition get_next (s : pool) (w : nat) : pool * event :=
  if (status s =? 0)%Z then
    match queue s with
    | [] => (set_w s w WWaiting, ENone)                  (* pthread_cond_wait(queue_cond) *)
    | it :: r =>
        (mkPool r (done s) (safe_done s) (next_ticket s) (next_deq s) (item_count s) (status s)
                (upd (ws s) w (WWorking it)) (ms s) (g_sub s) (g_ret s) (g_ran s),
         ECbBegin w it)
    end
  else (set_w s w WExited, ENone).

Definition worker_step (s : pool) (w : nat) : option (pool * event) :=
  match nth_error (ws s) w with
  | Some (WReady None) => Some (get_next s w)
  | Some (WReady (Some (it, st))) => Some (get_next (store_completed s it st) w)
  | Some WWoken => Some (get_next s w)
  | Some (WWorking (t, d)) =>
      let it' := (t, cb_val d) in
      let s' := mkPool (queue s) (done s) (safe_done s) (next_ticket s) (next_deq s) (item_count s)
                       (status s) (upd (ws s) w (WReady (Some (it', cb_st d)))) (ms s)
                       (g_sub s) (g_ret s) (t :: g_ran s) in
      Some (s', ECbEnd w it' (cb_st d))
  | _ => None
  end.

(* ---- main thread ---- *)
Definition wake_worker (x : wstate) : wstate :=
  match x with WWaiting => WWoken | y => y end.

(* the for(;;) try_dequeue_done loop of submit *)
Fixpoint drain (dn : list witem) (nd : nat) (sf : list witem) : list witem * nat * list witem :=
  match dn with
  | it :: r => if fst it =? nd then drain r (S nd) (sf ++ [it]) else (dn, nd, sf)
  | [] => ([], nd, sf)
  end.

Definition submit (s : pool) (d : nat) : pool * event :=
  let st := status s in
  let accepted := (st =? 0)%Z in
  let q := if accepted then queue s ++ [(next_ticket s, d)] else queue s in
  let nt := if accepted then S (next_ticket s) else next_ticket s in
  let ic := if accepted then S (item_count s) else item_count s in
  let sub := if accepted then g_sub s ++ [d] else g_sub s in
  let '(dn, nd, sf) := drain (done s) (next_deq s) (safe_done s) in
  (mkPool q dn sf nt nd ic st (map wake_worker (ws s)) (ms s) sub (g_ret s) (g_ran s),
   ERet (OSubmit d) (RStatus st)).

Definition give_back (s : pool) (it : witem) : pool :=
  mkPool (queue s) (done s) (safe_done s) (next_ticket s) (next_deq s) (pred (item_count s)) (status s)
         (ws s) MIdle (g_sub s) (g_ret s ++ [snd it]) (g_ran s).

Variable fx : bool.   (* true: with the repair of F01 *)

(* the locked loop of dequeue, from try_dequeue_done *)
Definition dequeue_locked (s : pool) : pool * event :=
  match done s with
  | it :: r =>
      if fst it =? next_deq s then
        (give_back (mkPool (queue s) r (safe_done s) (next_ticket s) (S (next_deq s)) (item_count s)
                           (status s) (ws s) (ms s) (g_sub s) (g_ret s) (g_ran s)) it,
         ERet ODequeue (RItem (snd it)))
      else if fx && negb (status s =? 0)%Z then (set_ms s MIdle, ERet ODequeue RNull)
      else (set_ms s MDeqWait, ENone)
  | [] =>
      if fx && negb (status s =? 0)%Z then (set_ms s MIdle, ERet ODequeue RNull)
      else (set_ms s MDeqWait, ENone)
  end.

Definition dequeue (s : pool) : pool * event :=
  if item_count s =? 0 then (s, ERet ODequeue RNull)
  else match safe_done s with
       | it :: r =>
           (give_back (mkPool (queue s) (done s) r (next_ticket s) (next_deq s) (item_count s)
                              (status s) (ws s) (ms s) (g_sub s) (g_ret s) (g_ran s)) it,
            ERet ODequeue (RItem (snd it)))
       | [] => dequeue_locked s
       end.

(* pthread_join loop of destroy, from worker i on *)
Fixpoint first_alive (l : list wstate) (i : nat) : option nat :=
  match l with
  | [] => None
  | WExited :: r => first_alive r (S i)
  | _ :: r => Some i
  end.

Definition join_from (s : pool) (i : nat) : pool * event :=
  match first_alive (skipn i (ws s)) i with
  | Some j => (set_ms s (MJoin j), ENone)
  | None => (set_ms s MDead, ERet ODestroy RVoid)
  end.

Definition destroy (s : pool) : pool * event :=
  join_from (mkPool (queue s) (done s) (safe_done s) (next_ticket s) (next_deq s) (item_count s)
                    (-1)%Z (map wake_worker (ws s)) (ms s) (g_sub s) (g_ret s) (g_ran s)) 0.

Definition call (s : pool) (o : op) : pool * event :=
  match o with
  | OSubmit d => submit s d
  | ODequeue => dequeue s
  | OStatus => (s, ERet OStatus (RStatus (status s)))
  | ODestroy => destroy s
  end.

Definition step (s : pool) (l : label) : option (pool * event) :=
  match l with
  | LCall o => match ms s with MIdle => Some (call s o) | _ => None end
  | LMain =>
      match ms s with
      | MDeqWoken => Some (dequeue_locked s)
      | MJoin i =>
          match nth_error (ws s) i with
          | Some WExited => Some (join_from s (S i))
          | _ => None
          end
      | _ => None
      end
  | LSpurMain => match ms s with MDeqWait => Some (set_ms s MDeqWoken, ENone) | _ => None end
  | LWorker w => worker_step s w
  | LSpurWorker w =>
      match nth_error (ws s) w with
      | Some WWaiting => Some (set_w s w WWoken, ENone)
      | _ => None
      end
  end.

Fixpoint run (s : pool) (ls : list label) : option (pool * list event) :=
  match ls with
  | [] => Some (s, [])
  | l :: r =>
      match step s l with
      | None => None
      | Some (s1, e) =>
          match run s1 r with
          | None => None
          | Some (s2, es) => Some (s2, e :: es)
          end
      end
  end.

Definition spurious (l : label) : bool :=
  match l with LSpurMain | LSpurWorker _ => true | _ => false end.

(* which threads may run (used by the tie to compare enabled sets) *)
Definition main_enabled (s : pool) : bool :=
  match ms s with
  | MIdle | MDeqWoken => true
  | MJoin i => match nth_error (ws s) i with Some WExited => true | _ => false end
  | _ => false
  end.
Definition worker_enabled (x : wstate) : bool :=
  match x with WReady _ | WWoken | WWorking _ => true | _ => false end.

End Pool.

(* ---- threadpool_serial.c ---- *)
Section Serial.
Variable cb_val : nat -> nat.
Variable cb_st : nat -> Z.

Record serial := mkSerial { s_queue : list nat; s_status : Z }.
Definition serial_init := mkSerial [] 0%Z.

Definition serial_call (s : serial) (o : op) : serial * ret :=
  match o with
  | OSubmit d =>
      if (s_status s =? 0)%Z then (mkSerial (s_queue s ++ [d]) (s_status s), RStatus 0%Z)
      else (s, RStatus (s_status s))
  | ODequeue =>
      match s_queue s with
      | [] => (s, RNull)
      | d :: r =>
          (mkSerial r (if negb (cb_st d =? 0)%Z && (s_status s =? 0)%Z then cb_st d else s_status s),
           RItem (cb_val d))
      end
  | OStatus => (s, RStatus (s_status s))
  | ODestroy => (s, RVoid)
  end.

Fixpoint serial_run (s : serial) (os : list op) : list ret :=
  match os with
  | [] => []
  | o :: r => let '(s1, x) := serial_call s o in x :: serial_run s1 r
  end.

(* ---- the specification: a FIFO queue of items; dequeue yields f(item) ---- *)
Definition spec_call (q : list nat) (o : op) : list nat * ret :=
  match o with
  | OSubmit d => (q ++ [d], RStatus 0%Z)
  | ODequeue => match q with [] => (q, RNull) | d :: r => (r, RItem (cb_val d)) end
  | OStatus => (q, RStatus 0%Z)
  | ODestroy => (q, RVoid)
  end.

Fixpoint spec_run (q : list nat) (os : list op) : list ret :=
  match os with
  | [] => []
  | o :: r => let '(q1, x) := spec_call q o in x :: spec_run q1 r
  end.

End Serial.
