(* C09 — what dequeue owes the caller after a worker failure (seeded change C09-10):
   a completed item with the next ticket is handed back WHATEVER the status is; NULL is only
   answered when nothing is ready.  dequeue_locked looks at the done list before the status. *)
From Coq Require Import List ZArith Bool Arith Lia.
From SqfsV Require Import C09.PoolModel.
Import ListNotations.

Section NullReady.
Variable cb_val : nat -> nat.
Variable cb_st : nat -> Z.
Variable fx : bool.

Notation step := (step cb_val cb_st fx).

(* the item with the next ticket to hand back sits completed at the head of the done list *)
Definition done_ready (s : pool) : bool :=
  match done s with it :: _ => fst it =? next_deq s | [] => false end.

Lemma locked_null : forall s p, dequeue_locked fx s = p -> snd p = ERet ODequeue RNull -> done_ready s = false.
Proof.
  intros s p Hp Hn. unfold dequeue_locked in Hp. unfold done_ready.
  destruct (done s) as [|it r]; [reflexivity|].
  destruct (fst it =? next_deq s); [|reflexivity].
  subst p. simpl in Hn. discriminate.
Qed.

Lemma locked_ready : forall s it r, done s = it :: r -> fst it = next_deq s ->
  snd (dequeue_locked fx s) = ERet ODequeue (RItem (snd it)) /\
  g_ret (fst (dequeue_locked fx s)) = g_ret s ++ [snd it].
Proof.
  intros s it r Hd Ht. unfold dequeue_locked. rewrite Hd.
  rewrite (proj2 (Nat.eqb_eq _ _) Ht). simpl. auto.
Qed.

(* NULL from dequeue (first attempt or after a wake-up): the pipeline is empty, or no completed item
   with the next ticket was there; at the call itself also safe_done was empty *)
Theorem dequeue_null_nothing_ready : forall s l s',
  step s l = Some (s', ERet ODequeue RNull) ->
  item_count s = 0 \/ (done_ready s = false /\ (l = LCall ODequeue -> safe_done s = [])).
Proof.
  intros s l s' Hs. destruct l; simpl in Hs.
  - destruct (ms s); try discriminate. destruct o; simpl in Hs.
    + unfold submit in Hs. destruct (drain (done s) (next_deq s) (safe_done s)) as [[dn nd] sf]. discriminate.
    + unfold dequeue in Hs. destruct (Nat.eqb_spec (item_count s) 0); auto.
      destruct (safe_done s); [|discriminate]. right. injection Hs as Hs. split; [|reflexivity].
      apply (locked_null s _ Hs). reflexivity.
    + discriminate.
    + unfold destroy, join_from in Hs. destruct (first_alive _ _); discriminate.
  - destruct (ms s); try discriminate.
    + right. injection Hs as Hs. split; [|discriminate]. apply (locked_null s _ Hs). reflexivity.
    + destruct (nth_error (ws s) i) as [[]|]; try discriminate. unfold join_from in Hs.
      destruct (first_alive _ _); discriminate.
  - destruct (ms s); discriminate.
  - unfold PoolModel.worker_step in Hs. destruct (nth_error (ws s) w) as [x|]; [|discriminate].
    assert (G : forall s0, snd (get_next s0 w) <> ERet ODequeue RNull).
    { intros. unfold get_next. destruct (status s0 =? 0)%Z; [destruct (queue s0)|]; simpl; discriminate. }
    destruct x as [[[it st]|]| | |[t d]|]; try discriminate; injection Hs as Hs;
      try (exfalso; eapply G; rewrite Hs; reflexivity).
  - destruct (nth_error (ws s) w) as [[]|]; discriminate.
Qed.

(* the positive side, no hypothesis on the status: a dequeue call that finds an item in safe_done, or
   (safe_done empty) the next ticket completed in the done list, hands that item back *)
Theorem dequeue_ready_delivered : forall s it r,
  ms s = MIdle -> item_count s <> 0 ->
  (safe_done s = it :: r \/ (safe_done s = [] /\ done s = it :: r /\ fst it = next_deq s)) ->
  exists s', step s (LCall ODequeue) = Some (s', ERet ODequeue (RItem (snd it))) /\
             g_ret s' = g_ret s ++ [snd it].
Proof.
  intros s it r Hm Hc H. simpl. rewrite Hm. simpl. unfold dequeue.
  destruct (Nat.eqb_spec (item_count s) 0); [contradiction|].
  destruct H as [H | (Hs & Hd & Ht)].
  - rewrite H. eexists. split; reflexivity.
  - rewrite Hs. destruct (locked_ready s it r Hd Ht) as [He Hg].
    exists (fst (dequeue_locked fx s)). split; [|exact Hg].
    rewrite <- He. destruct (dequeue_locked fx s); reflexivity.
Qed.

(* ... and the same for a dequeue that was waiting and is woken *)
Theorem dequeue_woken_ready_delivered : forall s it r,
  ms s = MDeqWoken -> done s = it :: r -> fst it = next_deq s ->
  exists s', step s LMain = Some (s', ERet ODequeue (RItem (snd it))) /\ g_ret s' = g_ret s ++ [snd it].
Proof.
  intros s it r Hm Hd Ht. simpl. rewrite Hm. destruct (locked_ready s it r Hd Ht) as [He Hg].
  exists (fst (dequeue_locked fx s)). split; [|exact Hg].
  rewrite <- He. destruct (dequeue_locked fx s); reflexivity.
Qed.

End NullReady.

(* non-vacuity: a failed pool (status 5) with ticket 0 completed in the done list and ticket 1 still
   queued: dequeue hands ticket 0 back, the next dequeue answers NULL *)
Definition ex_failed_ready : pool :=
  mkPool [(1, 11)] [(0, 110)] [] 2 0 2 5%Z [WExited] MIdle [10; 11] [] [0].

Example ex_failed_ready_delivers :
  done_ready ex_failed_ready = true /\
  option_map snd (step (fun d => d + 100) (fun _ => 0%Z) true ex_failed_ready (LCall ODequeue)) =
    Some (ERet ODequeue (RItem 110)) /\
  (match step (fun d => d + 100) (fun _ => 0%Z) true ex_failed_ready (LCall ODequeue) with
   | Some (s1, _) => option_map snd (step (fun d => d + 100) (fun _ => 0%Z) true s1 (LCall ODequeue))
   | None => None end) = Some (ERet ODequeue RNull).
Proof. vm_compute. repeat split. Qed.
