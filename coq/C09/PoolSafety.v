(* C09 — safety of the pool model: the exactly-once partition invariant, FIFO,
   data integrity.  Holds for the repaired and for the unrepaired model ([fx] arbitrary),
   for every callback, every number of workers, every step sequence. *)
From Coq Require Import List ZArith Bool Arith Lia Permutation.
From SqfsV Require Import C09.PoolModel C09.PoolLemmas.
Import ListNotations.

Section Safety.
Variable cb_val : nat -> nat.
Variable cb_st : nat -> Z.
Variable fx : bool.

Notation step := (step cb_val cb_st fx).
Notation run := (run cb_val cb_st fx).
Notation worker_step := (worker_step cb_val cb_st).

Definition htix (x : wstate) : list nat :=
  match x with WReady (Some (it, _)) => [fst it] | _ => [] end.
Definition ktix (x : wstate) : list nat :=
  match x with WWorking it => [fst it] | _ => [] end.

(* how often ticket t occurs in the pool: handed back, safe_done, done, held by a worker
   between callback and store, being processed, queued *)
Definition tcount (s : pool) (t : nat) : nat :=
  cnt (seq 0 (length (g_ret s))) t + cnt (map fst (safe_done s)) t + cnt (map fst (done s)) t
  + cnt (flat_map htix (ws s)) t + cnt (flat_map ktix (ws s)) t + cnt (map fst (queue s)) t.

Definition orig_ok (sub : list nat) (it : witem) : Prop := nth_error sub (fst it) = Some (snd it).
Definition proc_ok (sub : list nat) (it : witem) : Prop :=
  exists d0, nth_error sub (fst it) = Some d0 /\ snd it = cb_val d0.
Definition w_ok (sub : list nat) (x : wstate) : Prop :=
  match x with
  | WWorking it => orig_ok sub it
  | WReady (Some (it, st)) => exists d0, nth_error sub (fst it) = Some d0 /\ snd it = cb_val d0 /\ st = cb_st d0
  | _ => True
  end.

Record Inv (s : pool) : Prop := {
  i_cnt : forall t, tcount s t = if t <? next_ticket s then 1 else 0;
  i_nt : next_ticket s = length (g_sub s);
  i_nd : next_deq s = length (g_ret s) + length (safe_done s);
  i_safe : map fst (safe_done s) = seq (length (g_ret s)) (length (safe_done s));
  i_ic : item_count s + length (g_ret s) = next_ticket s;
  i_q : Forall (orig_ok (g_sub s)) (queue s);
  i_w : Forall (w_ok (g_sub s)) (ws s);
  i_d : Forall (proc_ok (g_sub s)) (done s);
  i_s : Forall (proc_ok (g_sub s)) (safe_done s);
  i_ret : g_ret s = map cb_val (firstn (length (g_ret s)) (g_sub s));
  i_ran : forall t, cnt (g_ran s) t =
            cnt (seq 0 (length (g_ret s))) t + cnt (map fst (safe_done s)) t + cnt (map fst (done s)) t
            + cnt (flat_map htix (ws s)) t;
  i_mw : ms s = MDeqWait \/ ms s = MDeqWoken -> safe_done s = []
}.

Ltac psimpl :=
  cbn [queue done safe_done next_ticket next_deq item_count status ws ms g_sub g_ret g_ran
       set_ws set_ms set_w store_completed give_back fst snd] in *.

(* ---- small facts ---- *)
Lemma inv_init : forall n, Inv (init n).
Proof.
  intros. constructor; unfold tcount, init; psimpl; auto.
  - intros. rewrite !flat_repeat_nil by reflexivity. reflexivity.
  - apply Forall_forall. intros x H. apply repeat_spec in H. subst. exact I.
  - intros. rewrite !flat_repeat_nil by reflexivity. reflexivity.
Qed.

Lemma Forall_wake : forall sub l, Forall (w_ok sub) l -> Forall (w_ok sub) (map wake_worker l).
Proof.
  intros. apply Forall_forall. intros x Hx. apply in_map_iff in Hx. destruct Hx as [y [<- Hy]].
  rewrite Forall_forall in H. specialize (H _ Hy). destruct y; simpl; auto.
Qed.

Lemma orig_ok_app : forall sub d it, orig_ok sub it -> orig_ok (sub ++ [d]) it.
Proof. unfold orig_ok. intros. apply nth_error_app_Some. assumption. Qed.
Lemma proc_ok_app : forall sub d it, proc_ok sub it -> proc_ok (sub ++ [d]) it.
Proof. unfold proc_ok. intros. destruct H as [d0 [? ?]]. exists d0. split; auto. apply nth_error_app_Some. assumption. Qed.
Lemma w_ok_app : forall sub d x, w_ok sub x -> w_ok (sub ++ [d]) x.
Proof.
  destruct x; simpl; auto.
  - destruct held as [[it st]|]; auto. intros [d0 [? ?]]. exists d0. split; auto. apply nth_error_app_Some. assumption.
  - apply orig_ok_app.
Qed.

(* ---- changing one worker ---- *)
Lemma inv_set_w : forall s w x y,
  Inv s -> nth_error (ws s) w = Some x ->
  htix x = htix y -> ktix x = ktix y -> w_ok (g_sub s) y ->
  Inv (set_w s w y).
Proof.
  intros s w x y H Hn Hh Hk Hy. destruct H. constructor; unfold tcount in *; psimpl; auto.
  - intros t. pose proof (upd_flat_cnt htix _ _ _ y t Hn). pose proof (upd_flat_cnt ktix _ _ _ y t Hn).
    rewrite Hh in H. rewrite Hk in H0. specialize (i_cnt0 t). lia.
  - apply upd_Forall; auto.
  - intros t. pose proof (upd_flat_cnt htix _ _ _ y t Hn). rewrite Hh in H. specialize (i_ran0 t). lia.
Qed.

Lemma inv_set_ms : forall s m,
  Inv s -> (m = MDeqWait \/ m = MDeqWoken -> safe_done s = []) -> Inv (set_ms s m).
Proof. intros s m H Hm. destruct H. constructor; unfold tcount in *; psimpl; auto. Qed.

(* ---- worker: store the held item (and drop it from the worker) ---- *)
Lemma inv_store : forall s w it st,
  Inv s -> nth_error (ws s) w = Some (WReady (Some (it, st))) ->
  Inv (set_w (store_completed s it st) w (WReady None)).
Proof.
  intros s w it st H Hn. destruct H.
  pose proof (nth_error_Forall _ _ _ _ _ i_w0 Hn) as Hw. simpl in Hw.
  constructor; unfold tcount in *; psimpl; auto.
  - intros t. rewrite cnt_insert.
    pose proof (upd_flat_cnt htix _ _ _ (WReady None) t Hn). pose proof (upd_flat_cnt ktix _ _ _ (WReady None) t Hn).
    simpl in H, H0. specialize (i_cnt0 t). lia.
  - apply upd_Forall; simpl; auto.
  - apply Forall_insert; auto. destruct Hw as [d0 [? [? ?]]]. exists d0. auto.
  - intros t. rewrite cnt_insert.
    pose proof (upd_flat_cnt htix _ _ _ (WReady None) t Hn). simpl in H. specialize (i_ran0 t). lia.
  - intros Hm. apply i_mw0. destruct (ms s); simpl in Hm; auto; destruct Hm; discriminate.
Qed.

(* ---- worker: get_next_work_item ---- *)
Lemma inv_get_next : forall s w x,
  Inv s -> nth_error (ws s) w = Some x -> htix x = [] -> ktix x = [] ->
  Inv (fst (get_next s w)).
Proof.
  intros s w x H Hn Hh Hk. unfold get_next.
  destruct (status s =? 0)%Z.
  - destruct (queue s) as [|it r] eqn:Q; simpl.
    + eapply inv_set_w; eauto. simpl. exact I.
    + destruct H. rewrite Q in *. inversion i_q0; subst.
      constructor; unfold tcount in *; psimpl; auto.
      * intros t. pose proof (upd_flat_cnt htix _ _ _ (WWorking it) t Hn).
        pose proof (upd_flat_cnt ktix _ _ _ (WWorking it) t Hn).
        rewrite Hh in H. rewrite Hk in H0. simpl in H, H0. specialize (i_cnt0 t). rewrite Q in i_cnt0. simpl in i_cnt0. lia.
      * apply upd_Forall; auto.
      * intros t. pose proof (upd_flat_cnt htix _ _ _ (WWorking it) t Hn). rewrite Hh in H. simpl in H.
        specialize (i_ran0 t). lia.
  - simpl. eapply inv_set_w; eauto. simpl. exact I.
Qed.

Lemma get_next_set_w : forall s w x, get_next (set_w s w x) w = get_next s w.
Proof.
  intros. unfold get_next, set_w, set_ws; psimpl.
  destruct (status s =? 0)%Z; [destruct (queue s)|]; rewrite !upd_upd; reflexivity.
Qed.

Lemma set_w_nth : forall s w x y, nth_error (ws s) w = Some y -> nth_error (ws (set_w s w x)) w = Some x.
Proof. intros. unfold set_w, set_ws; psimpl. apply upd_nth_same. eapply nth_error_lt; eauto. Qed.

Ltac inj_fst H :=
  apply (f_equal (fun o : option (pool * event) => match o with Some p => Some (fst p) | None => None end)) in H;
  cbn beta iota in H; cbn [fst] in H; injection H as H; subst.

Lemma inv_worker_step : forall s w s' e, Inv s -> worker_step s w = Some (s', e) -> Inv s'.
Proof.
  intros s w s' e H Hs. unfold PoolModel.worker_step in Hs.
  destruct (nth_error (ws s) w) as [x|] eqn:Hn; [|discriminate].
  destruct x as [[[it st]|]| | |[t d]|]; try discriminate.
  - (* store, then next *)
    inj_fst Hs.
    rewrite <- (get_next_set_w _ w (WReady None)).
    pose proof (inv_store _ _ _ _ H Hn) as H1.
    eapply inv_get_next; eauto.
    + eapply set_w_nth. unfold store_completed; psimpl. eauto.
    + reflexivity.
    + reflexivity.
  - inj_fst Hs. eapply inv_get_next; eauto; reflexivity.
  - inj_fst Hs. eapply inv_get_next; eauto; reflexivity.
  - (* callback *)
    cbv zeta in Hs. injection Hs as Hs He. subst s'.
    destruct H. pose proof (nth_error_Forall _ _ _ _ _ i_w0 Hn) as Hw. simpl in Hw. unfold orig_ok in Hw. simpl in Hw.
    constructor; unfold tcount in *; psimpl; auto.
    + intros u. pose proof (upd_flat_cnt htix _ _ _ (WReady (Some ((t, cb_val d), cb_st d))) u Hn).
      pose proof (upd_flat_cnt ktix _ _ _ (WReady (Some ((t, cb_val d), cb_st d))) u Hn).
      simpl in H, H0. specialize (i_cnt0 u). lia.
    + apply upd_Forall; auto. simpl. exists d. auto.
    + intros u. pose proof (upd_flat_cnt htix _ _ _ (WReady (Some ((t, cb_val d), cb_st d))) u Hn).
      simpl in H. specialize (i_ran0 u). simpl. lia.
Qed.

(* ---- main: submit ---- *)
Lemma drain_spec : forall dn nd sf dn' nd' sf' a (P : witem -> Prop),
  drain dn nd sf = (dn', nd', sf') ->
  nd = a + length sf -> map fst sf = seq a (length sf) ->
  Forall P dn -> Forall P sf ->
  nd' = a + length sf' /\ map fst sf' = seq a (length sf') /\ Forall P dn' /\ Forall P sf' /\
  (forall t, cnt (map fst sf') t + cnt (map fst dn') t = cnt (map fst sf) t + cnt (map fst dn) t) /\
  (sf = [] -> dn = [] \/ (exists it r, dn = it :: r /\ fst it <> nd) -> sf' = []).
Proof.
  induction dn as [|it r IH]; simpl; intros nd sf dn' nd' sf' a P Hd Hnd Hsf HPd HPs.
  - inversion Hd; subst. repeat split; auto.
  - destruct (Nat.eqb_spec (fst it) nd).
    + inversion HPd; subst.
      eapply IH in Hd.
      * destruct Hd as [? [? [? [? [Hc Hk]]]]]. repeat split; eauto.
        -- intros t. rewrite Hc. rewrite map_app, cnt_app. simpl. lia.
        -- intros ? [?|[it' [r' [Heq ?]]]]; [discriminate|]. inversion Heq; subst. congruence.
      * rewrite app_length. simpl. lia.
      * rewrite map_app, app_length, Hsf. simpl. rewrite e. replace (length sf + 1) with (S (length sf)) by lia.
        rewrite seq_S. reflexivity.
      * assumption.
      * apply Forall_app. split; auto.
    + inversion Hd; subst. repeat split; auto.
Qed.

Lemma inv_submit : forall s d, Inv s -> ms s = MIdle -> Inv (fst (submit s d)).
Proof.
  intros s d H Hm. unfold submit.
  destruct (drain (done s) (next_deq s) (safe_done s)) as [[dn nd] sf] eqn:D.
  destruct H.
  destruct (status s =? 0)%Z eqn:St; simpl.
  - eapply (drain_spec _ _ _ _ _ _ (length (g_ret s)) (proc_ok (g_sub s ++ [d]))) in D; auto.
    2:{ eapply Forall_impl; [|exact i_d0]. intros. apply proc_ok_app. assumption. }
    2:{ eapply Forall_impl; [|exact i_s0]. intros. apply proc_ok_app. assumption. }
    destruct D as [D1 [D2 [D3 [D4 [D5 D6]]]]].
    constructor; unfold tcount in *; psimpl; auto.
    + intros t. rewrite !flat_wake by reflexivity. rewrite map_app, cnt_app. simpl.
      specialize (i_cnt0 t). specialize (D5 t).
      destruct (Nat.eqb_spec (next_ticket s) t), (Nat.ltb_spec t (next_ticket s)), (Nat.ltb_spec t (S (next_ticket s))); lia.
    + rewrite app_length. simpl. lia.
    + lia.
    + apply Forall_app. split.
      * eapply Forall_impl; [|exact i_q0]. intros. apply orig_ok_app. assumption.
      * constructor; auto. unfold orig_ok. simpl. rewrite i_nt0. apply nth_error_app_end.
    + apply Forall_wake. eapply Forall_impl; [|exact i_w0]. intros. apply w_ok_app. assumption.
    + rewrite firstn_app_le by lia. assumption.
    + intros t. rewrite !flat_wake by reflexivity. specialize (i_ran0 t). specialize (D5 t). lia.
    + rewrite Hm. intros [?|?]; discriminate.
  - eapply (drain_spec _ _ _ _ _ _ (length (g_ret s)) (proc_ok (g_sub s))) in D; auto.
    destruct D as [D1 [D2 [D3 [D4 [D5 D6]]]]].
    constructor; unfold tcount in *; psimpl; auto.
    + intros t. rewrite !flat_wake by reflexivity. specialize (i_cnt0 t). specialize (D5 t). lia.
    + apply Forall_wake. assumption.
    + intros t. rewrite !flat_wake by reflexivity. specialize (i_ran0 t). specialize (D5 t). lia.
    + rewrite Hm. intros [?|?]; discriminate.
Qed.

(* ---- main: dequeue ---- *)
(* handing back the item with ticket |g_ret| *)
Lemma ticket_lt : forall s t, Inv s -> tcount s t > 0 -> t < next_ticket s.
Proof.
  intros. destruct H. specialize (i_cnt0 t). destruct (Nat.ltb_spec t (next_ticket s)); lia.
Qed.

Lemma inv_dequeue_locked : forall s,
  Inv s -> safe_done s = [] -> Inv (fst (dequeue_locked fx s)).
Proof.
  intros s H Hs. unfold dequeue_locked.
  assert (Hwait : Inv (set_ms s MDeqWait)) by (apply inv_set_ms; auto).
  assert (Hidle : Inv (set_ms s MIdle)) by (apply inv_set_ms; auto; intros [?|?]; discriminate).
  destruct (done s) as [|it r] eqn:Dn.
  - destruct (fx && negb (status s =? 0)%Z); simpl; auto.
  - destruct (Nat.eqb_spec (fst it) (next_deq s)).
    2:{ destruct (fx && negb (status s =? 0)%Z); simpl; auto. }
    simpl.
    assert (Hlt : fst it < next_ticket s).
    { apply ticket_lt; auto. unfold tcount. rewrite Dn. simpl. rewrite Nat.eqb_refl. lia. }
    destruct H. unfold tcount in *. rewrite Dn, Hs in *. simpl in i_nd0. rewrite Nat.add_0_r in i_nd0.
    inversion i_d0; subst. destruct H1 as [d0 [Hd0 Hv]].
    constructor; unfold tcount in *; psimpl; auto.
    + intros t. rewrite app_length. simpl. replace (length (g_ret s) + 1) with (S (length (g_ret s))) by lia.
      rewrite seq_S, cnt_app. simpl. specialize (i_cnt0 t).  simpl in i_cnt0. rewrite e, i_nd0 in i_cnt0. lia.
    + rewrite app_length. simpl. lia.
    + rewrite app_length. simpl. lia.
    + rewrite app_length. simpl. replace (length (g_ret s) + 1) with (S (length (g_ret s))) by lia.
      rewrite (firstn_S_nth _ _ _ d0).
      * rewrite map_app. simpl. rewrite <- i_ret0, Hv. reflexivity.
      * rewrite <- i_nd0, <- e. assumption.
    + intros t. rewrite app_length. simpl. replace (length (g_ret s) + 1) with (S (length (g_ret s))) by lia.
      rewrite seq_S, cnt_app. simpl. specialize (i_ran0 t).  simpl in i_ran0. rewrite e, i_nd0 in i_ran0. lia.
Qed.

Lemma inv_dequeue : forall s, Inv s -> Inv (fst (dequeue fx s)).
Proof.
  intros s H. unfold dequeue.
  destruct (item_count s =? 0); simpl; auto.
  destruct (safe_done s) as [|it r] eqn:Sf.
  - apply inv_dequeue_locked; auto.
  - pose proof (i_safe s H) as Hsafe. rewrite Sf in Hsafe. simpl in Hsafe. injection Hsafe as Hft Hrest.
    pose proof (i_s s H) as Hps. rewrite Sf in Hps. inversion Hps as [|? ? [d0 [Hd0 Hv]] Hpr]; subst.
    assert (Hlt : fst it < next_ticket s).
    { apply ticket_lt; auto. unfold tcount. rewrite Sf. simpl. rewrite Nat.eqb_refl. lia. }
    simpl. destruct H. unfold tcount in *. rewrite Sf in *.
    constructor; unfold tcount in *; psimpl; auto.
    + intros t. rewrite app_length. simpl. replace (length (g_ret s) + 1) with (S (length (g_ret s))) by lia.
      rewrite seq_S, cnt_app. simpl. specialize (i_cnt0 t). simpl in i_cnt0. rewrite Hft in i_cnt0. lia.
    + rewrite app_length. simpl in *. lia.
    + rewrite app_length. simpl. replace (length (g_ret s) + 1) with (S (length (g_ret s))) by lia. assumption.
    + rewrite app_length. simpl. lia.
    + rewrite app_length. simpl. replace (length (g_ret s) + 1) with (S (length (g_ret s))) by lia.
      rewrite (firstn_S_nth _ _ _ d0).
      * rewrite map_app. simpl. rewrite <- i_ret0, Hv. reflexivity.
      * rewrite <- Hft. assumption.
    + intros t. rewrite app_length. simpl. replace (length (g_ret s) + 1) with (S (length (g_ret s))) by lia.
      rewrite seq_S, cnt_app. simpl. specialize (i_ran0 t). simpl in i_ran0. rewrite Hft in i_ran0. lia.
    + intros [?|?]; discriminate.
Qed.

(* ---- main: destroy ---- *)
Lemma inv_join_from : forall s i, Inv s -> Inv (fst (join_from s i)).
Proof.
  intros. unfold join_from. destruct (first_alive (skipn i (ws s)) i); simpl;
    apply inv_set_ms; auto; intros [?|?]; discriminate.
Qed.

Lemma inv_destroy : forall s, Inv s -> ms s = MIdle -> Inv (fst (destroy s)).
Proof.
  intros s H Hm. unfold destroy. apply inv_join_from.
  destruct H. constructor; unfold tcount in *; psimpl; auto.
  - intros t. rewrite !flat_wake by reflexivity. apply i_cnt0.
  - apply Forall_wake. assumption.
  - intros t. rewrite !flat_wake by reflexivity. apply i_ran0.
Qed.

Theorem inv_step : forall s l s' e, Inv s -> step s l = Some (s', e) -> Inv s'.
Proof.
  intros s l s' e H Hs. destruct l; simpl in Hs.
  - destruct (ms s) eqn:Hm; try discriminate.
    destruct o; simpl in Hs; inj_fst Hs.
    + apply inv_submit; auto.
    + apply inv_dequeue; auto.
    + assumption.
    + apply inv_destroy; auto.
  - destruct (ms s) eqn:Hm; try discriminate.
    + inj_fst Hs. apply inv_dequeue_locked; auto. apply (i_mw s H). auto.
    + destruct (nth_error (ws s) i) as [[]|]; try discriminate. inj_fst Hs. apply inv_join_from; auto.
  - destruct (ms s) eqn:Hm; try discriminate. inj_fst Hs.
    apply inv_set_ms; auto. intros _. apply (i_mw s H). auto.
  - eapply inv_worker_step; eauto.
  - destruct (nth_error (ws s) w) as [[]|] eqn:Hn; try discriminate. inj_fst Hs.
    eapply inv_set_w; eauto. exact I.
Qed.

Theorem inv_run : forall ls s s' es, Inv s -> run s ls = Some (s', es) -> Inv s'.
Proof.
  induction ls; simpl; intros.
  - inversion H0; subst. assumption.
  - destruct (step s a) as [[s1 e]|] eqn:Hs; [|discriminate].
    destruct (run s1 ls) as [[s2 es']|] eqn:Hr; [|discriminate]. inversion H0; subst.
    eapply IHls; [|eassumption]. eapply inv_step; eauto.
Qed.

Definition reachable (n : nat) (s : pool) : Prop := exists ls es, run (init n) ls = Some (s, es).

Theorem inv_reachable : forall n s, reachable n s -> Inv s.
Proof. intros n s [ls [es H]]. eapply inv_run; [apply inv_init|eassumption]. Qed.

(* ---- consequences ---- *)
Definition tickets (s : pool) : list nat :=
  seq 0 (length (g_ret s)) ++ map fst (safe_done s) ++ map fst (done s)
  ++ flat_map htix (ws s) ++ flat_map ktix (ws s) ++ map fst (queue s).

Lemma tickets_cnt : forall s t, cnt (tickets s) t = tcount s t.
Proof. intros. unfold tickets, tcount. rewrite !cnt_app. lia. Qed.

Lemma exactly_once : forall s, Inv s -> Permutation (tickets s) (seq 0 (next_ticket s)).
Proof. intros. apply cnt_perm_seq. intros. rewrite tickets_cnt. apply (i_cnt s H). Qed.

Lemma fifo : forall s, Inv s -> g_ret s = map cb_val (firstn (length (g_ret s)) (g_sub s)).
Proof. intros. apply (i_ret s H). Qed.

Lemma ran_once : forall s, Inv s -> NoDup (g_ran s).
Proof.
  intros. apply cnt_le1_NoDup. intros t. destruct H.
  specialize (i_cnt0 t). specialize (i_ran0 t). unfold tcount in *.
  destruct (t <? next_ticket s); lia.
Qed.

(* every item handed back went through the callback (exactly once, by ran_once) *)
Lemma returned_ran : forall s t, Inv s -> t < length (g_ret s) -> In t (g_ran s).
Proof.
  intros. apply cnt_In. destruct H. rewrite i_ran0, cnt_seq0.
  destruct (Nat.ltb_spec t (length (g_ret s))); lia.
Qed.

End Safety.
