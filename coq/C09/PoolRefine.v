(* C09 — refinement: when no submitted item fails, the API results of the concurrent
   pool are, under every schedule, those of the specification "FIFO queue of
   f(item)" — which is also what threadpool_serial.c computes.  Plus the witness
   that the unrepaired dequeue hangs after a worker failure (F01). *)
From Coq Require Import List ZArith Bool Arith Lia Permutation.
From SqfsV Require Import C09.PoolModel C09.PoolLemmas C09.PoolSafety C09.PoolProgress C09.PoolFailure.
Import ListNotations.

Section Refine.
Variable cb_val : nat -> nat.
Variable cb_st : nat -> Z.
Variable fx : bool.

Notation step := (step cb_val cb_st fx).
Notation run := (run cb_val cb_st fx).
Notation Inv := (Inv cb_val cb_st).
Notation FInv := (FInv cb_st).

Ltac psimpl :=
  cbn [queue done safe_done next_ticket next_deq item_count status ws ms g_sub g_ret g_ran
       set_ws set_ms set_w store_completed give_back fst snd] in *.

(* the completed API calls of a trace, with their results *)
Fixpoint rets (es : list event) : list (op * ret) :=
  match es with
  | [] => []
  | ERet o r :: t => (o, r) :: rets t
  | _ :: t => rets t
  end.

(* accepted and not yet handed back, in submission order *)
Definition pending (s : pool) : list nat := skipn (length (g_ret s)) (g_sub s).

Definition nofail (l : list nat) : Prop := forall d, In d l -> cb_st d = 0%Z.

Definition sim (s s' : pool) (e : event) : Prop :=
  match e with
  | ERet o r => spec_call cb_val (pending s) o = (pending s', r)
  | _ => pending s' = pending s
  end.

Lemma sim_get_next : forall s w, pending (fst (get_next s w)) = pending s /\
  (forall o r, snd (get_next s w) <> ERet o r).
Proof.
  intros. unfold get_next. destruct (status s =? 0)%Z; [destruct (queue s)|]; simpl; split;
    try reflexivity; discriminate.
Qed.

Lemma pending_give : forall s (it : nat * nat) d0,
  nth_error (g_sub s) (length (g_ret s)) = Some d0 -> snd it = cb_val d0 ->
  forall s', g_sub s' = g_sub s -> g_ret s' = g_ret s ++ [snd it] ->
  spec_call cb_val (pending s) ODequeue = (pending s', RItem (snd it)).
Proof.
  intros s it d0 Hn Hv s' E1 E2. unfold pending. rewrite E1, E2, app_length. simpl.
  rewrite (skipn_nth_cons _ _ _ _ Hn). replace (length (g_ret s) + 1) with (S (length (g_ret s))) by lia.
  rewrite Hv. reflexivity.
Qed.

Lemma sim_dequeue_locked : forall s,
  Inv s -> status s = 0%Z -> safe_done s = [] ->
  sim s (fst (dequeue_locked fx s)) (snd (dequeue_locked fx s)).
Proof.
  intros s HI Hst Hsafe. unfold dequeue_locked. rewrite Hst. simpl. rewrite andb_false_r.
  destruct (done s) as [|it r] eqn:Dn; simpl; [reflexivity|].
  destruct (Nat.eqb_spec (fst it) (next_deq s)); simpl; [|reflexivity].
  pose proof (i_nd _ _ s HI) as Hnd. rewrite Hsafe in Hnd. simpl in Hnd. rewrite Nat.add_0_r in Hnd.
  pose proof (i_d _ _ s HI) as Hd. rewrite Dn in Hd. inversion Hd; subst. destruct H1 as [d0 [Hd0 Hv]].
  eapply pending_give; eauto. rewrite <- Hnd, <- e. assumption.
Qed.

Lemma sim_step : forall s l s' e,
  Inv s -> step s l = Some (s', e) -> status s = 0%Z \/ destroyed s -> sim s s' e.
Proof.
  intros s l s' e HI Hs Hok. destruct l; simpl in Hs.
  - destruct (ms s) eqn:Hm; try discriminate.
    assert (Hst : status s = 0%Z).
    { destruct Hok as [?|[[i E]|E]]; auto; rewrite E in Hm; discriminate. }
    pose proof (i_ic _ _ s HI) as Hic. pose proof (i_nt _ _ s HI) as Hnt.
    destruct o; simpl in Hs.
    + unfold submit in Hs. destruct (drain (done s) (next_deq s) (safe_done s)) as [[dn nd] sf].
      rewrite Hst in Hs. simpl in Hs. injection Hs as Hs He. subst. simpl. unfold pending; psimpl.
      rewrite skipn_app_le by lia. reflexivity.
    + unfold dequeue in Hs. destruct (Nat.eqb_spec (item_count s) 0).
      * injection Hs as Hs He. subst. simpl. unfold pending. rewrite skipn_all2 by lia. reflexivity.
      * destruct (safe_done s) as [|it r] eqn:Sf.
        -- injection Hs as Hs. pose proof (sim_dequeue_locked s HI Hst Sf) as S. rewrite Hs in S. exact S.
        -- injection Hs as Hs He. subst. simpl.
           pose proof (i_safe _ _ s HI) as Hsafe. rewrite Sf in Hsafe. simpl in Hsafe. injection Hsafe as Hft _.
           pose proof (i_s _ _ s HI) as Hps. rewrite Sf in Hps. inversion Hps; subst. destruct H1 as [d0 [Hd0 Hv]].
           eapply pending_give; eauto. rewrite <- Hft. assumption.
    + injection Hs as Hs He. subst. simpl. rewrite Hst. reflexivity.
    + unfold destroy, join_from in Hs. psimpl.
      destruct (first_alive (skipn 0 (map wake_worker (ws s))) 0); injection Hs as Hs He; subst; simpl; reflexivity.
  - destruct (ms s) eqn:Hm; try discriminate.
    + assert (Hst : status s = 0%Z).
      { destruct Hok as [?|[[i E]|E]]; auto; rewrite E in Hm; discriminate. }
      injection Hs as Hs. pose proof (sim_dequeue_locked s HI Hst (i_mw _ _ s HI (or_intror Hm))) as S.
      rewrite Hs in S. exact S.
    + destruct (nth_error (ws s) i) as [[]|]; try discriminate. unfold join_from in Hs.
      destruct (first_alive (skipn (S i) (ws s)) (S i)); injection Hs as Hs He; subst; simpl; reflexivity.
  - destruct (ms s); try discriminate. injection Hs as Hs He. subst. reflexivity.
  - unfold PoolModel.worker_step in Hs. destruct (nth_error (ws s) w) as [x|]; [|discriminate].
    destruct x as [[[it st]|]| | |[t d]|]; try discriminate.
    + injection Hs as Hs. destruct (sim_get_next (store_completed s it st) w) as [P N].
      rewrite Hs in P, N. simpl in P, N. unfold sim. destruct e; try exact P. exfalso. eapply N. reflexivity.
    + injection Hs as Hs. destruct (sim_get_next s w) as [P N].
      rewrite Hs in P, N. simpl in P, N. unfold sim. destruct e; try exact P. exfalso. eapply N. reflexivity.
    + injection Hs as Hs. destruct (sim_get_next s w) as [P N].
      rewrite Hs in P, N. simpl in P, N. unfold sim. destruct e; try exact P. exfalso. eapply N. reflexivity.
    + cbv zeta in Hs. injection Hs as Hs He. subst. reflexivity.
  - destruct (nth_error (ws s) w) as [[]|]; try discriminate. injection Hs as Hs He. subst. reflexivity.
Qed.

Lemma sub_grows_run : forall ls s s' es, run s ls = Some (s', es) -> exists x, g_sub s' = g_sub s ++ x.
Proof.
  induction ls as [|a ls IH]; simpl; intros s s' es Hr.
  - inversion Hr; subst. exists []. rewrite app_nil_r. reflexivity.
  - destruct (step s a) as [[s1 e]|] eqn:Hs; [|discriminate].
    destruct (PoolModel.run cb_val cb_st fx s1 ls) as [[s2 es']|] eqn:Hr'; [|discriminate]. inversion Hr; subst.
    destruct (sub_grows cb_val cb_st fx _ _ _ _ Hs) as [x Hx]. destruct (IH _ _ _ Hr') as [y Hy].
    exists (x ++ y). rewrite Hy, Hx, app_assoc. reflexivity.
Qed.

Lemma alive_status0 : forall s, FInv s -> nofail (g_sub s) -> status s = 0%Z \/ destroyed s.
Proof.
  intros s HF Hnf.
  destruct (Z.eq_dec (status s) 0); auto.
  assert (D : destroyed s \/ ~ destroyed s).
  { unfold destroyed. destruct (ms s); eauto; right; intros [[i E]|E]; discriminate. }
  destruct D as [D|D]; auto.
  destruct (f_why _ s HF n D) as [t [d0 [_ [Hn Hst]]]].
  left. rewrite Hst. apply Hnf. eapply nth_error_In; eauto.
Qed.

Lemma sim_run : forall ls s s' es,
  Inv s -> FInv s -> run s ls = Some (s', es) -> nofail (g_sub s') ->
  map snd (rets es) = spec_run cb_val (pending s) (map fst (rets es)).
Proof.
  induction ls as [|a ls IH]; simpl; intros s s' es HI HF Hr Hnf.
  - inversion Hr; subst. reflexivity.
  - destruct (step s a) as [[s1 e]|] eqn:Hs; [|discriminate].
    destruct (PoolModel.run cb_val cb_st fx s1 ls) as [[s2 es']|] eqn:Hr'; [|discriminate]. inversion Hr; subst.
    assert (Hnf0 : nofail (g_sub s)).
    { destruct (sub_grows_run _ _ _ _ Hr') as [x Hx]. destruct (sub_grows cb_val cb_st fx _ _ _ _ Hs) as [y Hy].
      intros d Hd. apply Hnf. rewrite Hx, Hy. apply in_or_app. left. apply in_or_app. auto. }
    pose proof (sim_step _ _ _ _ HI Hs (alive_status0 s HF Hnf0)) as S.
    assert (IH' : map snd (rets es') = spec_run cb_val (pending s1) (map fst (rets es'))).
    { eapply IH; eauto. eapply inv_step; eauto. eapply finv_step; eauto. }
    destruct e; simpl in *; try (rewrite <- S; exact IH').
    rewrite S, IH'. reflexivity.
Qed.

(* the exported refinement theorem: every schedule, every number of workers *)
Theorem pool_refines_fifo_l : forall n ls s es,
  run (init n) ls = Some (s, es) -> nofail (g_sub s) ->
  map snd (rets es) = spec_run cb_val [] (map fst (rets es)).
Proof.
  intros. change [] with (pending (init n)). eapply sim_run; eauto.
  - apply inv_init.
  - apply finv_init.
Qed.

(* ---- threadpool_serial.c ---- *)
Fixpoint subs (os : list op) : list nat :=
  match os with
  | [] => []
  | OSubmit d :: r => d :: subs r
  | _ :: r => subs r
  end.

Lemma serial_refines_gen : forall os s,
  s_status s = 0%Z -> nofail (s_queue s ++ subs os) ->
  serial_run cb_val cb_st s os = spec_run cb_val (s_queue s) os.
Proof.
  induction os as [|o os IH]; simpl; intros s Hst Hnf; [reflexivity|].
  destruct o; simpl.
  - rewrite Hst. simpl. f_equal. rewrite IH; simpl; auto.
    intros x Hx. apply Hnf. rewrite <- app_assoc in Hx. exact Hx.
  - destruct (s_queue s) as [|d r] eqn:Q; simpl.
    + f_equal. rewrite IH; auto; rewrite Q; auto.
    + f_equal. assert (cb_st d = 0%Z) by (apply Hnf; simpl; auto).
      rewrite H. simpl. rewrite IH; simpl; auto.
      intros x Hx. apply Hnf. simpl. auto.
  - rewrite Hst. f_equal. apply IH; auto.
  - f_equal. apply IH; auto.
Qed.

Theorem serial_refines_spec_l : forall os,
  nofail (subs os) -> serial_run cb_val cb_st serial_init os = spec_run cb_val [] os.
Proof. intros. apply (serial_refines_gen os serial_init); auto. Qed.

End Refine.

(* ---- F01: the code as found (fx = false) hangs after a worker failure ---- *)
Definition cbv0 (d : nat) : nat := d + 100.
Definition cbs0 (d : nat) : Z := if d =? 0 then 5%Z else 0%Z.

Definition f01_schedule : list label :=
  [LCall (OSubmit 0); LCall (OSubmit 1); LCall ODequeue;
   LWorker 0; LWorker 0; LWorker 0; LMain; LCall ODequeue].

Definition f01_stuck (s : pool) : Prop :=
  ws s = [WExited] /\ done s = [] /\ (ms s = MDeqWait \/ ms s = MDeqWoken).

Lemma f01_stuck_step : forall s l s' e,
  f01_stuck s -> PoolModel.step cbv0 cbs0 false s l = Some (s', e) -> f01_stuck s'.
Proof.
  intros s l s' e [Hw [Hd Hm]] Hs. unfold f01_stuck. destruct l; simpl in Hs.
  - destruct Hm as [Hm|Hm]; rewrite Hm in Hs; discriminate.
  - destruct Hm as [Hm|Hm]; rewrite Hm in Hs; try discriminate.
    unfold dequeue_locked in Hs. rewrite Hd in Hs. simpl in Hs. injection Hs as Hs He. subst. simpl. auto.
  - destruct Hm as [Hm|Hm]; rewrite Hm in Hs; try discriminate. injection Hs as Hs He. subst. simpl. auto.
  - unfold worker_step in Hs. rewrite Hw in Hs. destruct w as [|[|w]]; simpl in Hs; discriminate.
  - rewrite Hw in Hs. destruct w as [|[|w]]; simpl in Hs; discriminate.
Qed.

Lemma f01_stuck_run : forall ls s s' es,
  f01_stuck s -> PoolModel.run cbv0 cbs0 false s ls = Some (s', es) -> f01_stuck s'.
Proof.
  induction ls as [|a ls IH]; simpl; intros s s' es H Hr.
  - inversion Hr; subst. assumption.
  - destruct (PoolModel.step cbv0 cbs0 false s a) as [[s1 e]|] eqn:Hs; [|discriminate].
    destruct (PoolModel.run cbv0 cbs0 false s1 ls) as [[s2 es']|] eqn:Hr'; [|discriminate]. inversion Hr; subst.
    eapply IH; [|eassumption]. eapply f01_stuck_step; eauto.
Qed.

Theorem f01_deadlock_refuted_l :
  exists s es, PoolModel.run cbv0 cbs0 false (init 1) f01_schedule = Some (s, es) /\
    busy s /\
    (forall l, internal l = true -> PoolModel.step cbv0 cbs0 false s l = None) /\
    (forall ls s' es', PoolModel.run cbv0 cbs0 false s ls = Some (s', es') -> busy s').
Proof.
  eexists. eexists. split; [vm_compute; reflexivity|].
  assert (S : f01_stuck (mkPool [(1, 1)] [] [] 2 1 1 5 [WExited] MDeqWait [0; 1] [100] [0])).
  { unfold f01_stuck. simpl. auto. }
  split; [split; discriminate|]. split.
  - intros l Hl. destruct l; simpl in Hl; try discriminate; simpl; [reflexivity|].
    unfold worker_step. simpl. destruct w as [|[|w]]; reflexivity.
  - intros ls s' es' Hr. apply (f01_stuck_run _ _ _ _ S) in Hr. destruct Hr as [_ [_ [E|E]]];
      split; rewrite E; discriminate.
Qed.

(* the same schedule on the repaired code: dequeue returns NULL and the program can go on *)
Example f01_repaired :
  exists s es, PoolModel.run cbv0 cbs0 true (init 1) f01_schedule = Some (s, es) /\
    ms s = MIdle /\ last es ENone = ERet ODequeue RNull /\ status s = 5%Z.
Proof. eexists. eexists. split; [vm_compute; reflexivity|]. simpl. auto. Qed.
