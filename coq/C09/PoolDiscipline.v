(* C09 — the reduction argument under PoolModel.v, stated and proved instead of only assumed.

   PoolModel.v takes "one critical section of one thread" as ONE atomic step of the transition
   system and has no component for the mutex.  That is only a model of lib/util/src/threadpool.c
   if the code keeps the LOCK DISCIPLINE:

     every read or write of a field the threads share (queue, queue_last, done, next_ticket,
     next_dequeue_ticket, status and the list nodes reachable from queue / done), every
     pthread_cond_wait and every pthread_cond_signal / broadcast on queue_cond / done_cond
     happens while the acting thread holds pool->mtx

   (recycle, safe_done, safe_done_last, item_count belong to the submitting thread alone and count
   as thread-local, like the callback and its work item).  Seeded change C09-6 broke exactly this
   (destroy() set status and broadcast without the mutex): every theorem of Properties_C09.v stayed
   true of the model while the code lost a wake-up.

   This file makes the obligation explicit on fine-grained executions (one event = one lock
   operation, one shared access, or one piece of thread-local code):

     [mutex_ok]      the semantics of a mutex (guaranteed by pthreads; the scheduler shim aborts on an
                     unlock / cond_wait by a thread that is not the holder);
     [disciplined]   the obligation on the CODE.  It is checked at run time in every execution of the
                     real threadpool.c on the cooperative scheduler (props/C09/shim_sched.c, guard_check:
                     writes by snapshot comparison between the shim operations of a thread, signals and
                     waits directly; reads outside the mutex by the ThreadSanitizer leg) and reported
                     as `tie:lock-discipline`;

   and proves what the model relies on:

     [sections_atomic]  while a thread holds the mutex, every event of another thread is thread-local;
     [reduction]        every execution that keeps the discipline can be reordered — moving only
                        thread-local events of other threads out of a critical section — into an
                        execution with the same events per thread and the same order of all shared
                        accesses and lock operations, in which every critical section (lock/wake ..
                        unlock/wait) is one contiguous block: the atomic steps of PoolModel.step are
                        exactly the sections between lock and unlock / wait.

   [c09_6_*] shows the hypothesis is needed: the interleaving of seeded change C09-6 is a legal mutex
   execution, it is not disciplined, and a foreign shared access sits inside a critical section.
   Definitions and proofs only; nothing is extracted. *)
From Coq Require Import List Arith Bool Lia.
Import ListNotations.

Inductive act :=
| ALock      (* pthread_mutex_lock returned *)
| AUnlock    (* pthread_mutex_unlock *)
| AWait      (* pthread_cond_wait: the mutex is released, the thread becomes a waiter *)
| AWake      (* pthread_cond_wait returns: the mutex is re-acquired *)
| AShared    (* read / write of a mutex-protected field, or signal / broadcast on a guarded cond. var. *)
| ALocal.    (* anything else: thread-local code, the callback, the submitter-only lists *)

Definition ev := (nat * act)%type.          (* (thread, action) *)
Definition holder := option nat.            (* who holds pool->mtx *)

Definition acquires (a : act) : bool := match a with ALock | AWake => true | _ => false end.
Definition releases (a : act) : bool := match a with AUnlock | AWait => true | _ => false end.
Definition is_local (a : act) : bool := match a with ALocal => true | _ => false end.

Definition holds (h : holder) (t : nat) : bool :=
  match h with Some u => u =? t | None => false end.
Definition free (h : holder) : bool := match h with None => true | Some _ => false end.

(* the holder after an event (total) *)
Definition next (h : holder) (e : ev) : holder :=
  if acquires (snd e) then Some (fst e) else if releases (snd e) then None else h.

Fixpoint hafter (h : holder) (tr : list ev) : holder :=
  match tr with [] => h | e :: r => hafter (next h e) r end.

(* semantics of the mutex: acquired only when free, released only by its holder *)
Definition mutex_okb (h : holder) (e : ev) : bool :=
  if acquires (snd e) then free h else if releases (snd e) then holds h (fst e) else true.

(* THE LOCK DISCIPLINE: a shared access only by the holder (cond_wait by the holder is in mutex_okb) *)
Definition disc_okb (h : holder) (e : ev) : bool :=
  match snd e with AShared => holds h (fst e) | _ => true end.

Fixpoint mutex_ok (h : holder) (tr : list ev) : bool :=
  match tr with [] => true | e :: r => mutex_okb h e && mutex_ok (next h e) r end.

Fixpoint disciplined (h : holder) (tr : list ev) : bool :=
  match tr with [] => true | e :: r => disc_okb h e && disciplined (next h e) r end.

Definition ok (h : holder) (tr : list ev) : bool := mutex_ok h tr && disciplined h tr.

(* every critical section is one contiguous block: while a thread holds the mutex only it acts *)
Fixpoint contiguous (h : holder) (tr : list ev) : bool :=
  match tr with
  | [] => true
  | e :: r => (match h with Some t => fst e =? t | None => true end) && contiguous (next h e) r
  end.

Definition proj (u : nat) (tr : list ev) : list ev := filter (fun e => fst e =? u) tr.
Definition sync (tr : list ev) : list ev := filter (fun e => negb (is_local (snd e))) tr.

(* the reordering: thread-local events of other threads leave the critical section to the front *)
Fixpoint norm_aux (h : holder) (sec : list ev) (tr : list ev) : list ev :=
  match tr with
  | [] => sec
  | e :: r =>
      match h with
      | Some t =>
          if fst e =? t then
            if releases (snd e) then (sec ++ [e]) ++ norm_aux None [] r
            else norm_aux h (sec ++ [e]) r
          else e :: norm_aux h sec r
      | None =>
          if acquires (snd e) then norm_aux (Some (fst e)) [e] r
          else e :: norm_aux None [] r
      end
  end.

Definition normalise (tr : list ev) : list ev := norm_aux None [] tr.

(* ------------------------------------------------------------------ basic facts *)

Lemma hafter_app : forall l1 l2 h, hafter h (l1 ++ l2) = hafter (hafter h l1) l2.
Proof. induction l1; simpl; intros; auto. Qed.

Lemma mutex_ok_app : forall l1 l2 h,
  mutex_ok h (l1 ++ l2) = mutex_ok h l1 && mutex_ok (hafter h l1) l2.
Proof. induction l1; simpl; intros; auto. rewrite IHl1, andb_assoc. reflexivity. Qed.

Lemma disciplined_app : forall l1 l2 h,
  disciplined h (l1 ++ l2) = disciplined h l1 && disciplined (hafter h l1) l2.
Proof. induction l1; simpl; intros; auto. rewrite IHl1, andb_assoc. reflexivity. Qed.

Lemma contiguous_app : forall l1 l2 h,
  contiguous h (l1 ++ l2) = contiguous h l1 && contiguous (hafter h l1) l2.
Proof. induction l1; simpl; intros; auto. rewrite IHl1, andb_assoc. reflexivity. Qed.

Lemma proj_app : forall u l1 l2, proj u (l1 ++ l2) = proj u l1 ++ proj u l2.
Proof. intros. apply filter_app. Qed.

Lemma sync_app : forall l1 l2, sync (l1 ++ l2) = sync l1 ++ sync l2.
Proof. intros. apply filter_app. Qed.

Lemma proj_cons : forall u e r, proj u (e :: r) = proj u [e] ++ proj u r.
Proof. intros. apply (proj_app u [e] r). Qed.

Lemma sync_cons : forall e r, sync (e :: r) = sync [e] ++ sync r.
Proof. intros. apply (sync_app [e] r). Qed.

Lemma next_release : forall h e, releases (snd e) = true -> next h e = None.
Proof. intros h e H. unfold next. rewrite H. destruct (snd e); simpl in *; congruence. Qed.

Lemma next_own : forall t e, (fst e =? t) = true -> releases (snd e) = false -> next (Some t) e = Some t.
Proof.
  intros t e Ht Hr. unfold next. rewrite Hr. apply Nat.eqb_eq in Ht.
  destruct (acquires (snd e)); congruence.
Qed.

Lemma next_local : forall h e, snd e = ALocal -> next h e = h.
Proof. intros h e H. unfold next. rewrite H. reflexivity. Qed.

Lemma next_acq : forall h e, acquires (snd e) = true -> next h e = Some (fst e).
Proof. intros h e H. unfold next. rewrite H. reflexivity. Qed.

Lemma next_free : forall e, acquires (snd e) = false -> next None e = None.
Proof. intros e H. unfold next. rewrite H. destruct (releases (snd e)); reflexivity. Qed.

Lemma ok_cons : forall h e r,
  ok h (e :: r) = true -> mutex_okb h e = true /\ disc_okb h e = true /\ ok (next h e) r = true.
Proof.
  unfold ok; simpl; intros h e r H.
  apply andb_prop in H. destruct H as [H1 H2].
  apply andb_prop in H1. destruct H1 as [Ha Hb].
  apply andb_prop in H2. destruct H2 as [Hc Hd].
  repeat split; auto. rewrite Hb, Hd. reflexivity.
Qed.

(* an event of another thread while t holds the mutex can only be thread-local *)
Lemma foreign_is_local : forall t e,
  mutex_okb (Some t) e = true -> disc_okb (Some t) e = true -> (fst e =? t) = false ->
  snd e = ALocal.
Proof.
  intros t [u a] Hm Hd Hne. simpl in *.
  unfold mutex_okb, disc_okb in *. simpl in *.
  assert (Hut : (t =? u) = false) by (rewrite Nat.eqb_sym; exact Hne).
  destruct a; simpl in *; try rewrite Hut in *; try discriminate; reflexivity.
Qed.

(* ------------------------------------------------------------------ sections are atomic *)

Theorem sections_atomic_l : forall pre h u a post t,
  ok h (pre ++ (u, a) :: post) = true -> hafter h pre = Some t -> u <> t -> a = ALocal.
Proof.
  intros pre h u a post t Hok Hh Hne.
  unfold ok in Hok. rewrite mutex_ok_app, disciplined_app in Hok.
  rewrite Hh in Hok. cbn [mutex_ok disciplined] in Hok.
  apply andb_prop in Hok. destruct Hok as [H1 H2].
  apply andb_prop in H1. destruct H1 as [_ H1].
  apply andb_prop in H1. destruct H1 as [Hm _].
  apply andb_prop in H2. destruct H2 as [_ H2].
  apply andb_prop in H2. destruct H2 as [Hd _].
  apply (foreign_is_local t (u, a)); auto. simpl. apply Nat.eqb_neq. exact Hne.
Qed.

(* ------------------------------------------------------------------ the reordering *)

(* invariant of the section buffer: it holds events of the holder only, and is empty when the mutex is free *)
Definition buf_inv (h : holder) (sec : list ev) : Prop :=
  match h with
  | Some t => forall e, In e sec -> (fst e =? t) = true
  | None => sec = []
  end.

Lemma proj_all_own : forall t sec, (forall e, In e sec -> (fst e =? t) = true) ->
  forall u, u <> t -> proj u sec = [].
Proof.
  induction sec; simpl; intros H u Hne; auto.
  destruct (fst a =? u) eqn:E.
  - apply Nat.eqb_eq in E. specialize (H a (or_introl eq_refl)). apply Nat.eqb_eq in H. congruence.
  - apply IHsec; auto.
Qed.

Lemma buf_inv_snoc : forall t sec e, buf_inv (Some t) sec -> (fst e =? t) = true -> buf_inv (Some t) (sec ++ [e]).
Proof.
  unfold buf_inv; intros t sec e H He x Hx. apply in_app_or in Hx. destruct Hx as [Hx | [Hx | []]].
  - auto.
  - subst; auto.
Qed.

(* each thread performs the same events in the same order *)
Lemma norm_proj : forall u tr h sec, buf_inv h sec ->
  proj u (norm_aux h sec tr) = proj u sec ++ proj u tr.
Proof.
  induction tr as [| e r IH]; cbn [norm_aux]; intros h sec Hinv.
  - rewrite app_nil_r. reflexivity.
  - rewrite (proj_cons u e r).
    destruct h as [t |].
    + destruct (fst e =? t) eqn:Et.
      * destruct (releases (snd e)).
        -- rewrite proj_app, proj_app. rewrite (IH None []); [| reflexivity].
           rewrite <- app_assoc. reflexivity.
        -- rewrite (IH (Some t) (sec ++ [e])); [| apply buf_inv_snoc; auto].
           rewrite proj_app. rewrite <- app_assoc. reflexivity.
      * rewrite (proj_cons u e (norm_aux (Some t) sec r)). rewrite (IH (Some t) sec Hinv).
        destruct (Nat.eq_dec u t) as [-> | Hne].
        -- (* e is not an event of t *)
           assert (Hp : proj t [e] = []) by (unfold proj; simpl; rewrite Et; reflexivity).
           rewrite Hp. reflexivity.
        -- rewrite (proj_all_own t sec Hinv u Hne). simpl. reflexivity.
    + unfold buf_inv in Hinv. subst sec.
      destruct (acquires (snd e)).
      * rewrite (IH (Some (fst e)) [e]).
        -- reflexivity.
        -- unfold buf_inv. intros x [Hx | []]. subst. apply Nat.eqb_refl.
      * rewrite (proj_cons u e (norm_aux None [] r)). rewrite (IH None []); [| reflexivity]. reflexivity.
Qed.

(* the order of all shared accesses and lock operations is unchanged *)
Lemma sync_local : forall e : ev, snd e = ALocal -> sync [e] = [].
Proof. intros e H. unfold sync. simpl. rewrite H. reflexivity. Qed.

Lemma norm_sync : forall tr h sec, buf_inv h sec -> ok h tr = true ->
  sync (norm_aux h sec tr) = sync sec ++ sync tr.
Proof.
  induction tr as [| e r IH]; cbn [norm_aux]; intros h sec Hinv Hok.
  - rewrite app_nil_r. reflexivity.
  - rewrite (sync_cons e r).
    apply ok_cons in Hok. destruct Hok as [Hm [Hd Hr]].
    destruct h as [t |].
    + destruct (fst e =? t) eqn:Et.
      * destruct (releases (snd e)) eqn:Er.
        -- rewrite (next_release _ e Er) in Hr.
           rewrite sync_app, sync_app. rewrite (IH None []); auto; [| reflexivity].
           rewrite <- app_assoc. reflexivity.
        -- rewrite (next_own t e Et Er) in Hr.
           rewrite (IH (Some t) (sec ++ [e])); auto; [| apply buf_inv_snoc; auto].
           rewrite sync_app. rewrite <- app_assoc. reflexivity.
      * pose proof (foreign_is_local t e Hm Hd Et) as Hl.
        rewrite (next_local _ e Hl) in Hr.
        rewrite (sync_cons e (norm_aux (Some t) sec r)).
        rewrite (sync_local e Hl). simpl. apply IH; auto.
    + unfold buf_inv in Hinv. subst sec.
      destruct (acquires (snd e)) eqn:Ea.
      * rewrite (next_acq _ e Ea) in Hr.
        rewrite (IH (Some (fst e)) [e]); auto.
        unfold buf_inv. intros x [Hx | []]. subst. apply Nat.eqb_refl.
      * rewrite (next_free e Ea) in Hr.
        rewrite (sync_cons e (norm_aux None [] r)).
        rewrite (IH None []); auto. reflexivity.
Qed.

(* in the reordered execution every critical section is one contiguous block *)
Lemma contiguous_one : forall h e,
  contiguous h [e] = match h with Some t => fst e =? t | None => true end.
Proof. intros. simpl. rewrite andb_true_r. reflexivity. Qed.

Lemma norm_contiguous : forall tr h sec, buf_inv h sec -> ok h tr = true ->
  contiguous None sec = true -> hafter None sec = h ->
  contiguous None (norm_aux h sec tr) = true.
Proof.
  induction tr as [| e r IH]; cbn [norm_aux]; intros h sec Hinv Hok Hc Hh; auto.
  apply ok_cons in Hok. destruct Hok as [Hm [Hd Hr]].
  destruct h as [t |].
  - destruct (fst e =? t) eqn:Et.
    + destruct (releases (snd e)) eqn:Er.
      * rewrite (next_release _ e Er) in Hr.
        rewrite contiguous_app. apply andb_true_intro; split.
        -- rewrite contiguous_app, Hc, Hh, contiguous_one, Et. reflexivity.
        -- rewrite hafter_app, Hh. cbn [hafter]. rewrite (next_release _ e Er).
           apply IH; auto. reflexivity.
      * rewrite (next_own t e Et Er) in Hr.
        apply IH; auto.
        -- apply buf_inv_snoc; auto.
        -- rewrite contiguous_app, Hc, Hh, contiguous_one, Et. reflexivity.
        -- rewrite hafter_app, Hh. cbn [hafter]. apply next_own; auto.
    + pose proof (foreign_is_local t e Hm Hd Et) as Hl.
      rewrite (next_local _ e Hl) in Hr.
      cbn [contiguous]. rewrite (next_local _ e Hl). simpl. apply IH; auto.
  - unfold buf_inv in Hinv. subst sec.
    destruct (acquires (snd e)) eqn:Ea.
    + rewrite (next_acq _ e Ea) in Hr.
      apply IH; auto.
      * unfold buf_inv. intros x [Hx | []]. subst. apply Nat.eqb_refl.
      * cbn [hafter]. apply next_acq; auto.
    + rewrite (next_free e Ea) in Hr.
      cbn [contiguous]. rewrite (next_free e Ea). simpl. apply IH; auto. reflexivity.
Qed.

(* ... and is itself a legal, disciplined execution *)
Lemma ok_app : forall l1 l2 h, ok h (l1 ++ l2) = ok h l1 && ok (hafter h l1) l2.
Proof.
  intros. unfold ok. rewrite mutex_ok_app, disciplined_app.
  destruct (mutex_ok h l1), (disciplined h l1), (mutex_ok (hafter h l1) l2); simpl; auto.
Qed.

Lemma ok_one : forall h e, ok h [e] = mutex_okb h e && disc_okb h e.
Proof. intros. unfold ok. simpl. rewrite !andb_true_r. reflexivity. Qed.

Lemma norm_ok : forall tr h sec, buf_inv h sec -> ok h tr = true ->
  ok None sec = true -> hafter None sec = h ->
  ok None (norm_aux h sec tr) = true.
Proof.
  induction tr as [| e r IH]; cbn [norm_aux]; intros h sec Hinv Hok Hs Hh; auto.
  apply ok_cons in Hok. destruct Hok as [Hm [Hd Hr]].
  destruct h as [t |].
  - destruct (fst e =? t) eqn:Et.
    + destruct (releases (snd e)) eqn:Er.
      * rewrite (next_release _ e Er) in Hr.
        rewrite ok_app. apply andb_true_intro; split.
        -- rewrite ok_app, Hs, Hh, ok_one, Hm, Hd. reflexivity.
        -- rewrite hafter_app, Hh. cbn [hafter]. rewrite (next_release _ e Er).
           apply IH; auto. reflexivity.
      * rewrite (next_own t e Et Er) in Hr.
        apply IH; auto.
        -- apply buf_inv_snoc; auto.
        -- rewrite ok_app, Hs, Hh, ok_one, Hm, Hd. reflexivity.
        -- rewrite hafter_app, Hh. cbn [hafter]. apply next_own; auto.
    + pose proof (foreign_is_local t e Hm Hd Et) as Hl.
      rewrite (next_local _ e Hl) in Hr.
      change (e :: norm_aux (Some t) sec r) with ([e] ++ norm_aux (Some t) sec r).
      rewrite ok_app. apply andb_true_intro; split.
      * rewrite ok_one. unfold mutex_okb, disc_okb. rewrite Hl. reflexivity.
      * cbn [hafter]. rewrite (next_local _ e Hl). apply IH; auto.
  - unfold buf_inv in Hinv. subst sec.
    destruct (acquires (snd e)) eqn:Ea.
    + rewrite (next_acq _ e Ea) in Hr.
      apply IH; auto.
      * unfold buf_inv. intros x [Hx | []]. subst. apply Nat.eqb_refl.
      * rewrite ok_one, Hm, Hd. reflexivity.
      * cbn [hafter]. apply next_acq; auto.
    + rewrite (next_free e Ea) in Hr.
      change (e :: norm_aux None [] r) with ([e] ++ norm_aux None [] r).
      rewrite ok_app. apply andb_true_intro; split.
      * rewrite ok_one, Hm, Hd. reflexivity.
      * cbn [hafter]. rewrite (next_free e Ea). apply IH; auto. reflexivity.
Qed.

(* The reduction: an execution that respects the mutex and the lock discipline is equivalent — same
   events per thread, same order of every shared access and lock operation; only thread-local events of
   other threads moved — to one in which every critical section is a contiguous block. *)
Theorem reduction_l : forall tr, ok None tr = true ->
  contiguous None (normalise tr) = true /\
  ok None (normalise tr) = true /\
  (forall u, proj u (normalise tr) = proj u tr) /\
  sync (normalise tr) = sync tr.
Proof.
  intros tr Hok. unfold normalise. repeat split.
  - apply norm_contiguous; auto; reflexivity.
  - apply norm_ok; auto; reflexivity.
  - intro u. rewrite norm_proj; [reflexivity | reflexivity].
  - rewrite norm_sync; auto; reflexivity.
Qed.

(* ------------------------------------------------------------------ instances *)

(* threadpool.c as it is, one worker (1) and the submitter (0): the worker evaluates its predicate and
   waits; submit() enqueues, broadcasts, unlocks while the callback-side code of nobody interferes;
   thread-local events of the other thread fall inside both critical sections *)
Definition ex_trace : list ev :=
  [ (1, ALock); (0, ALocal); (1, AShared); (1, AWait);
    (0, ALock); (0, AShared); (1, ALocal); (0, AShared); (0, AUnlock);
    (1, AWake); (1, AShared); (0, ALocal); (1, AUnlock); (1, ALocal) ].

Example ex_trace_ok : ok None ex_trace = true /\ contiguous None ex_trace = false.
Proof. vm_compute. split; reflexivity. Qed.

Example ex_trace_normalised :
  normalise ex_trace =
  [ (0, ALocal); (1, ALock); (1, AShared); (1, AWait);
    (1, ALocal); (0, ALock); (0, AShared); (0, AShared); (0, AUnlock);
    (0, ALocal); (1, AWake); (1, AShared); (1, AUnlock); (1, ALocal) ] /\
  contiguous None (normalise ex_trace) = true.
Proof. vm_compute. split; reflexivity. Qed.

(* seeded change C09-6: the worker has evaluated its wait predicate under the mutex and is pre-empted at
   the call of pthread_cond_wait; destroy() writes status and broadcasts WITHOUT the mutex; the worker
   then becomes a waiter and is never woken.  A legal execution of the mutex, not disciplined, and the
   foreign shared accesses sit inside the worker's critical section: no atomic-step model covers it. *)
Definition c09_6_trace : list ev :=
  [ (1, ALock); (1, AShared); (0, AShared); (0, AShared); (1, AWait) ].

Example c09_6_not_disciplined :
  mutex_ok None c09_6_trace = true /\ disciplined None c09_6_trace = false /\
  hafter None [ (1, ALock); (1, AShared) ] = Some 1 /\
  nth_error c09_6_trace 2 = Some (0, AShared).
Proof. vm_compute. repeat split; reflexivity. Qed.
