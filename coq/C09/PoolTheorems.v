(* C09 — the theorems of Properties_C09.v, stated over [reachable] and assembled from the
   invariants of PoolSafety / PoolProgress / PoolFailure / PoolCtx / PoolRefine. *)
From Coq Require Import List ZArith Bool Arith Permutation.
From SqfsV Require Import C09.PoolModel C09.PoolLemmas C09.PoolSafety C09.PoolProgress
  C09.PoolFailure C09.PoolCtx C09.PoolRefine.
Import ListNotations.

Section Theorems.
Variable cb_val : nat -> nat.
Variable cb_st : nat -> Z.

(* ---- exactly once: the partition invariant ---- *)
(* the tickets handed back, in safe_done, in done, held by a worker between callback and
   store, being processed, and queued are together exactly 0 .. next_ticket-1, each once *)
Lemma pool_exactly_once_l : forall fx n s,
  reachable cb_val cb_st fx n s -> Permutation (tickets s) (seq 0 (next_ticket s)).
Proof. intros fx n s H. exact (exactly_once cb_val cb_st s (inv_reachable cb_val cb_st fx n s H)). Qed.

(* the complete invariant (data integrity of every list, counters) *)
Lemma pool_inv_l : forall fx n s, reachable cb_val cb_st fx n s -> Inv cb_val cb_st s.
Proof. exact (inv_reachable cb_val cb_st). Qed.

(* every ticket's callback completes at most once; what was handed back went through it *)
Lemma pool_callback_once_l : forall fx n s,
  reachable cb_val cb_st fx n s ->
  NoDup (g_ran s) /\ forall t, t < length (g_ret s) -> In t (g_ran s).
Proof.
  intros fx n s H. pose proof (inv_reachable cb_val cb_st fx n s H) as I.
  exact (conj (ran_once cb_val cb_st s I) (fun t Ht => returned_ran cb_val cb_st s t I Ht)).
Qed.

(* ---- FIFO ---- *)
(* the non-NULL dequeue results are f applied to a prefix of the accepted submissions, in order *)
Lemma pool_fifo_l : forall fx n s,
  reachable cb_val cb_st fx n s -> g_ret s = map cb_val (firstn (length (g_ret s)) (g_sub s)).
Proof. intros fx n s H. exact (fifo cb_val cb_st s (inv_reachable cb_val cb_st fx n s H)). Qed.

(* refinement (exported for C02): if no accepted item fails, the results of all completed API
   calls are those of the specification, whatever the schedule and the number of workers *)
Lemma pool_refines_fifo_l : forall fx n ls s es,
  run cb_val cb_st fx (init n) ls = Some (s, es) -> nofail cb_st (g_sub s) ->
  map snd (rets es) = spec_run cb_val [] (map fst (rets es)).
Proof. exact (pool_refines_fifo_l cb_val cb_st). Qed.

(* threadpool_serial.c computes the same specification *)
Lemma serial_refines_spec_l : forall os,
  nofail cb_st (subs os) -> serial_run cb_val cb_st serial_init os = spec_run cb_val [] os.
Proof. exact (serial_refines_spec_l cb_val cb_st). Qed.

(* ---- per-worker context exclusivity ---- *)
Lemma pool_ctx_exclusive_l : forall fx n ls s es w,
  run cb_val cb_st fx (init n) ls = Some (s, es) -> ctx_alt w false es.
Proof. exact (ctx_exclusive_l cb_val cb_st). Qed.

Lemma pool_ctx_valid_l : forall fx s l s' w it,
  step cb_val cb_st fx s l = Some (s', ECbBegin w it) -> w < length (ws s) /\ l = LWorker w.
Proof. exact (ctx_valid_l cb_val cb_st). Qed.

(* ---- no stuck state, no lost wake-up (repaired code) ---- *)
(* whenever an API call is in progress some thread can take a non-spurious step *)
Lemma pool_no_stuck_l : forall n s,
  n >= 1 -> reachable cb_val cb_st true n s -> busy s ->
  exists l, internal l = true /\ step cb_val cb_st true s l <> None.
Proof.
  intros n s Hn H B.
  refine (no_stuck cb_val cb_st true s eq_refl (inv_reachable cb_val cb_st true n s H)
            (sync_reachable cb_val cb_st true n s H) _ B).
  rewrite (ws_length_reachable cb_val cb_st true n s H). exact Hn.
Qed.

(* every non-spurious step of a worker or of the blocked main thread decreases the measure *)
Lemma pool_measure_decreases_l : forall fx n s l s' e,
  reachable cb_val cb_st fx n s -> internal l = true -> step cb_val cb_st fx s l = Some (s', e) ->
  mu s' < mu s.
Proof.
  intros fx n s l s' e H. exact (mu_decreases cb_val cb_st fx s l s' e (sync_reachable cb_val cb_st fx n s H)).
Qed.

(* hence at most [mu s] such steps fit before the pending call returns ... *)
Lemma pool_progress_bound_l : forall fx n s ls s' es,
  reachable cb_val cb_st fx n s -> Forall (fun l => internal l = true) ls ->
  run cb_val cb_st fx s ls = Some (s', es) -> length ls + mu s' <= mu s.
Proof.
  intros fx n s ls s' es H.
  exact (internal_run_bounded cb_val cb_st fx ls s s' es (inv_reachable cb_val cb_st fx n s H)
           (sync_reachable cb_val cb_st fx n s H)).
Qed.

(* ... and it can always be completed: submit, dequeue, get_status and destroy return *)
Lemma pool_call_returns_l : forall n s,
  n >= 1 -> reachable cb_val cb_st true n s ->
  exists ls s' es, Forall (fun l => internal l = true) ls /\
    run cb_val cb_st true s ls = Some (s', es) /\ ~ busy s'.
Proof.
  intros n s Hn H.
  refine (call_returns cb_val cb_st true (mu s) s eq_refl (le_n _) (inv_reachable cb_val cb_st true n s H)
            (sync_reachable cb_val cb_st true n s H) _).
  rewrite (ws_length_reachable cb_val cb_st true n s H). exact Hn.
Qed.

(* destroy returns only after every worker has exited *)
Lemma pool_destroy_joins_all_l : forall fx n s,
  reachable cb_val cb_st fx n s -> ms s = MDead -> Forall (fun x => x = WExited) (ws s).
Proof.
  intros fx n s H E. exact (proj2 (y_dead fx s (sync_reachable cb_val cb_st fx n s H) E)).
Qed.

(* ---- failure is reported ---- *)
(* the error status latches *)
Lemma pool_status_sticky_l : forall fx s l s' e,
  step cb_val cb_st fx s l = Some (s', e) -> status s <> 0%Z -> status s' <> 0%Z.
Proof. exact (status_sticky cb_val cb_st). Qed.

(* an item whose callback failed and that was handed back: the status is set ... *)
Lemma pool_failure_latched_l : forall fx n s k d0,
  reachable cb_val cb_st fx n s -> k < length (g_ret s) -> nth_error (g_sub s) k = Some d0 ->
  cb_st d0 <> 0%Z -> status s <> 0%Z.
Proof.
  intros fx n s k d0 H.
  exact (failure_latched cb_st s k d0 (proj2 (proj2 (all_reachable cb_val cb_st fx n s H)))).
Qed.

(* ... it is a status some completed callback really returned ... *)
Lemma pool_status_genuine_l : forall fx n s,
  reachable cb_val cb_st fx n s -> status s <> 0%Z -> ~ destroyed s ->
  exists t d0, In t (g_ran s) /\ nth_error (g_sub s) t = Some d0 /\ status s = cb_st d0.
Proof.
  intros fx n s H. exact (f_why cb_st s (proj2 (proj2 (all_reachable cb_val cb_st fx n s H)))).
Qed.

(* ... submit reports it and accepts nothing, get_status reports it ... *)
Lemma pool_submit_after_failure_l : forall fx s d s' e,
  status s <> 0%Z -> step cb_val cb_st fx s (LCall (OSubmit d)) = Some (s', e) ->
  e = ERet (OSubmit d) (RStatus (status s)) /\ g_sub s' = g_sub s /\ queue s' = queue s /\ status s' = status s.
Proof. exact (submit_after_failure cb_val cb_st). Qed.

Lemma pool_get_status_reports_l : forall fx s s' e,
  step cb_val cb_st fx s (LCall OStatus) = Some (s', e) -> e = ERet OStatus (RStatus (status s)) /\ s' = s.
Proof. exact (get_status_reports cb_val cb_st). Qed.

(* ... and dequeue answers NULL only for an empty pipeline or a failed pool (it returns in every
   case: pool_no_stuck / pool_call_returns make no assumption about the status) *)
Lemma pool_dequeue_null_only_if_l : forall fx s l s',
  step cb_val cb_st fx s l = Some (s', ERet ODequeue RNull) ->
  item_count s = 0 \/ (fx = true /\ status s <> 0%Z).
Proof. exact (dequeue_null_only_if cb_val cb_st). Qed.

End Theorems.
