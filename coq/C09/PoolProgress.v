(* C09 — synchronisation invariants, absence of stuck states (no lost wake-up, no
   deadlock, also after a worker failure) and the termination measure. *)
From Coq Require Import List ZArith Bool Arith Lia Permutation.
From SqfsV Require Import C09.PoolModel C09.PoolLemmas C09.PoolSafety.
Import ListNotations.

Section Progress.
Variable cb_val : nat -> nat.
Variable cb_st : nat -> Z.
Variable fx : bool.

Notation step := (step cb_val cb_st fx).
Notation run := (run cb_val cb_st fx).
Notation worker_step := (worker_step cb_val cb_st).
Notation Inv := (Inv cb_val cb_st).
Notation reachable := (reachable cb_val cb_st fx).

Ltac psimpl :=
  cbn [queue done safe_done next_ticket next_deq item_count status ws ms g_sub g_ret g_ran
       set_ws set_ms set_w store_completed give_back fst snd] in *.

Ltac inj_fst H :=
  apply (f_equal (fun o : option (pool * event) => match o with Some p => Some (fst p) | None => None end)) in H;
  cbn beta iota in H; cbn [fst] in H; injection H as H; subst.

Fixpoint sorted (l : list nat) : Prop :=
  match l with
  | [] => True
  | x :: r => Forall (fun y => x <= y) r /\ sorted r
  end.

Definition all_exited_below (l : list wstate) (i : nat) : Prop :=
  forall j, j < i -> j < length l -> nth_error l j = Some WExited.

Record Sync (s : pool) : Prop := {
  y_sorted : sorted (map fst (done s));
  y_waitq : In WWaiting (ws s) -> queue s = [];
  y_exit : In WExited (ws s) -> status s <> 0%Z;
  y_dwait : ms s = MDeqWait ->
            (fx = true -> status s = 0%Z) /\ ~ In (next_deq s) (map fst (done s)) /\ item_count s <> 0;
  y_dwoken : ms s = MDeqWoken -> item_count s <> 0;
  y_join : forall i, ms s = MJoin i ->
            status s <> 0%Z /\ ~ In WWaiting (ws s) /\ i < length (ws s) /\ all_exited_below (ws s) i;
  y_dead : ms s = MDead -> status s <> 0%Z /\ Forall (fun x => x = WExited) (ws s)
}.

(* ---- facts ---- *)
Lemma sorted_insert : forall it l, sorted (map fst l) -> sorted (map fst (insert_done it l)).
Proof.
  induction l as [|a r IH]; simpl; intros.
  - split; [constructor|exact I].
  - destruct H as [Ha Hr]. destruct (Nat.leb_spec (fst it) (fst a)); simpl.
    + split; [|split; auto]. constructor; [assumption|]. eapply Forall_impl; [|exact Ha]. simpl. intros. lia.
    + split; [|auto]. apply Forall_forall. intros y Hy. apply in_map_iff in Hy. destruct Hy as [z [<- Hz]].
      apply In_insert in Hz. destruct Hz as [->|Hz]; [lia|].
      rewrite Forall_forall in Ha. apply Ha. apply in_map. assumption.
Qed.

Lemma sorted_tail : forall x r, sorted (x :: r) -> sorted r.
Proof. simpl. tauto. Qed.

Lemma no_waiting_wake : forall l, ~ In WWaiting (map wake_worker l).
Proof.
  intros l H. apply in_map_iff in H. destruct H as [x [Hx _]]. destruct x; discriminate.
Qed.

Lemma exited_wake : forall l, In WExited (map wake_worker l) -> In WExited l.
Proof.
  intros l H. apply in_map_iff in H. destruct H as [x [Hx Hi]]. destruct x; try discriminate. assumption.
Qed.

Lemma wake_nth : forall l j x, nth_error l j = Some x -> nth_error (map wake_worker l) j = Some (wake_worker x).
Proof. intros. rewrite nth_error_map, H. reflexivity. Qed.

Lemma all_exited_wake : forall l i, all_exited_below l i -> all_exited_below (map wake_worker l) i.
Proof.
  unfold all_exited_below. intros. rewrite map_length in H1. erewrite wake_nth; [|apply H; auto]. reflexivity.
Qed.

Lemma all_exited_upd : forall l i w x y,
  all_exited_below l i -> nth_error l w = Some x -> x <> WExited -> all_exited_below (upd l w y) i.
Proof.
  unfold all_exited_below. intros. rewrite upd_length in H3.
  destruct (Nat.eq_dec w j).
  - subst. rewrite H in H0 by assumption. congruence.
  - rewrite upd_nth_other by assumption. apply H; auto.
Qed.

(* the ticket dequeue waits for is not in the done list *)
Lemma done_ge : forall s t, Inv s -> In t (map fst (done s)) -> next_deq s <= t.
Proof.
  intros s t H Hin. destruct (Nat.le_gt_cases (next_deq s) t); [assumption|exfalso].
  apply cnt_In in Hin. pose proof (i_cnt _ _ s H t) as i_cnt0. pose proof (i_safe _ _ s H) as i_safe0.
  pose proof (i_nd _ _ s H) as i_nd0. unfold tcount in i_cnt0.
  rewrite i_safe0, cnt_seq0, cnt_seq in i_cnt0.
  destruct (Nat.ltb_spec t (length (g_ret s))), (Nat.leb_spec (length (g_ret s)) t),
    (Nat.ltb_spec t (length (g_ret s) + length (safe_done s))), (Nat.ltb_spec t (next_ticket s));
    simpl in i_cnt0; lia.
Qed.

Lemma head_not_next : forall s, Inv s -> sorted (map fst (done s)) ->
  (done s = [] \/ exists it r, done s = it :: r /\ fst it <> next_deq s) ->
  ~ In (next_deq s) (map fst (done s)).
Proof.
  intros s H Hs [E|[it [r [E Hne]]]]; rewrite E in *; simpl; [tauto|].
  intros [Heq|Hin]; [congruence|].
  assert (next_deq s <= fst it) by (apply done_ge; auto; rewrite E; simpl; auto).
  destruct Hs as [Hall _]. rewrite Forall_forall in Hall. specialize (Hall _ Hin). lia.
Qed.

(* ---- first_alive ---- *)
Lemma first_alive_spec : forall l i,
  match first_alive l i with
  | Some j => i <= j /\ j - i < length l /\ (exists x, nth_error l (j - i) = Some x /\ x <> WExited) /\
              forall k, k < j - i -> nth_error l k = Some WExited
  | None => Forall (fun x => x = WExited) l
  end.
Proof.
  induction l as [|x r IH]; simpl; intros; [constructor|].
  assert (Hhere : x <> WExited ->
    i <= i /\ i - i < S (length r) /\ (exists x0, nth_error (x :: r) (i - i) = Some x0 /\ x0 <> WExited) /\
    (forall k, k < i - i -> nth_error (x :: r) k = Some WExited)).
  { intros. rewrite Nat.sub_diag. repeat split; try lia. exists x. simpl. auto. }
  destruct x; try (apply Hhere; discriminate).
  specialize (IH (S i)). destruct (first_alive r (S i)) as [j|].
  - destruct IH as [? [? [[x [Hx Hne]] Hk]]]. replace (j - i) with (S (j - S i)) by lia.
    repeat split; try lia.
    + exists x. simpl. auto.
    + intros k Hlt. destruct k; simpl; auto. apply Hk. lia.
  - constructor; auto.
Qed.

Lemma skipn_nth : forall A (l : list A) i k, nth_error (skipn i l) k = nth_error l (i + k).
Proof. induction l; destruct i; simpl; intros; auto. destruct k; reflexivity. Qed.

Lemma join_from_sync : forall s i,
  Sync s -> status s <> 0%Z -> ~ In WWaiting (ws s) -> all_exited_below (ws s) i ->
  ms s <> MDeqWait -> Sync (fst (join_from s i)).
Proof.
  intros s i H Hst Hnw Hex Hm. unfold join_from.
  pose proof (first_alive_spec (skipn i (ws s)) i) as F.
  destruct (first_alive (skipn i (ws s)) i) as [j|]; simpl.
  - destruct F as [F1 [F2 [[x [F3 F3']] F4]]]. rewrite skipn_length in F2. rewrite skipn_nth in F3.
    destruct H. constructor; psimpl; auto; try discriminate.
    intros i0 E. inversion E; subst i0. repeat split; auto; try lia.
    unfold all_exited_below. intros k Hk Hl. destruct (Nat.lt_ge_cases k i).
    + apply Hex; auto.
    + specialize (F4 (k - i)). rewrite skipn_nth in F4. replace (i + (k - i)) with k in F4 by lia. apply F4. lia.
  - destruct H. constructor; psimpl; auto; try discriminate.
    intros _. split; auto. apply Forall_forall. intros x Hx. apply In_nth_error in Hx. destruct Hx as [k Hk].
    destruct (Nat.lt_ge_cases k i).
    + rewrite Hex in Hk; auto; [congruence|]. eapply nth_error_lt; eauto.
    + rewrite Forall_forall in F. apply F. apply (nth_error_In _ (k - i)). rewrite skipn_nth.
      replace (i + (k - i)) with k by lia. assumption.
Qed.

(* ---- preservation ---- *)
Lemma sync_init : forall n, Sync (init n).
Proof.
  intros. constructor; unfold init; psimpl; simpl; auto; try discriminate.
  - intros H. apply repeat_spec in H. discriminate.
Qed.

Lemma status_store : forall s it st, status s <> 0%Z -> status (store_completed s it st) <> 0%Z.
Proof.
  intros. unfold store_completed; psimpl.
  destruct (negb (st =? 0)%Z && (status s =? 0)%Z) eqn:E; auto.
  apply andb_true_iff in E. destruct E as [E _]. apply negb_true_iff in E. apply Z.eqb_neq in E. assumption.
Qed.

(* a worker whose state is replaced by a non-waiting, non-exited state *)
Lemma sync_set_w : forall s w x y,
  Sync s -> nth_error (ws s) w = Some x -> x <> WExited ->
  (y = WWaiting -> queue s = [] /\ forall i, ms s <> MJoin i) ->
  (y = WExited -> status s <> 0%Z) ->
  ms s <> MDead ->
  Sync (set_w s w y).
Proof.
  intros s w x y H Hn Hx Hyw Hye Hmd. destruct H. constructor; unfold set_w; psimpl; auto.
  - intros Hin. apply upd_In in Hin. destruct Hin as [E|Hin]; auto. symmetry in E. apply Hyw in E. tauto.
  - intros Hin. apply upd_In in Hin. destruct Hin as [E|Hin]; auto.
  - intros i E. destruct (y_join0 i E) as [? [? [? ?]]]. repeat split; auto.
    + intros Hin. apply upd_In in Hin. destruct Hin as [E'|Hin]; auto. symmetry in E'. apply Hyw in E'.
      destruct E' as [_ E']. apply (E' i). assumption.
    + rewrite upd_length. assumption.
    + eapply all_exited_upd; eauto.
  - intros E. contradiction.
Qed.

Lemma sync_get_next : forall s w x,
  Sync s -> nth_error (ws s) w = Some x -> x <> WExited -> x <> WWaiting ->
  Sync (fst (get_next s w)).
Proof.
  intros s w x H Hn Hx Hxw. unfold get_next.
  assert (Hmd : ms s <> MDead).
  { intros E. destruct (y_dead s H E) as [_ F]. rewrite Forall_forall in F. apply Hx. apply F. eapply nth_error_In; eauto. }
  destruct (Z.eqb_spec (status s) 0).
  - destruct (queue s) as [|it r] eqn:Q; simpl.
    + eapply sync_set_w; eauto; try discriminate.
      intros _. split; auto. intros i E. destruct (y_join s H i E). contradiction.
    + assert (Hnw : ~ In WWaiting (ws s)).
      { intros Hin. apply (y_waitq s H) in Hin. congruence. }
      destruct H. constructor; psimpl; auto.
      * intros Hin. apply upd_In in Hin. destruct Hin as [E|Hin]; [discriminate|contradiction].
      * intros Hin. apply upd_In in Hin. destruct Hin as [E|Hin]; [discriminate|auto].
      * intros i E. destruct (y_join0 i E). contradiction.
      * intros E. contradiction.
  - simpl. eapply sync_set_w; eauto; try discriminate.
Qed.

Lemma sync_worker_step : forall s w s' e, Inv s -> Sync s -> worker_step s w = Some (s', e) -> Sync s'.
Proof.
  intros s w s' e HI H Hs. unfold PoolModel.worker_step in Hs.
  destruct (nth_error (ws s) w) as [x|] eqn:Hn; [|discriminate].
  assert (Hmd : ms s <> MDead \/ x = WExited).
  { destruct (ms s) eqn:E; try (left; discriminate). right.
    destruct (y_dead s H E) as [_ F]. rewrite Forall_forall in F. apply F. eapply nth_error_In; eauto. }
  destruct x as [[[it st]|]| | |[t d]|]; try discriminate.
  - inj_fst Hs. eapply sync_get_next with (x := WReady (Some (it, st))); try discriminate.
    + destruct H. constructor; unfold store_completed; psimpl; auto.
      * apply sorted_insert. assumption.
      * intros Hin. apply y_exit0 in Hin. apply (status_store s it st). assumption.
      * intros E. destruct (ms s); discriminate.
      * intros E. destruct (ms s) eqn:M; try discriminate; auto. apply y_dwait0; auto.
      * intros i E. destruct (ms s) eqn:M; try discriminate. inversion E; subst.
        destruct (y_join0 i eq_refl) as [? ?]. split; auto. apply (status_store s it st). assumption.
      * intros E. destruct (ms s) eqn:M; try discriminate.
        destruct (y_dead0 eq_refl) as [? ?]. split; auto. apply (status_store s it st). assumption.
    + unfold store_completed; psimpl. eassumption.
  - inj_fst Hs. eapply sync_get_next; eauto; discriminate.
  - inj_fst Hs. eapply sync_get_next; eauto; discriminate.
  - cbv zeta in Hs. injection Hs as Hs He. subst s'.
    destruct Hmd as [Hmd|?]; [|discriminate].
    apply (sync_set_w s w (WWorking (t, d)) (WReady (Some ((t, cb_val d), cb_st d)))) in H; auto; try discriminate.
    destruct H. constructor; unfold set_w in *; psimpl; auto.
Qed.

Lemma drain_sync : forall dn nd sf dn' nd' sf',
  drain dn nd sf = (dn', nd', sf') -> sorted (map fst dn) -> sorted (map fst dn').
Proof.
  induction dn as [|it r IH]; simpl; intros.
  - inversion H; subst. exact I.
  - destruct (fst it =? nd).
    + eapply IH; eauto. tauto.
    + inversion H; subst. assumption.
Qed.

Lemma sync_step : forall s l s' e, Inv s -> Sync s -> step s l = Some (s', e) -> Sync s'.
Proof.
  intros s l s' e HI H Hs. destruct l; simpl in Hs.
  - (* API call *)
    destruct (ms s) eqn:Hm; try discriminate.
    destruct o; simpl in Hs.
    + (* submit *)
      unfold submit in Hs. destruct (drain (done s) (next_deq s) (safe_done s)) as [[dn nd] sf] eqn:D.
      inj_fst Hs. apply drain_sync in D; [|apply (y_sorted s H)].
      destruct H. constructor; psimpl; auto; try (rewrite Hm; discriminate).
      * intros Hin. apply no_waiting_wake in Hin. contradiction.
      * intros Hin. apply exited_wake in Hin. auto.
    + (* dequeue *)
      unfold dequeue in Hs. destruct (Nat.eqb_spec (item_count s) 0).
      { inj_fst Hs. assumption. }
      destruct (safe_done s) as [|it r] eqn:Sf.
      2:{ inj_fst Hs. destruct H. constructor; psimpl; auto; try discriminate. }
      unfold dequeue_locked in Hs.
      assert (Hwait : fx && negb (status s =? 0)%Z = false ->
                (done s = [] \/ exists it r, done s = it :: r /\ fst it <> next_deq s) -> Sync (set_ms s MDeqWait)).
      { intros Hf Hd. pose proof (head_not_next s HI (y_sorted s H) Hd).
        destruct H. constructor; psimpl; auto; try discriminate.
        intros _. repeat split; auto. intros ->. simpl in Hf. apply negb_false_iff in Hf. apply Z.eqb_eq in Hf. assumption. }
      assert (Hidle : Sync (set_ms s MIdle)).
      { destruct H. constructor; psimpl; auto; try discriminate. }
      destruct (done s) as [|it r] eqn:Dn.
      * destruct (fx && negb (status s =? 0)%Z) eqn:F; inj_fst Hs; auto.
      * destruct (Nat.eqb_spec (fst it) (next_deq s)).
        -- inj_fst Hs. destruct H. rewrite Dn in *. constructor; psimpl; auto; try discriminate.
           simpl in y_sorted0. tauto.
        -- destruct (fx && negb (status s =? 0)%Z) eqn:F; inj_fst Hs; auto.
           apply Hwait; auto. right. eauto.
    + inj_fst Hs. assumption.
    + (* destroy *)
      inj_fst Hs. unfold destroy. apply join_from_sync; psimpl; try discriminate.
      * destruct H. constructor; psimpl; auto; try (rewrite Hm; discriminate).
        -- intros Hin. apply no_waiting_wake in Hin. contradiction.
        -- discriminate.
      * apply no_waiting_wake.
      * unfold all_exited_below. intros. lia.
      * rewrite Hm. discriminate.
  - (* main continues *)
    destruct (ms s) eqn:Hm; try discriminate.
    + (* woken in dequeue *)
      unfold dequeue_locked in Hs.
      pose proof (y_dwoken s H Hm) as Hic.
      assert (Hwait : fx && negb (status s =? 0)%Z = false ->
                (done s = [] \/ exists it r, done s = it :: r /\ fst it <> next_deq s) -> Sync (set_ms s MDeqWait)).
      { intros Hf Hd. pose proof (head_not_next s HI (y_sorted s H) Hd).
        destruct H. constructor; psimpl; auto; try discriminate.
        intros _. repeat split; auto. intros ->. simpl in Hf. apply negb_false_iff in Hf. apply Z.eqb_eq in Hf. assumption. }
      assert (Hidle : Sync (set_ms s MIdle)).
      { destruct H. constructor; psimpl; auto; try discriminate. }
      destruct (done s) as [|it r] eqn:Dn.
      * destruct (fx && negb (status s =? 0)%Z) eqn:F; inj_fst Hs; auto.
      * destruct (Nat.eqb_spec (fst it) (next_deq s)).
        -- inj_fst Hs. destruct H. rewrite Dn in *. constructor; psimpl; auto; try discriminate.
           simpl in y_sorted0. tauto.
        -- destruct (fx && negb (status s =? 0)%Z) eqn:F; inj_fst Hs; auto.
           apply Hwait; auto. right. eauto.
    + (* join *)
      destruct (nth_error (ws s) i) as [x|] eqn:Hn; try discriminate. destruct x; try discriminate.
      inj_fst Hs. destruct (y_join s H i Hm) as [J1 [J2 [J3 J4]]].
      apply join_from_sync; auto.
      * unfold all_exited_below. intros j Hj Hl. destruct (Nat.eq_dec j i); [subst; assumption|]. apply J4; lia.
      * rewrite Hm. discriminate.
  - destruct (ms s) eqn:Hm; try discriminate. inj_fst Hs.
    destruct H. constructor; psimpl; auto; try discriminate. intros _. apply y_dwait0; auto.
  - eapply sync_worker_step; eauto.
  - destruct (nth_error (ws s) w) as [x|] eqn:Hn; try discriminate. destruct x; try discriminate. inj_fst Hs.
    eapply sync_set_w; eauto; try discriminate.
    intros E. destruct (y_dead s H E) as [_ F]. rewrite Forall_forall in F.
    assert (WWaiting = WExited) by (apply F; eapply nth_error_In; eauto). discriminate.
Qed.

Lemma both_run : forall ls s s' es, Inv s -> Sync s -> run s ls = Some (s', es) -> Inv s' /\ Sync s'.
Proof.
  induction ls; simpl; intros.
  - inversion H1; subst. auto.
  - destruct (step s a) as [[s1 e]|] eqn:Hs; [|discriminate].
    destruct (PoolModel.run cb_val cb_st fx s1 ls) as [[s2 es']|] eqn:Hr; [|discriminate]. inversion H1; subst.
    eapply IHls; [| |eassumption].
    + eapply inv_step; eauto.
    + eapply sync_step; eauto.
Qed.

Lemma sync_reachable : forall n s, reachable n s -> Sync s.
Proof. intros n s [ls [es H]]. eapply both_run; [apply inv_init|apply sync_init|eassumption]. Qed.

Lemma ws_length_step : forall s l s' e, step s l = Some (s', e) -> length (ws s') = length (ws s).
Proof.
  intros s l s' e Hs. destruct l; simpl in Hs.
  - destruct (ms s); try discriminate. destruct o; simpl in Hs.
    + unfold submit in Hs. destruct (drain (done s) (next_deq s) (safe_done s)) as [[dn nd] sf].
      inj_fst Hs. psimpl. apply map_length.
    + unfold dequeue, dequeue_locked in Hs.
      destruct (item_count s =? 0); [inj_fst Hs; reflexivity|].
      destruct (safe_done s); [|inj_fst Hs; reflexivity].
      destruct (done s) as [|it r]; [|destruct (fst it =? next_deq s)];
        try destruct (fx && negb (status s =? 0)%Z); inj_fst Hs; reflexivity.
    + inj_fst Hs. reflexivity.
    + unfold destroy, join_from in Hs. psimpl.
      destruct (first_alive (skipn 0 (map wake_worker (ws s))) 0); inj_fst Hs; psimpl; apply map_length.
  - destruct (ms s); try discriminate.
    + unfold dequeue_locked in Hs.
      destruct (done s) as [|it r]; [|destruct (fst it =? next_deq s)];
        try destruct (fx && negb (status s =? 0)%Z); inj_fst Hs; reflexivity.
    + destruct (nth_error (ws s) i) as [[]|]; try discriminate. unfold join_from in Hs.
      destruct (first_alive (skipn (S i) (ws s)) (S i)); inj_fst Hs; reflexivity.
  - destruct (ms s); try discriminate. inj_fst Hs. reflexivity.
  - unfold PoolModel.worker_step in Hs. destruct (nth_error (ws s) w) as [x|]; [|discriminate].
    assert (G : forall s0, length (ws (fst (get_next s0 w))) = length (ws s0)).
    { intros. unfold get_next. destruct (status s0 =? 0)%Z; [destruct (queue s0)|]; simpl; apply upd_length. }
    destruct x as [[[it st]|]| | |[t d]|]; try discriminate.
    + inj_fst Hs. rewrite G. reflexivity.
    + inj_fst Hs. apply G.
    + inj_fst Hs. apply G.
    + cbv zeta in Hs. injection Hs as Hs _. subst. psimpl. apply upd_length.
  - destruct (nth_error (ws s) w) as [[]|]; try discriminate. inj_fst Hs. unfold set_w; psimpl. apply upd_length.
Qed.

Lemma ws_length_run : forall ls s0 s es, run s0 ls = Some (s, es) -> length (ws s) = length (ws s0).
Proof.
  induction ls as [|a ls IH]; simpl; intros s0 s es H.
  - inversion H; subst. reflexivity.
  - destruct (step s0 a) as [[s1 e]|] eqn:Hs; [|discriminate].
    destruct (PoolModel.run cb_val cb_st fx s1 ls) as [[s2 es']|] eqn:Hr; [|discriminate]. inversion H; subst.
    erewrite IH by eassumption. eapply ws_length_step; eauto.
Qed.

Lemma ws_length_reachable : forall n s, reachable n s -> length (ws s) = n.
Proof.
  intros n s [ls [es H]]. apply ws_length_run in H. rewrite H. unfold init; simpl. apply repeat_length.
Qed.

(* ---- no stuck state ---- *)
Definition busy (s : pool) : Prop := ms s <> MIdle /\ ms s <> MDead.

Definition internal (l : label) : bool :=
  match l with LMain | LWorker _ => true | _ => false end.

Lemma worker_enabled_step : forall s w x,
  nth_error (ws s) w = Some x -> worker_enabled x = true -> worker_step s w <> None.
Proof.
  intros. unfold PoolModel.worker_step. rewrite H.
  destruct x as [[[it st]|]| | |[t d]|]; simpl in *; try discriminate.
Qed.

Lemma in_flat_ex : forall (f : wstate -> list nat) l t,
  In t (flat_map f l) -> exists w x, nth_error l w = Some x /\ In t (f x).
Proof.
  intros. apply in_flat_map in H. destruct H as [x [Hx Ht]]. apply In_nth_error in Hx.
  destruct Hx as [w Hw]. eauto.
Qed.

Theorem no_stuck : forall s,
  fx = true -> Inv s -> Sync s -> length (ws s) >= 1 -> busy s ->
  exists l, internal l = true /\ step s l <> None.
Proof.
  intros s Hfx HI HS Hn [Hb1 Hb2].
  destruct (ms s) eqn:Hm; try contradiction.
  - (* waiting in dequeue: the awaited ticket is with a worker or queued *)
    destruct (y_dwait s HS Hm) as [Hst [Hnd Hic]]. specialize (Hst Hfx).
    pose proof (i_mw _ _ s HI (or_introl Hm)) as Hsafe.
    pose proof (i_cnt _ _ s HI (next_deq s)) as Hc. unfold tcount in Hc.
    pose proof (i_nd _ _ s HI) as Hnd'. pose proof (i_ic _ _ s HI) as Hic'.
    rewrite Hsafe in *. simpl in Hc, Hnd'. rewrite cnt_seq0 in Hc.
    apply cnt_notIn in Hnd. rewrite Hnd in Hc.
    destruct (Nat.ltb_spec (next_deq s) (length (g_ret s))); [lia|].
    destruct (Nat.ltb_spec (next_deq s) (next_ticket s)); [|lia].
    destruct (Nat.eq_dec (cnt (flat_map (@htix) (ws s)) (next_deq s)) 0) as [Eh|Eh].
    + destruct (Nat.eq_dec (cnt (flat_map (@ktix) (ws s)) (next_deq s)) 0) as [Ek|Ek].
      * (* queued: no worker is waiting or has exited, so worker 0 can move *)
        assert (Hq : queue s <> []). { intros E. rewrite E in Hc. simpl in Hc. lia. }
        destruct (ws s) as [|x r] eqn:W; [simpl in Hn; lia|].
        exists (LWorker 0). split; [reflexivity|]. simpl.
        apply (worker_enabled_step s 0 x); [rewrite W; reflexivity|].
        destruct x; simpl; auto.
        -- exfalso. apply Hq. apply (y_waitq s HS). rewrite W. simpl. auto.
        -- exfalso. apply (y_exit s HS); auto. rewrite W. simpl. auto.
      * assert (Hin : In (next_deq s) (flat_map (@ktix) (ws s))) by (apply cnt_In; lia).
        apply in_flat_ex in Hin. destruct Hin as [w [x [Hw Hx]]].
        exists (LWorker w). split; [reflexivity|]. simpl. apply (worker_enabled_step s w x); auto.
        destruct x; simpl in Hx; try contradiction. reflexivity.
    + assert (Hin : In (next_deq s) (flat_map (@htix) (ws s))) by (apply cnt_In; lia).
      apply in_flat_ex in Hin. destruct Hin as [w [x [Hw Hx]]].
      exists (LWorker w). split; [reflexivity|]. simpl. apply (worker_enabled_step s w x); auto.
      destruct x; simpl in Hx; try contradiction. reflexivity.
  - exists LMain. split; [reflexivity|]. simpl. rewrite Hm. discriminate.
  - (* joining worker i *)
    destruct (y_join s HS i Hm) as [J1 [J2 [J3 J4]]].
    destruct (nth_error (ws s) i) as [x|] eqn:Hx; [|apply nth_error_None in Hx; lia].
    destruct (worker_enabled x) eqn:E.
    + exists (LWorker i). split; [reflexivity|]. simpl. eapply worker_enabled_step; eauto.
    + destruct x; simpl in E; try discriminate.
      * exfalso. apply J2. eapply nth_error_In; eauto.
      * exists LMain. split; [reflexivity|]. simpl. rewrite Hm, Hx. discriminate.
Qed.

(* ---- termination measure ---- *)
Definition wmu (x : wstate) : nat :=
  match x with
  | WReady None => 1 | WReady (Some _) => 2 | WWoken => 1 | WWorking _ => 3 | WWaiting => 0 | WExited => 0
  end.
Definition mmu (n : nat) (m : mstate) : nat :=
  match m with MDeqWoken => 1 | MJoin i => 2 + (n - i) | _ => 0 end.
Definition mu (s : pool) : nat :=
  3 * length (queue s) + sum_map wmu (ws s) + mmu (length (ws s)) (ms s).

Lemma mu_get_next : forall s w x,
  nth_error (ws s) w = Some x -> mu (fst (get_next s w)) + wmu x = mu s.
Proof.
  intros s w x Hn. unfold get_next, mu.
  destruct (status s =? 0)%Z; [destruct (queue s) as [|it r] eqn:Q|]; cbn [fst]; unfold set_w; psimpl;
    rewrite ?upd_length, ?Q; cbn [length].
  - pose proof (upd_sum _ wmu _ _ _ WWaiting Hn). simpl in H. lia.
  - pose proof (upd_sum _ wmu _ _ _ (WWorking it) Hn). simpl in H. lia.
  - pose proof (upd_sum _ wmu _ _ _ WExited Hn). simpl in H. lia.
Qed.

Lemma mmu_wake : forall n m, mmu n (wake_main m) <= S (mmu n m).
Proof. destruct m; simpl; lia. Qed.

Theorem mu_decreases : forall s l s' e,
  Sync s -> internal l = true -> step s l = Some (s', e) -> mu s' < mu s.
Proof.
  intros s l s' e HS Hl Hs. destruct l; simpl in Hl; try discriminate; simpl in Hs.
  - destruct (ms s) eqn:Hm; try discriminate.
    + unfold dequeue_locked in Hs.
      destruct (done s) as [|it r]; [|destruct (fst it =? next_deq s)];
        try destruct (fx && negb (status s =? 0)%Z); inj_fst Hs; unfold mu; psimpl; rewrite Hm; simpl; lia.
    + destruct (nth_error (ws s) i) as [[]|] eqn:Hx; try discriminate.
      destruct (y_join s HS i Hm) as [_ [_ [J3 _]]].
      unfold join_from in Hs. pose proof (first_alive_spec (skipn (S i) (ws s)) (S i)) as F.
      destruct (first_alive (skipn (S i) (ws s)) (S i)) as [j|]; inj_fst Hs; unfold mu; psimpl; rewrite Hm; simpl.
      * destruct F as [F1 [F2 _]]. rewrite skipn_length in F2. lia.
      * lia.
  - unfold PoolModel.worker_step in Hs. destruct (nth_error (ws s) w) as [x|] eqn:Hn; [|discriminate].
    destruct x as [[[it st]|]| | |[t d]|]; try discriminate.
    + inj_fst Hs.
      assert (Hn' : nth_error (ws (store_completed s it st)) w = Some (WReady (Some (it, st)))) by assumption.
      pose proof (mu_get_next _ _ _ Hn') as G. simpl in G.
      assert (mu (store_completed s it st) <= S (mu s)).
      { unfold mu, store_completed; psimpl. pose proof (mmu_wake (length (ws s)) (ms s)). lia. }
      lia.
    + inj_fst Hs. pose proof (mu_get_next _ _ _ Hn) as G. simpl in G. lia.
    + inj_fst Hs. pose proof (mu_get_next _ _ _ Hn) as G. simpl in G. lia.
    + cbv zeta in Hs. injection Hs as Hs _. subst. unfold mu; psimpl. rewrite upd_length.
      pose proof (upd_sum _ wmu _ _ _ (WReady (Some ((t, cb_val d), cb_st d))) Hn). simpl in H. lia.
Qed.

End Progress.
