(* C14 — a killed packer never leaves a file that reads as a complete image.
   Statements only; every proof is one [exact] of a lemma from C14/SuperProofs.v, C14/TraceProofs.v.

   Crash granularity: between two output system calls (the property's quantifier).  A crash point
   is a prefix [firstn k tr] of the trace of output calls; the file left behind is [apply] of it.
   Torn single writes, write-back reordering and power loss are outside the property and the model. *)
From Coq Require Import List NArith ZArith Bool.
From SqfsV Require Import Base.Bytes Gen.Constants C14.SuperModel C14.SuperProofs C14.TraceModel C14.TraceProofs C14.TornProofs.
Import ListNotations.
Local Open Scope N_scope.

(* ---- the superblock codec ---- *)

(* a superblock decodes to what was encoded (fields within their C types), whatever follows it *)
Theorem super_rt : forall s rest, super_in_range s -> decode (encode s ++ rest) = s.
Proof. exact super_rt_l. Qed.
Print Assumptions super_rt.

(* without the range hypothesis: each field truncated to its width, at the offset the header says *)
Theorem super_decode_encode : forall s rest, decode (encode s ++ rest) = trunc s.
Proof. exact decode_encode. Qed.
Print Assumptions super_decode_encode.

Theorem super_encode_length : forall s, N.of_nat (length (encode s)) = sizeof_sqfs_super_t.
Proof. intro s. rewrite encode_length. unfold SB. apply N2Nat.id. Qed.
Print Assumptions super_encode_length.

(* the block_log loop of sqfs_super_init terminates for every input the size tests let through *)
Theorem super_init_total : forall bs mtime comp, super_init bs mtime comp <> OutOfFuel.
Proof. exact super_init_total_l. Qed.
Print Assumptions super_init_total.

(* readers only look at the first 96 bytes when they decide whether to open the image *)
Theorem accepts_firstn : forall f, accepts (firstn SB f) = accepts f.
Proof. exact accepts_firstn_l. Qed.
Print Assumptions accepts_firstn.

(* ---- the provisional superblock ---- *)

(* for every block size / mtime / compressor sqfs_super_init accepts, and whatever has been written
   behind it: every reader refuses the file *)
Theorem provisional_rejected : forall bs mtime comp s rest,
  super_init bs mtime comp = Ok s -> accepts (encode s ++ rest) = false.
Proof. exact provisional_rejected_l. Qed.
Print Assumptions provisional_rejected.

(* it is the id_count test of sqfs_super_read that refuses it (every earlier test passes) ... *)
Theorem provisional_fails_at_id_count : forall bs mtime comp s rest,
  super_init bs mtime comp = Ok s -> c_SQFS_COMP_MIN <= comp <= c_SQFS_COMP_MAX ->
  super_read (encode s ++ rest) = Err c_SQFS_ERROR_CORRUPTED.
Proof. exact provisional_super_read. Qed.
Print Assumptions provisional_fails_at_id_count.

(* ... and independently of id_count, sqfs_id_table_read's second test would refuse it too *)
Theorem provisional_second_lock : forall bs mtime comp s rest,
  super_init bs mtime comp = Ok s ->
  s_bytes_used (decode (encode s ++ rest)) <= s_id_start (decode (encode s ++ rest)).
Proof. exact provisional_rejected_by_idstart. Qed.
Print Assumptions provisional_second_lock.

Theorem idstart_lock_rejects : forall f,
  s_bytes_used (decode f) <= s_id_start (decode f) -> accepts f = false.
Proof. exact idstart_rejected. Qed.
Print Assumptions idstart_lock_rejects.

(* [accepts] is not constantly false: the superblock sqfs_writer_finish writes (id_count > 0,
   id table below bytes_used) over the same block size / compressor does open *)
Theorem committed_accepted : forall bs mt c s0 inodes frags flags idc root bu ids xs is ds fs es rest,
  super_init bs mt c = Ok s0 ->
  c_SQFS_COMP_MIN <= c <= c_SQFS_COMP_MAX ->
  0 < idc < 2^16 -> ids < bu -> bu < 2^64 ->
  inodes < 2^32 -> frags < 2^32 -> flags < 2^16 -> root < 2^64 ->
  xs < 2^64 -> is < 2^64 -> ds < 2^64 -> fs < 2^64 -> es < 2^64 ->
  accepts (encode (commit_fields s0 inodes frags flags idc root bu ids xs is ds fs es) ++ rest) = true.
Proof. exact committed_accepted_l. Qed.
Print Assumptions committed_accepted.

(* ---- traces ---- *)

Theorem apply_length : forall tr, N.of_nat (length (apply tr)) = size_after tr.
Proof. exact apply_length_l. Qed.
Print Assumptions apply_length.

(* the executable check run on real traces establishes the hypothesis of the theorems below *)
Theorem trace_okb_sound : forall tr, trace_okb tr = true -> trace_ok tr.
Proof. exact trace_okb_sound_l. Qed.
Print Assumptions trace_okb_sound.

(* killed before any output call up to right before the commit: every reader refuses the file.
   k = number of output calls that completed; commit_index = 0-based position of the commit. *)
Theorem crash_prefix_rejected : forall tr, trace_ok tr ->
  forall k, (k <= commit_index tr)%nat -> accepts (apply (firstn k tr)) = false.
Proof. exact crash_prefix_rejected_l. Qed.
Print Assumptions crash_prefix_rejected.

(* killed after the commit: the first bytes_used bytes of the file are those of the file at the
   moment of the commit (all of them were in the file by then), its superblock is the committed
   one, and the final file of the uninterrupted run opens exactly if the committed file does.
   Only what lies behind bytes_used (the padding) can be missing. *)
Theorem after_commit_complete : forall tr, trace_ok tr ->
  let F := committed tr in
  let bu := s_bytes_used (decode F) in
  sizeof_sqfs_super_t <= bu <= N.of_nat (length F) /\
  accepts F = accepts (apply tr) /\
  forall k, (commit_index tr < k)%nat ->
    firstn (N.to_nat bu) (apply (firstn k tr)) = firstn (N.to_nat bu) F /\
    decode (apply (firstn k tr)) = decode F.
Proof. exact after_commit_l. Qed.
Print Assumptions after_commit_complete.

(* everything the committed superblock refers to is inside the file when it is committed *)
Theorem commit_refs_in_file : forall tr, trace_ok tr -> refs_in_file (decode (committed tr)) = true.
Proof. exact commit_refs_l. Qed.
Print Assumptions commit_refs_in_file.

(* C14: at every crash point the file is refused by every reader or is the complete image *)
Theorem crash_safe : forall tr, trace_ok tr ->
  forall k, accepts (apply (firstn k tr)) = false \/
            image_of (apply (firstn k tr)) = image_of (apply tr).
Proof. exact crash_safe_l. Qed.
Print Assumptions crash_safe.

(* ---- beyond the property's granularity (partial) ----
   If the kernel took only the first c bytes of the 96-byte commit write, io/file.c issues a second
   pwrite and the gap between the two is a crash point of its own.  For every cut before the end of
   the id_table_start field (c < 56) the file is still refused (bytes_used of any real image is far
   below 2^56).  For 56 <= c < 96 [accepts] can be true (see ex_torn_late_opens): whether a reader
   then fails depends on tests deeper in the readers that are not modelled here; such a split has
   never been observed (the check counts short writes in every logged run). *)
Theorem torn_commit_rejected_partial : forall bs mtime comp s0 d1 c rest,
  super_init bs mtime comp = Ok s0 ->
  bytes_ok d1 -> length d1 = SB ->
  (c < N.to_nat off_sqfs_super_t_id_table_start + 8)%nat ->
  s_bytes_used (decode d1) < 2 ^ 56 ->
  accepts (firstn c d1 ++ skipn c (encode s0) ++ rest) = false.
Proof. exact torn_commit_rejected_l. Qed.
Print Assumptions torn_commit_rejected_partial.

(* ---- non-vacuity ---- *)

(* the provisional superblock of `gensquashfs -b 4096` with xz, as logged from a real run *)
Example ex_init_bytes :
  option_map encode (match super_init 4096 0 4 with Ok s => Some s | _ => None end) =
  Some [104;115;113;115; 0;0;0;0; 0;0;0;0; 0;16;0;0; 0;0;0;0; 4;0; 12;0; 80;2; 0;0; 4;0; 0;0;
        0;0;0;0;0;0;0;0; 96;0;0;0;0;0;0;0;
        255;255;255;255;255;255;255;255; 255;255;255;255;255;255;255;255;
        255;255;255;255;255;255;255;255; 255;255;255;255;255;255;255;255;
        255;255;255;255;255;255;255;255; 255;255;255;255;255;255;255;255].
Proof. vm_compute. reflexivity. Qed.

Definition ex_s0 : super :=
  mkSuper c_SQFS_MAGIC 0 1700000000 4096 0 1 12 init_flags 0 4 0 0 96
          NO_TABLE NO_TABLE NO_TABLE NO_TABLE NO_TABLE NO_TABLE.
Example ex_s0_init : super_init 4096 1700000000 1 = Ok ex_s0.
Proof. vm_compute. reflexivity. Qed.

(* committed superblock: 3 inodes, 1 id, id table at 112, inode table at 102, directory table at 106 *)
Definition ex_fin : super :=
  commit_fields ex_s0 3 0 init_flags 1 0 120 112 NO_TABLE 102 106 NO_TABLE NO_TABLE.

(* provisional superblock; data written, duplicate detected and cut off again (block_writer.c);
   more data; tables; commit; padding *)
Definition ex_trace : list event :=
  [ PWrite 0 (encode ex_s0);
    PWrite 96 [1;2;3;4];
    PWrite 100 [1;2;3;4];
    Truncate 100;
    PWrite 100 [9;9];
    PWrite 102 [4;128;7;7;7;7];
    PWrite 108 [4;128;0;0;0;0];
    PWrite 114 [108;0;0;0;0;0];
    PWrite 0 (encode ex_fin);
    PWrite 120 [0;0;0;0;0;0;0;0] ].

Example ex_trace_ok : trace_okb ex_trace = true.
Proof. vm_compute. reflexivity. Qed.
Example ex_commit_index : commit_index ex_trace = 8%nat.
Proof. vm_compute. reflexivity. Qed.
Example ex_before_commit : map (fun k => accepts (apply (firstn k ex_trace))) (seq 0 9) =
  [false; false; false; false; false; false; false; false; false].
Proof. vm_compute. reflexivity. Qed.
Example ex_after_commit : map (fun k => accepts (apply (firstn k ex_trace))) [9%nat; 10%nat] = [true; true].
Proof. vm_compute. reflexivity. Qed.
Example ex_sizes : map (fun k => size_after (firstn k ex_trace)) (seq 0 11) =
  [0; 96; 100; 104; 100; 102; 108; 114; 120; 120; 128].
Proof. vm_compute. reflexivity. Qed.
(* the commit moved before the last table write is not a trace the writer may produce *)
Example ex_commit_early_refused :
  trace_okb (firstn 7 ex_trace ++ [PWrite 0 (encode ex_fin); PWrite 114 [108;0;0;0;0;0]]) = false.
Proof. vm_compute. reflexivity. Qed.
(* and with such a trace the theorem's conclusion does fail: killed right after the early commit,
   the file opens although the id table location list is missing *)
Example ex_commit_early_opens :
  accepts (apply (firstn 7 ex_trace ++ [PWrite 0 (encode ex_fin)])) = true /\
  N.of_nat (length (apply (firstn 7 ex_trace ++ [PWrite 0 (encode ex_fin)]))) < s_bytes_used ex_fin.
Proof. vm_compute. split; reflexivity. Qed.
(* a provisional superblock that already names an id table would open: the locks matter *)
Example ex_plausible_provisional_opens :
  accepts (encode (commit_fields ex_s0 0 0 init_flags 1 0 96 95 NO_TABLE NO_TABLE NO_TABLE NO_TABLE NO_TABLE)) = true.
Proof. vm_compute. reflexivity. Qed.
(* a commit torn inside id_table_start is refused; torn right behind it, [accepts] lets it through *)
Example ex_torn_early_refused :
  map (fun c => accepts (firstn c (encode ex_fin) ++ skipn c (encode ex_s0) ++ [7;7;7])) [0%nat; 27%nat; 41%nat; 49%nat; 55%nat] =
  [false; false; false; false; false].
Proof. vm_compute. reflexivity. Qed.
Example ex_torn_late_opens :
  accepts (firstn 56 (encode ex_fin) ++ skipn 56 (encode ex_s0)) = true.
Proof. vm_compute. reflexivity. Qed.
