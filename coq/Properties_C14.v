(* C14 — a killed packer never leaves a file that reads as a complete image.
   Statements only; every proof is one [exact] of a lemma from C14/SuperProofs.v, C14/TraceProofs.v.

   Crash granularity: between two output system calls (the property's quantifier).  A crash point
   is a prefix [firstn k tr] of the trace of output calls; the file left behind is [apply] of it.
   Torn single writes, write-back reordering and power loss are outside the property and the model. *)
From Coq Require Import List NArith ZArith Bool.
From SqfsV Require Import Base.Bytes Gen.Constants C14.SuperModel C14.SuperProofs C14.TraceModel C14.TraceProofs C14.TornProofs.
Import ListNotations.
Local Open Scope N_scope.

(* ---- the superblock codec ---- *)

(* a superblock decodes to what was encoded (fields within their C types), whatever follows it *)
Theorem super_rt : forall s rest, super_in_range s -> decode (encode s ++ rest) = s.
Proof. exact super_rt_l. Qed.
Print Assumptions super_rt.

(* without the range hypothesis: each field truncated to its width, at the offset the header says *)
Theorem super_decode_encode : forall s rest, decode (encode s ++ rest) = trunc s.
Proof. exact decode_encode. Qed.
Print Assumptions super_decode_encode.

Theorem super_encode_length : forall s, N.of_nat (length (encode s)) = sizeof_sqfs_super_t.
Proof. intro s. rewrite encode_length. unfold SB. apply N2Nat.id. Qed.
Print Assumptions super_encode_length.

(* the block_log loop of sqfs_super_init terminates for every input the size tests let through *)
Theorem super_init_total : forall bs mtime comp, super_init bs mtime comp <> OutOfFuel.
Proof. exact super_init_total_l. Qed.
Print Assumptions super_init_total.

(* readers only look at the first 96 bytes when they decide whether to open the image *)
Theorem accepts_firstn : forall f, accepts (firstn SB f) = accepts f.
Proof. exact accepts_firstn_l. Qed.
Print Assumptions accepts_firstn.

(* ---- the provisional superblock ---- *)

(* for every block size / mtime / compressor sqfs_super_init accepts, and whatever has been written
   behind it: every reader refuses the file *)
Theorem provisional_rejected : forall bs mtime comp s rest,
  super_init bs mtime comp = Ok s -> accepts (encode s ++ rest) = false.
Proof. exact provisional_rejected_l. Qed.
Print Assumptions provisional_rejected.

(* it is the id_count test of sqfs_super_read that refuses it (every earlier test passes) ... *)
Theorem provisional_fails_at_id_count : forall bs mtime comp s rest,
  super_init bs mtime comp = Ok s -> c_SQFS_COMP_MIN <= comp <= c_SQFS_COMP_MAX ->
  super_read (encode s ++ rest) = Err c_SQFS_ERROR_CORRUPTED.
Proof. exact provisional_super_read. Qed.
Print Assumptions provisional_fails_at_id_count.

(* ... and independently of id_count, sqfs_id_table_read's second test would refuse it too *)
Theorem provisional_second_lock : forall bs mtime comp s rest,
  super_init bs mtime comp = Ok s ->
  s_bytes_used (decode (encode s ++ rest)) <= s_id_start (decode (encode s ++ rest)).
Proof. exact provisional_rejected_by_idstart. Qed.
Print Assumptions provisional_second_lock.

Theorem idstart_lock_rejects : forall f,
  s_bytes_used (decode f) <= s_id_start (decode f) -> accepts f = false.
Proof. exact idstart_rejected. Qed.
Print Assumptions idstart_lock_rejects.

(* [accepts] is not constantly false: the superblock sqfs_writer_finish writes (id_count > 0,
   id table below bytes_used) over the same block size / compressor does open *)
Theorem committed_accepted : forall bs mt c s0 inodes frags flags idc root bu ids xs is ds fs es rest,
  super_init bs mt c = Ok s0 ->
  c_SQFS_COMP_MIN <= c <= c_SQFS_COMP_MAX ->
  0 < idc < 2^16 -> ids < bu -> bu < 2^64 ->
  inodes < 2^32 -> frags < 2^32 -> flags < 2^16 -> root < 2^64 ->
  xs < 2^64 -> is < 2^64 -> ds < 2^64 -> fs < 2^64 -> es < 2^64 ->
  accepts (encode (commit_fields s0 inodes frags flags idc root bu ids xs is ds fs es) ++ rest) = true.
Proof. exact committed_accepted_l. Qed.
Print Assumptions committed_accepted.

(* ---- traces ---- *)

Theorem apply_length : forall tr, N.of_nat (length (apply tr)) = size_after tr.
Proof. exact apply_length_l. Qed.
Print Assumptions apply_length.

(* the executable check run on real traces establishes the hypothesis of the theorems below *)
Theorem trace_okb_sound : forall tr, trace_okb tr = true -> trace_ok tr.
Proof. exact trace_okb_sound_l. Qed.
Print Assumptions trace_okb_sound.

(* killed before any output call up to right before the commit: every reader refuses the file.
   k = number of output calls that completed; commit_index = 0-based position of the commit. *)
Theorem crash_prefix_rejected : forall tr, trace_ok tr ->
  forall k, (k <= commit_index tr)%nat -> accepts (apply (firstn k tr)) = false.
Proof. exact crash_prefix_rejected_l. Qed.
Print Assumptions crash_prefix_rejected.

(* killed after the commit: the first bytes_used bytes of the file are those of the file at the
   moment of the commit (all of them were in the file by then), its superblock is the committed
   one, and the final file of the uninterrupted run opens exactly if the committed file does.
   Only what lies behind bytes_used (the padding) can be missing. *)
Theorem after_commit_complete : forall tr, trace_ok tr ->
  let F := committed tr in
  let bu := s_bytes_used (decode F) in
  sizeof_sqfs_super_t <= bu <= N.of_nat (length F) /\
  accepts F = accepts (apply tr) /\
  forall k, (commit_index tr < k)%nat ->
    firstn (N.to_nat bu) (apply (firstn k tr)) = firstn (N.to_nat bu) F /\
    decode (apply (firstn k tr)) = decode F.
Proof. exact after_commit_l. Qed.
Print Assumptions after_commit_complete.

(* everything the committed superblock refers to is inside the file when it is committed *)
Theorem commit_refs_in_file : forall tr, trace_ok tr -> refs_in_file (decode (committed tr)) = true.
Proof. exact commit_refs_l. Qed.
Print Assumptions commit_refs_in_file.

(* C14: at every crash point the file is refused by every reader or is the complete image *)
Theorem crash_safe : forall tr, trace_ok tr ->
  forall k, accepts (apply (firstn k tr)) = false \/
            image_of (apply (firstn k tr)) = image_of (apply tr).
Proof. exact crash_safe_l. Qed.
Print Assumptions crash_safe.

(* ---- beyond the property's granularity (partial) ----
   If the kernel took only the first c bytes of the 96-byte commit write, io/file.c issues a second
   pwrite and the gap between the two is a crash point of its own.  For every cut before the end of
   the id_table_start field (c < 56) the file is still refused (bytes_used of any real image is far
   below 2^56).  For 56 <= c < 96 [accepts] can be true (see ex_torn_late_opens): whether a reader
   then fails depends on tests deeper in the readers that are not modelled here; such a split has
   never been observed (the check counts short writes in every logged run). *)
Theorem torn_commit_rejected_partial : forall bs mtime comp s0 d1 c rest,
  super_init bs mtime comp = Ok s0 ->
  bytes_ok d1 -> length d1 = SB ->
  (c < N.to_nat off_sqfs_super_t_id_table_start + 8)%nat ->
  s_bytes_used (decode d1) < 2 ^ 56 ->
  accepts (firstn c d1 ++ skipn c (encode s0) ++ rest) = false.
Proof. exact torn_commit_rejected_l. Qed.
Print Assumptions torn_commit_rejected_partial.

(* ---- non-vacuity ---- *)

(* the provisional superblock of `gensquashfs -b 4096` with xz, as logged from a real run *)
Example ex_init_bytes :
  option_map encode (match super_init 4096 0 4 with Ok s => Some s | _ => None end) =
  Some [104;115;113;115; 0;0;0;0; 0;0;0;0; 0;16;0;0; 0;0;0;0; 4;0; 12;0; 80;2; 0;0; 4;0; 0;0;
        0;0;0;0;0;0;0;0; 96;0;0;0;0;0;0;0;
        255;255;255;255;255;255;255;255; 255;255;255;255;255;255;255;255;
        255;255;255;255;255;255;255;255; 255;255;255;255;255;255;255;255;
        255;255;255;255;255;255;255;255; 255;255;255;255;255;255;255;255].
Proof. vm_compute. reflexivity. Qed.

Definition ex_s0 : super :=
  mkSuper c_SQFS_MAGIC 0 1700000000 4096 0 1 12 init_flags 0 4 0 0 96
          NO_TABLE NO_TABLE NO_TABLE NO_TABLE NO_TABLE NO_TABLE.
Example ex_s0_init : super_init 4096 1700000000 1 = Ok ex_s0.
Proof. vm_compute. reflexivity. Qed.

(* committed superblock: 3 inodes, 1 id, id table at 112, inode table at 102, directory table at 106 *)
Definition ex_fin : super :=
  commit_fields ex_s0 3 0 init_flags 1 0 120 112 NO_TABLE 102 106 NO_TABLE NO_TABLE.

(* provisional superblock; data written, duplicate detected and cut off again (block_writer.c);
   more data; tables; commit; padding *)
Definition ex_trace : list event :=
  [ PWrite 0 (encode ex_s0);
    PWrite 96 [1;2;3;4];
    PWrite 100 [1;2;3;4];
    Truncate 100;
    PWrite 100 [9;9];
    PWrite 102 [4;128;7;7;7;7];
    PWrite 108 [4;128;0;0;0;0];
    PWrite 114 [108;0;0;0;0;0];
    PWrite 0 (encode ex_fin);
    PWrite 120 [0;0;0;0;0;0;0;0] ].

Example ex_trace_ok : trace_okb ex_trace = true.
Proof. vm_compute. reflexivity. Qed.
Example ex_commit_index : commit_index ex_trace = 8%nat.
Proof. vm_compute. reflexivity. Qed.
Example ex_before_commit : map (fun k => accepts (apply (firstn k ex_trace))) (seq 0 9) =
  [false; false; false; false; false; false; false; false; false].
Proof. vm_compute. reflexivity. Qed.
Example ex_after_commit : map (fun k => accepts (apply (firstn k ex_trace))) [9%nat; 10%nat] = [true; true].
Proof. vm_compute. reflexivity. Qed.
Example ex_sizes : map (fun k => size_after (firstn k ex_trace)) (seq 0 11) =
  [0; 96; 100; 104; 100; 102; 108; 114; 120; 120; 128].
Proof. vm_compute. reflexivity. Qed.
(* the commit moved before the last table write is not a trace the writer may produce *)
Example ex_commit_early_refused :
  trace_okb (firstn 7 ex_trace ++ [PWrite 0 (encode ex_fin); PWrite 114 [108;0;0;0;0;0]]) = false.
Proof. vm_compute. reflexivity. Qed.
(* and with such a trace the theorem's conclusion does fail: killed right after the early commit,
   the file opens although the id table location list is missing *)
Example ex_commit_early_opens :
  accepts (apply (firstn 7 ex_trace ++ [PWrite 0 (encode ex_fin)])) = true /\
  N.of_nat (length (apply (firstn 7 ex_trace ++ [PWrite 0 (encode ex_fin)]))) < s_bytes_used ex_fin.
Proof. vm_compute. split; reflexivity. Qed.
(* a provisional superblock that already names an id table would open: the locks matter *)
Example ex_plausible_provisional_opens :
  accepts (encode (commit_fields ex_s0 0 0 init_flags 1 0 96 95 NO_TABLE NO_TABLE NO_TABLE NO_TABLE NO_TABLE)) = true.
Proof. vm_compute. reflexivity. Qed.
(* a commit torn inside id_table_start is refused; torn right behind it, [accepts] lets it through *)
Example ex_torn_early_refused :
  map (fun c => accepts (firstn c (encode ex_fin) ++ skipn c (encode ex_s0) ++ [7;7;7])) [0%nat; 27%nat; 41%nat; 49%nat; 55%nat] =
  [false; false; false; false; false].
Proof. vm_compute. reflexivity. Qed.
Example ex_torn_late_opens :
  accepts (firstn 56 (encode ex_fin) ++ skipn 56 (encode ex_s0)) = true.
Proof. vm_compute. reflexivity. Qed.

(* ================================================================================================================
   Extension (session 3): the writer's output-call sequence as a theorem.

   Above, [trace_ok] is a HYPOTHESIS about a trace (evaluated by trace_okb on the logged calls of real runs);
   [commit_refs_in_file] and the first clause of [after_commit_complete] merely restate two of its clauses.
   Properties_C03.image_trace_ok derives [trace_ok] from the writer model Image.FinishModel.write_image at ONE EVENT
   PER SECTION.  This section closes the gap to the granularity of the real system calls:

   1. a refinement theory (C14/RefineModel.v, RefineProofs.v): a fine trace refines a coarse one when every coarse
      event is replaced by itself or by calls that stay at offsets / truncation lengths >= the protected bound (96
      between the two super block writes, bytes_used behind the commit) and leave the same file - including blocks
      that are written, cut off again by a truncation and rewritten; refinement preserves [apply], [trace_ok] and the
      committed file, so crash safety holds at EVERY kill point of the fine trace, also inside a refined section;
   2. the fine trace of the composed writer model (C14/FineModel.v): sqfs_super_write, write_options, the block
      processor / block writer of C08.DedupModel (one write per stored block, one ftruncate per deduplicated run),
      one write per metadata block of the inode and directory table, the blocks + location list of
      sqfs_write_table three times, the xattr section's blocks + header + location list, the commit, the padding;
      it refines w_trace of the section-level model FOR ALL INPUTS (writer_fine_trace_ok), hence every prefix of it
      is refused or complete (writer_kill_safe);
   3. the derived, assumption-free versions of the facts about the commit (writer_commit_facts).
   ================================================================================================================ *)
From Coq Require Import Lia.

(* all hypotheses of torn_commit_rejected_partial together (audit item) *)
Example ex_torn_hyps :
  super_init 4096 1700000000 1 = Ok ex_s0 /\
  bytes_ok (encode ex_fin) /\ length (encode ex_fin) = SB /\
  (41 < N.to_nat off_sqfs_super_t_id_table_start + 8)%nat /\
  s_bytes_used (decode (encode ex_fin)) < 2 ^ 56 /\
  accepts (firstn 41 (encode ex_fin) ++ skipn 41 (encode ex_s0) ++ [7;7;7]) = false.
Proof.
  split; [exact ex_s0_init|]. split; [apply encode_bytes_ok|].
  split; [vm_compute; reflexivity|]. split; [vm_compute; lia|].
  split; vm_compute; reflexivity.
Qed.
(* trace_ok itself (the Prop, not only the boolean) of the example trace *)
Example ex_trace_ok_prop : trace_ok ex_trace /\ commit_index ex_trace = 8%nat.
Proof. split; [apply trace_okb_sound; exact ex_trace_ok|exact ex_commit_index]. Qed.

From SqfsV Require Import C03.Common C03.MetaModel C03.MetaProofs C03.TableModel C03.TableProofs.
From SqfsV Require C08.DedupModel.
From SqfsV Require Import C14.RefineModel C14.RefineProofs C14.FineModel C14.FineData C14.FineProofs C14.SectionModel
  C14.SectionProofs.
From SqfsV Require Import C01.GenC01 Img.TreeModel Image.FinishModel Image.FinishProofs Image.ImageProofs.
From SqfsV Require Img.Example Image.Example Img.ZrleProofs.

(* ---- refinement of traces ---- *)

(* a refinement (from any file F, behind any bound lo) leaves the same file ... *)
Theorem refinement_same_file : forall lo F fine coarse,
  refines_from lo F fine coarse -> apply_from F fine = apply_from F coarse.
Proof. exact refines_apply. Qed.
Print Assumptions refinement_same_file.

(* ... and respects every bound lo' <= lo the coarse trace respects *)
Theorem refinement_stays_behind : forall lo F fine coarse,
  refines_from lo F fine coarse ->
  forall lo', lo' <= lo -> forallb (keeps lo') coarse = true -> forallb (keeps lo') fine = true.
Proof. exact refines_keeps. Qed.
Print Assumptions refinement_stays_behind.

(* the shape the crash-safety theorems need is preserved, with the same final file and the same committed file *)
Theorem refinement_preserves_shape : forall fine coarse,
  trace_ok coarse -> trace_refines fine coarse ->
  trace_ok fine /\ apply fine = apply coarse /\ committed fine = committed coarse.
Proof. exact refine_shape. Qed.
Print Assumptions refinement_preserves_shape.

(* crash safety at every kill point of the FINE trace.  k counts fine events: a prefix may end inside a refined
   section (between two data blocks, between a block and the truncation that removes it, between the blocks of a
   table and its location list, ...) *)
Theorem refined_crash_prefix_rejected : forall fine coarse,
  trace_ok coarse -> trace_refines fine coarse ->
  forall k, (k <= commit_index fine)%nat -> accepts (apply (firstn k fine)) = false.
Proof. exact refined_prefix_rejected_l. Qed.
Print Assumptions refined_crash_prefix_rejected.

Theorem refined_after_commit_complete : forall fine coarse,
  trace_ok coarse -> trace_refines fine coarse ->
  let F := committed coarse in
  let bu := s_bytes_used (decode F) in
  forall k, (commit_index fine < k)%nat ->
    firstn (N.to_nat bu) (apply (firstn k fine)) = firstn (N.to_nat bu) F /\
    decode (apply (firstn k fine)) = decode F.
Proof. exact refined_after_commit_l. Qed.
Print Assumptions refined_after_commit_complete.

Theorem refined_crash_safe : forall fine coarse,
  trace_ok coarse -> trace_refines fine coarse ->
  forall k, accepts (apply (firstn k fine)) = false \/
            image_of (apply (firstn k fine)) = image_of (apply coarse).
Proof. exact refined_crash_safe_l. Qed.
Print Assumptions refined_crash_safe.

(* the executable check evaluated on the logged calls of real runs establishes the relation (the segment lengths
   [cb], [ct] are a certificate found outside; the check does not trust them) *)
Theorem trace_refinesb_sound : forall cb ct fine coarse,
  trace_refinesb cb ct fine coarse = true -> trace_refines fine coarse.
Proof. exact RefineProofs.trace_refinesb_sound. Qed.
Print Assumptions trace_refinesb_sound.

(* the typical segment: calls behind lo that together append d to a file of length off - in particular d written in
   any number of pieces *)
Theorem appending_segment_refines : forall lo F off d seg,
  off = N.of_nat (length F) -> forallb (keeps lo) seg = true -> apply_from F seg = F ++ d ->
  refines_from lo F seg (ev_one off d).
Proof. exact append_seg. Qed.
Print Assumptions appending_segment_refines.

Theorem chunked_write_refines : forall lo F off chunks,
  off = N.of_nat (length F) -> lo <= off ->
  refines_from lo F (ev_chunks off chunks) (ev_one off (concat chunks)).
Proof. exact chunks_refine. Qed.
Print Assumptions chunked_write_refines.

(* ---- the parts of the fine model ---- *)

(* block processor + block writer (C08.DedupModel.pack), any hash function / compressor / schedule / flags / block
   size: the logged calls stay at or behind the length of the file the writer was created on, applied to that file
   they give the file the writer ends with, and that file still begins with the original one *)
Theorem block_writer_calls_behind_start :
  forall hashf compress uncompress bs hash_only bytecmp half file0 files sched st,
  DedupModel.pack hashf compress uncompress bs hash_only bytecmp half file0 files sched = DedupModel.Ok st ->
  let evs := map conv_ev (DedupModel.p_evs st) in
  apply_from file0 evs = DedupModel.w_file (DedupModel.p_wr st) /\
  forallb (keeps (N.of_nat (length file0))) evs = true /\
  DedupModel.w_file (DedupModel.p_wr st) = file0 ++ skipn (length file0) (DedupModel.w_file (DedupModel.p_wr st)).
Proof. exact pack_io. Qed.
Print Assumptions block_writer_calls_behind_start.

(* the pieces a metadata area is cut into (by reading the block headers, as write_block does) are the blocks the
   meta writer flushed; a lookup table is its blocks followed by the location list as one piece *)
Theorem meta_blocks_faithful : forall compress uncompress,
  (forall b c, compress b = CData c -> lenN c <= lenN b /\ uncompress c = Some b) ->
  forall raws, Forall blk_ok raws ->
  meta_blocks (concat (map (enc compress) raws)) = map (enc compress) raws.
Proof. exact meta_blocks_enc. Qed.
Print Assumptions meta_blocks_faithful.

Theorem table_calls_faithful : forall compress uncompress,
  (forall b c, compress b = CData c -> lenN c <= lenN b /\ uncompress c = Some b) ->
  forall size0 data bytes start,
  write_table compress size0 data = Common.Ok (bytes, start) ->
  exists chunks, concat chunks = data /\
    table_chunks size0 bytes start =
    map (enc compress) chunks ++ [concat (map le64 (table_locs compress size0 chunks))].
Proof. exact table_chunks_faithful. Qed.
Print Assumptions table_calls_faithful.

(* ---- the composed writer ---- *)

(* writer_fine_trace_ok: for every configuration, input, schedule and all data path oracles, the system-call level
   trace of a successful run refines the section level trace of write_image, has the promised shape, produces
   exactly image_bytes, and commits the same file.
   Hypotheses: the compressor contract and id table limit of the Image theorems, their decidable domain
   [image_domain] on the input of write_image (here: the input the data phase leaves - in_data, in_frags are
   computed by the block processor model) and [image_fits] on the run.  The block writer starts at
   96 + |compressor options| >= 96 by construction of the composed model. *)
Theorem writer_fine_trace_ok :
  forall hashf dcompress duncompress hash_only bytecmp half compress uncompress,
  (forall b c, compress b = CData c -> lenN c <= lenN b /\ uncompress c = Some b) ->
  forall limit, limit <= 65535 ->
  forall cfg fin inp w tr,
  fine_write hashf dcompress duncompress hash_only bytecmp half compress limit cfg fin = FOk inp w tr ->
  image_domain cfg inp = true -> image_fits w = true ->
  trace_refines tr (w_trace w) /\ trace_ok tr /\ apply tr = image_bytes w /\
  committed tr = committed (w_trace w).
Proof. exact writer_fine_trace_ok_l. Qed.
Print Assumptions writer_fine_trace_ok.

(* writer_kill_safe: C14 end to end on the composed model - for all inputs and ALL kill points (k = number of
   output system calls that completed) the file left behind is refused by every reader or is the complete image *)
Theorem writer_kill_safe :
  forall hashf dcompress duncompress hash_only bytecmp half compress uncompress,
  (forall b c, compress b = CData c -> lenN c <= lenN b /\ uncompress c = Some b) ->
  forall limit, limit <= 65535 ->
  forall cfg fin inp w tr,
  fine_write hashf dcompress duncompress hash_only bytecmp half compress limit cfg fin = FOk inp w tr ->
  image_domain cfg inp = true -> image_fits w = true ->
  forall k, accepts (apply (firstn k tr)) = false \/
            image_of (apply (firstn k tr)) = image_of (image_bytes w).
Proof. exact writer_kill_safe_l. Qed.
Print Assumptions writer_kill_safe.

(* writer_commit_facts: what commit_refs_in_file / after_commit_complete take from the hypothesis trace_ok, DERIVED
   from the writer model: at the commit the file's super block is the one sqfs_writer_finish computed, every table
   start it names is absent or inside [96, bytes_used), bytes_used lies inside the file, and the first bytes_used
   bytes are already those of the final image *)
Theorem writer_commit_facts : forall compress uncompress,
  (forall b c, compress b = CData c -> lenN c <= lenN b /\ uncompress c = Some b) ->
  forall limit, limit <= 65535 ->
  forall cfg inp w,
  write_image compress limit cfg inp = Res.Ok w -> image_domain cfg inp = true -> image_fits w = true ->
  let F := committed (w_trace w) in
  decode F = w_super w /\
  refs_in_file (w_super w) = true /\
  sizeof_sqfs_super_t <= s_bytes_used (w_super w) <= N.of_nat (length F) /\
  firstn (N.to_nat (s_bytes_used (w_super w))) F = firstn (N.to_nat (s_bytes_used (w_super w))) (image_bytes w).
Proof. exact writer_commit_facts_l. Qed.
Print Assumptions writer_commit_facts.

(* coarse_of_image_recovers_trace: the correspondence check recomputes the section-level trace of a real run from the
   image it produced (SectionModel.coarse_of_image: super block, first entries of the location lists, options header).
   On every image of the model that function returns exactly the trace the model emitted - so the coarse trace the
   logged calls are checked to refine is w_trace of Image.FinishModel, not a second hand-written layout. *)
Theorem coarse_of_image_recovers_trace : forall compress uncompress,
  (forall b c, compress b = CData c -> lenN c <= lenN b /\ uncompress c = Some b) ->
  forall limit, limit <= 65535 ->
  forall cfg inp w,
  write_image compress limit cfg inp = Res.Ok w -> image_domain cfg inp = true -> image_fits w = true ->
  coarse_of_image (PWrite 0 (encode (w_super0 w))) (image_bytes w) = Some (w_trace w).
Proof. exact coarse_of_image_spec. Qed.
Print Assumptions coarse_of_image_recovers_trace.

(* ---- non-vacuity ---- *)

(* ex_trace (above) is a refinement of the section-level trace: the data section [1;2;3;4;9;9] at 96 was written as
   4 bytes, 4 more, cut back to 100, 2 bytes; the id table as block + location list *)
Definition ex_coarse : list event :=
  [ PWrite 0 (encode ex_s0);
    PWrite 96 [1;2;3;4;9;9];
    PWrite 102 [4;128;7;7;7;7];
    PWrite 108 [4;128;0;0;0;0; 108;0;0;0;0;0];
    PWrite 0 (encode ex_fin);
    PWrite 120 [0;0;0;0;0;0;0;0] ].
Example ex_refines : trace_okb ex_coarse = true /\ trace_refinesb [4; 1; 2]%nat [1%nat] ex_trace ex_coarse = true.
Proof. vm_compute. split; reflexivity. Qed.
Example ex_refines_prop : trace_ok ex_coarse /\ trace_refines ex_trace ex_coarse.
Proof.
  split; [apply trace_okb_sound; exact (proj1 ex_refines)|apply trace_refinesb_sound with (1 := proj2 ex_refines)].
Qed.
(* not everything is a refinement: a truncation below the super block (even if the bytes are written again),
   a different final content, a commit split into two writes, a tail write below bytes_used *)
Example ex_not_refinements :
  trace_refinesb [5; 1; 2]%nat [1%nat]
    (firstn 3 ex_trace ++ [Truncate 95; PWrite 95 [0;1;2;3;4]] ++ skipn 4 ex_trace) ex_coarse = false /\
  trace_refinesb [4; 1; 2]%nat [1%nat] (firstn 4 ex_trace ++ [PWrite 100 [9;8]] ++ skipn 5 ex_trace) ex_coarse = false /\
  trace_refinesb [4; 1; 2]%nat [1%nat]
    (firstn 8 ex_trace ++ [PWrite 0 (firstn 48 (encode ex_fin)); PWrite 48 (skipn 48 (encode ex_fin))] ++ skipn 9 ex_trace)
    ex_coarse = false /\
  trace_refinesb [4; 1; 2]%nat [2%nat] (firstn 9 ex_trace ++ [PWrite 119 [0]; PWrite 120 [0;0;0;0;0;0;0;0]]) ex_coarse = false.
Proof. vm_compute. repeat split; reflexivity. Qed.

(* the composed model on a concrete input: zero-run-length metadata compressor, run-length data compressor, the 96
   inode tree of Img/Example.v, compressor options, four files - the third repeats the first (its two blocks are
   written and cut off again), the second is a fragment.  22 output calls, the commit is call 20. *)
Definition exf_fl (nofrag : bool) : DedupModel.uflags :=
  {| DedupModel.uf_dont_compress := false; DedupModel.uf_dont_hash := false; DedupModel.uf_dont_fragment := nofrag;
     DedupModel.uf_dont_dedup := false; DedupModel.uf_ignore_sparse := false |}.
Definition exf_bytes (k : N) (n : nat) : list N := map (fun i => (N.of_nat i * k) mod 251) (seq 0 n).
Definition exf_in : finput :=
  mkFin [4; 128; 1; 2; 3; 4]
        [(exf_fl true, exf_bytes 7 4200); (exf_fl false, exf_bytes 3 100); (exf_fl true, exf_bytes 7 4200);
         (exf_fl true, exf_bytes 11 4096)]
        [] Img.Example.ex_tree None.
Definition exf_run : fres :=
  fine_write (DedupModel.toy_hash 65521) DedupModel.toy_compress DedupModel.toy_uncompress false true 4096
             (img_compress 3) c_id_table_limit Image.Example.ex_cfg exf_in.

Example ex_fine_hyps :
  (forall b c, img_compress 3 b = CData c -> lenN c <= lenN b /\ img_uncompress 3 c = Some b) /\
  c_id_table_limit <= 65535 /\
  match exf_run return Prop with
  | FOk inp w tr => image_domain Image.Example.ex_cfg inp = true /\ image_fits w = true /\
                    in_frags inp = [(8398, 16777316)] /\ lenN (in_data inp) = 8396
  | _ => False
  end.
Proof.
  split; [exact (ZrleProofs.img_contract 3 (or_intror eq_refl))|]. split; [vm_compute; discriminate|].
  vm_compute. repeat split; reflexivity.
Qed.

(* its calls: (0, offset, length) = pwrite, (1, length, 0) = ftruncate *)
Example ex_fine_calls :
  match exf_run return Prop with
  | FOk inp w tr =>
      map (fun e => match e with PWrite o d => (0, o, lenN d) | Truncate n => (1, n, 0) end) tr =
      [(0, 0, 96); (0, 96, 6);
       (0, 102, 4096); (0, 4198, 104); (0, 4302, 4096); (0, 8398, 104); (1, 4302, 0); (0, 4302, 4096); (0, 8398, 100);
       (0, 8498, 8012); (0, 16510, 701);
       (0, 17211, 8194); (0, 25405, 8194); (0, 33599, 2551);
       (0, 36150, 12); (0, 36162, 8); (0, 36170, 473); (0, 36643, 8); (0, 36651, 9); (0, 36660, 8);
       (0, 0, 96); (0, 36668, 196)] /\
      commit_index tr = 20%nat /\ length (w_trace w) = 10%nat /\ commit_index (w_trace w) = 8%nat
  | _ => False
  end.
Proof. vm_compute. repeat split; reflexivity. Qed.

(* and what the theorems say about it, computed: refused at the 21 kill points up to the commit (among them: between
   the duplicate blocks and the truncation, between table blocks and location lists), accepted at the last two *)
Example ex_fine_kill_points :
  match exf_run return Prop with
  | FOk inp w tr =>
      map (fun k => accepts (apply (firstn k tr))) (seq 0 23) = repeat false 21 ++ [true; true] /\
      list_eqb (apply tr) (image_bytes w) = true /\
      map (fun k => list_eqb (image_of (apply (firstn k tr))) (image_of (image_bytes w))) [21%nat; 22%nat] = [true; true]
  | _ => False
  end.
Proof. vm_compute. repeat split; reflexivity. Qed.

(* the run-time checks of the correspondence check, evaluated on the image of the composed model: the sections are
   well-formed, the coarse trace is recovered, and the calls predicted per section are the model's fine trace *)
Example ex_fine_sections :
  match exf_run return Prop with
  | FOk inp w tr =>
      sections_wf (image_bytes w) = true /\
      match coarse_of_image (PWrite 0 (encode (w_super0 w))) (image_bytes w) with
      | Some c => events_eqb c (w_trace w) = true /\ trace_okb c = true /\
                  trace_refinesb [1; 7; 2; 3; 2; 2; 2]%nat [1%nat] tr c = true
      | None => False
      end /\
      match predicted_calls (image_bytes w) with
      | Some p => map (fun o => match o with Some l => length l | None => 99%nat end) p = [1; 99; 2; 3; 2; 2; 2]%nat
      | None => False
      end
  | _ => False
  end.
Proof. vm_compute. repeat split; reflexivity. Qed.

(* ==== Extension (session 3): sections_wf proved of the model's images; the composed packer pack_all at system call
   granularity ====
   Until here "sections_wf (the run-time structural check of real images) is not proved of the model's images (the xattr
   section is an abstract input)".  ImgXattr.FlushModel.xflush is the byte-level model of sqfs_xattr_writer_flush and
   ImgE2E.PackAll.pack_all the composed packer whose xattr section IS what xflush appends where the id table ends. *)
From SqfsV Require Import C14.SectionWf C14.PackFine.
From SqfsV Require Import C01.XattrModel ImgXattr.FlushModel ImgXattr.KvRefine ImgXattr.FlushShape.
From SqfsV Require Import ImgE2E.PackAll ImgE2E.Hyps.
From SqfsV Require ImgE2E.Example C03.MetaProofs.

(* sections_wf_on_written_images: for EVERY image of write_image whose xattr section is what the flush model appends at
   o_xattr (hypotheses otherwise as for coarse_of_image_recovers_trace) the executable well-formedness of the sections
   recomputed from the BYTES holds: the options are nothing or one uncompressed metadata block; inode table and
   directory table are sequences of whole metadata blocks (header + as many bytes as the header says); each lookup table
   is absent and empty, or blocks followed by a location list naming exactly the block starts, the super block's start
   field pointing between the two; the xattr section is absent and empty, or whole metadata blocks up to the header,
   which lies inside the section with room for at least one location behind it *)
Theorem sections_wf_on_written_images : forall compress uncompress,
  (forall b c, compress b = CData c -> lenN c <= lenN b /\ uncompress c = Some b) ->
  forall limit, limit <= 65535 ->
  forall cfg inp w,
  write_image compress limit cfg inp = Res.Ok w -> image_domain cfg inp = true -> image_fits w = true ->
  forall xw, xflush compress (o_xattr w) xw = Res.Ok (in_xattr inp) ->
  sections_wf (image_bytes w) = true.
Proof. exact sections_wf_written. Qed.
Print Assumptions sections_wf_on_written_images.

(* sections_wf_on_packed_images: for every successful run of the composed packer (hypotheses of pack_all_reads_back: the
   two compressor contracts, the id table limit, e2e_okb) the sections of the image are well-formed and coarse_of_image
   recovers the section trace of the run from the bytes alone *)
Theorem sections_wf_on_packed_images :
  forall (hashf : list N -> N)
         (dcompress : list N -> option (list N)) (duncompress : list N -> nat -> option (list N)),
  (forall b c, dcompress b = Some c ->
     (length c < length b)%nat /\ forall n, (length b <= n)%nat -> duncompress c n = Some b) ->
  forall half (mcompress : list N -> cres) (muncompress : list N -> option (list N)),
  (forall b c, mcompress b = CData c -> lenN c <= lenN b /\ muncompress c = Some b) ->
  forall limit, limit <= 65535 ->
  forall cfg pi r,
  pack_all hashf dcompress duncompress half mcompress limit cfg pi = PDone r ->
  e2e_okb half cfg pi r = true ->
  sections_wf (image_bytes (r_w r)) = true /\
  coarse_of_image (PWrite 0 (encode (w_super0 (r_w r)))) (image_bytes (r_w r)) = Some (w_trace (r_w r)).
Proof. exact sections_wf_on_packed_images_l. Qed.
Print Assumptions sections_wf_on_packed_images.

(* xattr_section_calls_are_the_flush's: the calls the fine model predicts for the xattr section (xattr_chunks: cut at the
   metadata block headers, then 16 bytes, then the rest) ARE the calls of sqfs_xattr_writer_flush as FlushModel describes
   it: one write per key-value block, one per id block, the header { kv_start, count, 0 }, the location list
   (the analogue of table_chunks_faithful for sqfs_write_table) *)
Theorem xattr_section_calls_are_the_flushs : forall compress uncompress,
  (forall b c, compress b = CData c -> lenN c <= lenN b /\ uncompress c = Some b) ->
  forall limit, limit <= 65535 ->
  forall cfg inp w,
  write_image compress limit cfg inp = Res.Ok w -> image_domain cfg inp = true ->
  forall xw, xflush compress (o_xattr w) xw = Res.Ok (in_xattr inp) ->
  (w_xattrb w = [] /\ ev_chunks (o_xattr w) (xattr_chunks (o_xattr w) (w_xattrb w) (s_xattr_start (w_super w))) = []) \/
  (exists off kvr idr descs,
     xshape compress (o_xattr w) xw (w_xattrb w) off kvr idr descs /\
     xattr_chunks (o_xattr w) (w_xattrb w) (s_xattr_start (w_super w)) =
     map (MetaProofs.enc compress) kvr ++ map (MetaProofs.enc compress) idr ++
     [xattr_header (o_xattr w) (Res.nlen (x_blocks xw));
      concat (map le64 (map (fun k => o_xattr w + lenN (concat (map (MetaProofs.enc compress) kvr)) + startN compress idr k)
                            (seq 0 (length idr))))]).
Proof. exact xattr_chunks_faithful. Qed.
Print Assumptions xattr_section_calls_are_the_flushs.

(* pack_all_kill_safe: C14 for the composed packer.  A successful run IS a run of the fine writer model on the input
   the packer built (pack_all_is_fine_write); its call sequence pack_trace refines the section trace, has the promised
   shape, writes exactly the image, with the xattr section's calls being the flush's own (above) - and at EVERY kill
   point (k = number of output system calls that completed) the file left behind is refused by every reader or is the
   complete image *)
Theorem pack_all_is_fine_write :
  forall hashf dcompress duncompress half mcompress limit cfg pi r,
  pack_all hashf dcompress duncompress half mcompress limit cfg pi = PDone r ->
  fine_write hashf dcompress duncompress false true half mcompress limit cfg (pack_fin pi r)
  = FOk (r_inp r) (r_w r) (pack_trace pi r).
Proof. exact pack_is_fine_write. Qed.

Theorem pack_all_kill_safe :
  forall (hashf : list N -> N)
         (dcompress : list N -> option (list N)) (duncompress : list N -> nat -> option (list N)),
  (forall b c, dcompress b = Some c ->
     (length c < length b)%nat /\ forall n, (length b <= n)%nat -> duncompress c n = Some b) ->
  forall half (mcompress : list N -> cres) (muncompress : list N -> option (list N)),
  (forall b c, mcompress b = CData c -> lenN c <= lenN b /\ muncompress c = Some b) ->
  forall limit, limit <= 65535 ->
  forall cfg pi r,
  pack_all hashf dcompress duncompress half mcompress limit cfg pi = PDone r ->
  e2e_okb half cfg pi r = true ->
  xattr_calls_of_flush mcompress r /\
  trace_refines (pack_trace pi r) (w_trace (r_w r)) /\ trace_ok (pack_trace pi r) /\
  apply (pack_trace pi r) = image_bytes (r_w r) /\
  forall k, accepts (apply (firstn k (pack_trace pi r))) = false \/
            image_of (apply (firstn k (pack_trace pi r))) = image_of (image_bytes (r_w r)).
Proof. exact pack_all_kill_safe_l. Qed.
Print Assumptions pack_all_kill_safe.

(* ---- non-vacuity: the run of ImgE2E/Example.v (five paths, a duplicate file whose block is written and cut off again,
   a fragment, three xattr sets; every hypothesis holds: ex_e2e_hyps / ex_e2e_contracts of Properties_C01 section 7) ---- *)
(* every decidable hypothesis holds (e2e_okb); 19 output calls; the xattr section at 363 is written as key-value block (62 bytes), id block (28), header (16),
   location list (8); the sections are well-formed; refused at the 18 kill points up to the commit (call 17), accepted at
   the last two *)
Example ex_pack_run :
  match ImgE2E.Example.ex_run with
  | PDone r =>
      let tr := pack_trace ImgE2E.Example.ex_pi r in
      e2e_okb ImgE2E.Example.ex_half ImgE2E.Example.ex_cfg ImgE2E.Example.ex_pi r = true /\
      sections_wf (image_bytes (r_w r)) = true /\
      map (fun e => match e with PWrite o d => (0, o, lenN d) | Truncate n => (1, n, 0) end) tr =
      [(0, 0, 96); (0, 96, 4); (0, 100, 4); (1, 100, 0); (0, 100, 5); (0, 105, 139); (0, 244, 53);
       (0, 297, 11); (0, 308, 8); (0, 316, 16); (0, 332, 8); (0, 340, 15); (0, 355, 8);
       (0, 363, 62); (0, 425, 28); (0, 453, 16); (0, 469, 8); (0, 0, 96); (0, 477, 3619)] /\
      map (fun c => lenN c) (xattr_chunks (o_xattr (r_w r)) (w_xattrb (r_w r)) (s_xattr_start (w_super (r_w r))))
      = [62; 28; 16; 8] /\
      commit_index tr = 17%nat /\
      map (fun k => accepts (apply (firstn k tr))) (seq 0 20) = repeat false 18 ++ [true; true]
  | _ => False
  end.
Proof. vm_compute. repeat split; reflexivity. Qed.

(* ================================================================================================================
   Strengthening (session 3, seeded/C14-8): the descriptor of io/file.c — logical length = physical length at every
   kill point; an accepted left-over is the complete image as a WHOLE FILE (length included), not only on
   [0, bytes_used).  Models: C14/FileLenModel.v (fd_write = stdio_write_at, fd_trunc Physical = stdio_truncate,
   fd_trunc Lazy = the shrink that is only applied when the descriptor is destroyed).
   ================================================================================================================ *)
From SqfsV Require Import C14.FileLenModel C14.FileLenProofs.

(* truncate_reaches_the_file: after stdio_truncate(n) returns, the file a kill leaves behind IS n bytes long, the cached
   size is n, and exactly one ftruncate(n) was issued *)
Theorem truncate_reaches_the_file : forall st n,
  let r := fd_trunc Physical st n in
  fd_size (fst r) = n /\ flen (fd_file (fst r)) = n /\ snd r = [Truncate n] /\
  fd_file (fst r) = truncate (N.to_nat n) (fd_file st).
Proof. exact fd_trunc_physical. Qed.
Print Assumptions truncate_reaches_the_file.

(* truncate_is_physical: for every sequence of write_at / truncate calls on the descriptor (no empty write behind the
   cached size: fops_ok) and every kill point j (number of descriptor calls that returned; each issues at most one
   system call), the file left behind is `apply` of the system calls issued so far and its LENGTH is the descriptor's
   logical size get_size() = size_after of those calls.  So "writes at get_size()" are writes at the physical end. *)
Theorem truncate_is_physical : forall ops, fops_ok Physical fd0 ops = true ->
  forall j, let r := fd_run Physical fd0 (firstn j ops) in
  fd_file (fst r) = apply (snd r) /\
  fd_size (fst r) = flen (fd_file (fst r)) /\
  fd_size (fst r) = size_after (snd r).
Proof. exact truncate_is_physical_l. Qed.
Print Assumptions truncate_is_physical.

(* the variant whose shrinking truncate only lowers the cached size does not have the invariant *)
Theorem lazy_truncate_refuted :
  exists ops, fops_ok Lazy fd0 ops = true /\
    let st := fst (fd_run Lazy fd0 ops) in fd_size st <> flen (fd_file st).
Proof. exact lazy_truncate_refuted_l. Qed.
Print Assumptions lazy_truncate_refuted.

(* whole_file_after_commit: if the calls behind the commit only append (each write starts at the end of the file as it
   is then, no truncation: appendsb - with truncate_is_physical that is what write_at(get_size()) does), then the WHOLE
   file left at any kill point behind the commit is a prefix of the final file: nothing a later call or the close still
   removes.  (pre = the calls up to and including the commit.) *)
Theorem whole_file_after_commit : forall pre tail, appendsb (apply pre) tail = true ->
  forall j, exists rest, apply (pre ++ tail) = apply (pre ++ firstn j tail) ++ rest.
Proof. exact whole_file_after_commit_l. Qed.
Print Assumptions whole_file_after_commit.

(* non-vacuity + the refutation of the lazy variant at the level of the property.  wit_ops: provisional super block, a
   40 byte block at 96, its duplicate at 136 rolled back by truncate(136), 24 bytes of tables, commit (bytes_used 160),
   8 bytes of padding.  Physical: hypotheses of truncate_is_physical / whole_file_after_commit hold, the calls are
   trace_ok, every kill point is refused (x9) or a whole-file prefix of the complete file containing bytes_used (x2). *)
Example ex_physical_descriptor :
  let tr := snd (fd_run Physical fd0 wit_ops) in
  fops_ok Physical fd0 wit_ops = true /\ trace_okb tr = true /\ commit_index tr = 8%nat /\
  appendsb (apply (firstn 9 tr)) (skipn 9 tr) = true /\
  map (fun j => (accepts (fd_left Physical wit_ops j), whole_okb (fd_left Physical wit_ops j) (fd_final Physical wit_ops)))
      (seq 0 11) =
  repeat (false, false) 9 ++ [(true, true); (true, true)].
Proof. exact wit_physical_ok. Qed.

(* completed runs of both variants leave the same 168 bytes ... *)
Example ex_lazy_same_final : fd_final Lazy wit_ops = fd_final Physical wit_ops /\ flen (fd_final Physical wit_ops) = 168.
Proof. exact wit_same_final. Qed.

(* ... but killed after the commit (or after the padding, before the close) the lazy descriptor leaves a 176 byte file
   that every reader opens, whose super block and bytes [0, bytes_used) are the complete image's (the older oracle
   `image_of left = image_of final` is satisfied) and which is NOT the complete file: 8 stale bytes of the rolled-back
   copy follow it *)
Theorem lazy_kill_not_complete_refuted :
  let final := fd_final Lazy wit_ops in
  fops_ok Lazy fd0 wit_ops = true /\
  map (fun j => let left := fd_left Lazy wit_ops j in
                (accepts left, list_eqb (image_of left) (image_of final), flen left, whole_okb left final)) [9%nat; 10%nat] =
  [(true, true, 176, false); (true, true, 176, false)] /\
  flen final = 168 /\
  skipn 168 (fd_left Lazy wit_ops 10) = [33; 34; 35; 36; 37; 38; 39; 40].
Proof. exact lazy_kill_not_complete_l. Qed.
Print Assumptions lazy_kill_not_complete_refuted.

(* the hypothesis of whole_file_after_commit on the traces of the earlier sections: ex_trace (hand-written, commit = call 8),
   the composed writer model's run exf_run (commit = call 20) and the composed packer's run ex_pack_run (commit = call 17):
   behind the commit the calls only append, and the file at every kill point behind the commit is a whole-file prefix of
   the complete file that contains [0, bytes_used) *)
Example ex_tails_append :
  appendsb (apply (firstn 9 ex_trace)) (skipn 9 ex_trace) = true /\
  map (fun k => whole_okb (apply (firstn k ex_trace)) (apply ex_trace)) [9%nat; 10%nat] = [true; true] /\
  match exf_run return Prop with
  | FOk inp w tr =>
      commit_index tr = 20%nat /\ appendsb (apply (firstn 21 tr)) (skipn 21 tr) = true /\
      map (fun k => whole_okb (apply (firstn k tr)) (image_bytes w)) [21%nat; 22%nat] = [true; true]
  | _ => False
  end /\
  match ImgE2E.Example.ex_run return Prop with
  | PDone r =>
      let tr := pack_trace ImgE2E.Example.ex_pi r in
      appendsb (apply (firstn 18 tr)) (skipn 18 tr) = true /\
      map (fun k => whole_okb (apply (firstn k tr)) (image_bytes (r_w r))) [18%nat; 19%nat] = [true; true]
  | _ => False
  end.
Proof. vm_compute. repeat split; reflexivity. Qed.
