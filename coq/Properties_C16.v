(* C16 -- the listing printed by rdsquashfs --describe is valid gensquashfs
   --pack-file input that rebuilds the tree.  Statements only; every proof is
   one [exact] of a lemma from C16/*Proofs.v.  The printer model follows
   describe.c WITH props/C16/fixes/*.patch applied; the behaviour before the
   repair is DescribeOld.v, about which the ..._refuted statements are. *)
From Coq Require Import List NArith Bool.
From SqfsV Require Import C18.CanonModel C18.CanonSpec.
From SqfsV Require Import C16.GenC16 C16.ParseModel C16.DescribeModel C16.DescribeOld
     C16.RoundTripSpec C16.FsModel C16.FsSpec C16.TokenProofs C16.NumProofs C16.RoundTripProofs C16.FsProofs
     C16.WfDec C16.OldProofs.
Import ListNotations.
Local Open Scope N_scope.

(* ---- tokens: every string without NUL -- spaces, tabs, quotes, backslashes,
   carriage returns, '#', newlines included -- is read back unchanged ---- *)
Theorem token_rt : forall s, ~ In ch_nul s ->
  split_line pack_file_sep (print_token None s) = SplitOk [s].
Proof. exact token_rt_l. Qed.
Print Assumptions token_rt.

Theorem token_prefix_rt : forall p s, ~ In ch_nul p -> ~ In ch_nul s ->
  split_line pack_file_sep (print_token (Some p) s) = SplitOk [p ++ [slash] ++ s].
Proof. exact token_prefix_rt_l. Qed.
Print Assumptions token_prefix_rt.

(* a line of such tokens separated by single blanks splits into the tokens *)
Theorem line_rt : forall toks, Forall (fun t => ~ In ch_nul t) toks ->
  split_line pack_file_sep (render toks) = SplitOk toks.
Proof. exact split_render. Qed.
Print Assumptions line_rt.

(* ---- numbers ---- *)
Theorem decimal_rt : forall v, v <= 4294967295 ->
  parse_uint 0 u32_max (print_dec v) = NumOk v.
Proof. exact parse_print_dec. Qed.
Print Assumptions decimal_rt.
Theorem octal_mode_rt : forall p, p <= 4095 ->
  parse_uint_oct 0 4095 (ch_0 :: print_oct p) = NumOk p.
Proof. exact parse_print_oct. Qed.
Print Assumptions octal_mode_rt.
Theorem devno_rt : forall d, d < 4294967296 -> makedev (major32 d) (minor32 d) = d.
Proof. exact makedev_major_minor. Qed.
Print Assumptions devno_rt.

(* ---- one entry: the line describe prints for it makes the parser perform
   exactly the call that stands for the entry (same path, mode word, uid,
   gid, device number, symlink target / file location) ---- *)
Theorem describe_line_rt :
  forall (St : Type) (do_call : St -> call -> option St)
         uroot chain name mode uid gid target devno,
    uroot_ok uroot -> Forall name_ok chain -> chain <> [] -> name <> [] ->
    mode_ok mode -> u32 uid -> u32 gid -> str_ok target -> u32 devno ->
    exists L,
      describe_node uroot [] chain false name mode uid gid target devno = (L ++ [ch_nl], true) /\
      forall st,
        fstree_from_file_stream St do_call default_options st (L ++ [ch_nl]) =
        run_calls St do_call st [expected_call uroot (join chain) mode uid gid target devno].
Proof. exact describe_line_rt_l. Qed.
Print Assumptions describe_line_rt.

(* ---- whole trees, with or without --unpack-root: describe succeeds and the
   parser, whatever the file system tree behind fstree_add_generic does
   (do_call), performs exactly the calls of the entries in describe order,
   root first, every directory before its contents ---- *)
Theorem describe_parse_rt :
  forall (St : Type) (do_call : St -> call -> option St) uroot t,
    wf_root t -> uroot_ok uroot ->
    exists out,
      describe uroot t = (out, true) /\
      forall st,
        fstree_from_file_stream St do_call default_options st out =
        run_calls St do_call st (root_calls uroot t).
Proof. exact describe_parse_rt_l. Qed.
Print Assumptions describe_parse_rt.

(* ---- ... and on the file system tree of gensquashfs (FsModel.v: paths ->
   attributes as fstree_add_generic builds them, whatever the defaults) the
   calls succeed and rebuild exactly the entries of the tree: same paths,
   types, permission bits (symlinks: always 0777 in an fstree), owners,
   targets, device numbers, locations; no implicit directory, nothing else ---- *)
Theorem replay_rebuilds :
  forall def_mode def_uid def_gid uroot t,
    wf_root t -> uniq_names t ->
    run_calls (list fnode) (fs_add def_mode def_uid def_gid) (fs_init def_mode def_uid def_gid)
              (root_calls uroot t) = (root_nodes uroot t, None).
Proof. exact replay_rebuilds_l. Qed.
Print Assumptions replay_rebuilds.

Theorem describe_rebuilds :
  forall def_mode def_uid def_gid uroot t,
    wf_root t -> uroot_ok uroot -> uniq_names t ->
    exists out,
      describe uroot t = (out, true) /\
      fstree_from_file_stream (list fnode) (fs_add def_mode def_uid def_gid) default_options
                              (fs_init def_mode def_uid def_gid) out
      = (root_nodes uroot t, None).
Proof. exact describe_rebuilds_l. Qed.
Print Assumptions describe_rebuilds.

(* the hypotheses in plain words *)
Theorem name_ok_iff : forall c,
  name_ok c <-> (~ In ch_nul c /\ ~ In ch_nl c) /\
                c <> [] /\ ~ In slash c /\ c <> [dot] /\ c <> [dot; dot].
Proof. exact name_ok_iff_l. Qed.
Print Assumptions name_ok_iff.

(* ---- the code before the repair violates the statement (F10, F10b) ---- *)
(* parse_log out = fstree_from_file_stream on a tree that merely logs the calls
   (OldProofs.v): (calls performed, error) *)

(* name 'a\ b': the listing is rejected ('broken escape sequence') *)
Theorem old_backslash_space_refuted :
  exists t, wf_root t /\ snd (old_describe None t) = true /\
            snd (parse_log (fst (old_describe None t))) = Some EEscape.
Proof. exact old_backslash_space_l. Qed.
Print Assumptions old_backslash_space_refuted.
(* name with a tab: rejected ('mode must be an octal number') *)
Theorem old_tab_refuted :
  exists t, wf_root t /\ snd (old_describe None t) = true /\
            snd (parse_log (fst (old_describe None t))) = Some EMode.
Proof. exact old_tab_l. Qed.
Print Assumptions old_tab_refuted.
(* symlink target with a space: rejected ('too many arguments') *)
Theorem old_target_space_refuted :
  exists t, wf_root t /\ snd (old_describe None t) = true /\
            snd (parse_log (fst (old_describe None t))) = Some ETooMany.
Proof. exact old_target_space_l. Qed.
Print Assumptions old_target_space_refuted.
(* accepted but silently different: two backslashes before a blank become
   one, a quoted target loses its quotes, a location ending in CR loses it *)
Theorem old_silent_refuted :
  exists uroot t, wf_root t /\ uroot_ok uroot /\ snd (old_describe uroot t) = true /\
    snd (parse_log (fst (old_describe uroot t))) = None /\
    Forall2 (fun c e => c <> e) (fst (parse_log (fst (old_describe uroot t)))) (tl (root_calls uroot t)).
Proof. exact old_silent_l. Qed.
Print Assumptions old_silent_refuted.
(* the root's mode and owner are never printed *)
Theorem old_root_attrs_refuted :
  exists t, wf_root t /\ snd (old_describe None t) = true /\
            parse_log (fst (old_describe None t)) = ([], None) /\ root_calls None t <> [].
Proof. exact old_root_attrs_l. Qed.
Print Assumptions old_root_attrs_refuted.

(* ---- non-vacuity ---- *)
(* /  (0750 1000:100)
     'a b'      file 0644 1:2
     d          dir  0700
       'x\ y'   slink -> 't g't'
       dev      chr 0x12345678
     'e<CR>'    file
     't<TAB>'   sock
   printed with --unpack-root '/un pack' *)
Definition ex_tree : tnode :=
  TNode [] 16872 1000 100 [] 0
    [ TNode [97;32;98] 33188 1 2 [] 0 [];
      TNode [100] 16832 0 0 [] 0
        [ TNode [120;92;32;121] 41471 0 0 [116;32;103;34;116] 0 [];
          TNode [100;101;118] 8576 0 0 [] 305419896 [] ];
      TNode [101;13] 32768 0 4294967295 [] 0 [];
      TNode [116;9] 49572 0 0 [] 0 [] ].
Definition ex_uroot : option (list N) := Some [47;117;110;32;112;97;99;107].

Example ex_wf : wf_root ex_tree /\ uroot_ok ex_uroot.
Proof. split; [apply wf_rootb_sound|apply uroot_okb_sound]; vm_compute; reflexivity. Qed.

(* the listing really is what one expects, quoting included *)
Example ex_listing :
  fst (describe ex_uroot ex_tree) =
  (* dir / 0750 1000 100 *)
  [100;105;114;32;47;32;48;55;53;48;32;49;48;48;48;32;49;48;48;10] ++
  (* file 'a b' 0644 1 2 '/un pack/a b' *)
  [102;105;108;101;32;34;97;32;98;34;32;48;54;52;52;32;49;32;50;32;
   34;47;117;110;32;112;97;99;107;47;97;32;98;34;10] ++
  (* dir d 0700 0 0 *)
  [100;105;114;32;100;32;48;55;48;48;32;48;32;48;10] ++
  (* slink 'd/x\\ y' 0777 0 0 't g\'t' *)
  [115;108;105;110;107;32;34;100;47;120;92;92;32;121;34;32;48;55;55;55;32;48;32;48;32;
   34;116;32;103;92;34;116;34;10] ++
  (* nod d/dev 0600 0 0 c 1110 74616 *)
  [110;111;100;32;100;47;100;101;118;32;48;54;48;48;32;48;32;48;32;99;32;49;49;49;48;32;55;52;54;49;54;10] ++
  (* file 'e<CR>' 00 0 4294967295 '/un pack/e<CR>' *)
  [102;105;108;101;32;34;101;13;34;32;48;48;32;48;32;52;50;57;52;57;54;55;50;57;53;32;
   34;47;117;110;32;112;97;99;107;47;101;13;34;10] ++
  (* sock 't<TAB>' 0644 0 0 *)
  [115;111;99;107;32;34;116;9;34;32;48;54;52;52;32;48;32;48;10].
Proof. vm_compute. reflexivity. Qed.

(* and it parses into the seven entries *)
Example ex_parse :
  parse_log (fst (describe ex_uroot ex_tree)) = (root_calls ex_uroot ex_tree, None) /\
  length (root_calls ex_uroot ex_tree) = 7%nat.
Proof. vm_compute. split; reflexivity. Qed.

(* and into the file system tree: 7 nodes, the symlink with 0777, the device number intact *)
Example ex_uniq : uniq_names ex_tree.
Proof. apply uniq_namesb_sound. vm_compute. reflexivity. Qed.
Example ex_rebuild :
  fstree_from_file_stream (list fnode) (fs_add 493 0 0) default_options (fs_init 493 0 0)
                          (fst (describe ex_uroot ex_tree)) = (root_nodes ex_uroot ex_tree, None) /\
  map f_path (root_nodes ex_uroot ex_tree) =
    [ []; [[97;32;98]]; [[100]]; [[100];[120;92;32;121]]; [[100];[100;101;118]]; [[101;13]]; [[116;9]] ] /\
  map f_devno (root_nodes ex_uroot ex_tree) = [0;0;0;0;305419896;0;0].
Proof. vm_compute. repeat split; reflexivity. Qed.
(* without the parents-first order directories would be created implicitly and
   a later dir line would be needed to fix them: the model does track that *)
Example ex_implicit :
  fst (fstree_from_file_stream (list fnode) (fs_add 493 0 0) default_options (fs_init 493 0 0)
         [102;105;108;101;32;97;47;98;32;48;54;52;52;32;49;32;50;10]) (* file a/b 0644 1 2 *)
  = [ {| f_path := []; f_mode := 16877; f_uid := 0; f_gid := 0; f_devno := 0; f_extra := None; f_implicit := true; f_hard := false |};
      {| f_path := [[97]]; f_mode := 16877; f_uid := 0; f_gid := 0; f_devno := 0; f_extra := None; f_implicit := true; f_hard := false |};
      {| f_path := [[97];[98]]; f_mode := 33188; f_uid := 1; f_gid := 2; f_devno := 0; f_extra := Some [97;47;98]; f_implicit := false; f_hard := false |} ].
Proof. vm_compute. reflexivity. Qed.

(* the parser rejects what it should: a stray backslash inside quotes *)
Example ex_reject : snd (parse_log [102;105;108;101;32;34;97;92;32;98;34;32;48;32;48;32;48;10]) = Some EEscape.
Proof. vm_compute. reflexivity. Qed.

(* the `link` keyword reaches the tree as a hard link entry (repo fix F05): forced mode S_IFLNK|0777,
   FLAG_LINK_IS_HARD, target canonicalised by mknode *)
Example ex_link_is_hard :
  fst (fstree_from_file_stream (list fnode) (fs_add 493 0 0) default_options (fs_init 493 0 0)
         [108;105;110;107;32;108;32;48;54;52;52;32;55;32;56;32;46;47;97;47;47;98;10]) (* link l 0644 7 8 ./a//b *)
  = [ {| f_path := []; f_mode := 16877; f_uid := 0; f_gid := 0; f_devno := 0; f_extra := None; f_implicit := true; f_hard := false |};
      {| f_path := [[108]]; f_mode := 41471; f_uid := 7; f_gid := 8; f_devno := 0; f_extra := Some [97;47;98]; f_implicit := false; f_hard := true |} ].
Proof. vm_compute. reflexivity. Qed.

(* device numbers must fit 12 bit major / 20 bit minor (repo fix F24): the first value beyond is refused *)
Example ex_nod_major_range :
  snd (parse_log [110;111;100;32;110;32;48;54;52;52;32;48;32;48;32;99;32;52;48;57;53;32;49;48;52;56;53;55;53;10]) = None /\
  snd (parse_log [110;111;100;32;110;32;48;54;52;52;32;48;32;48;32;99;32;52;48;57;54;32;48;10]) = Some EDevNum /\
  snd (parse_log [110;111;100;32;110;32;48;54;52;52;32;48;32;48;32;98;32;48;32;49;48;52;56;53;55;54;10]) = Some EDevNum.
Proof. vm_compute. repeat split; reflexivity. Qed.
