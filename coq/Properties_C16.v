(* C16 -- the listing printed by rdsquashfs --describe is valid gensquashfs
   --pack-file input that rebuilds the tree.  Statements only; every proof is
   one [exact] of a lemma from C16/*Proofs.v.  The printer model follows
   describe.c WITH props/C16/fixes/*.patch applied; the behaviour before the
   repair is DescribeOld.v, about which the ..._refuted statements are. *)
From Coq Require Import List NArith Bool.
From SqfsV Require Import C18.CanonModel C18.CanonSpec.
From SqfsV Require Import C16.GenC16 C16.ParseModel C16.DescribeModel C16.DescribeOld
     C16.RoundTripSpec C16.FsModel C16.FsSpec C16.TokenProofs C16.NumProofs C16.RoundTripProofs C16.FsProofs
     C16.WfDec C16.OldProofs.
Import ListNotations.
Local Open Scope N_scope.

(* ---- tokens: every string without NUL -- spaces, tabs, quotes, backslashes,
   carriage returns, '#', newlines included -- is read back unchanged ---- *)
Theorem token_rt : forall s, ~ In ch_nul s ->
  split_line pack_file_sep (print_token None s) = SplitOk [s].
Proof. exact token_rt_l. Qed.
Print Assumptions token_rt.

Theorem token_prefix_rt : forall p s, ~ In ch_nul p -> ~ In ch_nul s ->
  split_line pack_file_sep (print_token (Some p) s) = SplitOk [p ++ [slash] ++ s].
Proof. exact token_prefix_rt_l. Qed.
Print Assumptions token_prefix_rt.

(* a line of such tokens separated by single blanks splits into the tokens *)
Theorem line_rt : forall toks, Forall (fun t => ~ In ch_nul t) toks ->
  split_line pack_file_sep (render toks) = SplitOk toks.
Proof. exact split_render. Qed.
Print Assumptions line_rt.

(* ---- numbers ---- *)
Theorem decimal_rt : forall v, v <= 4294967295 ->
  parse_uint 0 u32_max (print_dec v) = NumOk v.
Proof. exact parse_print_dec. Qed.
Print Assumptions decimal_rt.
Theorem octal_mode_rt : forall p, p <= 4095 ->
  parse_uint_oct 0 4095 (ch_0 :: print_oct p) = NumOk p.
Proof. exact parse_print_oct. Qed.
Print Assumptions octal_mode_rt.
Theorem devno_rt : forall d, d < 4294967296 -> makedev (major32 d) (minor32 d) = d.
Proof. exact makedev_major_minor. Qed.
Print Assumptions devno_rt.

(* ---- one entry: the line describe prints for it makes the parser perform
   exactly the call that stands for the entry (same path, mode word, uid,
   gid, device number, symlink target / file location) ---- *)
Theorem describe_line_rt :
  forall (St : Type) (do_call : St -> call -> option St)
         uroot chain name mode uid gid target devno,
    uroot_ok uroot -> Forall name_ok chain -> chain <> [] -> name <> [] ->
    mode_ok mode -> u32 uid -> u32 gid -> str_ok target -> u32 devno ->
    exists L,
      describe_node uroot [] chain false name mode uid gid target devno = (L ++ [ch_nl], true) /\
      forall st,
        fstree_from_file_stream St do_call default_options st (L ++ [ch_nl]) =
        run_calls St do_call st [expected_call uroot (join chain) mode uid gid target devno].
Proof. exact describe_line_rt_l. Qed.
Print Assumptions describe_line_rt.

(* ---- whole trees, with or without --unpack-root: describe succeeds and the
   parser, whatever the file system tree behind fstree_add_generic does
   (do_call), performs exactly the calls of the entries in describe order,
   root first, every directory before its contents ---- *)
Theorem describe_parse_rt :
  forall (St : Type) (do_call : St -> call -> option St) uroot t,
    wf_root t -> uroot_ok uroot ->
    exists out,
      describe uroot t = (out, true) /\
      forall st,
        fstree_from_file_stream St do_call default_options st out =
        run_calls St do_call st (root_calls uroot t).
Proof. exact describe_parse_rt_l. Qed.
Print Assumptions describe_parse_rt.

(* ---- ... and on the file system tree of gensquashfs (FsModel.v: paths ->
   attributes as fstree_add_generic builds them, whatever the defaults) the
   calls succeed and rebuild exactly the entries of the tree: same paths,
   types, permission bits (symlinks: always 0777 in an fstree), owners,
   targets, device numbers, locations; no implicit directory, nothing else ---- *)
Theorem replay_rebuilds :
  forall def_mode def_uid def_gid uroot t,
    wf_root t -> uniq_names t ->
    run_calls (list fnode) (fs_add def_mode def_uid def_gid) (fs_init def_mode def_uid def_gid)
              (root_calls uroot t) = (root_nodes uroot t, None).
Proof. exact replay_rebuilds_l. Qed.
Print Assumptions replay_rebuilds.

Theorem describe_rebuilds :
  forall def_mode def_uid def_gid uroot t,
    wf_root t -> uroot_ok uroot -> uniq_names t ->
    exists out,
      describe uroot t = (out, true) /\
      fstree_from_file_stream (list fnode) (fs_add def_mode def_uid def_gid) default_options
                              (fs_init def_mode def_uid def_gid) out
      = (root_nodes uroot t, None).
Proof. exact describe_rebuilds_l. Qed.
Print Assumptions describe_rebuilds.

(* the hypotheses in plain words *)
Theorem name_ok_iff : forall c,
  name_ok c <-> (~ In ch_nul c /\ ~ In ch_nl c) /\
                c <> [] /\ ~ In slash c /\ c <> [dot] /\ c <> [dot; dot].
Proof. exact name_ok_iff_l. Qed.
Print Assumptions name_ok_iff.

(* ---- the code before the repair violates the statement (F10, F10b) ---- *)
(* parse_log out = fstree_from_file_stream on a tree that merely logs the calls
   (OldProofs.v): (calls performed, error) *)

(* name 'a\ b': the listing is rejected ('broken escape sequence') *)
Theorem old_backslash_space_refuted :
  exists t, wf_root t /\ snd (old_describe None t) = true /\
            snd (parse_log (fst (old_describe None t))) = Some EEscape.
Proof. exact old_backslash_space_l. Qed.
Print Assumptions old_backslash_space_refuted.
(* name with a tab: rejected ('mode must be an octal number') *)
Theorem old_tab_refuted :
  exists t, wf_root t /\ snd (old_describe None t) = true /\
            snd (parse_log (fst (old_describe None t))) = Some EMode.
Proof. exact old_tab_l. Qed.
Print Assumptions old_tab_refuted.
(* symlink target with a space: rejected ('too many arguments') *)
Theorem old_target_space_refuted :
  exists t, wf_root t /\ snd (old_describe None t) = true /\
            snd (parse_log (fst (old_describe None t))) = Some ETooMany.
Proof. exact old_target_space_l. Qed.
Print Assumptions old_target_space_refuted.
(* accepted but silently different: two backslashes before a blank become
   one, a quoted target loses its quotes, a location ending in CR loses it *)
Theorem old_silent_refuted :
  exists uroot t, wf_root t /\ uroot_ok uroot /\ snd (old_describe uroot t) = true /\
    snd (parse_log (fst (old_describe uroot t))) = None /\
    Forall2 (fun c e => c <> e) (fst (parse_log (fst (old_describe uroot t)))) (tl (root_calls uroot t)).
Proof. exact old_silent_l. Qed.
Print Assumptions old_silent_refuted.
(* the root's mode and owner are never printed *)
Theorem old_root_attrs_refuted :
  exists t, wf_root t /\ snd (old_describe None t) = true /\
            parse_log (fst (old_describe None t)) = ([], None) /\ root_calls None t <> [].
Proof. exact old_root_attrs_l. Qed.
Print Assumptions old_root_attrs_refuted.

(* ---- non-vacuity ---- *)
(* /  (0750 1000:100)
     'a b'      file 0644 1:2
     d          dir  0700
       'x\ y'   slink -> 't g't'
       dev      chr 0x12345678
     'e<CR>'    file
     't<TAB>'   sock
   printed with --unpack-root '/un pack' *)
Definition ex_tree : tnode :=
  TNode [] 16872 1000 100 [] 0
    [ TNode [97;32;98] 33188 1 2 [] 0 [];
      TNode [100] 16832 0 0 [] 0
        [ TNode [120;92;32;121] 41471 0 0 [116;32;103;34;116] 0 [];
          TNode [100;101;118] 8576 0 0 [] 305419896 [] ];
      TNode [101;13] 32768 0 4294967295 [] 0 [];
      TNode [116;9] 49572 0 0 [] 0 [] ].
Definition ex_uroot : option (list N) := Some [47;117;110;32;112;97;99;107].

Example ex_wf : wf_root ex_tree /\ uroot_ok ex_uroot.
Proof. split; [apply wf_rootb_sound|apply uroot_okb_sound]; vm_compute; reflexivity. Qed.

(* the listing really is what one expects, quoting included *)
Example ex_listing :
  fst (describe ex_uroot ex_tree) =
  (* dir / 0750 1000 100 *)
  [100;105;114;32;47;32;48;55;53;48;32;49;48;48;48;32;49;48;48;10] ++
  (* file 'a b' 0644 1 2 '/un pack/a b' *)
  [102;105;108;101;32;34;97;32;98;34;32;48;54;52;52;32;49;32;50;32;
   34;47;117;110;32;112;97;99;107;47;97;32;98;34;10] ++
  (* dir d 0700 0 0 *)
  [100;105;114;32;100;32;48;55;48;48;32;48;32;48;10] ++
  (* slink 'd/x\\ y' 0777 0 0 't g\'t' *)
  [115;108;105;110;107;32;34;100;47;120;92;92;32;121;34;32;48;55;55;55;32;48;32;48;32;
   34;116;32;103;92;34;116;34;10] ++
  (* nod d/dev 0600 0 0 c 1110 74616 *)
  [110;111;100;32;100;47;100;101;118;32;48;54;48;48;32;48;32;48;32;99;32;49;49;49;48;32;55;52;54;49;54;10] ++
  (* file 'e<CR>' 00 0 4294967295 '/un pack/e<CR>' *)
  [102;105;108;101;32;34;101;13;34;32;48;48;32;48;32;52;50;57;52;57;54;55;50;57;53;32;
   34;47;117;110;32;112;97;99;107;47;101;13;34;10] ++
  (* sock 't<TAB>' 0644 0 0 *)
  [115;111;99;107;32;34;116;9;34;32;48;54;52;52;32;48;32;48;10].
Proof. vm_compute. reflexivity. Qed.

(* and it parses into the seven entries *)
Example ex_parse :
  parse_log (fst (describe ex_uroot ex_tree)) = (root_calls ex_uroot ex_tree, None) /\
  length (root_calls ex_uroot ex_tree) = 7%nat.
Proof. vm_compute. split; reflexivity. Qed.

(* and into the file system tree: 7 nodes, the symlink with 0777, the device number intact *)
Example ex_uniq : uniq_names ex_tree.
Proof. apply uniq_namesb_sound. vm_compute. reflexivity. Qed.
Example ex_rebuild :
  fstree_from_file_stream (list fnode) (fs_add 493 0 0) default_options (fs_init 493 0 0)
                          (fst (describe ex_uroot ex_tree)) = (root_nodes ex_uroot ex_tree, None) /\
  map f_path (root_nodes ex_uroot ex_tree) =
    [ []; [[97;32;98]]; [[100]]; [[100];[120;92;32;121]]; [[100];[100;101;118]]; [[101;13]]; [[116;9]] ] /\
  map f_devno (root_nodes ex_uroot ex_tree) = [0;0;0;0;305419896;0;0].
Proof. vm_compute. repeat split; reflexivity. Qed.
(* without the parents-first order directories would be created implicitly and
   a later dir line would be needed to fix them: the model does track that *)
Example ex_implicit :
  fst (fstree_from_file_stream (list fnode) (fs_add 493 0 0) default_options (fs_init 493 0 0)
         [102;105;108;101;32;97;47;98;32;48;54;52;52;32;49;32;50;10]) (* file a/b 0644 1 2 *)
  = [ {| f_path := []; f_mode := 16877; f_uid := 0; f_gid := 0; f_devno := 0; f_extra := None; f_implicit := true; f_hard := false |};
      {| f_path := [[97]]; f_mode := 16877; f_uid := 0; f_gid := 0; f_devno := 0; f_extra := None; f_implicit := true; f_hard := false |};
      {| f_path := [[97];[98]]; f_mode := 33188; f_uid := 1; f_gid := 2; f_devno := 0; f_extra := Some [97;47;98]; f_implicit := false; f_hard := false |} ].
Proof. vm_compute. reflexivity. Qed.

(* the parser rejects what it should: a stray backslash inside quotes *)
Example ex_reject : snd (parse_log [102;105;108;101;32;34;97;92;32;98;34;32;48;32;48;32;48;10]) = Some EEscape.
Proof. vm_compute. reflexivity. Qed.

(* the `link` keyword reaches the tree as a hard link entry (repo fix F05): forced mode S_IFLNK|0777,
   FLAG_LINK_IS_HARD, target canonicalised by mknode *)
Example ex_link_is_hard :
  fst (fstree_from_file_stream (list fnode) (fs_add 493 0 0) default_options (fs_init 493 0 0)
         [108;105;110;107;32;108;32;48;54;52;52;32;55;32;56;32;46;47;97;47;47;98;10]) (* link l 0644 7 8 ./a//b *)
  = [ {| f_path := []; f_mode := 16877; f_uid := 0; f_gid := 0; f_devno := 0; f_extra := None; f_implicit := true; f_hard := false |};
      {| f_path := [[108]]; f_mode := 41471; f_uid := 7; f_gid := 8; f_devno := 0; f_extra := Some [97;47;98]; f_implicit := false; f_hard := true |} ].
Proof. vm_compute. reflexivity. Qed.

(* device numbers must fit 12 bit major / 20 bit minor (repo fix F24): the first value beyond is refused *)
Example ex_nod_major_range :
  snd (parse_log [110;111;100;32;110;32;48;54;52;52;32;48;32;48;32;99;32;52;48;57;53;32;49;48;52;56;53;55;53;10]) = None /\
  snd (parse_log [110;111;100;32;110;32;48;54;52;52;32;48;32;48;32;99;32;52;48;57;54;32;48;10]) = Some EDevNum /\
  snd (parse_log [110;111;100;32;110;32;48;54;52;52;32;48;32;48;32;98;32;48;32;49;48;52;56;53;55;54;10]) = Some EDevNum.
Proof. vm_compute. repeat split; reflexivity. Qed.

(* ================================================================================================ *)
(* Extension (session 3)                                                                            *)
(* ================================================================================================ *)

(* ---- (a) the specification side of replay_rebuilds / describe_rebuilds, independent of the model ----
   FsSpec.entry_node is defined through FsModel.stored_node (the transcription of mknode), so a slip there would be on
   both sides of the theorems above.  C16/FsSpecLit.v spells the node an entry must become out as a record literal per
   entry kind with numeric literals for the type bits (dir / file: extra = location / slink: mode forced to
   S_IFLNK|0777, extra = target / nod: device number / pipe, sock: nothing else), proves it equal to entry_node on
   every mode word of the property, and restates the two theorems with the literal on the specification side. *)
From SqfsV Require Import C16.FsSpecLit.

Theorem entry_spec_literal : forall uroot p mode uid gid target devno,
  mode_ok mode -> entry_node uroot p mode uid gid target devno = entry_lit uroot p mode uid gid target devno.
Proof. exact entry_lit_is_entry_node. Qed.
Print Assumptions entry_spec_literal.

Theorem replay_rebuilds_lit :
  forall def_mode def_uid def_gid uroot t,
    wf_root t -> uniq_names t ->
    run_calls (list fnode) (fs_add def_mode def_uid def_gid) (fs_init def_mode def_uid def_gid)
              (root_calls uroot t) = (root_nodes_lit uroot t, None).
Proof. exact replay_rebuilds_lit_l. Qed.
Print Assumptions replay_rebuilds_lit.

Theorem describe_rebuilds_lit :
  forall def_mode def_uid def_gid uroot t,
    wf_root t -> uroot_ok uroot -> uniq_names t ->
    exists out,
      describe uroot t = (out, true) /\
      fstree_from_file_stream (list fnode) (fs_add def_mode def_uid def_gid) default_options
                              (fs_init def_mode def_uid def_gid) out
      = (root_nodes_lit uroot t, None).
Proof. exact describe_rebuilds_lit_l. Qed.
Print Assumptions describe_rebuilds_lit.

(* the literals are the generated <sys/stat.h> values, and the literal specification of the example tree, written out *)
Example ex_lit_constants :
  c_S_IFMT = 61440 /\ c_S_IFDIR = 16384 /\ c_S_IFREG = 32768 /\ c_S_IFLNK = 40960 /\ c_S_IFCHR = 8192 /\
  c_S_IFBLK = 24576 /\ c_S_IFIFO = 4096 /\ c_S_IFSOCK = 49152 /\ N.lor c_S_IFLNK 511 = 41471 /\ slash = 47.
Proof. exact lit_constants. Qed.
Example ex_rebuild_lit :
  root_nodes_lit ex_uroot ex_tree =
  [ {| f_path := []; f_mode := 16872; f_uid := 1000; f_gid := 100; f_devno := 0; f_extra := None; f_implicit := false; f_hard := false |};
    {| f_path := [[97;32;98]]; f_mode := 33188; f_uid := 1; f_gid := 2; f_devno := 0;
       f_extra := Some [47;117;110;32;112;97;99;107;47;97;32;98]; f_implicit := false; f_hard := false |};
    {| f_path := [[100]]; f_mode := 16832; f_uid := 0; f_gid := 0; f_devno := 0; f_extra := None; f_implicit := false; f_hard := false |};
    {| f_path := [[100];[120;92;32;121]]; f_mode := 41471; f_uid := 0; f_gid := 0; f_devno := 0;
       f_extra := Some [116;32;103;34;116]; f_implicit := false; f_hard := false |};
    {| f_path := [[100];[100;101;118]]; f_mode := 8576; f_uid := 0; f_gid := 0; f_devno := 305419896; f_extra := None;
       f_implicit := false; f_hard := false |};
    {| f_path := [[101;13]]; f_mode := 32768; f_uid := 0; f_gid := 4294967295; f_devno := 0;
       f_extra := Some [47;117;110;32;112;97;99;107;47;101;13]; f_implicit := false; f_hard := false |};
    {| f_path := [[116;9]]; f_mode := 49572; f_uid := 0; f_gid := 0; f_devno := 0; f_extra := None; f_implicit := false; f_hard := false |} ] /\
  root_nodes_lit ex_uroot ex_tree = root_nodes ex_uroot ex_tree.
Proof. vm_compute. split; reflexivity. Qed.

(* ---- (b) from the image to the image: describe on a tree READ FROM THE TABLES, packed again (coq/ImgDescribe) ----
   So far the round trip ended at the flat node list of C16/FsModel.v.  Here the describe side starts at the reader: the
   tree [lt] that Img.tree_roundtrip / C01.pack_paths_roundtrip say is read back from serialized tables is presented to
   describe as the sqfs_tree_node_t hierarchy ([describe_input]: name, inode mode, owner through the id table, symlink
   target, device number, entries in directory order); describe's output is parsed by the pack file parser whose
   fstree_add_generic calls now act on the fstree model of C11 (sorted children, link counts, links_unresolved:
   [do_add]); fstree_post_process (C11) and the bridge to the serializer (ImgPost.to_img) follow.

   Hypotheses (all decidable, all met by ex_repack_hyps):
     lt_okb lt           kinds agree with the type bits, symbolic links carry 0777 (every symlink of an fstree does),
                         owners resolve, listings strictly sorted, only directories have entries — for a tree read from
                         representable tables this is only the 0777 condition (repack_domain)
     wf_root (...)       C16's hypothesis on the described tree: names without NUL, newline, '/', not '.' / '..',
                         targets without NUL / newline, 12 permission bits, 32 bit owners and device numbers
     input_okb bs d ops  ImgPost's bounds on the fstree_add_generic calls (names <= 65536 bytes, count < 2^32, ...)

   describe_repack_same_tree: describe succeeds; the parser accepts the listing and builds exactly [build_root] (one node
   per entry, nothing implicit, no link queued); post processing succeeds; and for every file inodes / xattr indices the
   rest of the packer attaches, the new tables read back as the SAME paths in the same order with the same type and
   permission bits, owner, symlink target and device number.
   NOT preserved, and why equality of the tables fails in general: (1) hard links — describe prints every name as a file
   of its own, so a group of names sharing one inode comes back as independent inodes (ex_repack_same_tree: inode 1 twice
   before, 1 and 8 after) and inode numbers / link counts shift; (2) time stamps — the pack file format has none, every
   node gets the default; (3) xattrs — not printed.
   describe_repack_fixed_point: what the cycle produces is reproduced EXACTLY by the next cycle: the reader hands describe
   the identical hierarchy, describe prints the identical listing, the parser builds the identical fstree, and with the
   same file inodes and xattr indices the serializer gets the identical input — the same inode, directory and id tables
   byte for byte.  (ex_repack_same_tables: for a tree without hard links whose time stamps are the default already the
   first cycle reproduces the tables.) *)
From SqfsV Require C03.Common C01.Res C01.InodeModel Img.TreeModel.
From SqfsV Require C11.StrOrder C11.FstreeModel C11.PostModel.
From SqfsV Require Import ImgPost.Bridge ImgPost.InputOk ImgPost.PathsModel.
From SqfsV Require Import ImgDescribe.RepackModel ImgDescribe.ReplayProofs ImgDescribe.RepackProofs
  ImgDescribe.FixedPoint ImgDescribe.SpecOk ImgDescribe.Example.

Definition meta_contract16 (compress : list N -> Common.cres) (uncompress : list N -> option (list N)) : Prop :=
  forall b c, compress b = Common.CData c -> Common.lenN c <= Common.lenN b /\ uncompress c = Some b.

(* the calls of a described tree, replayed on the C11 fstree, build [build_root] *)
Theorem replay_builds_fstree : forall d uroot t,
  wf_root t -> Sorted.StronglySorted StrOrder.str_lt (map dname (dchildren t)) -> Forall rwf (dchildren t) ->
  run_calls FstreeModel.fstree (do_add d) (FstreeModel.fs_init d) (root_calls uroot t) =
  (FstreeModel.mkFs (build_root d uroot t) [], None).
Proof. exact replay_root. Qed.
Print Assumptions replay_builds_fstree.

(* the tree a reader finds in representable tables is in the domain as soon as symlinks carry 0777 *)
Theorem repack_domain : forall compress uncompress, meta_contract16 compress uncompress ->
  forall limit, limit <= 65536 ->
  forall bs t img,
  TreeModel.representable bs t = true -> slinks_0777 t ->
  TreeModel.serialize_fstree compress limit t = Res.Ok img -> TreeModel.trace_fits img = true ->
  exists lt, TreeModel.read_tree uncompress bs (TreeModel.si_itbl img) (TreeModel.si_dtbl img) (TreeModel.si_ids img)
                                 (length t) (TreeModel.si_root img) = Some lt /\
             lt_okb lt = true.
Proof. exact read_back_ok. Qed.
Print Assumptions repack_domain.

Theorem describe_repack_same_tree : forall compress uncompress, meta_contract16 compress uncompress ->
  forall limit, limit <= 65536 ->
  forall bs d uroot lt,
  lt_okb lt = true -> wf_root (describe_input [] lt) -> uroot_ok uroot ->
  input_okb bs d (calls_ops d (root_calls uroot (describe_input [] lt))) = true ->
  exists out pp2,
    describe uroot (describe_input [] lt) = (out, true) /\
    fstree_from_file_stream FstreeModel.fstree (do_add d) default_options (FstreeModel.fs_init d) out =
      (FstreeModel.mkFs (build_root d uroot (describe_input [] lt)) [], None) /\
    repack d uroot lt = Some pp2 /\
    forall fb2 xa2 img2,
      attached_okb bs fb2 xa2 pp2 = true ->
      TreeModel.serialize_fstree compress limit (to_img fb2 xa2 pp2) = Res.Ok img2 ->
      TreeModel.trace_fits img2 = true ->
      exists lt2,
        TreeModel.read_tree uncompress bs (TreeModel.si_itbl img2) (TreeModel.si_dtbl img2) (TreeModel.si_ids img2)
                            (length (PostModel.pp_inodes pp2)) (TreeModel.si_root img2) = Some lt2 /\
        map entry_view (flat_lt [] lt2) = map entry_view (flat_lt [] lt).
Proof. exact describe_repack_same_tree_l. Qed.
Print Assumptions describe_repack_same_tree.

(* (independent audit 4, item 5: the CONTENT of the statement below is its second conjunct - the re-read hierarchy is handed to
   describe as the identical input; the last conjunct follows from the fourth and the hypotheses by rewriting and is kept only
   as the readable form of "the third generation is byte-identical to the second") *)
Theorem describe_repack_fixed_point : forall compress uncompress, meta_contract16 compress uncompress ->
  forall limit, limit <= 65536 ->
  forall bs d uroot lt pp2 fb2 xa2 img2,
  lt_okb lt = true -> wf_root (describe_input [] lt) -> uroot_ok uroot ->
  input_okb bs d (calls_ops d (root_calls uroot (describe_input [] lt))) = true ->
  repack d uroot lt = Some pp2 ->
  attached_okb bs fb2 xa2 pp2 = true ->
  TreeModel.serialize_fstree compress limit (to_img fb2 xa2 pp2) = Res.Ok img2 ->
  TreeModel.trace_fits img2 = true ->
  exists lt2,
    TreeModel.read_tree uncompress bs (TreeModel.si_itbl img2) (TreeModel.si_dtbl img2) (TreeModel.si_ids img2)
                        (length (PostModel.pp_inodes pp2)) (TreeModel.si_root img2) = Some lt2 /\
    describe_input [] lt2 = describe_input [] lt /\
    (forall u, describe u (describe_input [] lt2) = describe u (describe_input [] lt)) /\
    (forall d' u, repack d' u lt2 = repack d' u lt) /\
    (forall pp3, repack d uroot lt2 = Some pp3 ->
       TreeModel.serialize_fstree compress limit (to_img fb2 xa2 pp3) = Res.Ok img2).
Proof. exact describe_repack_fixed_point_l. Qed.
Print Assumptions describe_repack_fixed_point.

(* ---- non-vacuity: d/{'a b', q'\ -> 'x y'}, e, p (fifo), s (socket), 't<TAB>' (chr 1:3), z = hard link to 'd/a b' ---- *)
Example ex_describe_repack_hyps :
  lt_okb y_lt = true /\ wf_root (describe_input [] y_lt) /\ uroot_ok y_uroot /\
  input_okb 4096 y_dflt (calls_ops y_dflt (root_calls y_uroot (describe_input [] y_lt))) = true /\
  match gen1 y_ops with
  | Some (pp, _, _) => TreeModel.representable 4096 (to_img y_fb y_xa pp) = true /\ length (PostModel.pp_inodes pp) = 8%nat
  | None => False
  end.
Proof. exact ex_repack_hyps. Qed.
Example ex_describe_repack_same_tree :
  match gen1 y_ops, regen y_fb2 y_lt with
  | Some (pp1, img1, lt1), Some (pp2, img2, lt2) =>
      attached_okb 4096 y_fb2 y_xa pp2 = true /\
      map entry_view (flat_lt [] lt2) = map entry_view (flat_lt [] lt1) /\
      map entry_view (flat_lt [] lt1) =
        [([], 16877, Some 0, Some 0, EDir);
         ([y_d], 16832, Some 1, Some 2, EDir);
         ([y_d; y_ab], 33188, Some 1000, Some 100, EFile);
         ([y_d; y_q], 41471, Some 7, Some 8, ESlink [120; 32; 121]);
         ([y_e], 33024, Some 0, Some 0, EFile);
         ([y_p], 4516, Some 0, Some 0, EIpc false);
         ([y_s], 49645, Some 0, Some 4294967295, EIpc true);
         ([y_t], 8576, Some 0, Some 0, EDev true 259);
         ([y_z], 33188, Some 1000, Some 100, EFile)] /\
      map snd (flat_lt [] lt1) = [8; 3; 1; 2; 4; 5; 6; 7; 1] /\
      map snd (flat_lt [] lt2) = [9; 3; 1; 2; 4; 5; 6; 7; 8] /\
      PostModel.pp_files pp2 = [[y_d; y_ab]; [y_e]; [y_z]] /\
      TreeModel.si_itbl img1 <> TreeModel.si_itbl img2
  | _, _ => False
  end.
Proof. exact ex_repack_same_tree. Qed.
Example ex_describe_repack_fixed_point :
  describe_input [] y_lt2 = describe_input [] y_lt /\
  repack y_dflt y_uroot y_lt2 = repack y_dflt y_uroot y_lt /\
  match regen y_fb2 y_lt, regen y_fb2 y_lt2 with
  | Some (_, img2, _), Some (_, img3, _) => img3 = img2
  | _, _ => False
  end.
Proof. exact ex_repack_fixed_point. Qed.
Example ex_describe_repack_same_tables :
  match gen1 y_ops_nl with
  | Some (pp1, img1, lt1) =>
      match regen y_fb lt1 with
      | Some (pp2, img2, _) =>
          to_img y_fb y_xa pp2 = to_img y_fb y_xa pp1 /\
          TreeModel.si_itbl img2 = TreeModel.si_itbl img1 /\ TreeModel.si_dtbl img2 = TreeModel.si_dtbl img1 /\
          TreeModel.si_ids img2 = TreeModel.si_ids img1 /\ TreeModel.si_root img2 = TreeModel.si_root img1 /\
          Common.lenN (TreeModel.si_itbl img1) = 208 /\ Common.lenN (TreeModel.si_dtbl img1) = 89
      | None => False
      end
  | None => False
  end.
Proof. exact ex_repack_same_tables. Qed.

(* ---- (c) the CONTENTS: describe + unpack, packed by gensquashfs --pack-file, read back by the reader models ----
   (coq/ImgDescribe/HostModel.v, ContentsProofs.v, ExampleContents.v)
   So far file contents and the file inodes of the data path were abstract ([fb] above; compared only by the tool oracle).
   Here the cycle is closed through ImgE2E.pack_all (C01 section 7: fstree -> xattrs -> C08 data path -> sqfs_writer_finish)
   and ImgE2E.read_all (the models of the real readers: tree, fragment table, sqfs_data_reader_read, xattrs):

     rdsquashfs -u / [-p dir] IMG        per regular file q of the tree one host file <udir>/<q> holding data q   [unpack_host]
     rdsquashfs -d [-p uroot] IMG        the listing (C16 DescribeModel); `file` lines carry <uroot>/<q>        [location]
     gensquashfs [-D dir] -F listing     packdir = -D, else the pack file name up to its last '/' (options.c)     [packdir_of]
                                         pack_files: chdir(packdir), open(node->data.file.input_file) (mkfs.c)   [gens_dir],
                                         adds = what fstree_from_file_stream does with the BYTES of the listing  [listing_calls]
                                         contents of tree path p = the host file at the resolved location of p   [repack_input]

   MODEL ASSUMPTION: the host file system between the two tools is a finite map from path strings to byte strings;
   a relative path is resolved by prefixing the working directory textually (at_cwd).  What the kernel adds (symbolic
   links, '//', '.', '..') is outside; the tool level leg of props/C16 runs the real cycle on real files and compares the
   sha256 of every regular file, and its open() log is compared with [at_cwd pcwd (location uroot q)].

   location_resolves: if the two tools look at the same place ([same_place]: with an absolute unpack root always; with a
   relative one or none iff gensquashfs' pack directory (+ the unpack root) is the directory the files were unpacked into),
   the location of every described regular file, opened from the directory pack_files works in, is the host file unpack
   wrote for that entry — different entries never share a host file (join is injective on '/'-free names).
   describe_repack_contents: for every tree in the domain of the C16 theorems (lt_okb, wf_root) and ARBITRARY contents
   [data] (any sizes: empty, below a block, several blocks, zero blocks — the hypotheses do not mention them beyond
   e2e_okb's < 2^31 - 1 bytes per file), whenever the packing run succeeds and ImgE2E's decidable run-level hypotheses hold,
   describe succeeds, the parser accepts the listing and performs root_calls, and read_all on the BYTES of the new image
   returns, in directory order, the same paths with the same type + permission bits, owner, symlink target and device
   number as the tree that was described, for every regular file exactly the unpacked bytes, and no bytes for anything else.
   Flags per file (uflags), xattr sources, compressor options and the worker schedule are arbitrary.
   Hypotheses that remain: those of pack_all_reads_back (the two compressor contracts, limit <= 65535, e2e_okb on the
   run, loop bounds) — a bound on the input implying pack_all = PDone / e2e_okb is not proved (as in C01 section 7). *)
From SqfsV Require C08.DedupModel Image.FinishModel C05.RBase ImgReader.Embed.
From SqfsV Require ImgE2E.PackAll ImgE2E.Hyps.
From SqfsV Require Import ImgDescribe.HostModel ImgDescribe.ContentsProofs ImgDescribe.ExampleContents.

Theorem location_resolves : forall uroot cwd_u unp cwd_g opt_D infile pcwd lt data,
  lt_okb lt = true -> wf_root (describe_input [] lt) ->
  gens_dir cwd_g opt_D infile = Some pcwd -> same_place uroot pcwd (unpack_dir cwd_u unp) ->
  forall q, In q (file_paths lt) ->
    host_read (unpack_host (unpack_dir cwd_u unp) lt data) (at_cwd pcwd (location uroot q)) = Some (data q).
Proof. exact location_resolves_p. Qed.
Print Assumptions location_resolves.

Theorem describe_repack_contents :
  forall (hashf : list N -> N)
         (dcompress : list N -> option (list N)) (duncompress : list N -> nat -> option (list N)),
  (forall b c, dcompress b = Some c ->
     (length c < length b)%nat /\ forall n, (length b <= n)%nat -> duncompress c n = Some b) ->
  forall compress uncompress, meta_contract16 compress uncompress ->
  forall uc, Embed.uc_meets uncompress uc ->
  forall limit, limit <= 65535 ->
  forall half cfg d uroot lt (data : FstreeModel.path -> list N) cwd_u unp cwd_g opt_D infile pcwd flags xattrs opts sched r,
  lt_okb lt = true -> wf_root (describe_input [] lt) -> uroot_ok uroot ->
  gens_dir cwd_g opt_D infile = Some pcwd -> same_place uroot pcwd (unpack_dir cwd_u unp) ->
  let host := unpack_host (unpack_dir cwd_u unp) lt data in
  let listing := fst (describe uroot (describe_input [] lt)) in
  let pi := repack_input d listing host pcwd flags xattrs opts sched in
  PackAll.pack_all hashf dcompress duncompress half compress limit cfg pi = PackAll.PDone r ->
  Hyps.e2e_okb half cfg pi r = true ->
  forall depth efuel fuel,
  (Hyps.e2e_depth r <= depth)%nat -> (Hyps.e2e_efuel r <= efuel)%nat -> (Hyps.e2e_fuel r <= fuel)%nat ->
  exists out,
    snd (describe uroot (describe_input [] lt)) = true /\
    listing_calls listing = Some (root_calls uroot (describe_input [] lt)) /\
    PackAll.read_all uc uncompress duncompress (FinishModel.image_bytes (PackAll.r_w r)) depth efuel fuel = RBase.Ok out /\
    map (fun e => entry_view (PackAll.re_path e, PackAll.re_view e, PackAll.re_ino e)) out = map entry_view (flat_lt [] lt) /\
    (forall e, In e out -> ekind_of (pv_kind (PackAll.re_view e)) = EFile ->
               In (PackAll.re_path e) (file_paths lt) /\ PackAll.re_data e = Some (data (PackAll.re_path e))) /\
    (forall e, In e out -> ekind_of (pv_kind (PackAll.re_view e)) <> EFile -> PackAll.re_data e = None) /\
    (forall q, In q (file_paths lt) ->
               exists e, In e out /\ PackAll.re_path e = q /\ PackAll.re_data e = Some (data q)).
Proof. exact describe_repack_contents_p. Qed.
Print Assumptions describe_repack_contents.

(* ---- non-vacuity: d/'a b' (5 bytes), e (empty), 'm\ x' (8195 bytes = 2 blocks + tail), z (4096 zeros: a sparse block),
   unpacked below the RELATIVE unpack root 'un pack' by an rdsquashfs running in /w, packed by gensquashfs -D /w running in / ---- *)
Example ex_describe_repack_contents_hyps :
  lt_okb c_lt = true /\ wf_root (describe_input [] c_lt) /\ uroot_ok c_uroot /\
  gens_dir c_cwd_g c_optD c_infile = Some c_pcwd /\ same_place c_uroot c_pcwd c_udir /\
  file_paths c_lt = [[y_d; y_ab]; [y_e]; [c_m]; [y_z]] /\
  map fst c_host =
    [ [47; 119; 47; 117; 110; 32; 112; 97; 99; 107; 47; 100; 47; 97; 32; 98];
      [47; 119; 47; 117; 110; 32; 112; 97; 99; 107; 47; 101];
      [47; 119; 47; 117; 110; 32; 112; 97; 99; 107; 47; 109; 92; 32; 120];
      [47; 119; 47; 117; 110; 32; 112; 97; 99; 107; 47; 122] ] /\
  map (fun kv => N.of_nat (length (snd kv))) c_host = [5; 0; 8195; 4096].
Proof. exact ex_contents_hyps. Qed.
Example ex_describe_repack_contents_run :
  match c_run with
  | PackAll.PDone r =>
      Hyps.e2e_okb c_half c_cfg c_pi r = true /\
      PostModel.pp_files (PackAll.r_pp r) = [[y_d; y_ab]; [y_e]; [c_m]; [y_z]] /\
      match PackAll.read_all (ReadImage.uc_of (TreeModel.img_uncompress 3)) (TreeModel.img_uncompress 3) DedupModel.toy_uncompress
                             (FinishModel.image_bytes (PackAll.r_w r))
                             (Hyps.e2e_depth r) (Hyps.e2e_efuel r) (Hyps.e2e_fuel r) with
      | RBase.Ok out =>
          map (fun e => entry_view (rtriple e)) out = map entry_view (flat_lt [] c_lt) /\
          map (fun e => (PackAll.re_path e, pv_mode (PackAll.re_view e), PackAll.re_data e)) out =
            [ ([], 16877, None);
              ([y_d], 16832, None);
              ([y_d; y_ab], 33188, Some c_ab_data);
              ([y_d; y_q], 41471, None);
              ([y_e], 33024, Some []);
              ([c_m], 33152, Some c_m_data);
              ([y_z], 33188, Some c_z_data) ]
      | _ => False
      end
  | _ => False
  end.
Proof. exact ex_contents_run. Qed.
