(* C16: the listing describe_tree prints for a well-formed tree is read by
   fstree_from_file_stream as exactly the calls the tree stands for. *)
From Coq Require Import List NArith Bool Lia.
From SqfsV Require Import C18.CanonModel C18.CanonSpec C18.CanonProofs.
From SqfsV Require Import C16.GenC16 C16.ParseModel C16.DescribeModel C16.RoundTripSpec
     C16.TokenProofs C16.NumProofs.
Import ListNotations.
Local Open Scope N_scope.

(* ------------------------------------------------------------------ *)
(* paths                                                               *)

Lemma comp_valid_facts c : comp_valid c = true ->
  good c /\ is_dot c = false /\ is_dotdot c = false.
Proof.
  unfold comp_valid, good, is_dot, is_dotdot. intro H.
  repeat (apply andb_true_iff in H as [H ?]).
  rewrite negb_true_iff in *. repeat split; auto.
  destruct c; [discriminate|discriminate].
Qed.

Definition chain_ok (chain : list (list N)) : Prop := Forall name_ok chain.

Lemma chain_valid chain : chain_ok chain -> forallb comp_valid chain = true.
Proof.
  intro H. apply forallb_forall. intros c Hc. unfold chain_ok in H.
  rewrite Forall_forall in H. apply H in Hc. apply Hc.
Qed.

Lemma chain_good chain : chain_ok chain -> Forall good chain.
Proof.
  intro H. eapply Forall_impl; [|exact H]. intros c [_ Hc]. apply comp_valid_facts in Hc. tauto.
Qed.

Lemma abs_path_join chain : chain <> [] -> abs_path chain = slash :: join chain.
Proof.
  induction chain as [|c r IH]; [congruence|]. intros _.
  cbn [abs_path]. rewrite join_cons. destruct r as [|c2 r].
  - reflexivity.
  - rewrite IH by discriminate. reflexivity.
Qed.

Lemma comps_slash s : comps (slash :: s) = comps s.
Proof. unfold comps. cbn [split_slash]. rewrite N.eqb_refl. reflexivity. Qed.

Lemma canon_spec_clean chain : chain_ok chain ->
  canon_spec (join chain) = Some (join chain) /\ canon_spec (slash :: join chain) = Some (join chain).
Proof.
  intro H. pose proof (chain_good _ H) as G.
  assert (A : existsb is_dotdot chain = false).
  { clear G. induction H as [|c r [_ Hc] Hr IH]; [reflexivity|].
    apply comp_valid_facts in Hc as (_ & _ & Hc). simpl. rewrite Hc. exact IH. }
  assert (B : filter (fun c => negb (is_dot c)) chain = chain).
  { clear G A. induction H as [|c r [_ Hc] Hr IH]; [reflexivity|].
    apply comp_valid_facts in Hc as (_ & Hc & _). simpl. rewrite Hc. simpl. rewrite IH. reflexivity. }
  unfold canon_spec. rewrite comps_slash, comps_join by assumption. rewrite A, B. auto.
Qed.

Lemma canon_model_of_result s r : canon_result s = Some r -> canon_model s = CanonOk r.
Proof. unfold canon_result. destruct (canon_model s); intro H; inversion H; reflexivity. Qed.

Lemma canon_model_join chain : chain_ok chain ->
  canon_model (join chain) = CanonOk (join chain) /\
  canon_model (slash :: join chain) = CanonOk (join chain).
Proof.
  intro H. destruct (canon_spec_clean _ H) as [A B].
  split; apply canon_model_of_result; rewrite canon_refines_l; assumption.
Qed.

Lemma str_ok_app a b : str_ok (a ++ b) <-> str_ok a /\ str_ok b.
Proof. unfold str_ok. rewrite !in_app_iff. tauto. Qed.

Lemma join_str_ok chain : chain_ok chain -> str_ok (join chain).
Proof.
  induction 1 as [|c r [Hc _] Hr IH]; [split; intros []|].
  rewrite join_cons. apply str_ok_app. split; [exact Hc|].
  destruct r; [split; intros []|]. unfold pj.
  change (slash :: join (l :: r)) with ([slash] ++ join (l :: r)).
  apply str_ok_app. split; [|exact IH]. split; intros [E|[]]; discriminate.
Qed.

Lemma join_nonnil chain : chain_ok chain -> chain <> [] -> join chain <> [].
Proof.
  intros H Hn. destruct chain as [|c r]; [congruence|]. inversion H as [|? ? [_ Hc] _]; subst.
  apply comp_valid_facts in Hc as ([Hc _] & _). rewrite join_cons. destruct c; [congruence|discriminate].
Qed.

(* print_name on a valid chain below an unnamed root *)
Lemma print_name_ok chain prefix : chain_ok chain -> chain <> [] ->
  print_name [] chain prefix = (print_token prefix (join chain), true).
Proof.
  intros H Hn. unfold print_name, get_path. rewrite chain_valid by assumption. cbn [is_nil andb].
  destruct chain as [|c r] eqn:E; [congruence|]. rewrite <- E in *.
  rewrite abs_path_join by assumption.
  destruct (canon_model_join _ H) as [_ ->]. reflexivity.
Qed.

(* ------------------------------------------------------------------ *)
(* one line                                                            *)

Section Line.
  Variable St : Type.
  Variable do_call : St -> call -> option St.

  Notation handle := (handle_line St do_call default_options).
  Notation runc := (run_call St do_call).

  (* a pack file line L makes the parser perform exactly the call c *)
  Definition line_parses (L : list N) (c : call) : Prop :=
    no_nl L /\
    cook_line pack_file_flags L true = Some L /\
    (exists c0 r, L = c0 :: r /\ c0 <> ch_hash) /\
    exists args, split_line pack_file_sep L = SplitOk args /\
                 forall st, handle st args = runc st c EAddFailed.

  Lemma cook_render kw c0 kw' toks :
    kw = c0 :: kw' -> plain kw -> isspace c0 = false ->
    Forall no_nul (kw :: toks) ->
    cook_line pack_file_flags (render (kw :: toks)) true = Some (render (kw :: toks)).
  Proof.
    intros E Hp Hs Hn. unfold cook_line.
    rewrite strip_cr_render by discriminate.
    unfold trim_flags, pack_file_flags; cbn [lf_ltrim lf_rtrim lf_skip_empty].
    rewrite cstr_id by (apply render_no_nul; assumption).
    assert (R : exists rest, render (kw :: toks) = c0 :: rest).
    { destruct toks as [|t r].
      - cbn [render]. rewrite T_plain by assumption. subst kw. eexists; reflexivity.
      - rewrite render_cons by discriminate. rewrite T_plain by assumption. subst kw. eexists; reflexivity. }
    destruct R as [rest ->]. cbn [ltrim]. rewrite Hs. reflexivity.
  Qed.

  Lemma render_head kw c0 kw' toks :
    kw = c0 :: kw' -> plain kw -> exists rest, render (kw :: toks) = c0 :: rest.
  Proof.
    intros E Hp. destruct toks as [|t r].
    - cbn [render]. rewrite T_plain by assumption. subst kw. eexists; reflexivity.
    - rewrite render_cons by discriminate. rewrite T_plain by assumption. subst kw. eexists; reflexivity.
  Qed.

  Lemma line_parses_render kw c0 kw' toks c :
    kw = c0 :: kw' -> plain kw -> isspace c0 = false -> c0 <> ch_hash ->
    Forall no_nul (kw :: toks) -> Forall no_nl (kw :: toks) ->
    (forall st, handle st (kw :: toks) = runc st c EAddFailed) ->
    line_parses (render (kw :: toks)) c.
  Proof.
    intros E Hp Hs Hh Hn Hl Hc. unfold line_parses. repeat split.
    - apply render_no_nl. assumption.
    - eapply cook_render; eassumption.
    - destruct (render_head kw c0 kw' toks E Hp) as [rest R]. exists c0, rest. auto.
    - exists (kw :: toks). split; [apply split_render; assumption|exact Hc].
  Qed.

  Definition no_extra (l : list (list N)) : bool := match l with [] => true | _ => false end.

  (* handle_line on a line whose keyword is in the table *)
  Lemma handle_hook h kw path0 path modeS uidS gidS m u g extra st :
    find_hook file_list_hooks kw = Some h ->
    canon_model (cstr path0) = CanonOk path ->
    (path = [] -> h_allow_root h = true) ->
    parse_uint_oct 0 4095 modeS = NumOk m ->
    parse_uint 0 u32_max uidS = NumOk u ->
    parse_uint 0 u32_max gidS = NumOk g ->
    h_need_extra h && no_extra extra = false ->
    handle st (kw :: path0 :: modeS :: uidS :: gidS :: extra) =
      match h_cb h with
      | CbGeneric => add_generic St do_call st path (N.lor m (h_mode h)) u g 0 (h_flags h) extra
      | CbDevice => add_device St do_call st path (N.lor m (h_mode h)) u g (h_flags h) extra
      | CbFile => add_file St do_call st path (N.lor m (h_mode h)) u g (h_flags h) extra
      end.
  Proof.
    intros Hh Hc Hr Hm Hu Hg He. unfold handle_line. rewrite Hh, Hc.
    assert ((match path with [] => negb (h_allow_root h) | _ :: _ => false end) = false) as ->.
    { destruct path; [rewrite Hr; reflexivity|reflexivity]. }
    cbn [andb]. rewrite Hm, Hu, Hg.
    change (has_flag (o_dirscan_flags default_options) c_DIR_SCAN_KEEP_UID) with true.
    change (has_flag (o_dirscan_flags default_options) c_DIR_SCAN_KEEP_GID) with true.
    cbn iota.
    assert ((h_need_extra h && match extra with [] => true | _ :: _ => false end) = false) as ->.
    { exact He. }
    reflexivity.
  Qed.

  (* ---------- the tokens of a node's line ---------- *)
  Definition common_toks (kw path : list N) (mode uid gid : N) : list (list N) :=
    [kw; path; ch_0 :: print_oct (perm_bits mode); print_dec uid; print_dec gid].

  Definition node_toks (uroot : option (list N)) (path : list N)
             (mode uid gid : N) (target : list N) (devno : N) : list (list N) :=
    if is_k mode c_S_IFSOCK then common_toks kw_sock path mode uid gid
    else if is_k mode c_S_IFLNK then common_toks kw_slink path mode uid gid ++ [target]
    else if is_k mode c_S_IFIFO then common_toks kw_pipe path mode uid gid
    else if is_k mode c_S_IFREG then
      common_toks kw_file path mode uid gid ++
      match uroot with None => [] | Some u => [u ++ [slash] ++ path] end
    else if is_k mode c_S_IFCHR || is_k mode c_S_IFBLK then
      common_toks kw_nod path mode uid gid ++
      [[if is_k mode c_S_IFCHR then 99 else 98]; print_dec (major32 devno); print_dec (minor32 devno)]
    else common_toks kw_dir path mode uid gid.

  Lemma render_common kw path mode uid gid ex : plain kw ->
    render (common_toks kw path mode uid gid ++ ex) =
    kw ++ [ch_sp] ++ T path ++ print_perm mode uid gid ++
       match ex with [] => [] | _ => ch_sp :: render ex end.
  Proof.
    intro Hk. unfold common_toks, print_perm. cbn [app].
    rewrite !render_cons by (try discriminate; destruct ex; discriminate).
    rewrite (T_plain kw) by assumption.
    rewrite (T_plain (ch_0 :: _)) by apply zero_oct_plain.
    rewrite (T_plain (print_dec uid)) by apply print_dec_plain.
    destruct ex as [|e ex].
    - cbn [render]. rewrite (T_plain (print_dec gid)) by apply print_dec_plain.
      repeat (rewrite <- ?app_assoc; cbn [app]). rewrite app_nil_r. reflexivity.
    - rewrite render_cons by discriminate.
      rewrite (T_plain (print_dec gid)) by apply print_dec_plain.
      repeat (rewrite <- ?app_assoc; cbn [app]). reflexivity.
  Qed.

  Lemma print_simple_ok kw chain mode uid gid extra : chain_ok chain -> chain <> [] ->
    print_simple kw [] chain mode uid gid extra =
    (kw ++ [ch_sp] ++ T (join chain) ++ print_perm mode uid gid ++
        match extra with Some e => ch_sp :: e | None => [] end ++ [ch_nl], true).
  Proof.
    intros H Hn. unfold print_simple. rewrite print_name_ok by assumption.
    repeat (rewrite <- ?app_assoc; cbn [app]). reflexivity.
  Qed.

  Ltac plain_kw := split; [discriminate | repeat constructor].
  Lemma plain_dir : plain kw_dir. Proof. plain_kw. Qed.
  Lemma plain_slink : plain kw_slink. Proof. plain_kw. Qed.
  Lemma plain_nod : plain kw_nod. Proof. plain_kw. Qed.
  Lemma plain_pipe : plain kw_pipe. Proof. plain_kw. Qed.
  Lemma plain_sock : plain kw_sock. Proof. plain_kw. Qed.
  Lemma plain_file : plain kw_file. Proof. plain_kw. Qed.

  Lemma str_ok_nn s : str_ok s -> no_nul s /\ no_nl s.
  Proof. auto. Qed.

  (* ---------- what describe_node prints ---------- *)
  Lemma node_line_print uroot chain name mode uid gid target devno :
    uroot_ok uroot -> chain_ok chain -> chain <> [] -> name <> [] ->
    mode_ok mode -> str_ok target ->
    describe_node uroot [] chain false name mode uid gid target devno =
    (render (node_toks uroot (join chain) mode uid gid target devno) ++ [ch_nl], true).
  Proof.
    intros Hu Hc Hn Hname (kb & p & Hk & Hp & ->) Ht.
    destruct (mode_facts kb p Hk Hp) as (F1 & F2 & F3).
    unfold describe_node, node_toks, is_k. rewrite F1.
    destruct name as [|n0 name']; [congruence|].
    assert (Ct : cstr target = target) by (apply cstr_id; apply Ht).
    unfold kind_bits_list in Hk. cbn [In] in Hk.
    destruct Hk as [<-|[<-|[<-|[<-|[<-|[<-|[<-|[]]]]]]]];
      cbn [N.eqb Pos.eqb orb c_S_IFDIR c_S_IFREG c_S_IFLNK c_S_IFCHR c_S_IFBLK c_S_IFIFO c_S_IFSOCK].
    - (* dir *)
      rewrite print_simple_ok by assumption.
      rewrite <- (app_nil_r (common_toks _ _ _ _ _)). rewrite render_common by apply plain_dir.
      repeat (rewrite <- ?app_assoc; cbn [app]). reflexivity.
    - (* file *)
      destruct uroot as [u|].
      + rewrite !print_name_ok by assumption. rewrite print_token_prefix.
        rewrite render_common by apply plain_file. cbn [render].
        rewrite cstr_id by apply Hu.
        repeat (rewrite <- ?app_assoc; cbn [app]). reflexivity.
      + rewrite print_simple_ok by assumption.
        rewrite render_common by apply plain_file.
        repeat (rewrite <- ?app_assoc; cbn [app]). reflexivity.
    - (* slink *)
      rewrite print_name_ok by assumption. rewrite render_common by apply plain_slink.
      cbn [render]. rewrite Ct. unfold T.
      repeat (rewrite <- ?app_assoc; cbn [app]). reflexivity.
    - (* chr *)
      rewrite print_simple_ok by assumption. rewrite render_common by apply plain_nod.
      cbn [render]. rewrite !(T_plain (print_dec _)) by apply print_dec_plain.
      rewrite (T_plain [99]) by plain_kw.
      repeat (rewrite <- ?app_assoc; cbn [app]). reflexivity.
    - (* blk *)
      rewrite print_simple_ok by assumption. rewrite render_common by apply plain_nod.
      cbn [render]. rewrite !(T_plain (print_dec _)) by apply print_dec_plain.
      rewrite (T_plain [98]) by plain_kw.
      repeat (rewrite <- ?app_assoc; cbn [app]). reflexivity.
    - (* pipe *)
      rewrite print_simple_ok by assumption.
      rewrite <- (app_nil_r (common_toks _ _ _ _ _)). rewrite render_common by apply plain_pipe.
      repeat (rewrite <- ?app_assoc; cbn [app]). reflexivity.
    - (* sock *)
      rewrite print_simple_ok by assumption.
      rewrite <- (app_nil_r (common_toks _ _ _ _ _)). rewrite render_common by apply plain_sock.
      repeat (rewrite <- ?app_assoc; cbn [app]). reflexivity.
  Qed.

  (* ---------- what the parser makes of that line ---------- *)
  Lemma common_no_nul kw path mode uid gid : no_nul kw -> no_nul path ->
    Forall no_nul (common_toks kw path mode uid gid).
  Proof.
    intros. unfold common_toks. repeat constructor; auto using zero_oct_no_nul, print_dec_no_nul.
  Qed.

  Lemma common_no_nl kw path mode uid gid : no_nl kw -> no_nl path ->
    Forall no_nl (common_toks kw path mode uid gid).
  Proof.
    intros. unfold common_toks. repeat constructor; auto using zero_oct_no_nl, print_dec_no_nl.
  Qed.

  Ltac kw_chars := intros H; simpl in H; repeat (destruct H as [H|H]; [discriminate|]); exact H.

  Lemma node_line_parse uroot chain mode uid gid target devno :
    uroot_ok uroot -> chain_ok chain -> chain <> [] ->
    mode_ok mode -> u32 uid -> u32 gid -> str_ok target -> u32 devno ->
    line_parses (render (node_toks uroot (join chain) mode uid gid target devno))
                (expected_call uroot (join chain) mode uid gid target devno).
  Proof.
    intros Hu Hc Hn (kb & p & Hk & Hp & ->) Huid Hgid Ht Hdev.
    destruct (mode_facts kb p Hk Hp) as (F1 & F2 & F3).
    pose proof (join_str_ok _ Hc) as [Pn Pl].
    pose proof (join_nonnil _ Hc Hn) as Pne.
    destruct (canon_model_join _ Hc) as [Cj _].
    assert (Hcanon : canon_model (cstr (join chain)) = CanonOk (join chain))
      by (rewrite cstr_id by exact Pn; exact Cj).
    assert (Hmode : parse_uint_oct 0 4095 (ch_0 :: print_oct p) = NumOk p)
      by (apply parse_print_oct; lia).
    assert (Huid' : parse_uint 0 u32_max (print_dec uid) = NumOk uid)
      by (apply parse_print_dec; unfold u32 in Huid; lia).
    assert (Hgid' : parse_uint 0 u32_max (print_dec gid) = NumOk gid)
      by (apply parse_print_dec; unfold u32 in Hgid; lia).
    unfold node_toks, expected_call, is_k. rewrite F1.
    unfold kind_bits_list in Hk. cbn [In] in Hk.
    destruct Hk as [<-|[<-|[<-|[<-|[<-|[<-|[<-|[]]]]]]]];
      cbn [N.eqb Pos.eqb orb c_S_IFDIR c_S_IFREG c_S_IFLNK c_S_IFCHR c_S_IFBLK c_S_IFIFO c_S_IFSOCK];
      unfold common_toks; cbn [app]; rewrite F2.
    - (* dir *)
      eapply line_parses_render; [reflexivity|apply plain_dir|reflexivity|discriminate| | |].
      + repeat constructor; auto using zero_oct_no_nul, print_dec_no_nul; try kw_chars.
      + repeat constructor; auto using zero_oct_no_nl, print_dec_no_nl; try kw_chars.
      + intro st. erewrite handle_hook; [|reflexivity|exact Hcanon|congruence|exact Hmode|exact Huid'|exact Hgid'|reflexivity].
        cbn [h_cb h_mode]. rewrite F3. reflexivity.
    - (* file *)
      destruct uroot as [u|]; cbn [app].
      + destruct Hu as [Un Ul].
        eapply line_parses_render; [reflexivity|apply plain_file|reflexivity|discriminate| | |].
        * repeat constructor; auto using zero_oct_no_nul, print_dec_no_nul; try kw_chars.
          apply no_nul_app; split; [exact Un|]. intros [E|E]; [discriminate|exact (Pn E)].
        * repeat constructor; auto using zero_oct_no_nl, print_dec_no_nl; try kw_chars.
          apply no_nl_app; split; [exact Ul|]. intros [E|E]; [discriminate|exact (Pl E)].
        * intro st. erewrite handle_hook; [|reflexivity|exact Hcanon|congruence|exact Hmode|exact Huid'|exact Hgid'|reflexivity].
          cbn [h_cb h_mode]. rewrite F3. reflexivity.
      + eapply line_parses_render; [reflexivity|apply plain_file|reflexivity|discriminate| | |].
        * repeat constructor; auto using zero_oct_no_nul, print_dec_no_nul; try kw_chars.
        * repeat constructor; auto using zero_oct_no_nl, print_dec_no_nl; try kw_chars.
        * intro st. erewrite handle_hook; [|reflexivity|exact Hcanon|congruence|exact Hmode|exact Huid'|exact Hgid'|reflexivity].
          cbn [h_cb h_mode]. rewrite F3. reflexivity.
    - (* slink *)
      destruct Ht as [Tn Tl].
      eapply line_parses_render; [reflexivity|apply plain_slink|reflexivity|discriminate| | |].
      + repeat constructor; auto using zero_oct_no_nul, print_dec_no_nul; try kw_chars.
      + repeat constructor; auto using zero_oct_no_nl, print_dec_no_nl; try kw_chars.
      + intro st. erewrite handle_hook; [|reflexivity|exact Hcanon|congruence|exact Hmode|exact Huid'|exact Hgid'|reflexivity].
        cbn [h_cb h_mode]. rewrite F3. reflexivity.
    - (* chr *)
      eapply line_parses_render; [reflexivity|apply plain_nod|reflexivity|discriminate| | |].
      + repeat constructor; auto using zero_oct_no_nul, print_dec_no_nul; try kw_chars.
      + repeat constructor; auto using zero_oct_no_nl, print_dec_no_nl; try kw_chars.
      + intro st. erewrite handle_hook; [|reflexivity|exact Hcanon|congruence|exact Hmode|exact Huid'|exact Hgid'|reflexivity].
        cbn [h_cb h_mode]. unfold add_device. cbn [dev_type streq list_N_eqb N.eqb Pos.eqb andb orb].
        rewrite parse_print_major, parse_print_minor by exact Hdev.
        rewrite makedev_major_minor by exact Hdev.
        rewrite N.lor_0_r. rewrite F3. reflexivity.
    - (* blk *)
      eapply line_parses_render; [reflexivity|apply plain_nod|reflexivity|discriminate| | |].
      + repeat constructor; auto using zero_oct_no_nul, print_dec_no_nul; try kw_chars.
      + repeat constructor; auto using zero_oct_no_nl, print_dec_no_nl; try kw_chars.
      + intro st. erewrite handle_hook; [|reflexivity|exact Hcanon|congruence|exact Hmode|exact Huid'|exact Hgid'|reflexivity].
        cbn [h_cb h_mode]. unfold add_device. cbn [dev_type streq list_N_eqb N.eqb Pos.eqb andb orb].
        rewrite parse_print_major, parse_print_minor by exact Hdev.
        rewrite makedev_major_minor by exact Hdev.
        rewrite N.lor_0_r. rewrite F3. reflexivity.
    - (* pipe *)
      eapply line_parses_render; [reflexivity|apply plain_pipe|reflexivity|discriminate| | |].
      + repeat constructor; auto using zero_oct_no_nul, print_dec_no_nul; try kw_chars.
      + repeat constructor; auto using zero_oct_no_nl, print_dec_no_nl; try kw_chars.
      + intro st. erewrite handle_hook; [|reflexivity|exact Hcanon|congruence|exact Hmode|exact Huid'|exact Hgid'|reflexivity].
        cbn [h_cb h_mode]. rewrite F3. reflexivity.
    - (* sock *)
      eapply line_parses_render; [reflexivity|apply plain_sock|reflexivity|discriminate| | |].
      + repeat constructor; auto using zero_oct_no_nul, print_dec_no_nul; try kw_chars.
      + repeat constructor; auto using zero_oct_no_nl, print_dec_no_nl; try kw_chars.
      + intro st. erewrite handle_hook; [|reflexivity|exact Hcanon|congruence|exact Hmode|exact Huid'|exact Hgid'|reflexivity].
        cbn [h_cb h_mode]. rewrite F3. reflexivity.
  Qed.

  (* ------------------------------------------------------------------ *)
  (* whole listings                                                      *)

  Definition bind (r : St * option perr) (k : St -> St * option perr) : St * option perr :=
    match r with (st, None) => k st | res => res end.

  Notation floop := (file_loop St do_call default_options).
  Notation runcs := (run_calls St do_call).

  (* the text [out], followed by anything, makes the parser perform the calls
     [cs] and carry on with what follows *)
  Definition listing_parses (out : list N) (cs : list call) : Prop :=
    forall st rest,
      floop st (split_lines (out ++ rest)) =
      bind (runcs st cs) (fun st' => floop st' (split_lines rest)).

  Lemma listing_nil : listing_parses [] [].
  Proof. intros st rest. reflexivity. Qed.

  Lemma run_calls_app c1 c2 st :
    runcs st (c1 ++ c2) = bind (runcs st c1) (fun st' => runcs st' c2).
  Proof.
    revert st. induction c1 as [|c r IH]; intro st; [reflexivity|].
    cbn [app run_calls]. destruct (do_call st c); [apply IH|reflexivity].
  Qed.

  Lemma bind_assoc r k1 k2 : bind (bind r k1) k2 = bind r (fun st => bind (k1 st) k2).
  Proof. destruct r as [st [e|]]; reflexivity. Qed.

  Lemma listing_app o1 c1 o2 c2 :
    listing_parses o1 c1 -> listing_parses o2 c2 -> listing_parses (o1 ++ o2) (c1 ++ c2).
  Proof.
    intros H1 H2 st rest. rewrite <- app_assoc, H1, run_calls_app, bind_assoc.
    destruct (runcs st c1) as [st1 [e|]]; [reflexivity|]. cbn [bind]. apply H2.
  Qed.

  Lemma line_to_listing L c : line_parses L c -> listing_parses (L ++ [ch_nl]) [c].
  Proof.
    intros (Hnl & Hcook & (c0 & r & HL & Hh) & args & Hsplit & Hhandle) st rest.
    rewrite <- app_assoc. cbn [app]. rewrite split_lines_line by assumption.
    cbn [file_loop]. rewrite Hcook. rewrite HL at 1.
    destruct (N.eqb_spec c0 ch_hash); [contradiction|].
    rewrite Hsplit, Hhandle. unfold run_call. cbn [run_calls].
    destruct (do_call st c); reflexivity.
  Qed.

  (* ---------- trees ---------- *)
  Definition children_print (uroot : option (list N)) (chain : list (list N)) :=
    fix children_go (cs : list tnode) : list N * bool :=
      match cs with
      | [] => ([], true)
      | c :: r =>
        match describe_tree uroot [] chain false c with
        | (oc, false) => (oc, false)
        | (oc, true) => let (orr, ok) := children_go r in (oc ++ orr, ok)
        end
      end.

  Definition children_calls (uroot : option (list N)) (chain : list (list N)) :=
    fix go (cs : list tnode) : list call :=
      match cs with [] => [] | c :: r => calls_of uroot chain c ++ go r end.

  Definition subtree_ok (uroot : option (list N)) (n : tnode) : Prop :=
    forall anc, chain_ok anc ->
      exists out, describe_tree uroot [] anc false n = (out, true) /\
                  listing_parses out (calls_of uroot anc n).

  Lemma children_ok uroot cs : Forall (subtree_ok uroot) cs ->
    forall chain, chain_ok chain ->
      exists out, children_print uroot chain cs = (out, true) /\
                  listing_parses out (children_calls uroot chain cs).
  Proof.
    induction 1 as [|c r Hc Hr IH]; intros chain Hchain.
    - exists []. split; [reflexivity|apply listing_nil].
    - destruct (Hc chain Hchain) as (o1 & E1 & L1).
      destruct (IH chain Hchain) as (o2 & E2 & L2).
      exists (o1 ++ o2). split.
      + cbn [children_print]. rewrite E1. fold (children_print uroot chain). rewrite E2. reflexivity.
      + cbn [children_calls]. apply listing_app; assumption.
  Qed.

  Lemma name_ok_sane name : name_ok name ->
    cstr name = name /\ is_filename_sane_model name = true /\ name <> [].
  Proof.
    intros [[Hn _] Hv]. split; [apply cstr_id; exact Hn|].
    pose proof (comp_valid_facts _ Hv) as ([Hne Hs] & Hd & Hdd).
    split; [|exact Hne].
    apply sane_iff_l. unfold is_dot, is_dotdot in *.
    repeat split.
    - intro E. apply list_N_eqb_neq in Hd. contradiction.
    - intro E. apply list_N_eqb_neq in Hdd. contradiction.
    - intro E. apply has_slash_In in E. congruence.
  Qed.

  Lemma describe_tree_unfold uroot anc name mode uid gid target devno children :
    describe_tree uroot [] anc false (TNode name mode uid gid target devno children) =
    let nm := cstr name in
    if negb (is_filename_sane_model nm) then ([], false)
    else
      let chain := anc ++ [nm] in
      match describe_node uroot [] chain false nm mode uid gid target devno with
      | (o, false) => (o, false)
      | (o, true) =>
        if N.eqb (fmt_bits mode) c_S_IFDIR then
          let res := children_print uroot chain children in (o ++ fst res, snd res)
        else (o, true)
      end.
  Proof. reflexivity. Qed.

  Lemma wf_subtree_ok uroot : uroot_ok uroot -> forall n, wf_node n -> subtree_ok uroot n.
  Proof.
    intro Hu.
    fix IH 2. intros n Hwf. destruct Hwf as [name mode uid gid target devno children Hname Hmode Huid Hgid Ht Hdev Hch].
    intros anc Hanc.
    destruct (name_ok_sane _ Hname) as (Cn & Sn & Nn).
    assert (Hchain : chain_ok (anc ++ [name])) by (apply Forall_app; split; [exact Hanc|constructor; [exact Hname|constructor]]).
    assert (Hne : anc ++ [name] <> []) by (intro E; apply app_eq_nil in E as [_ E]; discriminate).
    rewrite describe_tree_unfold. cbn zeta. rewrite Cn, Sn. cbn [negb].
    rewrite node_line_print by assumption.
    pose proof (line_to_listing _ _ (node_line_parse uroot _ mode uid gid target devno Hu Hchain Hne Hmode Huid Hgid Ht Hdev)) as LL.
    cbn [calls_of]. fold (children_calls uroot (anc ++ [name])). unfold is_k.
    destruct (N.eqb (fmt_bits mode) c_S_IFDIR).
    - assert (Hsub : Forall (subtree_ok uroot) children).
      { clear - IH Hch. induction Hch as [|c r Hc Hr IHl]; constructor; [apply IH; exact Hc|exact IHl]. }
      destruct (children_ok uroot children Hsub _ Hchain) as (o2 & E2 & L2).
      rewrite E2. cbn [fst snd]. eexists. split; [reflexivity|].
      change (?a :: ?l) with ([a] ++ l). apply listing_app; assumption.
    - eexists. split; [reflexivity|]. exact LL.
  Qed.

  (* ---------- the root line ---------- *)
  Definition root_toks (mode uid gid : N) : list (list N) :=
    common_toks kw_dir [slash] mode uid gid.

  Lemma root_line_parse mode uid gid p :
    p < 4096 -> mode = c_S_IFDIR + p -> u32 uid -> u32 gid ->
    line_parses (render (root_toks mode uid gid)) (CAdd [] mode uid gid 0 0 None).
  Proof.
    intros Hp -> Huid Hgid.
    assert (Hk : In c_S_IFDIR kind_bits_list) by (left; reflexivity).
    destruct (mode_facts _ p Hk Hp) as (F1 & F2 & F3).
    unfold root_toks, common_toks. rewrite F2.
    eapply line_parses_render; [reflexivity|apply plain_dir|reflexivity|discriminate| | |].
    - repeat constructor; auto using zero_oct_no_nul, print_dec_no_nul; try kw_chars.
    - repeat constructor; auto using zero_oct_no_nl, print_dec_no_nl; try kw_chars.
    - intro st. erewrite handle_hook;
        [|reflexivity|reflexivity|reflexivity|apply parse_print_oct; lia
         |apply parse_print_dec; unfold u32 in Huid; lia
         |apply parse_print_dec; unfold u32 in Hgid; lia|reflexivity].
      cbn [h_cb h_mode]. rewrite F3. reflexivity.
  Qed.

  Lemma root_line_print uroot mode uid gid target devno p :
    p < 4096 -> mode = c_S_IFDIR + p ->
    describe_node uroot [] [] true [] mode uid gid target devno =
    (render (root_toks mode uid gid) ++ [ch_nl], true).
  Proof.
    intros Hp ->.
    assert (Hk : In c_S_IFDIR kind_bits_list) by (left; reflexivity).
    destruct (mode_facts _ p Hk Hp) as (F1 & F2 & F3).
    unfold describe_node. rewrite F1.
    cbn [N.eqb Pos.eqb orb c_S_IFDIR c_S_IFREG c_S_IFLNK c_S_IFCHR c_S_IFBLK c_S_IFIFO c_S_IFSOCK].
    unfold root_toks. rewrite <- (app_nil_r (common_toks _ _ _ _ _)).
    rewrite render_common by apply plain_dir. rewrite (T_plain [slash]) by plain_kw.
    repeat (rewrite <- ?app_assoc; cbn [app]). reflexivity.
  Qed.

  Lemma describe_root_unfold uroot name mode uid gid target devno children :
    describe uroot (TNode name mode uid gid target devno children) =
    let nm := cstr name in
    if negb (is_filename_sane_model nm) then ([], false)
    else
      match describe_node uroot nm [] true nm mode uid gid target devno with
      | (o, false) => (o, false)
      | (o, true) =>
        if N.eqb (fmt_bits mode) c_S_IFDIR then
          let res :=
            (fix children_go (cs : list tnode) : list N * bool :=
               match cs with
               | [] => ([], true)
               | c :: r =>
                 match describe_tree uroot nm [] false c with
                 | (oc, false) => (oc, false)
                 | (oc, true) => let (orr, ok) := children_go r in (oc ++ orr, ok)
                 end
               end) children in
          (o ++ fst res, snd res)
        else (o, true)
      end.
  Proof. reflexivity. Qed.

  (* the main lemma *)
  Lemma describe_parse_rt_l uroot t : wf_root t -> uroot_ok uroot ->
    exists out, describe uroot t = (out, true) /\
      forall st, fstree_from_file_stream St do_call default_options st out =
                 runcs st (root_calls uroot t).
  Proof.
    intros Hwf Hu. destruct t as [name mode uid gid target devno children].
    destruct Hwf as (-> & (p & Hp & Hm) & Huid & Hgid & Hch).
    rewrite describe_root_unfold. cbn zeta. cbn [cstr].
    change (is_filename_sane_model []) with true. cbn [negb].
    rewrite (root_line_print uroot mode uid gid target devno p Hp Hm).
    assert (F1 : fmt_bits mode = c_S_IFDIR).
    { subst mode. apply mode_facts; [left; reflexivity|exact Hp]. }
    rewrite F1, N.eqb_refl.
    assert (Hsub : Forall (subtree_ok uroot) children).
    { eapply Forall_impl; [|exact Hch]. intros n Hn. apply wf_subtree_ok; assumption. }
    destruct (children_ok uroot children Hsub [] (Forall_nil _)) as (o2 & E2 & L2).
    fold (children_print uroot []). rewrite E2. cbn [fst snd].
    eexists. split; [reflexivity|]. intro st.
    pose proof (line_to_listing _ _ (root_line_parse mode uid gid p Hp Hm Huid Hgid)) as L1.
    pose proof (listing_app _ _ _ _ L1 L2) as L.
    unfold fstree_from_file_stream. specialize (L st []). rewrite app_nil_r in L.
    rewrite L. cbn [root_calls]. fold (children_calls uroot []).
    change (?a :: children_calls uroot [] children) with ([a] ++ children_calls uroot [] children).
    cbn [split_lines file_loop].
    destruct (runcs st _) as [st' [e|]]; reflexivity.
  Qed.

  Lemma listing_top out cs : listing_parses out cs ->
    forall st, fstree_from_file_stream St do_call default_options st out = runcs st cs.
  Proof.
    intros L st. unfold fstree_from_file_stream. specialize (L st []). rewrite app_nil_r in L.
    rewrite L. cbn [split_lines file_loop]. destruct (runcs st cs) as [st' [e|]]; reflexivity.
  Qed.

  Lemma describe_line_rt_l uroot chain name mode uid gid target devno :
    uroot_ok uroot -> Forall name_ok chain -> chain <> [] -> name <> [] ->
    mode_ok mode -> u32 uid -> u32 gid -> str_ok target -> u32 devno ->
    exists L,
      describe_node uroot [] chain false name mode uid gid target devno = (L ++ [ch_nl], true) /\
      forall st,
        fstree_from_file_stream St do_call default_options st (L ++ [ch_nl]) =
        runcs st [expected_call uroot (join chain) mode uid gid target devno].
  Proof.
    intros Hu Hc Hn Hname Hm Huid Hgid Ht Hd.
    eexists. split; [apply node_line_print; assumption|].
    apply listing_top. apply line_to_listing. apply node_line_parse; assumption.
  Qed.
End Line.

Lemma name_ok_iff_l c :
  name_ok c <-> (~ In ch_nul c /\ ~ In ch_nl c) /\
                c <> [] /\ ~ In slash c /\ c <> [dot] /\ c <> [dot; dot].
Proof.
  unfold name_ok, str_ok, comp_valid. split.
  - intros [Hs Hv]. split; [exact Hs|].
    repeat (apply andb_true_iff in Hv as [Hv ?]). rewrite negb_true_iff in *.
    repeat split.
    + destruct c; [discriminate|discriminate].
    + intro E. apply has_slash_In in E. congruence.
    + apply list_N_eqb_neq. assumption.
    + apply list_N_eqb_neq. assumption.
  - intros [Hs (H1 & H2 & H3 & H4)]. split; [exact Hs|].
    repeat (apply andb_true_iff; split); rewrite negb_true_iff.
    + destruct c; [congruence|reflexivity].
    + destruct (has_slash c) eqn:E; [apply has_slash_In in E; contradiction|reflexivity].
    + apply list_N_eqb_neq. assumption.
    + apply list_N_eqb_neq. assumption.
Qed.
