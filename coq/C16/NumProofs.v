(* C16: printf('%u'/'%o') followed by parse_uint / parse_uint_oct is the identity;
   device numbers survive major()/minor()/makedev(); mode words split into
   type and permission bits. *)
From Coq Require Import List NArith ZArith Bool Lia ZifyBool ZifyN.
From SqfsV Require Import C18.CanonModel C16.GenC16 C16.ParseModel C16.DescribeModel C16.RoundTripSpec C16.TokenProofs.
Import ListNotations.
Local Open Scope N_scope.

Ltac Zify.zify_post_hook ::= Z.div_mod_to_equations.

(* ---------- digits ---------- *)
Definition digit_of (base c : N) : Prop := 48 <= c /\ c < 48 + base.

Definition dstep (base a c : N) : N := a * base + (c - 48).

Lemma digits_go_acc f : forall base n acc,
  digits_go f base n acc = digits_go f base n [] ++ acc.
Proof.
  induction f as [|f IH]; intros base n acc; [reflexivity|].
  cbn [digits_go]. destruct (N.eqb (n / base) 0).
  - reflexivity.
  - rewrite IH. rewrite (IH base (n / base) [ch_0 + n mod base]). rewrite <- app_assoc. reflexivity.
Qed.

Lemma digits_go_S f base n acc :
  digits_go (S f) base n acc =
  if N.eqb (n / base) 0 then (ch_0 + n mod base) :: acc
  else digits_go f base (n / base) ((ch_0 + n mod base) :: acc).
Proof. reflexivity. Qed.

Lemma digits_go_spec base : 2 <= base -> base <= 10 -> forall f n, n < 2 ^ N.of_nat f ->
  let ds := digits_go (S f) base n [] in
  ds <> [] /\ Forall (digit_of base) ds /\ fold_left (dstep base) ds 0 = n.
Proof.
  intros Hb Hb10. induction f as [|f IH]; intros n Hn ds; subst ds; rewrite digits_go_S.
  - simpl in Hn. assert (n = 0) by lia. subst n.
    rewrite N.div_0_l, N.mod_0_l by lia. cbn.
    split; [discriminate|]. split; [|reflexivity].
    constructor; [|constructor]. unfold digit_of, ch_0. lia.
  - destruct (N.eqb_spec (n / base) 0) as [E|E].
    + assert (Hs : n < base) by (apply N.div_small_iff in E; lia).
      rewrite N.mod_small by assumption.
      split; [discriminate|]. split.
      * constructor; [|constructor]. unfold digit_of, ch_0. lia.
      * cbn [fold_left]. unfold dstep, ch_0. lia.
    + rewrite digits_go_acc.
      assert (Hq : n / base < 2 ^ N.of_nat f).
      { rewrite Nat2N.inj_succ, N.pow_succ_r' in Hn.
        apply N.div_lt_upper_bound; [lia|]. nia. }
      destruct (IH _ Hq) as (I1 & I2 & I3).
      split; [|split].
      * intro X. apply app_eq_nil in X as [_ X]. discriminate.
      * apply Forall_app. split; [exact I2|]. constructor; [|constructor].
        unfold digit_of, ch_0. pose proof (N.mod_lt n base). lia.
      * rewrite fold_left_app. cbn [fold_left]. rewrite I3. unfold dstep, ch_0.
        pose proof (N.div_mod n base). lia.
Qed.

Lemma print_num_spec base n : 2 <= base -> base <= 10 ->
  let ds := print_num base n in
  ds <> [] /\ Forall (digit_of base) ds /\ fold_left (dstep base) ds 0 = n.
Proof.
  intros Hb Hb10. unfold print_num. apply digits_go_spec; try assumption.
  rewrite N2Nat.id. apply N.size_gt.
Qed.

(* ---------- the parser loop on a string of digits ---------- *)
Lemma fold_dstep_mono base ds : forall a, a <= fold_left (dstep base) ds a \/ base = 0.
Proof.
  destruct (N.eq_dec base 0) as [->|Hb]; [auto|].
  induction ds as [|d r IH]; intro a; [left; simpl; lia|].
  cbn [fold_left]. destruct (IH (dstep base a d)) as [H|H]; [|auto].
  left. unfold dstep in *. nia.
Qed.

Lemma parse_loop_digits base : 2 <= base -> base <= 10 -> forall ds a,
  Forall (digit_of base) ds ->
  fold_left (dstep base) ds a < u64_max / base ->
  parse_loop base a ds = Some (fold_left (dstep base) ds a, []).
Proof.
  intros Hb Hb10. induction ds as [|d r IH]; intros a Hd Hv; [reflexivity|].
  inversion Hd as [|? ? [D1 D2] Hr]; subst. cbn [parse_loop fold_left] in *.
  assert (isdigit d = true) as -> by (unfold isdigit; lia).
  assert (N.leb base (d - 48) = false) as -> by lia.
  destruct (fold_dstep_mono base r (dstep base a d)) as [M|M]; [|lia].
  assert (A1 : a <= dstep base a d) by (unfold dstep; nia).
  assert (N.leb (u64_max / base) a = false) as -> by lia.
  assert (A2 : dstep base a d < u64_max / base) by lia.
  assert (N.ltb (u64_max - (d - 48)) (a * base) = false) as ->.
  { unfold dstep in A2. assert (u64_max / base <= u64_max) by (apply N.div_le_upper_bound; nia). lia. }
  apply IH; assumption.
Qed.

Lemma digits_no_nul base ds : Forall (digit_of base) ds -> no_nul ds.
Proof.
  intros H Hin. rewrite Forall_forall in H. apply H in Hin. unfold digit_of, ch_nul in Hin. lia.
Qed.

Lemma digits_plain base ds : base <= 10 -> ds <> [] -> Forall (digit_of base) ds -> plain ds.
Proof.
  intros Hb H1 H2. split; [exact H1|]. eapply Forall_impl; [|exact H2].
  intros c [A B]. unfold quote_char, ch_sp, ch_tab, ch_cr, ch_dq.
  repeat (apply orb_false_iff; split); apply N.eqb_neq; lia.
Qed.

Lemma digits_no_nl base ds : Forall (digit_of base) ds -> no_nl ds.
Proof.
  intros H Hin. rewrite Forall_forall in H. apply H in Hin. unfold digit_of, ch_nl in Hin. lia.
Qed.

Lemma parse_num_digits base vmax ds v : 2 <= base -> base <= 10 ->
  ds <> [] -> Forall (digit_of base) ds -> fold_left (dstep base) ds 0 = v ->
  v <= vmax -> vmax <= 4294967295 ->
  parse_num base 0 vmax ds = NumOk v.
Proof.
  intros Hb Hb10 Hne Hd Hv Hmax Hvm. unfold parse_num.
  rewrite cstr_id by (eapply digits_no_nul; eassumption).
  destruct ds as [|d r]; [congruence|].
  inversion Hd as [|? ? [D1 D2] Hr]; subst.
  assert (isdigit d = true) as -> by (unfold isdigit; lia). cbn [negb].
  rewrite parse_loop_digits; try assumption.
  - set (v := fold_left (dstep base) (d :: r) 0) in *.
    assert (N.ltb v 0 = false) as -> by lia.
    assert (N.ltb vmax v = false) as -> by lia.
    rewrite orb_false_r, andb_false_r. reflexivity.
  - assert (4294967296 <= u64_max / base).
    { apply N.div_le_lower_bound; [lia|]. unfold u64_max. lia. }
    lia.
Qed.

(* what the printer writes for a number reads back as that number *)
Lemma parse_print_dec v : v <= 4294967295 ->
  parse_uint 0 u32_max (print_dec v) = NumOk v.
Proof.
  intro H. destruct (print_num_spec 10 v) as (A & B & C); [lia|lia|].
  unfold parse_uint, print_dec. eapply parse_num_digits; eauto; unfold u32_max; lia.
Qed.

Lemma parse_print_dec_max vmax v : v <= vmax -> vmax <= 4294967295 ->
  parse_uint 0 vmax (print_dec v) = NumOk v.
Proof.
  intros H Hm. destruct (print_num_spec 10 v) as (A & B & C); [lia|lia|].
  unfold parse_uint, print_dec. eapply parse_num_digits; eauto; lia.
Qed.

Lemma zero_oct_spec p :
  let ds := ch_0 :: print_oct p in
  ds <> [] /\ Forall (digit_of 8) ds /\ fold_left (dstep 8) ds 0 = p.
Proof.
  destruct (print_num_spec 8 p) as (A & B & C); [lia|lia|].
  repeat split; [discriminate| |].
  - constructor; [unfold digit_of, ch_0; lia|exact B].
  - cbn [fold_left]. exact C.
Qed.

Lemma parse_print_oct p : p <= 4095 ->
  parse_uint_oct 0 4095 (ch_0 :: print_oct p) = NumOk p.
Proof.
  intro H. destruct (zero_oct_spec p) as (A & B & C).
  unfold parse_uint_oct. eapply parse_num_digits; eauto; lia.
Qed.

Lemma print_dec_plain v : plain (print_dec v).
Proof.
  destruct (print_num_spec 10 v) as (A & B & C); [lia|lia|].
  eapply digits_plain; eauto. lia.
Qed.

Lemma zero_oct_plain p : plain (ch_0 :: print_oct p).
Proof.
  destruct (zero_oct_spec p) as (A & B & C). eapply (digits_plain 8); eauto. lia.
Qed.

Lemma plain_no_nul w : Forall (digit_of 10) w -> no_nul w.
Proof. apply digits_no_nul. Qed.

Lemma print_dec_no_nul v : no_nul (print_dec v).
Proof. destruct (print_num_spec 10 v) as (A & B & C); [lia|lia|]. eapply digits_no_nul; eauto. Qed.
Lemma print_dec_no_nl v : no_nl (print_dec v).
Proof. destruct (print_num_spec 10 v) as (A & B & C); [lia|lia|]. eapply digits_no_nl; eauto. Qed.
Lemma zero_oct_no_nul p : no_nul (ch_0 :: print_oct p).
Proof. destruct (zero_oct_spec p) as (A & B & C). eapply digits_no_nul; eauto. Qed.
Lemma zero_oct_no_nl p : no_nl (ch_0 :: print_oct p).
Proof. destruct (zero_oct_spec p) as (A & B & C). eapply digits_no_nl; eauto. Qed.

(* ---------- device numbers ---------- *)
Lemma major32_bound d : major32 d <= dev_major_max.
Proof. unfold major32, dev_major_max. pose proof (N.mod_lt (d / 256) 4096). lia. Qed.

Lemma minor32_bound d : d < 4294967296 -> minor32 d <= dev_minor_max.
Proof. intro H. unfold minor32, dev_minor_max. lia. Qed.

Lemma parse_print_major d : parse_uint 0 dev_major_max (print_dec (major32 d)) = NumOk (major32 d).
Proof. apply parse_print_dec_max; [apply major32_bound|unfold dev_major_max; lia]. Qed.

Lemma parse_print_minor d : d < 4294967296 ->
  parse_uint 0 dev_minor_max (print_dec (minor32 d)) = NumOk (minor32 d).
Proof. intro H. apply parse_print_dec_max; [apply minor32_bound; exact H|unfold dev_minor_max; lia]. Qed.

Lemma makedev_major_minor d : d < 4294967296 -> makedev (major32 d) (minor32 d) = d.
Proof. intro H. unfold makedev, major32, minor32. lia. Qed.

(* ---------- mode words ---------- *)
(* S_IFMT and the permission bits do not overlap; every inode type lies
   inside S_IFMT.  Closed facts about the generated constants are computed,
   the permission bits stay symbolic. *)
Lemma ldiff_lor_distr a b c : N.ldiff (N.lor a b) c = N.lor (N.ldiff a c) (N.ldiff b c).
Proof.
  apply N.bits_inj. intro i. rewrite N.lor_spec, !N.ldiff_spec, N.lor_spec.
  destruct (N.testbit a i), (N.testbit b i), (N.testbit c i); reflexivity.
Qed.

Lemma perm_mask p : p < 4096 -> N.land p 4095 = p.
Proof.
  intro H. change 4095 with (N.ones 12). rewrite N.land_ones. apply N.mod_small. exact H.
Qed.

Lemma mode_facts kb p : In kb kind_bits_list -> p < 4096 ->
  fmt_bits (kb + p) = kb /\ perm_bits (kb + p) = p /\ N.lor p kb = kb + p.
Proof.
  intros Hk Hp. unfold fmt_bits, perm_bits.
  assert (K : N.land kb 4095 = 0 /\ N.land kb c_S_IFMT = kb /\ N.ldiff kb c_S_IFMT = 0).
  { unfold kind_bits_list in Hk. cbn [In] in Hk.
    destruct Hk as [<-|[<-|[<-|[<-|[<-|[<-|[<-|[]]]]]]]]; repeat split; reflexivity. }
  destruct K as (K1 & K2 & K3).
  assert (M : N.land 4095 c_S_IFMT = 0) by reflexivity.
  assert (P : N.land p c_S_IFMT = 0).
  { rewrite <- (perm_mask p Hp), <- N.land_assoc, M. apply N.land_0_r. }
  assert (D : N.land kb p = 0).
  { rewrite <- (perm_mask p Hp), (N.land_comm p), N.land_assoc, K1. apply N.land_0_l. }
  assert (A : kb + p = N.lor kb p).
  { rewrite N.add_nocarry_lxor by exact D. apply N.lxor_lor. exact D. }
  rewrite A. repeat split.
  - rewrite N.land_lor_distr_l, K2, P. apply N.lor_0_r.
  - rewrite ldiff_lor_distr, K3, N.lor_0_l.
    rewrite <- (N.lor_ldiff_and p c_S_IFMT) at 2. rewrite P. symmetry. apply N.lor_0_r.
  - apply N.lor_comm.
Qed.
