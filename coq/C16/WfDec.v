(* C16: boolean versions of the well-formedness predicates (sound; used to
   discharge the hypotheses of the theorems on concrete trees in the
   non-vacuity examples and by the extracted driver to classify cases). *)
From Coq Require Import List NArith Bool Lia.
From SqfsV Require Import C18.CanonModel C18.CanonProofs C16.GenC16 C16.ParseModel C16.DescribeModel C16.RoundTripSpec C16.FsModel C16.FsSpec.
Import ListNotations.
Local Open Scope N_scope.

Definition str_okb (s : list N) : bool :=
  negb (existsb (N.eqb ch_nul) s) && negb (existsb (N.eqb ch_nl) s).

Definition name_okb (s : list N) : bool := str_okb s && comp_valid s.

Definition mode_okb (mode : N) : bool :=
  existsb (fun kb => N.leb kb mode && N.ltb (mode - kb) 4096) kind_bits_list.

Definition u32b (v : N) : bool := N.ltb v 4294967296.

Fixpoint wf_nodeb (n : tnode) : bool :=
  match n with
  | TNode name mode uid gid target devno children =>
    name_okb name && mode_okb mode && u32b uid && u32b gid && str_okb target && u32b devno &&
    (fix go (cs : list tnode) : bool :=
       match cs with [] => true | c :: r => wf_nodeb c && go r end) children
  end.

Definition wf_rootb (t : tnode) : bool :=
  match t with
  | TNode name mode uid gid _ _ children =>
    is_nil name && N.leb c_S_IFDIR mode && N.ltb (mode - c_S_IFDIR) 4096 && u32b uid && u32b gid &&
    forallb wf_nodeb children
  end.

Definition uroot_okb (u : option (list N)) : bool :=
  match u with None => true | Some r => str_okb r end.

Lemma not_existsb_eqb x s : existsb (N.eqb x) s = false -> ~ In x s.
Proof.
  intros H Hin. assert (existsb (N.eqb x) s = true); [|congruence].
  apply existsb_exists. exists x. split; [exact Hin|apply N.eqb_refl].
Qed.

Lemma str_okb_sound s : str_okb s = true -> str_ok s.
Proof.
  unfold str_okb, str_ok. intro H. apply andb_true_iff in H as [H1 H2].
  rewrite negb_true_iff in H1, H2. split; apply not_existsb_eqb; assumption.
Qed.

Lemma name_okb_sound s : name_okb s = true -> name_ok s.
Proof.
  unfold name_okb, name_ok. intro H. apply andb_true_iff in H as [H1 H2].
  split; [apply str_okb_sound; exact H1|exact H2].
Qed.

Lemma mode_okb_sound m : mode_okb m = true -> mode_ok m.
Proof.
  unfold mode_okb, mode_ok. intro H. apply existsb_exists in H as (kb & Hin & H).
  apply andb_true_iff in H as [H1 H2]. apply N.leb_le in H1. apply N.ltb_lt in H2.
  exists kb, (m - kb). repeat split; [exact Hin|exact H2|lia].
Qed.

Lemma u32b_sound v : u32b v = true -> u32 v.
Proof. unfold u32b, u32. apply N.ltb_lt. Qed.

Lemma wf_nodeb_sound : forall n, wf_nodeb n = true -> wf_node n.
Proof.
  fix IH 1. intros [name mode uid gid target devno children] H.
  cbn [wf_nodeb] in H.
  do 6 (apply andb_true_iff in H as [H ?]).
  constructor; auto using name_okb_sound, mode_okb_sound, u32b_sound, str_okb_sound.
  clear - IH H0. induction children as [|c r IHl]; [constructor|].
  apply andb_true_iff in H0 as [A B]. constructor; [apply IH; exact A|apply IHl; exact B].
Qed.

Lemma wf_rootb_sound t : wf_rootb t = true -> wf_root t.
Proof.
  destruct t as [name mode uid gid target devno children]. cbn [wf_rootb wf_root]. intro H.
  do 5 (apply andb_true_iff in H as [H ?]).
  destruct name; [|discriminate].
  apply N.leb_le in H4. apply N.ltb_lt in H3.
  repeat split; auto using u32b_sound.
  - exists (mode - c_S_IFDIR). split; [exact H3|lia].
  - rewrite forallb_forall in H0. apply Forall_forall. intros n Hn. apply wf_nodeb_sound. auto.
Qed.

Lemma uroot_okb_sound u : uroot_okb u = true -> uroot_ok u.
Proof. destruct u; simpl; [apply str_okb_sound|auto]. Qed.

(* ---------- pairwise different sibling names ---------- *)
Fixpoint nodupb (l : list (list N)) : bool :=
  match l with
  | [] => true
  | x :: r => negb (existsb (list_N_eqb x) r) && nodupb r
  end.

Lemma nodupb_sound l : nodupb l = true -> NoDup l.
Proof.
  induction l as [|x r IH]; simpl; intro H; constructor.
  - apply andb_true_iff in H as [H _]. rewrite negb_true_iff in H. intro Hin.
    assert (existsb (list_N_eqb x) r = true); [|congruence].
    apply existsb_exists. exists x. split; [exact Hin|apply list_N_eqb_eq; reflexivity].
  - apply andb_true_iff in H as [_ H]. apply IH. exact H.
Qed.

Fixpoint uniq_namesb (n : tnode) : bool :=
  match n with
  | TNode _ _ _ _ _ _ children =>
    nodupb (map (fun c => match c with TNode nm _ _ _ _ _ _ => nm end) children) &&
    (fix go (cs : list tnode) : bool :=
       match cs with [] => true | c :: r => uniq_namesb c && go r end) children
  end.

Lemma uniq_namesb_sound : forall n, uniq_namesb n = true -> uniq_names n.
Proof.
  fix IH 1. intros [name mode uid gid target devno children] H. cbn [uniq_namesb] in H.
  apply andb_true_iff in H as [H1 H2]. constructor; [apply nodupb_sound; exact H1|].
  clear - IH H2. induction children as [|c r IHl]; [constructor|].
  apply andb_true_iff in H2 as [A B]. constructor; [apply IH; exact A|apply IHl; exact B].
Qed.
