(* C16: the specification side of replay_rebuilds / describe_rebuilds written INDEPENDENTLY of the model.
   FsSpec.entry_node is defined through FsModel.stored_node (the transcription of mknode), so a slip in stored_node would
   be on both sides of replay_rebuilds.  Here the node an entry must become is a record literal per entry kind, with
   numeric literals for the type bits (checked against the generated constants below), written from the property text:
     every kind      same path, same owner, not implicit, not a hard link
     dir             mode word as given; no device number, no extra
     file            mode word as given; extra = location of the contents (the path, or <unpack root>/<path>)
     slink           mode S_IFLNK | 0777 whatever the listed permission bits; extra = the target
     nod (chr, blk)  mode word as given; the device number; no extra
     pipe, sock      mode word as given; nothing else
   entry_lit_is_entry_node shows the two agree on every mode word the property quantifies over (mode_ok), so the
   theorems can be (and are, in Properties_C16.v) restated with the literal on the specification side. *)
From Coq Require Import List NArith Bool.
From SqfsV Require Import C18.CanonModel C18.CanonSpec C16.GenC16 C16.ParseModel C16.DescribeModel
     C16.RoundTripSpec C16.NumProofs C16.FsModel C16.FsSpec.
Import ListNotations.
Local Open Scope N_scope.

Definition lit_location (uroot : option (list N)) (p : list (list N)) : list N :=
  match uroot with None => join p | Some u => u ++ [47] ++ join p end.

Definition entry_lit (uroot : option (list N)) (p : list (list N))
           (mode uid gid : N) (target : list N) (devno : N) : fnode :=
  let k := N.land mode 61440 in                                         (* mode & 0170000 *)
  if k =? 16384 then                                                    (* 0040000 directory *)
    {| f_path := p; f_mode := mode; f_uid := uid; f_gid := gid; f_devno := 0; f_extra := None;
       f_implicit := false; f_hard := false |}
  else if k =? 32768 then                                               (* 0100000 regular file *)
    {| f_path := p; f_mode := mode; f_uid := uid; f_gid := gid; f_devno := 0;
       f_extra := Some (lit_location uroot p); f_implicit := false; f_hard := false |}
  else if k =? 40960 then                                               (* 0120000 symbolic link: always 0777 *)
    {| f_path := p; f_mode := 41471; f_uid := uid; f_gid := gid; f_devno := 0; f_extra := Some target;
       f_implicit := false; f_hard := false |}
  else if (k =? 8192) || (k =? 24576) then                              (* 0020000 chr, 0060000 blk *)
    {| f_path := p; f_mode := mode; f_uid := uid; f_gid := gid; f_devno := devno; f_extra := None;
       f_implicit := false; f_hard := false |}
  else                                                                  (* 0010000 fifo, 0140000 socket *)
    {| f_path := p; f_mode := mode; f_uid := uid; f_gid := gid; f_devno := 0; f_extra := None;
       f_implicit := false; f_hard := false |}.

(* the literals are the values of <sys/stat.h> the check generates on every run *)
Lemma lit_constants :
  c_S_IFMT = 61440 /\ c_S_IFDIR = 16384 /\ c_S_IFREG = 32768 /\ c_S_IFLNK = 40960 /\ c_S_IFCHR = 8192 /\
  c_S_IFBLK = 24576 /\ c_S_IFIFO = 4096 /\ c_S_IFSOCK = 49152 /\ N.lor c_S_IFLNK 511 = 41471 /\ slash = 47.
Proof. repeat split; reflexivity. Qed.

Lemma entry_lit_is_entry_node uroot p mode uid gid target devno :
  mode_ok mode -> entry_node uroot p mode uid gid target devno = entry_lit uroot p mode uid gid target devno.
Proof.
  intros (kb & pb & Hk & Hp & ->).
  pose proof (mode_facts kb pb Hk Hp) as (F & _ & _). unfold fmt_bits in F.
  unfold entry_node, stored_node, entry_lit, is_k, kind_is, fmt_bits, lit_location.
  change 61440 with c_S_IFMT. rewrite F.
  unfold kind_bits_list in Hk. cbn [In] in Hk.
  destruct Hk as [<-|[<-|[<-|[<-|[<-|[<-|[<-|[]]]]]]]]; reflexivity.
Qed.

(* the same traversal as FsSpec.nodes_of, with the literal per entry *)
Fixpoint nodes_lit (uroot : option (list N)) (anc : list (list N)) (n : tnode) : list fnode :=
  match n with
  | TNode name mode uid gid target devno children =>
    let chain := anc ++ [name] in
    entry_lit uroot chain mode uid gid target devno ::
    (if N.land mode 61440 =? 16384 then
       (fix go (cs : list tnode) : list fnode :=
          match cs with [] => [] | c :: r => nodes_lit uroot chain c ++ go r end) children
     else [])
  end.

Definition root_nodes_lit (uroot : option (list N)) (t : tnode) : list fnode :=
  match t with
  | TNode _ mode uid gid _ _ children =>
    {| f_path := []; f_mode := mode; f_uid := uid; f_gid := gid;
       f_devno := 0; f_extra := None; f_implicit := false; f_hard := false |} ::
    (fix go (cs : list tnode) : list fnode :=
       match cs with [] => [] | c :: r => nodes_lit uroot [] c ++ go r end) children
  end.

Lemma nodes_lit_is_nodes_of uroot : forall n anc, wf_node n -> nodes_lit uroot anc n = nodes_of uroot anc n.
Proof.
  fix IH 3. intros n anc Hwf. destruct Hwf as [name mode uid gid target devno children Hname Hmode _ _ _ _ Hch].
  cbn [nodes_lit nodes_of]. rewrite (entry_lit_is_entry_node uroot _ mode uid gid target devno Hmode). f_equal.
  unfold is_k, fmt_bits. change 61440 with c_S_IFMT. change 16384 with c_S_IFDIR.
  destruct (N.land mode c_S_IFMT =? c_S_IFDIR); [|reflexivity].
  induction Hch as [|c r Hc Hr IHr]; [reflexivity|]. rewrite (IH c _ Hc), IHr. reflexivity.
Qed.

Lemma root_nodes_lit_is_root_nodes uroot t : wf_root t -> root_nodes_lit uroot t = root_nodes uroot t.
Proof.
  destruct t as [name mode uid gid target devno children]. intros (_ & _ & _ & _ & Hch).
  cbn [root_nodes_lit root_nodes]. f_equal. unfold children_nodes.
  induction Hch as [|c r Hc Hr IHr]; [reflexivity|]. rewrite (nodes_lit_is_nodes_of uroot c [] Hc), IHr. reflexivity.
Qed.

(* replay_rebuilds / describe_rebuilds against the literal specification *)
From SqfsV Require Import C16.FsProofs.

Lemma replay_rebuilds_lit_l def_mode def_uid def_gid uroot t :
  wf_root t -> uniq_names t ->
  run_calls (list fnode) (fs_add def_mode def_uid def_gid) (fs_init def_mode def_uid def_gid) (root_calls uroot t)
  = (root_nodes_lit uroot t, None).
Proof.
  intros Hwf Hu. rewrite (root_nodes_lit_is_root_nodes uroot t Hwf). apply replay_rebuilds_l; assumption.
Qed.

Lemma describe_rebuilds_lit_l def_mode def_uid def_gid uroot t :
  wf_root t -> uroot_ok uroot -> uniq_names t ->
  exists out,
    describe uroot t = (out, true) /\
    fstree_from_file_stream (list fnode) (fs_add def_mode def_uid def_gid) default_options
                            (fs_init def_mode def_uid def_gid) out
    = (root_nodes_lit uroot t, None).
Proof.
  intros Hwf Hur Hu. rewrite (root_nodes_lit_is_root_nodes uroot t Hwf). apply describe_rebuilds_l; assumption.
Qed.
