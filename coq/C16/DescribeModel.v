(* C16, printer side.  Model of bin/rdsquashfs/src/describe.c *with the repair
   props/C16/fixes/F10-describe-escaping.patch and F10b-describe-root-attributes.patch
   applied* (print_escaped, print_token, print_name, print_perm, print_simple,
   describe_tree) and of sqfs_tree_node_get_path (lib/common/src/dir_tree.c).
   stdout is a byte list; a function returns (bytes written, true = returned 0).
   Definitions only. *)
From Coq Require Import List NArith Bool.
From SqfsV Require Import C18.CanonModel C16.GenC16 C16.ParseModel.
Import ListNotations.
Local Open Scope N_scope.

(* ---------- printf(`%u`) / printf(`%o`) ---------- *)
Fixpoint digits_go (fuel : nat) (base n : N) (acc : list N) : list N :=
  match fuel with
  | O => acc
  | S f =>
    let acc' := (ch_0 + n mod base) :: acc in
    if N.eqb (n / base) 0 then acc' else digits_go f base (n / base) acc'
  end.

Definition print_num (base n : N) : list N :=
  digits_go (S (N.to_nat (N.size n))) base n [].

Definition print_dec := print_num 10.
Definition print_oct := print_num 8.

(* ---------- the tree handed to describe_tree ---------- *)
(* sqfs_tree_node_t + the parts of its inode that describe.c reads:
   name, inode->base.mode, uid, gid, inode->extra (symlink target),
   inode->data.dev.devno / dev_ext.devno (same offset), children *)
Inductive tnode :=
| TNode (name : list N) (mode uid gid : N) (target : list N) (devno : N) (children : list tnode).

(* ---------- print_escaped / print_token (repaired code) ---------- *)
(* strpbrk(str, ` \t\r\``) != NULL *)
Definition quote_char (c : N) : bool :=
  N.eqb c ch_sp || N.eqb c ch_tab || N.eqb c ch_cr || N.eqb c ch_dq.

Definition needs_quote (s : list N) : bool := existsb quote_char s.

Fixpoint escape (s : list N) : list N :=
  match s with
  | [] => []
  | c :: r =>
    if N.eqb c ch_dq || N.eqb c ch_bs then ch_bs :: c :: escape r
    else c :: escape r
  end.

Definition print_escaped (s : list N) (quoted : bool) : list N :=
  if quoted then escape s else s.

Definition is_nil (s : list N) : bool := match s with [] => true | _ => false end.

Definition print_token (prefix : option (list N)) (s : list N) : list N :=
  let quoted :=
    match prefix with
    | None => needs_quote s || is_nil s
    | Some p => needs_quote s || needs_quote p
    end in
  let q := if quoted then [ch_dq] else [] in
  q ++ match prefix with Some p => print_escaped p quoted ++ [slash] | None => [] end
    ++ print_escaped s quoted ++ q.

(* ---------- sqfs_tree_node_get_path ---------- *)
(* every non-root node on the way up must have a non-empty name without '/'
   that is not `.` or `..`; the root must have an empty name *)
Definition comp_valid (c : list N) : bool :=
  negb (is_nil c) && negb (has_slash c)
  && negb (list_N_eqb c [dot]) && negb (list_N_eqb c [dot; dot]).

Fixpoint abs_path (chain : list (list N)) : list N :=
  match chain with
  | [] => []
  | c :: r => slash :: c ++ abs_path r
  end.

(* chain = names from the root's child down to the node itself ([] for the root) *)
Definition get_path (root_name : list N) (chain : list (list N)) : option (list N) :=
  if forallb comp_valid chain && is_nil root_name then
    Some (match chain with [] => [slash] | _ => abs_path chain end)
  else None.

(* print_name: get the path, canonicalize it, print it as one token *)
Definition print_name (root_name : list N) (chain : list (list N)) (prefix : option (list N))
  : list N * bool :=
  match get_path root_name chain with
  | None => ([], false)
  | Some p =>
    match canon_model p with
    | CanonOk name => (print_token prefix name, true)
    | _ => ([], false)
    end
  end.

(* mode & ~S_IFMT *)
Definition perm_bits (mode : N) : N := N.ldiff mode c_S_IFMT.
Definition fmt_bits (mode : N) : N := N.land mode c_S_IFMT.

(* print_perm: printf(` 0%o %u %u`, mode & ~S_IFMT, uid, gid) *)
Definition print_perm (mode uid gid : N) : list N :=
  [ch_sp; ch_0] ++ print_oct (perm_bits mode) ++ [ch_sp] ++ print_dec uid ++ [ch_sp] ++ print_dec gid.

(* print_simple(type, n, extra): extra is printed verbatim *)
Definition print_simple (kw : list N) (root_name : list N) (chain : list (list N))
           (mode uid gid : N) (extra : option (list N)) : list N * bool :=
  let head := kw ++ [ch_sp] in
  match print_name root_name chain None with
  | (o, false) => (head ++ o, false)
  | (o, true) =>
    (head ++ o ++ print_perm mode uid gid
          ++ match extra with Some e => ch_sp :: e | None => [] end ++ [ch_nl], true)
  end.

(* glibc major() / minor() applied to a 32 bit device number *)
Definition major32 (d : N) : N := (d / 256) mod 4096.
Definition minor32 (d : N) : N := d mod 256 + (d / 1048576) * 256.

(* what describe_tree prints for the node itself (not its children) *)
Definition describe_node (uroot : option (list N)) (root_name : list N) (chain : list (list N))
           (is_root : bool) (name : list N) (mode uid gid : N) (target : list N) (devno : N)
  : list N * bool :=
  let k := fmt_bits mode in
  if N.eqb k c_S_IFSOCK then print_simple kw_sock root_name chain mode uid gid None
  else if N.eqb k c_S_IFLNK then
    let head := kw_slink ++ [ch_sp] in
    match print_name root_name chain None with
    | (o, false) => (head ++ o, false)
    | (o, true) =>
      (head ++ o ++ print_perm mode uid gid ++ [ch_sp] ++ print_token None (cstr target) ++ [ch_nl], true)
    end
  else if N.eqb k c_S_IFIFO then print_simple kw_pipe root_name chain mode uid gid None
  else if N.eqb k c_S_IFREG then
    match uroot with
    | None => print_simple kw_file root_name chain mode uid gid None
    | Some ur =>
      let head := kw_file ++ [ch_sp] in
      match print_name root_name chain None with
      | (o, false) => (head ++ o, false)
      | (o, true) =>
        let o1 := head ++ o ++ print_perm mode uid gid ++ [ch_sp] in
        match print_name root_name chain (Some (cstr ur)) with
        | (o2, false) => (o1 ++ o2, false)
        | (o2, true) => (o1 ++ o2 ++ [ch_nl], true)
        end
      end
    end
  else if N.eqb k c_S_IFCHR || N.eqb k c_S_IFBLK then
    let buffer := [if N.eqb k c_S_IFCHR then 99 else 98] ++ [ch_sp]
                  ++ print_dec (major32 devno) ++ [ch_sp] ++ print_dec (minor32 devno) in
    print_simple kw_nod root_name chain mode uid gid (Some buffer)
  else if N.eqb k c_S_IFDIR then
    match name with
    | _ :: _ => print_simple kw_dir root_name chain mode uid gid None
    | [] =>
      if is_root then (kw_dir ++ [ch_sp; slash] ++ print_perm mode uid gid ++ [ch_nl], true)
      else ([], true)
    end
  else ([], true).

(* describe_tree.  [anc] = names of the proper ancestors below the root.  The
   printer of a single node is a parameter only so that DescribeOld.v can
   re-use the traversal for the code before the repair. *)
Section Tree.
  Variable node_fn : option (list N) -> list N -> list (list N) -> bool ->
                     list N -> N -> N -> N -> list N -> N -> list N * bool.

  Fixpoint describe_tree_gen (uroot : option (list N)) (root_name : list N) (anc : list (list N))
           (is_root : bool) (n : tnode) {struct n} : list N * bool :=
    match n with
    | TNode name0 mode uid gid target devno children =>
      let name := cstr name0 in
      if negb (is_filename_sane_model name) then ([], false)
      else
        let chain := if is_root then [] else anc ++ [name] in
        match node_fn uroot root_name chain is_root name mode uid gid target devno with
        | (o, false) => (o, false)
        | (o, true) =>
          if N.eqb (fmt_bits mode) c_S_IFDIR then
            let res :=
              (fix children_go (cs : list tnode) : list N * bool :=
                 match cs with
                 | [] => ([], true)
                 | c :: r =>
                   match describe_tree_gen uroot root_name chain false c with
                   | (oc, false) => (oc, false)
                   | (oc, true) => let (orr, ok) := children_go r in (oc ++ orr, ok)
                   end
                 end) children in
            (o ++ fst res, snd res)
          else (o, true)
        end
    end.
End Tree.

Definition describe_tree := describe_tree_gen describe_node.

Definition root_name_of (n : tnode) : list N :=
  match n with TNode name _ _ _ _ _ _ => cstr name end.

(* rdsquashfs --describe [--unpack-root uroot] *)
Definition describe (uroot : option (list N)) (t : tnode) : list N * bool :=
  describe_tree uroot (root_name_of t) [] true t.
