(* C16: what print_token writes is read back by split_line as the same string;
   lines made of such tokens survive split_lines / cook_line unchanged. *)
From Coq Require Import List NArith Bool Lia.
From SqfsV Require Import C18.CanonModel C16.GenC16 C16.ParseModel C16.DescribeModel.
Import ListNotations.
Local Open Scope N_scope.

Definition sep := pack_file_sep.

Definition no_nul (s : list N) : Prop := ~ In ch_nul s.
Definition no_nl (s : list N) : Prop := ~ In ch_nl s.

Lemma no_nul_cons c s : no_nul (c :: s) <-> c <> ch_nul /\ no_nul s.
Proof. unfold no_nul; simpl; split; [intro H; split; intro; apply H; auto | intros [A B] [E|E]; [congruence|auto]]. Qed.

Lemma no_nul_app a b : no_nul (a ++ b) <-> no_nul a /\ no_nul b.
Proof. unfold no_nul. rewrite in_app_iff. tauto. Qed.

Lemma no_nl_app a b : no_nl (a ++ b) <-> no_nl a /\ no_nl b.
Proof. unfold no_nl. rewrite in_app_iff. tauto. Qed.

Lemma cstr_id s : no_nul s -> cstr s = s.
Proof.
  induction s as [|c r IH]; intro H; [reflexivity|].
  apply no_nul_cons in H as [H1 H2]. simpl.
  destruct (N.eqb_spec c ch_nul); [contradiction|]. rewrite IH; auto.
Qed.

(* ---------- separators ---------- *)
Lemma is_sep_sp : is_sep sep ch_sp = true. Proof. reflexivity. Qed.

Lemma is_sep_quote_char c : is_sep sep c = true -> quote_char c = true.
Proof.
  unfold is_sep, sep, pack_file_sep, quote_char. simpl.
  destruct (N.eqb c ch_sp), (N.eqb c ch_tab); simpl; auto; discriminate.
Qed.

Lemma not_quote_char c : quote_char c = false ->
  is_sep sep c = false /\ c <> ch_dq /\ c <> ch_cr /\ c <> ch_sp.
Proof.
  intro H. split.
  - destruct (is_sep sep c) eqn:E; [apply is_sep_quote_char in E; congruence|reflexivity].
  - unfold quote_char in H. repeat (apply orb_false_iff in H as [H ?]).
    repeat split; intro; subst; discriminate.
Qed.

(* ---------- runs inside a token ---------- *)
Lemma unq_run t : forall cur tail,
  Forall (fun c => c <> ch_nul /\ is_sep sep c = false) t ->
  split_go sep StUnq cur (t ++ tail) = split_go sep StUnq (rev t ++ cur) tail.
Proof.
  induction t as [|c r IH]; intros cur tail H; [reflexivity|].
  inversion H as [|? ? [H1 H2] H3]; subst. cbn [app split_go].
  destruct (N.eqb_spec c ch_nul); [contradiction|]. rewrite H2.
  rewrite IH by assumption. cbn [rev]. rewrite <- app_assoc. reflexivity.
Qed.

Lemma quot_run s : forall cur tail, no_nul s ->
  split_go sep StQuot cur (escape s ++ tail) = split_go sep StQuot (rev s ++ cur) tail.
Proof.
  induction s as [|c r IH]; intros cur tail H; [reflexivity|].
  apply no_nul_cons in H as [H1 H2].
  cbn [escape rev]. rewrite <- app_assoc. cbn [app].
  destruct (N.eqb c ch_dq || N.eqb c ch_bs) eqn:E.
  - (* escaped character: backslash, then c *)
    cbn [app split_go].
    change (N.eqb ch_bs ch_nul) with false. change (N.eqb ch_bs ch_dq) with false.
    change (N.eqb ch_bs ch_bs) with true. cbn iota. rewrite E. apply IH; assumption.
  - apply orb_false_iff in E as [E1 E2]. cbn [app split_go].
    destruct (N.eqb_spec c ch_nul); [contradiction|]. rewrite E1, E2. apply IH; assumption.
Qed.

Lemma skip_sp r : split_go sep StSkip [] (ch_sp :: r) = split_go sep StSkip [] r.
Proof. reflexivity. Qed.

(* ---------- one token ---------- *)
(* the token as print_token(NULL, s) writes it *)
Definition T (s : list N) : list N := print_token None s.

Definition tail_ok (tail : list N) : Prop := tail = [] \/ exists r, tail = ch_sp :: r.

Lemma close_quote cur tail :
  split_go sep StQuot cur (ch_dq :: tail) = emit (rev cur) (split_go sep StSkip [] tail).
Proof. reflexivity. Qed.

Lemma needs_quote_false_all s : needs_quote s = false -> Forall (fun c => quote_char c = false) s.
Proof.
  induction s as [|c r IH]; simpl; intro H; constructor;
    apply orb_false_iff in H as [H1 H2]; auto.
Qed.

Lemma split_token s tail : no_nul s -> tail_ok tail ->
  split_go sep StSkip [] (T s ++ tail) = emit s (split_go sep StSkip [] tail).
Proof.
  intros Hn Ht. unfold T, print_token.
  destruct (needs_quote s || is_nil s) eqn:Q.
  - (* quoted *)
    cbn [print_escaped app]. rewrite <- !app_assoc. cbn [app].
    change (split_go sep StSkip [] (ch_dq :: escape s ++ ch_dq :: tail))
      with (split_go sep StQuot [] (escape s ++ ch_dq :: tail)).
    rewrite quot_run by assumption. rewrite close_quote.
    rewrite app_nil_r, rev_involutive. reflexivity.
  - apply orb_false_iff in Q as [Q1 Q2].
    destruct s as [|c r]; [discriminate|].
    cbn [print_escaped app]. rewrite app_nil_r.
    apply needs_quote_false_all in Q1. inversion Q1 as [|? ? Hc Hr]; subst.
    apply no_nul_cons in Hn as [Hc0 Hr0].
    destruct (not_quote_char _ Hc) as (S1 & S2 & _ & _).
    cbn [app split_go]. destruct (N.eqb_spec c ch_nul); [contradiction|].
    rewrite S1. destruct (N.eqb_spec c ch_dq); [contradiction|].
    rewrite unq_run.
    + assert (E : rev (rev r ++ [c]) = c :: r) by (rewrite rev_app_distr, rev_involutive; reflexivity).
      destruct Ht as [->|[t ->]].
      * cbn [split_go split_end]. rewrite E. reflexivity.
      * cbn [split_go]. change (N.eqb ch_sp ch_nul) with false. cbn iota.
        rewrite is_sep_sp. rewrite E. reflexivity.
    + clear - Hr Hr0. induction r as [|d r IH]; constructor.
      * inversion Hr; subst. apply no_nul_cons in Hr0 as [? ?]. split; [assumption|].
        apply not_quote_char; assumption.
      * inversion Hr; subst. apply no_nul_cons in Hr0 as [? ?]. apply IH; assumption.
Qed.

(* ---------- a line of tokens separated by single spaces ---------- *)
Fixpoint render (toks : list (list N)) : list N :=
  match toks with
  | [] => []
  | [t] => T t
  | t :: r => T t ++ ch_sp :: render r
  end.

Lemma render_cons t r : r <> [] -> render (t :: r) = T t ++ ch_sp :: render r.
Proof. destruct r; [congruence|reflexivity]. Qed.

Lemma split_render toks : Forall no_nul toks ->
  split_line sep (render toks) = SplitOk toks.
Proof.
  unfold split_line. induction toks as [|t r IH]; intro H; [reflexivity|].
  inversion H; subst. destruct r as [|t2 r].
  - cbn [render]. rewrite <- (app_nil_r (T t)). rewrite split_token; [reflexivity|assumption|left; reflexivity].
  - rewrite render_cons by discriminate. rewrite split_token; [|assumption|right; eexists; reflexivity].
    rewrite skip_sp, IH by assumption. reflexivity.
Qed.

(* ---------- characters of a rendered line ---------- *)
Lemma in_escape x s : In x (escape s) -> x = ch_bs \/ In x s.
Proof.
  induction s as [|c r IH]; simpl; [tauto|].
  destruct (N.eqb c ch_dq || N.eqb c ch_bs); simpl; intros [H|H]; auto.
  - destruct H as [H|H]; auto. apply IH in H. tauto.
  - apply IH in H. tauto.
Qed.

Lemma in_T x s : In x (T s) -> x = ch_dq \/ x = ch_bs \/ In x s.
Proof.
  unfold T, print_token. destruct (needs_quote s || is_nil s); cbn [print_escaped app].
  - intros [H|H]; [auto|]. apply in_app_iff in H as [H|H].
    + apply in_escape in H. tauto.
    + destruct H as [H|[]]; auto.
  - rewrite app_nil_r. auto.
Qed.

Lemma in_render x toks : In x (render toks) ->
  x = ch_dq \/ x = ch_bs \/ x = ch_sp \/ exists t, In t toks /\ In x t.
Proof.
  induction toks as [|t r IH]; [simpl; tauto|].
  destruct r as [|t2 r].
  - cbn [render]. intro H. apply in_T in H. destruct H as [H|[H|H]]; auto.
    right; right; right. exists t. simpl; auto.
  - rewrite render_cons by discriminate. intro H. apply in_app_iff in H as [H|[H|H]].
    + apply in_T in H. destruct H as [H|[H|H]]; auto.
      right; right; right. exists t. simpl; auto.
    + auto.
    + apply IH in H. destruct H as [H|[H|[H|[t' [H1 H2]]]]]; auto.
      right; right; right. exists t'. simpl; auto.
Qed.

Lemma render_no_nul toks : Forall no_nul toks -> no_nul (render toks).
Proof.
  intros H Hin. apply in_render in Hin.
  destruct Hin as [E|[E|[E|[t [H1 H2]]]]]; try discriminate.
  rewrite Forall_forall in H. exact (H t H1 H2).
Qed.

Lemma render_no_nl toks : Forall no_nl toks -> no_nl (render toks).
Proof.
  intros H Hin. apply in_render in Hin.
  destruct Hin as [E|[E|[E|[t [H1 H2]]]]]; try discriminate.
  rewrite Forall_forall in H. exact (H t H1 H2).
Qed.

(* ---------- the last character is never a carriage return ---------- *)
Lemma strip_cr_last a c : c <> ch_cr -> strip_cr (a ++ [c]) = a ++ [c].
Proof.
  intro H. induction a as [|x a IH].
  - simpl. destruct (N.eqb_spec c ch_cr); [contradiction|reflexivity].
  - cbn [app]. destruct (a ++ [c]) eqn:E.
    + destruct a; discriminate.
    + change (strip_cr (x :: n :: l)) with (x :: strip_cr (n :: l)). rewrite IH. reflexivity.
Qed.

Lemma T_last s : exists a c, T s = a ++ [c] /\ c <> ch_cr.
Proof.
  unfold T, print_token. destruct (needs_quote s || is_nil s) eqn:Q; cbn [print_escaped app].
  - exists (ch_dq :: escape s), ch_dq. split; [reflexivity|discriminate].
  - apply orb_false_iff in Q as [Q1 Q2]. rewrite app_nil_r.
    destruct s as [|x s]; [discriminate|].
    destruct (@exists_last _ (x :: s)) as (a & c & E); [discriminate|].
    exists a, c. split; [exact E|].
    apply needs_quote_false_all in Q1. rewrite Forall_forall in Q1.
    assert (In c (x :: s)) by (rewrite E; apply in_app_iff; right; simpl; auto).
    apply Q1 in H. apply not_quote_char in H. tauto.
Qed.

Lemma render_last toks : toks <> [] -> exists a c, render toks = a ++ [c] /\ c <> ch_cr.
Proof.
  induction toks as [|t r IH]; [congruence|]. intros _.
  destruct r as [|t2 r].
  - apply T_last.
  - destruct IH as (a & c & E & Hc); [discriminate|].
    exists (T t ++ ch_sp :: a), c. split; [|exact Hc].
    rewrite render_cons by discriminate. rewrite E. rewrite <- app_assoc. reflexivity.
Qed.

Lemma strip_cr_render toks : toks <> [] -> strip_cr (render toks) = render toks.
Proof.
  intro H. destruct (render_last toks H) as (a & c & E & Hc). rewrite E. apply strip_cr_last. exact Hc.
Qed.

(* ---------- split_lines ---------- *)
Lemma split_lines_line l rest : no_nl l ->
  split_lines (l ++ ch_nl :: rest) = (l, true) :: split_lines rest.
Proof.
  induction l as [|c r IH]; intro H.
  - reflexivity.
  - cbn [app split_lines]. destruct (N.eqb_spec c ch_nl) as [E|E].
    + exfalso. apply H. left. auto.
    + rewrite IH; [reflexivity|]. intro Hin. apply H. right. exact Hin.
Qed.

(* ---------- plain tokens print as themselves ---------- *)
Definition plain (w : list N) : Prop :=
  w <> [] /\ Forall (fun c => quote_char c = false) w.

Lemma T_plain w : plain w -> T w = w.
Proof.
  intros [H1 H2]. unfold T, print_token.
  assert (needs_quote w = false) as ->.
  { clear H1. induction w as [|c r IH]; [reflexivity|]. inversion H2; subst. simpl. rewrite H1. apply IH. assumption. }
  destruct w; [congruence|]. cbn. rewrite app_nil_r. reflexivity.
Qed.

(* print_token with a directory prefix is print_token of the joined string *)
Lemma escape_app a b : escape (a ++ b) = escape a ++ escape b.
Proof.
  induction a as [|c r IH]; [reflexivity|]. cbn [app escape].
  destruct (N.eqb c ch_dq || N.eqb c ch_bs); cbn [app]; rewrite IH; reflexivity.
Qed.

Lemma needs_quote_app a b : needs_quote (a ++ b) = needs_quote a || needs_quote b.
Proof. unfold needs_quote. apply existsb_app. Qed.

Lemma print_token_prefix p s : print_token (Some p) s = T (p ++ [slash] ++ s).
Proof.
  unfold T, print_token. rewrite !needs_quote_app.
  change (needs_quote [slash]) with false. rewrite orb_false_l.
  assert (is_nil (p ++ [slash] ++ s) = false) as -> by (destruct p; reflexivity).
  rewrite orb_false_r. rewrite (orb_comm (needs_quote p)).
  destruct (needs_quote s || needs_quote p); cbn [print_escaped].
  - rewrite !escape_app. change (escape [slash]) with [slash]. rewrite <- !app_assoc. reflexivity.
  - rewrite <- !app_assoc. reflexivity.
Qed.

(* ---------- the two statements exported to Properties_C16 ---------- *)
Lemma token_rt_l s : ~ In ch_nul s -> split_line pack_file_sep (print_token None s) = SplitOk [s].
Proof. intro H. apply (split_render [s]). constructor; [exact H|constructor]. Qed.

Lemma token_prefix_rt_l p s : ~ In ch_nul p -> ~ In ch_nul s ->
  split_line pack_file_sep (print_token (Some p) s) = SplitOk [p ++ [slash] ++ s].
Proof.
  intros Hp Hs. rewrite print_token_prefix. apply token_rt_l.
  apply no_nul_app. split; [exact Hp|]. apply no_nul_app. split; [|exact Hs].
  intros [E|[]]. discriminate.
Qed.
