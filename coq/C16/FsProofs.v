(* C16: performing the calls of a tree (in describe order) on the freshly
   initialised file system tree model rebuilds exactly the entries of the
   tree: no call fails, no directory is created implicitly. *)
From Coq Require Import List NArith Bool Lia.
From SqfsV Require Import C18.CanonModel C18.CanonSpec C18.CanonProofs.
From SqfsV Require Import C16.GenC16 C16.ParseModel C16.DescribeModel C16.RoundTripSpec
     C16.TokenProofs C16.NumProofs C16.RoundTripProofs C16.FsModel C16.FsSpec.
Import ListNotations.
Local Open Scope N_scope.

Lemma path_eqb_eq a : forall b, path_eqb a b = true <-> a = b.
Proof.
  induction a as [|x a IH]; intros [|y b]; simpl; split; intro H; try reflexivity; try discriminate.
  - apply andb_true_iff in H as [H1 H2]. apply list_N_eqb_eq in H1. apply IH in H2. congruence.
  - inversion H; subst. apply andb_true_iff. split; [apply list_N_eqb_eq; reflexivity|apply IH; reflexivity].
Qed.

Lemma path_eqb_refl a : path_eqb a a = true.
Proof. apply path_eqb_eq. reflexivity. Qed.

Lemma fs_find_some fs p nd : fs_find fs p = Some nd -> In nd fs /\ f_path nd = p.
Proof.
  induction fs as [|x r IH]; simpl; [discriminate|].
  destruct (path_eqb (f_path x) p) eqn:E.
  - intro H. inversion H; subst. apply path_eqb_eq in E. auto.
  - intro H. apply IH in H. tauto.
Qed.

Lemma fs_find_app fs l p :
  fs_find (fs ++ l) p = match fs_find fs p with Some x => Some x | None => fs_find l p end.
Proof.
  induction fs as [|x r IH]; simpl; [reflexivity|].
  destruct (path_eqb (f_path x) p); [reflexivity|exact IH].
Qed.

Definition is_prefix (a b : list (list N)) : Prop := exists r, b = a ++ r.

(* every prefix of [anc] (the root included) is present as a directory *)
Definition dirs_exist (fs : list fnode) (cur anc : list (list N)) : Prop :=
  forall q r, anc = q ++ r ->
    exists nd, fs_find fs (cur ++ q) = Some nd /\ kind_is (f_mode nd) c_S_IFDIR = true.

(* nothing at or below p is present *)
Definition fresh (fs : list fnode) (p : list (list N)) : Prop :=
  forall nd, In nd fs -> ~ is_prefix p (f_path nd).

Lemma fresh_find fs p : fresh fs p -> fs_find fs p = None.
Proof.
  intro H. destruct (fs_find fs p) as [nd|] eqn:E; [|reflexivity].
  apply fs_find_some in E as [Hin Hp]. exfalso. apply (H nd Hin). exists []. rewrite app_nil_r. auto.
Qed.

Lemma dirs_exist_app fs l cur anc : dirs_exist fs cur anc -> dirs_exist (fs ++ l) cur anc.
Proof.
  intros H q r E. destruct (H q r E) as (nd & F & D). exists nd. rewrite fs_find_app, F. auto.
Qed.

Section Replay.
  Variables def_mode def_uid def_gid : N.
  Notation add := (fs_add def_mode def_uid def_gid).
  Notation runcs := (run_calls (list fnode) add).
  Notation getp := (get_parent def_mode def_uid def_gid).

  Lemma get_parent_ok fs : forall rest cur x,
    dirs_exist fs cur rest -> getp fs cur (rest ++ [x]) = Some (fs, cur ++ rest).
  Proof.
    induction rest as [|c rest IH]; intros cur x H.
    - destruct (H [] [] eq_refl) as (nd & F & D). rewrite app_nil_r in F.
      cbn [app get_parent]. rewrite F, D. cbn [negb]. rewrite app_nil_r. reflexivity.
    - destruct (H [] (c :: rest) eq_refl) as (nd & F & D). rewrite app_nil_r in F.
      destruct (H [c] rest eq_refl) as (nd2 & F2 & D2).
      cbn [app get_parent]. rewrite F, D. cbn [negb].
      destruct (rest ++ [x]) as [|y l] eqn:E; [apply app_eq_nil in E as [_ E]; discriminate|].
      rewrite F2. rewrite <- E. rewrite IH.
      + rewrite <- app_assoc. reflexivity.
      + intros q r Eq. destruct (H (c :: q) r) as (nd3 & F3 & D3); [rewrite Eq; reflexivity|].
        exists nd3. rewrite <- app_assoc. auto.
  Qed.

  (* calls without entry flags (everything --describe prints) take the plain mknode path *)
  Lemma fs_add_plain fs name mode uid gid rdev extra :
    add fs (CAdd name mode uid gid rdev 0 extra) =
    if kind_is mode c_S_IFLNK && match extra with None => true | Some _ => false end then None
    else match name with
         | [] => add_at fs [] mode uid gid rdev extra
         | _ => match getp fs [] (split_slash name) with
                | None => None
                | Some (fs1, parent) =>
                  add_at fs1 (parent ++ [last (split_slash name) []]) mode uid gid rdev extra
                end
         end.
  Proof. reflexivity. Qed.

  (* one entry below existing directories, nothing in its way *)
  Lemma add_entry fs uroot anc name mode uid gid target devno :
    chain_ok (anc ++ [name]) -> mode_ok mode ->
    dirs_exist fs [] anc -> fresh fs (anc ++ [name]) ->
    add fs (expected_call uroot (join (anc ++ [name])) mode uid gid target devno) =
    Some (fs ++ [entry_node uroot (anc ++ [name]) mode uid gid target devno]).
  Proof.
    intros Hc Hm Hd Hf. unfold expected_call. rewrite fs_add_plain.
    assert (L : (kind_is mode c_S_IFLNK &&
                 match (if is_k mode c_S_IFREG
                        then Some match uroot with
                                  | Some u => u ++ [slash] ++ join (anc ++ [name])
                                  | None => join (anc ++ [name]) end
                        else if is_k mode c_S_IFLNK then Some target else None)
                 with None => true | Some _ => false end) = false).
    { change (kind_is mode c_S_IFLNK) with (is_k mode c_S_IFLNK).
      destruct (is_k mode c_S_IFREG); [apply andb_false_r|].
      destruct (is_k mode c_S_IFLNK); reflexivity. }
    rewrite L.
    assert (Hne : anc ++ [name] <> []) by (intro E; apply app_eq_nil in E as [_ E]; discriminate).
    pose proof (join_nonnil _ Hc Hne) as Jn.
    destruct (join (anc ++ [name])) as [|j0 jr] eqn:J; [congruence|]. rewrite <- J.
    rewrite split_join; [|apply good_noslash; apply chain_good; exact Hc|exact Hne].
    rewrite get_parent_ok by exact Hd. cbn [app].
    rewrite last_last. unfold add_at. rewrite fresh_find by exact Hf. reflexivity.
  Qed.

  Lemma entry_node_path uroot p mode uid gid target devno :
    f_path (entry_node uroot p mode uid gid target devno) = p.
  Proof. reflexivity. Qed.

  Lemma entry_node_dir uroot p mode uid gid target devno :
    is_k mode c_S_IFDIR = true ->
    kind_is (f_mode (entry_node uroot p mode uid gid target devno)) c_S_IFDIR = true.
  Proof.
    intro H. unfold entry_node, stored_node. cbn [f_mode].
    change (kind_is mode c_S_IFLNK) with (is_k mode c_S_IFLNK).
    assert (is_k mode c_S_IFLNK = false) as ->.
    { unfold is_k in *. apply N.eqb_eq in H. rewrite H. reflexivity. }
    exact H.
  Qed.

  (* ---------- prefixes ---------- *)
  Lemma prefix_snoc_inj p a b q : is_prefix (p ++ [a]) q -> is_prefix (p ++ [b]) q -> a = b.
  Proof.
    intros [r1 E1] [r2 E2]. rewrite E1 in E2. rewrite <- !app_assoc in E2.
    apply app_inv_head in E2. inversion E2. reflexivity.
  Qed.

  Lemma prefix_shorter p x q : is_prefix (p ++ [x]) q -> is_prefix p q.
  Proof. intros [r E]. exists ([x] ++ r). rewrite E, <- app_assoc. reflexivity. Qed.

  Lemma not_prefix_longer p x : ~ is_prefix (p ++ [x]) p.
  Proof.
    intros [r E]. apply (f_equal (@length _)) in E. rewrite !app_length in E. simpl in E. lia.
  Qed.

  Definition name_of (n : tnode) : list N := match n with TNode name _ _ _ _ _ _ => name end.

  Lemma nodes_prefix uroot : forall n anc nd,
    In nd (nodes_of uroot anc n) -> is_prefix (anc ++ [name_of n]) (f_path nd).
  Proof.
    fix IH 1. intros [name mode uid gid target devno children] anc nd Hin.
    cbn [nodes_of name_of] in *. destruct Hin as [<-|Hin].
    - exists []. rewrite app_nil_r. reflexivity.
    - destruct (is_k mode c_S_IFDIR); [|destruct Hin].
      induction children as [|c r IHl]; [destruct Hin|].
      apply in_app_iff in Hin as [Hin|Hin].
      + apply IH in Hin. destruct Hin as [rr E]. exists ([name_of c] ++ rr).
        rewrite E, <- !app_assoc. reflexivity.
      + apply IHl. exact Hin.
  Qed.

  (* ---------- subtrees ---------- *)
  Definition subtree_replays (uroot : option (list N)) (n : tnode) : Prop :=
    forall anc fs, chain_ok anc -> dirs_exist fs [] anc -> fresh fs (anc ++ [name_of n]) ->
      runcs fs (calls_of uroot anc n) = (fs ++ nodes_of uroot anc n, None).

  Lemma children_replay uroot cs : Forall (subtree_replays uroot) cs ->
    NoDup (map name_of cs) ->
    forall P fs, chain_ok P -> dirs_exist fs [] P ->
      (forall c, In c cs -> fresh fs (P ++ [name_of c])) ->
      runcs fs (children_calls uroot P cs) = (fs ++ children_nodes uroot P cs, None).
  Proof.
    induction 1 as [|c r Hc Hr IH]; intros Hnd P fs HP Hd Hf.
    - cbn. rewrite app_nil_r. reflexivity.
    - cbn [children_calls children_nodes]. inversion Hnd as [|? ? Hnotin Hnd']; subst.
      rewrite run_calls_app. rewrite (Hc P fs HP Hd (Hf c (or_introl eq_refl))). cbn [bind].
      rewrite IH; [rewrite <- app_assoc; reflexivity|exact Hnd'|exact HP|apply dirs_exist_app; exact Hd|].
      intros c' Hc' nd Hin. apply in_app_iff in Hin as [Hin|Hin].
      + apply Hf; [right; exact Hc'|exact Hin].
      + intro Hp. apply nodes_prefix in Hin.
        assert (name_of c' = name_of c) by (eapply prefix_snoc_inj; eassumption).
        apply Hnotin. rewrite <- H. apply in_map. exact Hc'.
  Qed.

  Lemma wf_subtree_replays uroot : forall n, wf_node n -> uniq_names n -> subtree_replays uroot n.
  Proof.
    fix IH 2. intros n Hwf Hu.
    destruct Hwf as [name mode uid gid target devno children Hname Hmode Huid Hgid Ht Hdev Hch].
    intros anc fs Hanc Hd Hf. cbn [name_of] in Hf.
    assert (Hchain : chain_ok (anc ++ [name]))
      by (apply Forall_app; split; [exact Hanc|constructor; [exact Hname|constructor]]).
    cbn [calls_of nodes_of]. fold (children_calls uroot (anc ++ [name])). fold (children_nodes uroot (anc ++ [name])).
    cbn [run_calls]. rewrite (add_entry fs uroot anc name mode uid gid target devno Hchain Hmode Hd Hf).
    destruct (is_k mode c_S_IFDIR) eqn:Kd.
    - inversion Hu as [? ? ? ? ? ? ? Hnd Hus]; subst.
      assert (Hsub : Forall (subtree_replays uroot) children).
      { clear - IH Hch Hus. induction Hch as [|c r Hc Hr IHl]; [constructor|].
        inversion Hus; subst. constructor; [apply IH; assumption|apply IHl; assumption]. }
      rewrite (children_replay uroot children Hsub Hnd (anc ++ [name])).
      + rewrite <- app_assoc. reflexivity.
      + exact Hchain.
      + intros q r E. destruct r as [|x r'] using rev_ind.
        * rewrite app_nil_r in E. subst q. eexists. rewrite fs_find_app, fresh_find by exact Hf.
          cbn [fs_find]. rewrite entry_node_path, path_eqb_refl. split; [reflexivity|].
          apply entry_node_dir. exact Kd.
        * rewrite app_assoc in E. apply app_inj_tail in E as [E _].
          destruct (Hd q r' E) as (nd & F & D). exists nd. rewrite fs_find_app, F. auto.
      + intros c Hc nd Hin. apply in_app_iff in Hin as [Hin|[<-|[]]].
        * intro Hp. apply prefix_shorter in Hp. exact (Hf nd Hin Hp).
        * rewrite entry_node_path. apply not_prefix_longer.
    - cbn [run_calls]. reflexivity.
  Qed.

  (* ---------- the root ---------- *)
  Lemma implicit_root_is_dir : kind_is (f_mode (implicit_dir def_mode def_uid def_gid [])) c_S_IFDIR = true.
  Proof.
    unfold kind_is, implicit_dir. cbn [f_mode]. apply N.eqb_eq.
    rewrite N.land_lor_distr_l. rewrite <- N.land_assoc.
    change (N.land 4095 c_S_IFMT) with 0. rewrite N.land_0_r. reflexivity.
  Qed.

  Lemma replay_rebuilds_l uroot t : wf_root t -> uniq_names t ->
    runcs (fs_init def_mode def_uid def_gid) (root_calls uroot t) = (root_nodes uroot t, None).
  Proof.
    intros Hwf Hu. destruct t as [name mode uid gid target devno children].
    destruct Hwf as (-> & (p & Hp & Hm) & Huid & Hgid & Hch).
    assert (F : fmt_bits mode = c_S_IFDIR) by (subst mode; apply mode_facts; [left; reflexivity|exact Hp]).
    cbn [root_calls root_nodes]. fold (children_calls uroot []). fold (children_nodes uroot []).
    cbn [run_calls]. rewrite fs_add_plain.
    assert (kind_is mode c_S_IFLNK = false) as -> by (unfold kind_is; fold (fmt_bits mode); rewrite F; reflexivity).
    cbn [andb]. unfold add_at, fs_init. cbn [fs_find f_path implicit_dir path_eqb].
    fold (implicit_dir def_mode def_uid def_gid []). rewrite implicit_root_is_dir.
    assert (kind_is mode c_S_IFDIR = true) as -> by (unfold kind_is; fold (fmt_bits mode); rewrite F; reflexivity).
    cbn [andb f_implicit implicit_dir fs_replace f_path path_eqb f_devno f_extra].
    inversion Hu as [? ? ? ? ? ? ? Hnd Hus]; subst.
    assert (Hsub : Forall (subtree_replays uroot) children).
    { clear - Hch Hus. induction Hch as [|c r Hc Hr IHl]; [constructor|].
      inversion Hus; subst. constructor; [apply wf_subtree_replays; assumption|apply IHl; assumption]. }
    rewrite (children_replay uroot children Hsub Hnd []).
    - reflexivity.
    - constructor.
    - intros q r E. symmetry in E. apply app_eq_nil in E as [-> ->]. eexists. cbn [app fs_find f_path path_eqb].
      split; [reflexivity|]. cbn [f_mode]. unfold kind_is. fold (fmt_bits (c_S_IFDIR + p)). rewrite F. reflexivity.
    - intros c Hc nd [<-|[]]. cbn [f_path]. apply (not_prefix_longer []).
  Qed.
End Replay.

(* describe, then parse into the file system tree model: the tree is rebuilt *)
Lemma describe_rebuilds_l def_mode def_uid def_gid uroot t :
  wf_root t -> uroot_ok uroot -> uniq_names t ->
  exists out,
    describe uroot t = (out, true) /\
    fstree_from_file_stream (list fnode) (fs_add def_mode def_uid def_gid) default_options
                            (fs_init def_mode def_uid def_gid) out
    = (root_nodes uroot t, None).
Proof.
  intros Hwf Hu Hn.
  destruct (describe_parse_rt_l (list fnode) (fs_add def_mode def_uid def_gid) uroot t Hwf Hu) as (out & D & P).
  exists out. split; [exact D|]. rewrite P. apply replay_rebuilds_l; assumption.
Qed.
