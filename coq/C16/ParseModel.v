(* C16, parser side.  Model of
     lib/util/src/split_line.c      split_line, split_line_remove_front
     lib/util/src/get_line.c        ltrim, rtrim, istream_get_line
     lib/util/src/parse_int.c       parse (parse_uint / parse_uint_oct as called with len = -1, diff = NULL)
     bin/gensquashfs/src/fstree_from_file.c
                                    keyword table, handle_line, add_generic, add_device, add_file,
                                    fstree_from_file_stream
   C strings are [list N]; a NUL byte inside a list terminates the C string
   where the C code would stop at it ([cstr]).  Definitions only. *)
From Coq Require Import List NArith Bool.
From SqfsV Require Import C18.CanonModel C16.GenC16.
Import ListNotations.
Local Open Scope N_scope.

Definition ch_nul : N := 0.
Definition ch_tab : N := 9.
Definition ch_nl : N := 10.
Definition ch_cr : N := 13.
Definition ch_sp : N := 32.
Definition ch_dq : N := 34.
Definition ch_hash : N := 35.
Definition ch_star : N := 42.
Definition ch_0 : N := 48.
Definition ch_bs : N := 92.

(* the part of a buffer that C string functions see *)
Fixpoint cstr (s : list N) : list N :=
  match s with
  | [] => []
  | c :: r => if N.eqb c ch_nul then [] else c :: cstr r
  end.

(* ------------------------------------------------------------------ *)
(* split_line.c                                                        *)

(* is_sep: strchr(sep, c) != NULL && c != '\0' *)
Definition is_sep (sep : list N) (c : N) : bool :=
  existsb (N.eqb c) sep && negb (N.eqb c ch_nul).

Inductive split_res :=
| SplitOk (args : list (list N))
| SplitEscape            (* SPLIT_LINE_ESCAPE *)
| SplitUnmatched.        (* SPLIT_LINE_UNMATCHED_QUOTE *)

Definition emit (tok : list N) (r : split_res) : split_res :=
  match r with SplitOk l => SplitOk (tok :: l) | e => e end.

(* The in-place pointer loop as a list transducer.  [cur] is the token being
   built (reversed).
     StSkip: between tokens (`while (len > 0 && is_sep(sep, *src))`), also the start
     StUnq : inside an unquoted token
     StQuot: inside a quoted token
   dst <= src holds throughout the C code, and the terminating NUL of a token
   is only written over a byte that was already consumed, so the list reading
   is equivalent to the in-place one (re-checked by the tie). *)
Inductive sst := StSkip | StUnq | StQuot.

Definition split_end (st : sst) (cur : list N) : split_res :=
  match st with
  | StSkip => SplitOk []
  | StUnq => SplitOk [rev cur]
  | StQuot => SplitUnmatched     (* `if (len == 0 || *src != '`') goto fail_quote` *)
  end.

Fixpoint split_go (sep : list N) (st : sst) (cur : list N) (s : list N) : split_res :=
  match s with
  | [] => split_end st cur
  | c :: r =>
    if N.eqb c ch_nul then split_end st cur
    else
      match st with
      | StSkip =>
        if is_sep sep c then split_go sep StSkip [] r
        else if N.eqb c ch_dq then split_go sep StQuot [] r
        else split_go sep StUnq [c] r
      | StUnq =>
        if is_sep sep c then emit (rev cur) (split_go sep StSkip [] r)
        else split_go sep StUnq (c :: cur) r
      | StQuot =>
        if N.eqb c ch_dq then emit (rev cur) (split_go sep StSkip [] r)
        else if N.eqb c ch_bs then
          match r with
          | [] => SplitEscape                                  (* len < 2 *)
          | d :: r' =>
            if N.eqb d ch_dq || N.eqb d ch_bs then split_go sep StQuot (d :: cur) r'
            else SplitEscape
          end
        else split_go sep StQuot (c :: cur) r
      end
  end.

Definition split_line (sep : list N) (line : list N) : split_res :=
  split_go sep StSkip [] line.

Definition remove_front (count : nat) (args : list (list N)) : list (list N) := skipn count args.

(* ------------------------------------------------------------------ *)
(* get_line.c                                                          *)

(* isspace() in the C locale *)
Definition isspace (c : N) : bool :=
  N.eqb c 32 || (N.leb 9 c && N.leb c 13).

Fixpoint ltrim (s : list N) : list N :=
  match s with
  | [] => []
  | c :: r => if isspace c then ltrim r else s
  end.

Definition rtrim (s : list N) : list N := rev (ltrim (rev s)).

(* `if (line_len > 0 && line[line_len - 1] == '\r') line[--line_len] = '\0'` *)
Fixpoint strip_cr (s : list N) : list N :=
  match s with
  | [] => []
  | [c] => if N.eqb c ch_cr then [] else [c]
  | c :: r => c :: strip_cr r
  end.

Record line_flags := { lf_ltrim : bool; lf_rtrim : bool; lf_skip_empty : bool }.

Definition trim_flags (f : line_flags) (s : list N) : list N :=
  let s0 := cstr s in
  let s1 := if lf_ltrim f then ltrim s0 else s0 in
  if lf_rtrim f then rtrim s1 else s1.

(* the raw lines of a stream: bytes up to each '\n' with a flag `terminated
   by a newline`; a non-empty remainder at the end of the stream is a line
   that is not terminated. *)
Fixpoint split_lines (s : list N) : list (list N * bool) :=
  match s with
  | [] => []
  | c :: r =>
    if N.eqb c ch_nl then ([], true) :: split_lines r
    else match split_lines r with
         | (l, b) :: t => (c :: l, b) :: t
         | [] => [([c], false)]
         end
  end.

(* what istream_get_line makes of one raw line: None = skipped (or, for the
   unterminated last line, end of file), Some l = returned to the caller *)
Definition cook_line (f : line_flags) (raw : list N) (terminated : bool) : option (list N) :=
  let l1 := if terminated then strip_cr raw else raw in
  let l2 := trim_flags f l1 in
  match l2 with
  | [] => if lf_skip_empty f then None else Some []
  | _ => Some l2
  end.

(* ------------------------------------------------------------------ *)
(* parse_int.c: parse(in, len = (size_t)-1, diff = NULL, base, vmin, vmax, out)
   on a NUL-terminated string *)

Definition u64_max : N := 18446744073709551615.

Definition isdigit (c : N) : bool := N.leb 48 c && N.leb c 57.

Inductive num_res := NumOk (v : N) | NumCorrupted | NumOverflow | NumOutOfBounds.

(* the while loop; returns the accumulated value and the unread rest *)
Fixpoint parse_loop (base : N) (acc : N) (s : list N) : option (N * list N) :=
  match s with
  | [] => Some (acc, [])
  | c :: r =>
    if isdigit c then
      let x := c - 48 in
      if N.leb base x then Some (acc, s)                         (* x >= base: break *)
      else if N.leb (u64_max / base) acc then None               (* SQFS_ERROR_OVERFLOW *)
      else
        let acc1 := acc * base in
        if N.ltb (u64_max - x) acc1 then None
        else parse_loop base (acc1 + x) r
    else Some (acc, s)
  end.

Definition parse_num (base vmin vmax : N) (s0 : list N) : num_res :=
  let s := cstr s0 in
  match s with
  | [] => NumCorrupted
  | c :: _ =>
    if negb (isdigit c) then NumCorrupted
    else
      match parse_loop base 0 s with
      | None => NumOverflow
      | Some (v, rest) =>
        if N.ltb vmin vmax && (N.ltb v vmin || N.ltb vmax v) then NumOutOfBounds
        else match rest with [] => NumOk v | _ => NumCorrupted end
      end
  end.

Definition parse_uint := parse_num 10.
Definition parse_uint_oct := parse_num 8.

(* ------------------------------------------------------------------ *)
(* fstree_from_file.c                                                  *)

(* strings of the source *)
Definition kw_dir : list N := [100;105;114].
Definition kw_slink : list N := [115;108;105;110;107].
Definition kw_link : list N := [108;105;110;107].
Definition kw_nod : list N := [110;111;100].
Definition kw_pipe : list N := [112;105;112;101].
Definition kw_sock : list N := [115;111;99;107].
Definition kw_file : list N := [102;105;108;101].
Definition kw_glob : list N := [103;108;111;98].

Definition streq := list_N_eqb.

Inductive cbkind := CbGeneric | CbDevice | CbFile.

Record hook := {
  h_keyword : list N; h_mode : N; h_flags : N;
  h_need_extra : bool; h_allow_root : bool; h_cb : cbkind }.

Definition file_list_hooks : list hook :=
  [ {| h_keyword := kw_dir;   h_mode := c_S_IFDIR;  h_flags := 0; h_need_extra := false; h_allow_root := true;  h_cb := CbGeneric |};
    {| h_keyword := kw_slink; h_mode := c_S_IFLNK;  h_flags := 0; h_need_extra := true;  h_allow_root := false; h_cb := CbGeneric |};
    {| h_keyword := kw_link;  h_mode := c_S_IFLNK;  h_flags := c_SQFS_DIR_ENTRY_FLAG_HARD_LINK;
                                                                 h_need_extra := true;  h_allow_root := false; h_cb := CbGeneric |};
    {| h_keyword := kw_nod;   h_mode := 0;          h_flags := 0; h_need_extra := true;  h_allow_root := false; h_cb := CbDevice |};
    {| h_keyword := kw_pipe;  h_mode := c_S_IFIFO;  h_flags := 0; h_need_extra := false; h_allow_root := false; h_cb := CbGeneric |};
    {| h_keyword := kw_sock;  h_mode := c_S_IFSOCK; h_flags := 0; h_need_extra := false; h_allow_root := false; h_cb := CbGeneric |};
    {| h_keyword := kw_file;  h_mode := c_S_IFREG;  h_flags := 0; h_need_extra := false; h_allow_root := false; h_cb := CbFile |} ].

Fixpoint find_hook (hs : list hook) (kw : list N) : option hook :=
  match hs with
  | [] => None
  | h :: r => if streq (h_keyword h) kw then Some h else find_hook r kw
  end.

(* the relevant part of options_t *)
Record options := { o_dirscan_flags : N; o_force_uid : N; o_force_gid : N }.

Definition default_options : options :=
  {| o_dirscan_flags := N.lor c_DIR_SCAN_KEEP_UID c_DIR_SCAN_KEEP_GID; o_force_uid := 0; o_force_gid := 0 |}.

Definition has_flag (v f : N) : bool := negb (N.eqb (N.land v f) 0).

(* glibc makedev() on 32-bit major / minor numbers (sys/sysmacros.h) *)
Definition makedev (maj min : N) : N :=
  (maj mod 4096) * 256 + (maj / 4096) * 17592186044416 + min mod 256 + (min / 256) * 1048576.

(* what reaches the file system tree: one call of fstree_add_generic
   (ent->name, ent->mode, ent->uid, ent->gid, ent->rdev, ent->flags, extra)
   or of glob_files *)
Inductive call :=
| CAdd (name : list N) (mode uid gid rdev flags : N) (extra : option (list N))
| CGlob (name : list N) (mode uid gid glob_flags : N) (args : list (list N)).

Inductive perr :=
| EEnt | EKeyword | ERoot | EMode | EUidGid | ENoExtra       (* handle_line *)
| ETooMany | EAddFailed                                      (* add_generic *)
| EDevArgs | EDevType | EDevNum                              (* add_device *)
| EGlobFailed
| EQuote | EEscape.                                          (* fstree_from_file_stream *)

Section Parser.
  (* the file system tree the calls act on: an arbitrary state machine.  In
     the tie it is a log (every call succeeds); C16's statement needs no
     property of it. *)
  Variable St : Type.
  Variable do_call : St -> call -> option St.

  Definition run_call (st : St) (c : call) (e : perr) : St * option perr :=
    match do_call st c with
    | Some st' => (st', None)
    | None => (st, Some e)
    end.

  (* add_generic *)
  Definition add_generic (st : St) (name : list N) (mode uid gid rdev flags : N)
             (line : list (list N)) : St * option perr :=
    match line with
    | _ :: _ :: _ => (st, Some ETooMany)
    | [a] => run_call st (CAdd name mode uid gid rdev flags (Some a)) EAddFailed
    | [] => run_call st (CAdd name mode uid gid rdev flags None) EAddFailed
    end.

  Definition dev_type (a : list N) : option N :=
    if streq a [99] || streq a [67] then Some c_S_IFCHR
    else if streq a [98] || streq a [66] then Some c_S_IFBLK
    else None.

  Definition u32_max : N := 4294967295.
  Definition dev_major_max : N := 4095.       (* 0x0FFF *)
  Definition dev_minor_max : N := 1048575.    (* 0x0FFFFF *)

  (* add_device *)
  Definition add_device (st : St) (name : list N) (mode uid gid flags : N)
             (line : list (list N)) : St * option perr :=
    match line with
    | [t; a1; a2] =>
      match dev_type t with
      | None => (st, Some EDevType)
      | Some bits =>
        (* SquashFS stores a 32 bit device number: 12 bit major, 20 bit minor (repo fix F24) *)
        match parse_uint 0 dev_major_max a1 with
        | NumOk maj =>
          match parse_uint 0 dev_minor_max a2 with
          | NumOk min => add_generic st name (N.lor mode bits) uid gid (makedev maj min) flags []
          | _ => (st, Some EDevNum)
          end
        | _ => (st, Some EDevNum)
        end
      end
    | _ => (st, Some EDevArgs)
    end.

  (* add_file *)
  Definition add_file (st : St) (name : list N) (mode uid gid flags : N)
             (line : list (list N)) : St * option perr :=
    add_generic st name mode uid gid 0 flags (match line with [] => [name] | _ => line end).

  Definition handle_line (opt : options) (st : St) (line : list (list N)) : St * option perr :=
    match line with
    | a0 :: a1 :: a2 :: a3 :: a4 :: extra =>
      let cb := find_hook file_list_hooks a0 in
      let is_glob := match cb with None => streq kw_glob a0 | Some _ => false end in
      match cb, is_glob with
      | None, false => (st, Some EKeyword)
      | _, _ =>
        match canon_model (cstr a1) with
        | CanonOk path =>
          let allow_root := match cb with Some h => h_allow_root h | None => true end in
          if (match path with [] => negb allow_root | _ => false end) then (st, Some ERoot)
          else
            let star a := is_glob && streq a [ch_star] in
            let mode_r := if star a2 then NumOk 0 else parse_uint_oct 0 4095 a2 in
            match mode_r with
            | NumOk mode =>
              let gf0 := if star a2 then c_DIR_SCAN_KEEP_MODE else 0 in
              let uid_r := if star a3 then NumOk 0 else parse_uint 0 u32_max a3 in
              match uid_r with
              | NumOk uid0 =>
                let gf1 := if star a3 then N.lor gf0 (N.land (o_dirscan_flags opt) c_DIR_SCAN_KEEP_UID) else gf0 in
                let uid := if has_flag (o_dirscan_flags opt) c_DIR_SCAN_KEEP_UID then uid0 else o_force_uid opt in
                let gid_r := if star a4 then NumOk 0 else parse_uint 0 u32_max a4 in
                match gid_r with
                | NumOk gid0 =>
                  let gf2 := if star a4 then N.lor gf1 (N.land (o_dirscan_flags opt) c_DIR_SCAN_KEEP_GID) else gf1 in
                  let gid := if has_flag (o_dirscan_flags opt) c_DIR_SCAN_KEEP_GID then gid0 else o_force_gid opt in
                  match cb with
                  | None => run_call st (CGlob path mode uid gid gf2 extra) EGlobFailed
                  | Some h =>
                    if h_need_extra h && match extra with [] => true | _ => false end then (st, Some ENoExtra)
                    else
                      let m := N.lor mode (h_mode h) in
                      (* ent->flags = is_glob ? 0 : cb->flags (repo fix F05; before it the flags
                         column of the table was dead and a `link` line produced a symlink) *)
                      let fl := h_flags h in
                      match h_cb h with
                      | CbGeneric => add_generic st path m uid gid 0 fl extra
                      | CbDevice => add_device st path m uid gid fl extra
                      | CbFile => add_file st path m uid gid fl extra
                      end
                  end
                | _ => (st, Some EUidGid)
                end
              | _ => (st, Some EUidGid)
              end
            | _ => (st, Some EMode)
            end
        | _ => (st, Some EEnt)
        end
      end
    | _ => (st, Some EEnt)            (* line->count < 5 *)
    end.

  Definition pack_file_flags : line_flags :=
    {| lf_ltrim := true; lf_rtrim := false; lf_skip_empty := true |}.

  Definition pack_file_sep : list N := [ch_sp; ch_tab].

  (* the loop of fstree_from_file_stream over the raw lines *)
  Fixpoint file_loop (opt : options) (st : St) (ls : list (list N * bool)) : St * option perr :=
    match ls with
    | [] => (st, None)
    | (raw, term) :: r =>
      match cook_line pack_file_flags raw term with
      | None => file_loop opt st r
      | Some line =>
        match line with
        | c :: _ =>
          if N.eqb c ch_hash then file_loop opt st r
          else
            match split_line pack_file_sep line with
            | SplitOk args =>
              match handle_line opt st args with
              | (st', None) => file_loop opt st' r
              | res => res
              end
            | SplitEscape => (st, Some EEscape)
            | SplitUnmatched => (st, Some EQuote)
            end
        | [] => file_loop opt st r     (* unreachable: SKIP_EMPTY is set *)
        end
      end
    end.

  Definition fstree_from_file_stream (opt : options) (st : St) (data : list N) : St * option perr :=
    file_loop opt st (split_lines data).

  (* performing a list of calls directly *)
  Fixpoint run_calls (st : St) (cs : list call) : St * option perr :=
    match cs with
    | [] => (st, None)
    | c :: r =>
      match do_call st c with
      | Some st' => run_calls st' r
      | None => (st, Some EAddFailed)
      end
    end.
End Parser.
