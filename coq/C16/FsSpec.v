(* C16: the file system tree a described tree must be rebuilt into.
   Definitions only. *)
From Coq Require Import List NArith Bool.
From SqfsV Require Import C18.CanonModel C18.CanonSpec C16.GenC16 C16.ParseModel C16.DescribeModel
     C16.RoundTripSpec C16.FsModel.
Import ListNotations.
Local Open Scope N_scope.

(* the node an entry must become: same path, owner, device number, symlink
   target / file location, same mode word -- except that the fstree gives every
   symlink the permission bits 0777 (mknode) *)
Definition entry_node (uroot : option (list N)) (p : list (list N))
           (mode uid gid : N) (target : list N) (devno : N) : fnode :=
  stored_node p mode uid gid
    (if is_k mode c_S_IFCHR || is_k mode c_S_IFBLK then devno else 0)
    (if is_k mode c_S_IFREG then
       Some (match uroot with None => join p | Some u => u ++ [slash] ++ join p end)
     else if is_k mode c_S_IFLNK then Some target
     else None).

Fixpoint nodes_of (uroot : option (list N)) (anc : list (list N)) (n : tnode) : list fnode :=
  match n with
  | TNode name mode uid gid target devno children =>
    let chain := anc ++ [name] in
    entry_node uroot chain mode uid gid target devno ::
    (if is_k mode c_S_IFDIR then
       (fix go (cs : list tnode) : list fnode :=
          match cs with [] => [] | c :: r => nodes_of uroot chain c ++ go r end) children
     else [])
  end.

Definition children_nodes (uroot : option (list N)) (chain : list (list N)) :=
  fix go (cs : list tnode) : list fnode :=
    match cs with [] => [] | c :: r => nodes_of uroot chain c ++ go r end.

Definition root_nodes (uroot : option (list N)) (t : tnode) : list fnode :=
  match t with
  | TNode _ mode uid gid _ _ children =>
    {| f_path := []; f_mode := mode; f_uid := uid; f_gid := gid;
       f_devno := 0; f_extra := None; f_implicit := false; f_hard := false |} ::
    children_nodes uroot [] children
  end.

(* sibling names are pairwise different *)
Inductive uniq_names : tnode -> Prop :=
| UniqNode name mode uid gid target devno children :
    NoDup (map (fun c => match c with TNode nm _ _ _ _ _ _ => nm end) children) ->
    Forall uniq_names children ->
    uniq_names (TNode name mode uid gid target devno children).
