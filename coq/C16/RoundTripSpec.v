(* C16: what the round trip describe -> pack file parser must preserve.
   Definitions only (well-formed trees, the calls a tree stands for). *)
From Coq Require Import List NArith Bool.
From SqfsV Require Import C18.CanonModel C18.CanonSpec C16.GenC16 C16.ParseModel C16.DescribeModel.
Import ListNotations.
Local Open Scope N_scope.

(* strings the property quantifies over: every byte except NUL and newline *)
Definition str_ok (s : list N) : Prop := ~ In ch_nul s /\ ~ In ch_nl s.

(* entry names: additionally non-empty, without '/', not '.' and not '..'
   (comp_valid is the test sqfs_tree_node_get_path applies) *)
Definition name_ok (c : list N) : Prop := str_ok c /\ comp_valid c = true.

Definition kind_bits_list : list N :=
  [c_S_IFDIR; c_S_IFREG; c_S_IFLNK; c_S_IFCHR; c_S_IFBLK; c_S_IFIFO; c_S_IFSOCK].

(* a mode word: one of the seven inode types plus 12 permission bits *)
Definition mode_ok (mode : N) : Prop :=
  exists kb p, In kb kind_bits_list /\ p < 4096 /\ mode = kb + p.

Definition u32 (v : N) : Prop := v < 4294967296.

Inductive wf_node : tnode -> Prop :=
| WfNode name mode uid gid target devno children :
    name_ok name -> mode_ok mode -> u32 uid -> u32 gid -> str_ok target -> u32 devno ->
    Forall wf_node children ->
    wf_node (TNode name mode uid gid target devno children).

(* the root: a directory with an empty name *)
Definition wf_root (t : tnode) : Prop :=
  match t with
  | TNode name mode uid gid _ _ children =>
    name = [] /\ (exists p, p < 4096 /\ mode = c_S_IFDIR + p) /\ u32 uid /\ u32 gid /\
    Forall wf_node children
  end.

Definition uroot_ok (u : option (list N)) : Prop :=
  match u with None => True | Some r => str_ok r end.

Definition is_k (mode kb : N) : bool := N.eqb (fmt_bits mode) kb.

(* the call of fstree_add_generic that stands for an entry: same path, same
   mode word (type and permission bits), same owner, same device number, and
   as extra argument the symlink target resp. the location of the file
   contents (the path itself, relative to the pack directory, or
   <unpack root>/<path>) *)
Definition expected_call (uroot : option (list N)) (path : list N)
           (mode uid gid : N) (target : list N) (devno : N) : call :=
  CAdd path mode uid gid
       (if is_k mode c_S_IFCHR || is_k mode c_S_IFBLK then devno else 0)
       0
       (if is_k mode c_S_IFREG then
          Some (match uroot with None => path | Some u => u ++ [slash] ++ path end)
        else if is_k mode c_S_IFLNK then Some target
        else None).

(* entries of a subtree in the order describe_tree visits them (a directory
   before its children; children of anything but a directory are ignored) *)
Fixpoint calls_of (uroot : option (list N)) (anc : list (list N)) (n : tnode) : list call :=
  match n with
  | TNode name mode uid gid target devno children =>
    let chain := anc ++ [name] in
    expected_call uroot (join chain) mode uid gid target devno ::
    (if is_k mode c_S_IFDIR then
       (fix go (cs : list tnode) : list call :=
          match cs with [] => [] | c :: r => calls_of uroot chain c ++ go r end) children
     else [])
  end.

Definition root_calls (uroot : option (list N)) (t : tnode) : list call :=
  match t with
  | TNode _ mode uid gid _ _ children =>
    CAdd [] mode uid gid 0 0 None ::
    (fix go (cs : list tnode) : list call :=
       match cs with [] => [] | c :: r => calls_of uroot [] c ++ go r end) children
  end.
