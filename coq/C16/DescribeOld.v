(* C16: model of bin/rdsquashfs/src/describe.c as it was BEFORE the repair
   (print_name quoting only on space or double quote and escaping only the
   double quote; symlink targets and unpack locations printed verbatim; no
   line for the root).  Used only for the ..._refuted witnesses in
   Properties_C16.v and by the check to explain a violation on an unpatched
   tree.  Definitions only. *)
From Coq Require Import List NArith Bool.
From SqfsV Require Import C18.CanonModel C16.GenC16 C16.ParseModel C16.DescribeModel.
Import ListNotations.
Local Open Scope N_scope.

Fixpoint old_escape (s : list N) : list N :=
  match s with
  | [] => []
  | c :: r => if N.eqb c ch_dq then ch_bs :: ch_dq :: old_escape r else c :: old_escape r
  end.

Definition old_needs_quote (s : list N) : bool :=
  existsb (fun c => N.eqb c ch_sp || N.eqb c ch_dq) s.

Definition old_print_token (dont_escape : bool) (name : list N) : list N :=
  if dont_escape || negb (old_needs_quote name) then name
  else [ch_dq] ++ old_escape name ++ [ch_dq].

Definition old_print_name (root_name : list N) (chain : list (list N)) (dont_escape : bool)
  : list N * bool :=
  match get_path root_name chain with
  | None => ([], false)
  | Some p =>
    match canon_model p with
    | CanonOk name => (old_print_token dont_escape name, true)
    | _ => ([], false)
    end
  end.

Definition old_print_simple (kw : list N) (root_name : list N) (chain : list (list N))
           (mode uid gid : N) (extra : option (list N)) : list N * bool :=
  let head := kw ++ [ch_sp] in
  match old_print_name root_name chain false with
  | (o, false) => (head ++ o, false)
  | (o, true) =>
    (head ++ o ++ print_perm mode uid gid
          ++ match extra with Some e => ch_sp :: e | None => [] end ++ [ch_nl], true)
  end.

Definition old_describe_node (uroot : option (list N)) (root_name : list N) (chain : list (list N))
           (is_root : bool) (name : list N) (mode uid gid : N) (target : list N) (devno : N)
  : list N * bool :=
  let k := fmt_bits mode in
  if N.eqb k c_S_IFSOCK then old_print_simple kw_sock root_name chain mode uid gid None
  else if N.eqb k c_S_IFLNK then
    old_print_simple kw_slink root_name chain mode uid gid (Some (cstr target))
  else if N.eqb k c_S_IFIFO then old_print_simple kw_pipe root_name chain mode uid gid None
  else if N.eqb k c_S_IFREG then
    match uroot with
    | None => old_print_simple kw_file root_name chain mode uid gid None
    | Some ur =>
      let head := kw_file ++ [ch_sp] in
      match old_print_name root_name chain false with
      | (o, false) => (head ++ o, false)
      | (o, true) =>
        let o1 := head ++ o ++ print_perm mode uid gid ++ [ch_sp] ++ cstr ur ++ [slash] in
        match old_print_name root_name chain true with
        | (o2, false) => (o1 ++ o2, false)
        | (o2, true) => (o1 ++ o2 ++ [ch_nl], true)
        end
      end
    end
  else if N.eqb k c_S_IFCHR || N.eqb k c_S_IFBLK then
    let buffer := [if N.eqb k c_S_IFCHR then 99 else 98] ++ [ch_sp]
                  ++ print_dec (major32 devno) ++ [ch_sp] ++ print_dec (minor32 devno) in
    old_print_simple kw_nod root_name chain mode uid gid (Some buffer)
  else if N.eqb k c_S_IFDIR then
    match name with
    | _ :: _ => old_print_simple kw_dir root_name chain mode uid gid None
    | [] => ([], true)
    end
  else ([], true).

Definition old_describe (uroot : option (list N)) (t : tnode) : list N * bool :=
  describe_tree_gen old_describe_node uroot (root_name_of t) [] true t.
