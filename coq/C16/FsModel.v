(* C16: the file system tree behind fstree_add_generic at the level of
   (path -> attributes): model of fstree_init, fstree_get_node_by_path (as
   called with create_implicitly = true, stop_at_parent = true),
   fstree_add_generic and mknode of lib/fstree/src/fstree.c for the calls the
   pack file parser makes (canonical names; ent->flags = 0 or, for the `link`
   keyword, SQFS_DIR_ENTRY_FLAG_HARD_LINK: the node becomes S_IFLNK|0777 with
   FLAG_LINK_IS_HARD and a canonicalised target).  Not modelled: link counts
   (EMLINK after 2^32 children), time stamps, the sorted sibling order (C11),
   the links_unresolved list / fstree_resolve_hard_links (C07).
   The state is the list of nodes in creation order.  Definitions only. *)
From Coq Require Import List NArith Bool.
From SqfsV Require Import C18.CanonModel C18.CanonSpec C16.GenC16 C16.ParseModel.
Import ListNotations.
Local Open Scope N_scope.

Record fnode := {
  f_path : list (list N);        (* components below the root; [] = the root *)
  f_mode : N; f_uid : N; f_gid : N;
  f_devno : N;                   (* data.devno of block / character devices, else 0 *)
  f_extra : option (list N);     (* data.target / data.file.input_file *)
  f_implicit : bool;             (* FLAG_DIR_CREATED_IMPLICITLY *)
  f_hard : bool }.               (* FLAG_LINK_IS_HARD *)

Fixpoint path_eqb (a b : list (list N)) : bool :=
  match a, b with
  | [], [] => true
  | x :: a', y :: b' => list_N_eqb x y && path_eqb a' b'
  | _, _ => false
  end.

Fixpoint fs_find (fs : list fnode) (p : list (list N)) : option fnode :=
  match fs with
  | [] => None
  | n :: r => if path_eqb (f_path n) p then Some n else fs_find r p
  end.

Definition kind_is (mode kb : N) : bool := N.eqb (N.land mode c_S_IFMT) kb.

Section Fs.
  (* fs->defaults *)
  Variables def_mode def_uid def_gid : N.

  Definition implicit_dir (p : list (list N)) : fnode :=
    {| f_path := p; f_mode := N.lor c_S_IFDIR (N.land def_mode 4095); f_uid := def_uid; f_gid := def_gid;
       f_devno := 0; f_extra := None; f_implicit := true; f_hard := false |}.

  (* fstree_init *)
  Definition fs_init : list fnode := [implicit_dir []].

  (* fstree_get_node_by_path(fs, fs->root, name, true, true): walk down from
     [cur], creating missing directories, stop before the last component *)
  Fixpoint get_parent (fs : list fnode) (cur : list (list N)) (comps : list (list N))
    : option (list fnode * list (list N)) :=
    match fs_find fs cur with
    | None => None
    | Some nd =>
      if negb (kind_is (f_mode nd) c_S_IFDIR) then None             (* ENOTDIR *)
      else
        match comps with
        | [] => Some (fs, cur)
        | [_] => Some (fs, cur)                                      (* stop_at_parent *)
        | c :: rest =>
          let nxt := cur ++ [c] in
          let fs' := match fs_find fs nxt with
                     | Some _ => fs
                     | None => fs ++ [implicit_dir nxt]
                     end in
          get_parent fs' nxt rest
        end
    end.

  (* mknode for ent->flags = 0 *)
  Definition stored_node (p : list (list N)) (mode uid gid rdev : N) (extra : option (list N)) : fnode :=
    {| f_path := p;
       f_mode := if kind_is mode c_S_IFLNK then N.lor c_S_IFLNK 511 else mode;
       f_uid := uid; f_gid := gid;
       f_devno := if kind_is mode c_S_IFBLK || kind_is mode c_S_IFCHR then rdev else 0;
       f_extra := if kind_is mode c_S_IFREG || kind_is mode c_S_IFLNK then extra else None;
       f_implicit := false; f_hard := false |}.

  (* mknode for ent->flags & SQFS_DIR_ENTRY_FLAG_HARD_LINK: the target is canonicalised in place
     (failure = EINVAL), the mode is forced to S_IFLNK | 0777, FLAG_LINK_IS_HARD is set *)
  Definition hard_node (p : list (list N)) (uid gid : N) (target : list N) : fnode :=
    {| f_path := p; f_mode := N.lor c_S_IFLNK 511; f_uid := uid; f_gid := gid;
       f_devno := 0; f_extra := Some target; f_implicit := false; f_hard := true |}.

  Fixpoint fs_replace (fs : list fnode) (p : list (list N)) (n : fnode) : list fnode :=
    match fs with
    | [] => []
    | x :: r => if path_eqb (f_path x) p then n :: r else x :: fs_replace r p n
    end.

  (* the part of fstree_add_generic after label out *)
  Definition add_at_node (fs : list fnode) (p : list (list N)) (mode uid gid : N)
             (nd : fnode) : option (list fnode) :=
    match fs_find fs p with
    | Some child =>
      if kind_is (f_mode child) c_S_IFDIR && kind_is mode c_S_IFDIR && f_implicit child then
        Some (fs_replace fs p {| f_path := p; f_mode := mode; f_uid := uid; f_gid := gid;
                                 f_devno := f_devno child; f_extra := f_extra child; f_implicit := false;
                                 f_hard := f_hard child |})
      else None                                                      (* EEXIST *)
    | None => Some (fs ++ [nd])
    end.

  Definition add_at (fs : list fnode) (p : list (list N)) (mode uid gid rdev : N)
             (extra : option (list N)) : option (list fnode) :=
    match fs_find fs p with
    | Some child =>
      if kind_is (f_mode child) c_S_IFDIR && kind_is mode c_S_IFDIR && f_implicit child then
        Some (fs_replace fs p {| f_path := p; f_mode := mode; f_uid := uid; f_gid := gid;
                                 f_devno := f_devno child; f_extra := f_extra child; f_implicit := false;
                                 f_hard := f_hard child |})
      else None                                                      (* EEXIST *)
    | None => Some (fs ++ [stored_node p mode uid gid rdev extra])
    end.

  (* a `link` entry: ent->mode is S_IFLNK | perm (never a directory, so an existing node is EEXIST) *)
  Definition add_hard (fs : list fnode) (p : list (list N)) (mode uid gid : N)
             (extra : option (list N)) : option (list fnode) :=
    match extra with
    | None => None
    | Some e =>
      match canon_model (cstr e) with
      | CanonOk tgt => add_at_node fs p mode uid gid (hard_node p uid gid tgt)
      | _ => None                                                    (* mknode: EINVAL *)
      end
    end.

  Definition fs_add (fs : list fnode) (c : call) : option (list fnode) :=
    match c with
    | CGlob _ _ _ _ _ _ => None                                      (* not modelled *)
    | CAdd name mode uid gid rdev flags extra =>
      let hard := has_flag flags c_SQFS_DIR_ENTRY_FLAG_HARD_LINK in
      if negb (N.eqb flags 0) && negb hard then None                 (* no other entry flag reaches the tree *)
      else if kind_is mode c_S_IFLNK && match extra with None => true | Some _ => false end then None  (* EINVAL *)
      else
        let put fs p := if hard then add_hard fs p mode uid gid extra else add_at fs p mode uid gid rdev extra in
        match name with
        | [] => put fs []
        | _ =>
          let comps := split_slash name in
          match get_parent fs [] comps with
          | None => None
          | Some (fs1, parent) => put fs1 (parent ++ [last comps []])
          end
        end
    end.
End Fs.
