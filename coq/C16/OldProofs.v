(* C16: witnesses that the code before the repair (DescribeOld.v) violates the
   statement.  All by computation on concrete trees. *)
From Coq Require Import List NArith Bool.
From SqfsV Require Import C18.CanonModel C16.GenC16 C16.ParseModel C16.DescribeModel C16.DescribeOld
     C16.RoundTripSpec C16.WfDec.
Import ListNotations.
Local Open Scope N_scope.

Definition log_call (st : list call) (c : call) : option (list call) := Some (st ++ [c]).
Definition parse_log (out : list N) : list call * option perr :=
  fstree_from_file_stream (list call) log_call default_options [] out.

Definition root_of (children : list tnode) : tnode := TNode [] 16877 0 0 [] 0 children.

(* file 'a\ b' *)
Definition w_backslash_space := root_of [TNode [97;92;32;98] 33188 0 0 [] 0 []].
(* file 'a<TAB>b' *)
Definition w_tab := root_of [TNode [97;9;98] 33188 0 0 [] 0 []].
(* slink l -> 't g' *)
Definition w_target_space := root_of [TNode [108] 41471 0 0 [116;32;103] 0 []].
(* slink l -> 'x' (with the quotes); file 'e<CR>'; slink 'a\\ b' -> t; unpack root /r *)
Definition w_silent := root_of
  [ TNode [108] 41471 0 0 [34;120;34] 0 [];
    TNode [101;13] 33188 0 0 [] 0 [];
    TNode [97;92;92;32;98] 41471 0 0 [116] 0 [] ].
Definition w_silent_uroot : option (list N) := Some [47;114].
(* a root directory 0700 owned by 1000:100 *)
Definition w_root := TNode [] 16832 1000 100 [] 0 [].

Lemma old_backslash_space_l :
  exists t, wf_root t /\ snd (old_describe None t) = true /\
            snd (parse_log (fst (old_describe None t))) = Some EEscape.
Proof.
  exists w_backslash_space. split; [apply wf_rootb_sound; vm_compute; reflexivity|].
  vm_compute. split; reflexivity.
Qed.

Lemma old_tab_l :
  exists t, wf_root t /\ snd (old_describe None t) = true /\
            snd (parse_log (fst (old_describe None t))) = Some EMode.
Proof.
  exists w_tab. split; [apply wf_rootb_sound; vm_compute; reflexivity|].
  vm_compute. split; reflexivity.
Qed.

Lemma old_target_space_l :
  exists t, wf_root t /\ snd (old_describe None t) = true /\
            snd (parse_log (fst (old_describe None t))) = Some ETooMany.
Proof.
  exists w_target_space. split; [apply wf_rootb_sound; vm_compute; reflexivity|].
  vm_compute. split; reflexivity.
Qed.

Lemma old_silent_l :
  exists uroot t, wf_root t /\ uroot_ok uroot /\ snd (old_describe uroot t) = true /\
    snd (parse_log (fst (old_describe uroot t))) = None /\
    Forall2 (fun c e => c <> e) (fst (parse_log (fst (old_describe uroot t)))) (tl (root_calls uroot t)).
Proof.
  exists w_silent_uroot, w_silent.
  split; [apply wf_rootb_sound; vm_compute; reflexivity|].
  split; [apply uroot_okb_sound; vm_compute; reflexivity|].
  split; [vm_compute; reflexivity|]. split; [vm_compute; reflexivity|].
  vm_compute. repeat constructor; discriminate.
Qed.

Lemma old_root_attrs_l :
  exists t, wf_root t /\ snd (old_describe None t) = true /\
            parse_log (fst (old_describe None t)) = ([], None) /\ root_calls None t <> [].
Proof.
  exists w_root. split; [apply wf_rootb_sound; vm_compute; reflexivity|].
  split; [vm_compute; reflexivity|]. split; [vm_compute; reflexivity|]. discriminate.
Qed.
