(* lib/util/src/hash_table.c -- executable model, definitions only (extracted).

   The table is the list of its [size] slots; a slot is free (key == NULL), deleted
   (key == ht->deleted_key) or present (hash, key, data).  Keys and data are abstract
   ([K], [V]: in C they are pointers); the equality callback is a boolean function of
   (search key, stored key) -- the order in which the C code passes them.  The struct caches
   size, rehash, the two remainder magics and max_entries of its row of hash_sizes[]; the
   model keeps these fields and fills them from Util/GenUtil.v (generated from the .c file).
   Probing is transcribed with its 32 bit arithmetic (util_fast_urem32 with the cached magic,
   hash_address += double_hash in sqfs_u32).  A loop takes the table itself as fuel (its
   length is the number of slots): [OutOfFuel] = the C loop has made [size] iterations and
   is still running, [Crash] = the C code would access the table out of bounds.

   NOT modelled: allocation failure (calloc of a table returning NULL; hash_table_rehash then
   returns without doing anything and hash_table_insert may return NULL), the assert()s,
   wrap-around of the 32 bit counters entries / deleted_entries.

   hash_table.c of this tree has no remove function although search / insert / rehash handle
   deleted slots; [ht_remove_entry] is upstream's hash_table_remove_entry (key = deleted_key,
   entries--, deleted_entries++), which the tie harness performs on the C struct in exactly
   these three assignments, so that the tombstone paths are exercised on both sides. *)
From Coq Require Import NArith List Bool.
From SqfsV Require Import Util.GenUtil Util.FastRem.
Import ListNotations.
Local Open Scope N_scope.

Inductive res (A : Type) : Type :=
| Ok (a : A)
| Crash
| OutOfFuel.
Arguments Ok {A} a.
Arguments Crash {A}.
Arguments OutOfFuel {A}.

Fixpoint nthN {A : Type} (l : list A) (i : N) : option A :=
  match l with
  | [] => None
  | x :: r => if i =? 0 then Some x else nthN r (N.pred i)
  end.

Fixpoint updN {A : Type} (l : list A) (i : N) (v : A) : list A :=
  match l with
  | [] => []
  | x :: r => if i =? 0 then v :: r else x :: updN r (N.pred i) v
  end.

Definition hrow : Type := (N * N * N * N * N)%type.
Definition row_max (r : hrow) : N := let '(m, _, _, _, _) := r in m.
Definition row_size (r : hrow) : N := let '(_, s, _, _, _) := r in s.
Definition row_rehash (r : hrow) : N := let '(_, _, h, _, _) := r in h.
Definition row_size_magic (r : hrow) : N := let '(_, _, _, sm, _) := r in sm.
Definition row_rehash_magic (r : hrow) : N := let '(_, _, _, _, rm) := r in rm.

Section HT.
Variables K V : Type.
Variable keq : K -> K -> bool.     (* key_equals_function(user, key, entry->key) *)

Inductive slot : Type :=
| SFree
| SDeleted
| SPresent (h : N) (k : K) (d : V).

Record htab : Type := mk_htab {
  ht_table : list slot;
  ht_size_index : nat;
  ht_size : N;
  ht_rehash : N;
  ht_size_magic : N;
  ht_rehash_magic : N;
  ht_max_entries : N;
  ht_entries : N;
  ht_deleted : N
}.

Definition is_free (s : slot) : bool := match s with SFree => true | _ => false end.
Definition is_deleted (s : slot) : bool := match s with SDeleted => true | _ => false end.
Definition is_present (s : slot) : bool := match s with SPresent _ _ _ => true | _ => false end.

(* ht->size_index = i; ht->size = hash_sizes[i].size; ... ht->table = calloc(size) *)
Definition ht_of_row (r : hrow) (i : nat) (entries deleted : N) : htab :=
  mk_htab (repeat SFree (N.to_nat (row_size r))) i (row_size r) (row_rehash r)
          (row_size_magic r) (row_rehash_magic r) (row_max r) entries deleted.

(* hash_table_create / hash_table_init *)
Definition ht_create : option htab :=
  match nth_error util_hash_sizes 0 with
  | Some r => Some (ht_of_row r 0 0 0)
  | None => None
  end.

(* hash_table_clone: the struct and the table are memcpy'd *)
Definition ht_clone (t : htab) : htab := t.

Definition start_addr (t : htab) (hash : N) : N :=
  fast_urem32 hash (ht_size t) (ht_size_magic t).

Definition double_hash (t : htab) (hash : N) : N :=
  (1 + fast_urem32 hash (ht_rehash t) (ht_rehash_magic t)) mod two32.

(* hash_address += double_hash; if (hash_address >= size) hash_address -= size;   (sqfs_u32) *)
Definition next_addr (size addr dh : N) : N :=
  let a := (addr + dh) mod two32 in
  if size <=? a then a - size else a.

Definition matches (hash : N) (key : K) (s : slot) : bool :=
  match s with
  | SPresent h k _ => (h =? hash) && keq key k
  | _ => false
  end.

(* hash_table_search: index of the entry found *)
Fixpoint search_loop (fuel : list slot) (t : htab) (hash : N) (key : K) (start dh addr : N)
  : res (option N) :=
  match fuel with
  | [] => OutOfFuel
  | _ :: fuel' =>
    match nthN (ht_table t) addr with
    | None => Crash
    | Some s =>
      if is_free s then Ok None
      else if matches hash key s then Ok (Some addr)
      else
        let a := next_addr (ht_size t) addr dh in
        if a =? start then Ok None else search_loop fuel' t hash key start dh a
    end
  end.

Definition ht_search (t : htab) (hash : N) (key : K) : res (option N) :=
  let start := start_addr t hash in
  search_loop (ht_table t) t hash key start (double_hash t hash) start.

(* hash_table_insert_rehash: first free slot of the probing sequence, while (true) *)
Fixpoint rehash_loop (fuel : list slot) (size : N) (tbl : list slot) (e : slot) (dh addr : N)
  : res (list slot) :=
  match fuel with
  | [] => OutOfFuel
  | _ :: fuel' =>
    match nthN tbl addr with
    | None => Crash
    | Some s =>
      if is_free s then Ok (updN tbl addr e)
      else rehash_loop fuel' size tbl e dh (next_addr size addr dh)
    end
  end.

Definition insert_rehash (t : htab) (hash : N) (key : K) (data : V) : res htab :=
  match rehash_loop (ht_table t) (ht_size t) (ht_table t) (SPresent hash key data)
                    (double_hash t hash) (start_addr t hash) with
  | Ok tbl => Ok (mk_htab tbl (ht_size_index t) (ht_size t) (ht_rehash t) (ht_size_magic t)
                          (ht_rehash_magic t) (ht_max_entries t) (ht_entries t) (ht_deleted t))
  | Crash => Crash
  | OutOfFuel => OutOfFuel
  end.

(* hash_table_foreach(&old_ht, entry) hash_table_insert_rehash(ht, entry->hash, ...) *)
Fixpoint rehash_all (old : list slot) (t : htab) : res htab :=
  match old with
  | [] => Ok t
  | SPresent h k d :: r =>
    match insert_rehash t h k d with
    | Ok t' => rehash_all r t'
    | e => e
    end
  | _ :: r => rehash_all r t
  end.

Definition set_entries (t : htab) (entries : N) : htab :=
  mk_htab (ht_table t) (ht_size_index t) (ht_size t) (ht_rehash t) (ht_size_magic t)
          (ht_rehash_magic t) (ht_max_entries t) entries (ht_deleted t).

(* hash_table_rehash(ht, new_size_index) *)
Definition ht_rehash_to (t : htab) (new_size_index : nat) : res htab :=
  match nth_error util_hash_sizes new_size_index with
  | None => Ok t                       (* new_size_index >= ARRAY_SIZE(hash_sizes): return *)
  | Some r =>
    match rehash_all (ht_table t) (ht_of_row r new_size_index 0 0) with
    | Ok t' => Ok (set_entries t' (ht_entries t))
    | e => e
    end
  end.

(* the probing loop of hash_table_insert: (matching entry, first available entry) *)
Fixpoint insert_loop (fuel : list slot) (t : htab) (hash : N) (key : K) (start dh addr : N)
         (avail : option N) : res (option N * option N) :=
  match fuel with
  | [] => OutOfFuel
  | _ :: fuel' =>
    match nthN (ht_table t) addr with
    | None => Crash
    | Some s =>
      let avail' := if is_present s then avail
                    else match avail with None => Some addr | Some _ => avail end in
      if is_free s then Ok (None, avail')
      else if matches hash key s then Ok (Some addr, avail')
      else
        let a := next_addr (ht_size t) addr dh in
        if a =? start then Ok (None, avail') else insert_loop fuel' t hash key start dh a avail'
    end
  end.

Definition set_slot (t : htab) (a : N) (s : slot) (entries deleted : N) : htab :=
  mk_htab (updN (ht_table t) a s) (ht_size_index t) (ht_size t) (ht_rehash t) (ht_size_magic t)
          (ht_rehash_magic t) (ht_max_entries t) entries deleted.

(* hash_table_insert: new state and the entry returned (None = NULL) *)
Definition ht_insert (t : htab) (hash : N) (key : K) (data : V) : res (htab * option N) :=
  let grown :=
    if ht_max_entries t <=? ht_entries t then ht_rehash_to t (S (ht_size_index t))
    else if ht_max_entries t <=? (ht_deleted t + ht_entries t) mod two32
         then ht_rehash_to t (ht_size_index t)
         else Ok t in
  match grown with
  | Crash => Crash
  | OutOfFuel => OutOfFuel
  | Ok t1 =>
    let start := start_addr t1 hash in
    match insert_loop (ht_table t1) t1 hash key start (double_hash t1 hash) start None with
    | Crash => Crash
    | OutOfFuel => OutOfFuel
    | Ok (Some a, _) =>
      (* entry->key = key; entry->data = data; return entry; *)
      Ok (set_slot t1 a (SPresent hash key data) (ht_entries t1) (ht_deleted t1), Some a)
    | Ok (None, Some a) =>
      let del := match nthN (ht_table t1) a with
                 | Some SDeleted => ht_deleted t1 - 1
                 | _ => ht_deleted t1
                 end in
      Ok (set_slot t1 a (SPresent hash key data) (ht_entries t1 + 1) del, Some a)
    | Ok (None, None) => Ok (t1, None)
    end
  end.

(* upstream's hash_table_remove_entry (see the header comment) *)
Definition ht_remove_entry (t : htab) (a : N) : htab :=
  match nthN (ht_table t) a with
  | Some (SPresent _ _ _) => set_slot t a SDeleted (ht_entries t - 1) (ht_deleted t + 1)
  | _ => t
  end.

(* hash_table_next_entry / hash_table_foreach: the present entries in table order *)
Fixpoint present_from (l : list slot) (i : N) : list (N * (N * K * V)) :=
  match l with
  | [] => []
  | SPresent h k d :: r => (i, (h, k, d)) :: present_from r (i + 1)
  | _ :: r => present_from r (i + 1)
  end.

Definition ht_foreach (t : htab) : list (N * (N * K * V)) := present_from (ht_table t) 0.

(* the live entries: the abstract content of the table *)
Definition live (t : htab) : list (N * K * V) := map snd (ht_foreach t).

Definition ht_entry (t : htab) (a : N) : option (N * K * V) :=
  match nthN (ht_table t) a with
  | Some (SPresent h k d) => Some (h, k, d)
  | _ => None
  end.

End HT.

Arguments SFree {K V}.
Arguments SDeleted {K V}.
Arguments SPresent {K V} h k d.
