(* lib/util/src/array.c (+ array_get / array_set of include/util/array.h) -- executable model,
   definitions only (extracted).

   array_t = { size (bytes per element), count (capacity in elements), used, data }.  The model
   keeps the three numbers and the list of the [used] elements (an element is whatever the
   caller stores: bytes, or a pointer = an id); storage beyond [used] is uninitialised in C and
   absent in the model.  Results are (C return value, new state).  The first capacity (128) and
   the growth factor (2) are literals inside the C functions: Util/GenUtil.v obtains them by
   running array_append / array_set_capacity of the working tree.

   NOT modelled: malloc / realloc returning NULL. *)
From Coq Require Import NArith ZArith List Bool.
From SqfsV Require Import Gen.Constants Util.GenUtil Util.HashModel.
Import ListNotations.
Local Open Scope N_scope.

Section ARR.
Variable E : Type.

Record arr : Type := mk_arr {
  a_size : N;
  a_count : N;
  a_used : N;
  a_data : list E
}.

(* SZ_MUL_OV / SZ_ADD_OV: the exact result does not fit size_t *)
Definition sz_ov (x : N) : bool := util_size_max <? x.

Definition arr_zero : arr := mk_arr 0 0 0 [].

Definition array_init (size capacity : N) : Z * arr :=
  if (0 <? capacity) && sz_ov (size * capacity) then (c_SQFS_ERROR_OVERFLOW, arr_zero)
  else (0%Z, mk_arr size capacity 0 []).

(* array_init(array, src->size, src->used); memcpy(..., src->used * src->size); used = src->used *)
Definition array_init_copy (src : arr) : Z * arr :=
  match array_init (a_size src) (a_used src) with
  | (0%Z, a) => (0%Z, mk_arr (a_size a) (a_count a) (a_used src)
                             (firstn (N.to_nat (a_used src)) (a_data src)))
  | (e, a) => (e, a)
  end.

Definition array_append (a : arr) (x : E) : Z * arr :=
  let grown :=
    if a_used a =? a_count a then
      let new_count := if a_count a =? 0 then util_array_first_count
                       else a_count a * util_array_growth in
      if sz_ov new_count then None
      else if sz_ov (new_count * a_size a) then None
      else Some new_count
    else Some (a_count a) in
  match grown with
  | None => (c_SQFS_ERROR_ALLOC, a)
  | Some c => (0%Z, mk_arr (a_size a) c (a_used a + 1) (a_data a ++ [x]))
  end.

(* while (new_count < capacity) new_count *= 2;  -- at most one doubling per bit of size_t *)
Fixpoint grow_to (fuel : nat) (new_count capacity : N) : res (option N) :=
  if capacity <=? new_count then Ok (Some new_count)
  else match fuel with
       | O => OutOfFuel
       | S f =>
         let n2 := new_count * util_array_setcap_growth in
         if sz_ov n2 then Ok None else grow_to f n2 capacity
       end.

Definition array_set_capacity (a : arr) (capacity : N) : res (Z * arr) :=
  if capacity <=? a_count a then Ok (0%Z, a)
  else
    let first := if a_count a =? 0 then Some util_array_setcap_first_count
                 else if sz_ov (a_count a * util_array_setcap_growth) then None
                      else Some (a_count a * util_array_setcap_growth) in
    match first with
    | None => Ok (c_SQFS_ERROR_ALLOC, a)
    | Some c0 =>
      match grow_to (N.to_nat (8 * util_sizeof_size_t)) c0 capacity with
      | OutOfFuel => OutOfFuel
      | Crash => Crash
      | Ok None => Ok (c_SQFS_ERROR_ALLOC, a)
      | Ok (Some c) =>
        if sz_ov (c * a_size a) then Ok (c_SQFS_ERROR_ALLOC, a)
        else Ok (0%Z, mk_arr (a_size a) c (a_used a) (a_data a))
      end
    end.

(* array_get: NULL if index >= used *)
Definition array_get (a : arr) (i : N) : option E :=
  if a_used a <=? i then None else nthN (a_data a) i.

Definition array_set (a : arr) (i : N) (x : E) : Z * arr :=
  if a_used a <=? i then (c_SQFS_ERROR_OUT_OF_BOUNDS, a)
  else (0%Z, mk_arr (a_size a) (a_count a) (a_used a) (updN (a_data a) i x)).

End ARR.

Arguments a_size {E} a.
Arguments a_count {E} a.
Arguments a_used {E} a.
Arguments a_data {E} a.
