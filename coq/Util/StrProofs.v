(* str_table.c: the table is a bijection between strings and indices with a reference count per
   index; lookups by index and reference counting never change that bijection. *)
From Coq Require Import NArith ZArith List Bool Lia Permutation.
From SqfsV Require Import Gen.Constants Util.GenUtil Util.FastRem Util.HashModel Util.HashBase Util.HashRows
     Util.HashInv Util.HashContracts Util.ArrayModel Util.ArrayProofs Util.StrModel.
Import ListNotations.
Local Open Scope N_scope.

Notation sht := (htab skey N).
Notation slivel := (livel skey N).

Lemma list_eqb_eq : forall a b, list_eqb a b = true <-> a = b.
Proof.
  induction a as [|x a IH]; destruct b as [|y b]; cbn; split; intro H; try discriminate; auto.
  - apply andb_true_iff in H. destruct H as [H1 H2]. apply N.eqb_eq in H1. apply IH in H2. congruence.
  - inversion H; subst. rewrite N.eqb_refl. cbn. apply IH. reflexivity.
Qed.

Lemma strhash_step_range : forall a b, (0 <= strhash_step a b < 4294967296)%Z.
Proof. intros. unfold strhash_step. apply Z.mod_pos_bound. lia. Qed.

Lemma strhash_lt : forall s, strhash s < two32.
Proof.
  intro s. unfold strhash.
  assert (H : forall l a, (0 <= a < 4294967296)%Z -> (0 <= fold_left strhash_step l a < 4294967296)%Z).
  { induction l as [|x l IH]; intros a Ha; cbn; [exact Ha|]. apply IH. apply strhash_step_range. }
  specialize (H s 0%Z ltac:(lia)). rewrite two32_val. lia.
Qed.

(* ---- the bucket heap ---- *)
Lemma bh_get_alloc : forall h b id,
  bh_get (fst (bh_alloc h b)) id = if bh_next h =? id then Some b else bh_get h id.
Proof. intros. unfold bh_alloc, bh_get. cbn. reflexivity. Qed.

Lemma bh_get_set : forall h i b id,
  bh_get (bh_set h i b) id = if i =? id then Some b else bh_get h id.
Proof. intros. unfold bh_set, bh_get. cbn. reflexivity. Qed.

Definition bucket_of (h : bheap) (bid : N) : list N * N :=
  match bh_get h bid with
  | Some b => (b_string b, b_refcount b)
  | None => ([], 0)
  end.

(* the abstract value: (string, reference count) by index *)
Definition str_abs (h : bheap) (t : str_table) : list (list N * N) :=
  map (bucket_of h) (a_data (st_arr t)).

Definition strings (h : bheap) (t : str_table) : list (list N) := map fst (str_abs h t).

Record str_inv (h : bheap) (t : str_table) : Prop := mk_str_inv {
  si_wf : wf skey N (st_ht t);
  si_arr : arr_inv N (st_arr t);
  si_used : a_used (st_arr t) = st_next_index t;
  si_entries : ht_entries skey N (st_ht t) = st_next_index t;
  si_idx : forall i bid, nthN (a_data (st_arr t)) i = Some bid ->
             exists b, bh_get h bid = Some b /\ b_index b = i /\ bid < bh_next h /\
                       In (strhash (b_string b), (Some bid, b_string b), bid) (slivel (ht_table skey N (st_ht t)));
  si_ent : forall hh o s bid, In (hh, (o, s), bid) (slivel (ht_table skey N (st_ht t))) ->
             exists b, bh_get h bid = Some b /\ b_string b = s /\ o = Some bid /\ hh = strhash s /\
                       nthN (a_data (st_arr t)) (b_index b) = Some bid;
  si_nodup : NoDup (strings h t)
}.

Lemma nthN_nth_error : forall (A : Type) (l : list A) i, nthN l i = nth_error l (N.to_nat i).
Proof.
  induction l as [|x l IH]; intro i; cbn [nthN].
  - destruct (N.to_nat i); reflexivity.
  - destruct (i =? 0) eqn:E0.
    + apply N.eqb_eq in E0. subst. reflexivity.
    + apply N.eqb_neq in E0. rewrite IH. replace (N.to_nat i) with (S (N.to_nat (N.pred i))) by lia. reflexivity.
Qed.

Lemma nthN_map : forall (A B : Type) (f : A -> B) l i, nthN (map f l) i = option_map f (nthN l i).
Proof.
  induction l as [|x l IH]; intro i; cbn [map nthN]; [reflexivity|].
  destruct (i =? 0); [reflexivity|]. apply IH.
Qed.

(* ---- str_table_init ---- *)
Theorem str_table_init_inv :
  exists t, str_table_init = Some (0%Z, t) /\ st_next_index t = 0 /\
            forall h, str_inv h t /\ str_abs h t = [].
Proof.
  unfold str_table_init.
  destruct (ht_create_wf skey N) as (ht & Eh & Wh & Lh). rewrite Eh.
  pose proof (array_init_spec N util_sizeof_ptr 0) as Ha.
  destruct (array_init N util_sizeof_ptr 0) as [z a] eqn:Ea.
  assert (z = 0%Z) by (unfold array_init in Ea; cbn in Ea; inversion Ea; reflexivity). subst z.
  destruct Ha as (Ai & Ad & As & Ac & Au).
  eexists. split; [reflexivity|]. split; [reflexivity|]. intro h.
  assert (Hent : ht_entries skey N ht = 0).
  { rewrite (wf_entries skey N ht Wh), Lh. reflexivity. }
  split.
  - constructor; cbn; auto.
    + intros i bid H. rewrite Ad in H. destruct i; discriminate.
    + intros hh o s bid H. rewrite Lh in H. contradiction.
    + unfold strings, str_abs. cbn. rewrite Ad. constructor.
  - unfold str_abs. cbn. rewrite Ad. reflexivity.
Qed.

(* ---- lookups by index ---- *)
Lemma bucket_by_index_spec : forall h t i,
  str_inv h t ->
  (st_next_index t <= i -> bucket_by_index h t i = SOk None) /\
  (i < st_next_index t ->
   exists bid b, bucket_by_index h t i = SOk (Some (bid, b)) /\
                 nthN (a_data (st_arr t)) i = Some bid /\ bh_get h bid = Some b /\ b_index b = i).
Proof.
  intros h t i I. unfold bucket_by_index, array_get. rewrite (si_used h t I).
  destruct (si_arr h t I) as [Hl Hu]. rewrite (si_used h t I) in Hl.
  split; intro H.
  - replace (st_next_index t <=? i) with true by (symmetry; apply N.leb_le; exact H). reflexivity.
  - replace (st_next_index t <=? i) with false by (symmetry; apply N.leb_gt; exact H).
    destruct (nthN_lt _ (a_data (st_arr t)) i) as [bid Hb]; [rewrite Hl; exact H|].
    rewrite Hb. destruct (si_idx h t I i bid Hb) as (b & Hg & Hi & _). rewrite Hg. exists bid, b. auto.
Qed.

Theorem str_table_get_string_spec : forall h t i,
  str_inv h t ->
  str_table_get_string h t i = SOk (option_map fst (nth_error (str_abs h t) (N.to_nat i))).
Proof.
  intros h t i I. unfold str_table_get_string.
  destruct (bucket_by_index_spec h t i I) as [H1 H2].
  destruct (N.le_gt_cases (st_next_index t) i) as [Hge|Hlt].
  - rewrite (H1 Hge). f_equal.
    assert (Hn : nth_error (str_abs h t) (N.to_nat i) = None).
    { apply nth_error_None. unfold str_abs. rewrite map_length.
      destruct (si_arr h t I) as [Hl _]. rewrite (si_used h t I) in Hl. unfold lenN in Hl. lia. }
    rewrite Hn. reflexivity.
  - destruct (H2 Hlt) as (bid & b & -> & Hn & Hg & _). f_equal.
    rewrite <- nthN_nth_error. unfold str_abs. rewrite nthN_map, Hn. cbn. unfold bucket_of. rewrite Hg. reflexivity.
Qed.

Theorem str_table_get_ref_count_spec : forall h t i,
  str_inv h t ->
  str_table_get_ref_count h t i =
    SOk (match nth_error (str_abs h t) (N.to_nat i) with Some (_, rc) => rc | None => 0 end).
Proof.
  intros h t i I. unfold str_table_get_ref_count.
  destruct (bucket_by_index_spec h t i I) as [H1 H2].
  destruct (N.le_gt_cases (st_next_index t) i) as [Hge|Hlt].
  - rewrite (H1 Hge). f_equal.
    assert (Hn : nth_error (str_abs h t) (N.to_nat i) = None).
    { apply nth_error_None. unfold str_abs. rewrite map_length.
      destruct (si_arr h t I) as [Hl _]. rewrite (si_used h t I) in Hl. unfold lenN in Hl. lia. }
    rewrite Hn. reflexivity.
  - destruct (H2 Hlt) as (bid & b & -> & Hn & Hg & _). f_equal.
    rewrite <- nthN_nth_error. unfold str_abs. rewrite nthN_map, Hn. cbn. unfold bucket_of. rewrite Hg. reflexivity.
Qed.

(* ---- reference counting: only the count of that index changes ---- *)
Definition set_rc (f : N -> N) (l : list (list N * N)) (i : N) : list (list N * N) :=
  match nthN l i with
  | Some (s, rc) => updN l i (s, f rc)
  | None => l
  end.

Lemma updN_map_other : forall (A B : Type) (f g : A -> B) (l : list A) i x,
  nthN l i = Some x -> (forall j y, j <> i -> nthN l j = Some y -> g y = f y) ->
  map g l = updN (map f l) i (g x).
Proof.
  induction l as [|z l IH]; intros i x Hn Ho; cbn [nthN] in Hn; [discriminate|].
  cbn [map updN]. destruct (i =? 0) eqn:E0.
  - apply N.eqb_eq in E0. inversion Hn; subst. f_equal.
    apply map_ext_in. intros y Hy. apply In_nth_error in Hy. destruct Hy as [n Hy].
    apply (Ho (N.of_nat (S n))); [lia|]. cbn [nthN].
    replace (N.of_nat (S n) =? 0) with false by (symmetry; apply N.eqb_neq; lia).
    rewrite nthN_nth_error. replace (N.to_nat (N.pred (N.of_nat (S n)))) with n by lia. exact Hy.
  - apply N.eqb_neq in E0. f_equal.
    + apply (Ho 0); [lia|reflexivity].
    + apply IH; auto. intros j y Hj Hy. apply (Ho (j + 1)); [lia|]. cbn [nthN].
      replace (j + 1 =? 0) with false by (symmetry; apply N.eqb_neq; lia).
      replace (N.pred (j + 1)) with j by lia. exact Hy.
Qed.

Lemma ref_update_inv : forall h t i bid b rc',
  str_inv h t -> nthN (a_data (st_arr t)) i = Some bid -> bh_get h bid = Some b ->
  let h' := bh_set h bid (mk_bucket (b_index b) rc' (b_string b)) in
  str_inv h' t /\
  str_abs h' t = updN (str_abs h t) i (b_string b, rc') /\
  bh_next h' = bh_next h /\
  (forall id, id <> bid -> bh_get h' id = bh_get h id).
Proof.
  intros h t i bid b rc' I Hn Hg h'.
  assert (Hget : forall id, bh_get h' id = if bid =? id then Some (mk_bucket (b_index b) rc' (b_string b)) else bh_get h id).
  { intro id. apply bh_get_set. }
  assert (Hidx : forall j bid', nthN (a_data (st_arr t)) j = Some bid' -> bid' = bid -> j = i).
  { intros j bid' Hj ->. destruct (si_idx h t I j bid Hj) as (b1 & G1 & X1 & _).
    destruct (si_idx h t I i bid Hn) as (b2 & G2 & X2 & _). congruence. }
  assert (Habs : str_abs h' t = updN (str_abs h t) i (b_string b, rc')).
  { unfold str_abs.
    replace (b_string b, rc') with (bucket_of h' bid) by (unfold bucket_of; rewrite Hget, N.eqb_refl; reflexivity).
    apply updN_map_other; [exact Hn|].
    intros j y Hj Hy. unfold bucket_of. rewrite Hget.
    destruct (bid =? y) eqn:E; [|reflexivity]. apply N.eqb_eq in E. subst y. exfalso. apply Hj. eapply Hidx; eauto. }
  split; [|split; [exact Habs|split; [reflexivity|]]].
  - constructor; try apply I.
    + intros j bid' Hj. destruct (si_idx h t I j bid' Hj) as (b1 & G1 & X1 & L1 & In1).
      rewrite Hget. destruct (bid =? bid') eqn:E.
      * apply N.eqb_eq in E. subst bid'. rewrite Hg in G1. inversion G1; subst b1.
        eexists. split; [reflexivity|]. cbn. auto.
      * exists b1. auto.
    + intros hh o s bid' Hin. destruct (si_ent h t I hh o s bid' Hin) as (b1 & G1 & S1 & O1 & H1 & N1).
      rewrite Hget. destruct (bid =? bid') eqn:E.
      * apply N.eqb_eq in E. subst bid'. rewrite Hg in G1. inversion G1; subst b1.
        eexists. split; [reflexivity|]. cbn. auto.
      * exists b1. auto.
    + unfold strings. rewrite Habs.
      assert (Hs : map fst (updN (str_abs h t) i (b_string b, rc')) = map fst (str_abs h t)).
      { assert (Hold : nthN (str_abs h t) i = Some (b_string b, b_refcount b)).
        { unfold str_abs. rewrite nthN_map, Hn. cbn. unfold bucket_of. rewrite Hg. reflexivity. }
        destruct (nthN_split _ _ _ _ Hold) as (pre & post & E & _ & Hu). rewrite Hu, E, !map_app. reflexivity. }
      rewrite Hs. apply (si_nodup h t I).
  - intros id Hne. rewrite Hget. destruct (bid =? id) eqn:E; [|reflexivity].
    apply N.eqb_eq in E. congruence.
Qed.

Theorem str_table_add_ref_spec : forall h t i,
  str_inv h t ->
  exists h', str_table_add_ref h t i = SOk h' /\ str_inv h' t /\
    str_abs h' t = set_rc (fun rc => if rc <? util_size_max then rc + 1 else rc) (str_abs h t) i /\
    strings h' t = strings h t /\ bh_next h' = bh_next h.
Proof.
  intros h t i I. unfold str_table_add_ref.
  destruct (bucket_by_index_spec h t i I) as [H1 H2].
  destruct (N.le_gt_cases (st_next_index t) i) as [Hge|Hlt].
  - rewrite (H1 Hge). exists h. split; [reflexivity|]. split; [exact I|]. split; [|auto].
    unfold set_rc. replace (nthN (str_abs h t) i) with (@None (list N * N)); [reflexivity|].
    symmetry. unfold str_abs. rewrite nthN_map.
    destruct (nthN (a_data (st_arr t)) i) eqn:E; [|reflexivity].
    apply nthN_some_lt in E. destruct (si_arr h t I) as [Hl _]. rewrite (si_used h t I) in Hl. lia.
  - destruct (H2 Hlt) as (bid & b & -> & Hn & Hg & Hi).
    assert (Hold : nthN (str_abs h t) i = Some (b_string b, b_refcount b)).
    { unfold str_abs. rewrite nthN_map, Hn. cbn. unfold bucket_of. rewrite Hg. reflexivity. }
    destruct (b_refcount b <? util_size_max) eqn:E.
    + destruct (ref_update_inv h t i bid b (b_refcount b + 1) I Hn Hg) as (I' & A' & N' & _).
      eexists. split; [reflexivity|]. split; [exact I'|]. split; [|split; [|exact N']].
      * rewrite A'. unfold set_rc. rewrite Hold, E. reflexivity.
      * unfold strings. rewrite A'.
        destruct (nthN_split _ _ _ _ Hold) as (pre & post & E2 & _ & Hu). rewrite Hu, E2, !map_app. reflexivity.
    + exists h. split; [reflexivity|]. split; [exact I|]. split; [|auto].
      unfold set_rc. rewrite Hold, E.
      destruct (nthN_split _ _ _ _ Hold) as (pre & post & E2 & _ & Hu). rewrite Hu. exact E2.
Qed.

Theorem str_table_del_ref_spec : forall h t i,
  str_inv h t ->
  exists h', str_table_del_ref h t i = SOk h' /\ str_inv h' t /\
    str_abs h' t = set_rc (fun rc => if 0 <? rc then rc - 1 else rc) (str_abs h t) i /\
    strings h' t = strings h t /\ bh_next h' = bh_next h.
Proof.
  intros h t i I. unfold str_table_del_ref.
  destruct (bucket_by_index_spec h t i I) as [H1 H2].
  destruct (N.le_gt_cases (st_next_index t) i) as [Hge|Hlt].
  - rewrite (H1 Hge). exists h. split; [reflexivity|]. split; [exact I|]. split; [|auto].
    unfold set_rc. replace (nthN (str_abs h t) i) with (@None (list N * N)); [reflexivity|].
    symmetry. unfold str_abs. rewrite nthN_map.
    destruct (nthN (a_data (st_arr t)) i) eqn:E; [|reflexivity].
    apply nthN_some_lt in E. destruct (si_arr h t I) as [Hl _]. rewrite (si_used h t I) in Hl. lia.
  - destruct (H2 Hlt) as (bid & b & -> & Hn & Hg & Hi).
    assert (Hold : nthN (str_abs h t) i = Some (b_string b, b_refcount b)).
    { unfold str_abs. rewrite nthN_map, Hn. cbn. unfold bucket_of. rewrite Hg. reflexivity. }
    destruct (0 <? b_refcount b) eqn:E.
    + destruct (ref_update_inv h t i bid b (b_refcount b - 1) I Hn Hg) as (I' & A' & N' & _).
      eexists. split; [reflexivity|]. split; [exact I'|]. split; [|split; [|exact N']].
      * rewrite A'. unfold set_rc. rewrite Hold, E. reflexivity.
      * unfold strings. rewrite A'.
        destruct (nthN_split _ _ _ _ Hold) as (pre & post & E2 & _ & Hu). rewrite Hu, E2, !map_app. reflexivity.
    + exists h. split; [reflexivity|]. split; [exact I|]. split; [|auto].
      unfold set_rc. rewrite Hold, E.
      destruct (nthN_split _ _ _ _ Hold) as (pre & post & E2 & _ & Hu). rewrite Hu. exact E2.
Qed.

(* reference counting touches one bucket of the table itself *)
Lemma str_table_ref_frame : forall h t i h',
  str_inv h t -> (str_table_add_ref h t i = SOk h' \/ str_table_del_ref h t i = SOk h') ->
  bh_next h' = bh_next h /\
  forall id, (forall j, nthN (a_data (st_arr t)) j <> Some id) -> bh_get h' id = bh_get h id.
Proof.
  intros h t i h' I H.
  destruct (bucket_by_index_spec h t i I) as [H1 H2].
  destruct (N.le_gt_cases (st_next_index t) i) as [Hge|Hlt].
  - unfold str_table_add_ref, str_table_del_ref in H. rewrite (H1 Hge) in H.
    destruct H as [H|H]; inversion H; subst; auto.
  - destruct (H2 Hlt) as (bid & b & Eb & Hn & Hg & _).
    unfold str_table_add_ref, str_table_del_ref in H. rewrite Eb in H.
    assert (Hcase : h' = h \/ exists rc', h' = bh_set h bid (mk_bucket (b_index b) rc' (b_string b))).
    { destruct H as [H|H].
      - destruct (b_refcount b <? util_size_max); inversion H; eauto.
      - destruct (0 <? b_refcount b); inversion H; eauto. }
    destruct Hcase as [->|(rc' & ->)]; [auto|].
    split; [reflexivity|]. intros id Hid. rewrite bh_get_set.
    destruct (bid =? id) eqn:E; [|reflexivity]. apply N.eqb_eq in E. subst id. exfalso. apply (Hid i). exact Hn.
Qed.
