(* array.c: array_t refines the list of its used elements; array_init_copy yields an equal,
   separately stored array; the doubling loop of array_set_capacity terminates. *)
From Coq Require Import NArith ZArith List Bool Lia.
From SqfsV Require Import Gen.Constants Util.GenUtil Util.HashModel Util.HashBase Util.ArrayModel.
Import ListNotations.
Local Open Scope N_scope.

Section ARR.
Variable E : Type.
Notation arr := (arr E).

Lemma alloc_ne0 : c_SQFS_ERROR_ALLOC <> 0%Z.
Proof. discriminate. Qed.

Definition arr_inv (a : arr) : Prop :=
  lenN (a_data a) = a_used a /\ a_used a <= a_count a.

Lemma array_init_spec : forall size cap,
  match array_init E size cap with
  | (0%Z, a) => arr_inv a /\ a_data a = [] /\ a_size a = size /\ a_count a = cap /\ a_used a = 0
  | (e, _) => e = c_SQFS_ERROR_OVERFLOW /\ util_size_max < size * cap
  end.
Proof.
  intros size cap. unfold array_init. destruct ((0 <? cap) && sz_ov (size * cap)) eqn:Eo.
  - apply andb_true_iff in Eo. destruct Eo as [_ Eo]. unfold sz_ov in Eo. apply N.ltb_lt in Eo.
    cbn. split; [reflexivity|exact Eo].
  - cbn. repeat split; auto. unfold arr_inv. cbn. lia.
Qed.

Theorem array_append_spec : forall a x,
  arr_inv a ->
  match array_append E a x with
  | (0%Z, a') => arr_inv a' /\ a_data a' = a_data a ++ [x] /\ a_used a' = a_used a + 1 /\
                 a_size a' = a_size a /\ a_count a <= a_count a'
  | (e, a') => e = c_SQFS_ERROR_ALLOC /\ a' = a
  end.
Proof.
  intros a x [Hl Hu]. unfold array_append.
  destruct (a_used a =? a_count a) eqn:Ef.
  - apply N.eqb_eq in Ef.
    set (nc := if a_count a =? 0 then util_array_first_count else a_count a * util_array_growth).
    assert (Hnc : a_count a < nc).
    { unfold nc. destruct (a_count a =? 0) eqn:E0.
      - apply N.eqb_eq in E0. rewrite E0. reflexivity.
      - apply N.eqb_neq in E0. change util_array_growth with 2. lia. }
    destruct (sz_ov nc); [cbn; auto|]. destruct (sz_ov (nc * a_size a)); [cbn; auto|].
    cbn. unfold arr_inv. cbn. rewrite lenN_app, Hl. unfold lenN at 1. cbn. repeat split; lia.
  - apply N.eqb_neq in Ef. cbn. unfold arr_inv. cbn. rewrite lenN_app, Hl. unfold lenN at 1. cbn.
    repeat split; lia.
Qed.

Lemma firstn_lenN : forall (l : list E), firstn (N.to_nat (lenN l)) l = l.
Proof. intro l. unfold lenN. rewrite Nat2N.id. apply firstn_all. Qed.

(* array_init_copy: same element size, same elements, capacity = used; nothing of the source
   is referenced by the result (the model's arrays are values: the C code memcpy's the bytes) *)
Theorem array_init_copy_equiv : forall src,
  arr_inv src ->
  match array_init_copy E src with
  | (0%Z, a) => arr_inv a /\ a_data a = a_data src /\ a_used a = a_used src /\
                a_size a = a_size src /\ a_count a = a_used src
  | (e, _) => e = c_SQFS_ERROR_OVERFLOW /\ util_size_max < a_size src * a_used src
  end.
Proof.
  intros src [Hl Hu]. unfold array_init_copy.
  pose proof (array_init_spec (a_size src) (a_used src)) as Hi.
  destruct (array_init E (a_size src) (a_used src)) as [z a]. destruct z; [|exact Hi|exact Hi].
  destruct Hi as (_ & _ & Hs & Hc & _). cbn. rewrite <- Hl, firstn_lenN.
  unfold arr_inv. cbn. repeat split; auto; lia.
Qed.

Theorem array_get_spec : forall a i,
  arr_inv a -> array_get E a i = if a_used a <=? i then None else nth_error (a_data a) (N.to_nat i).
Proof.
  intros a i [Hl Hu]. unfold array_get. destruct (a_used a <=? i); [reflexivity|].
  clear. revert i. induction (a_data a) as [|x l IH]; intro i; cbn [nthN].
  - destruct (N.to_nat i); reflexivity.
  - destruct (i =? 0) eqn:E0.
    + apply N.eqb_eq in E0. subst. reflexivity.
    + apply N.eqb_neq in E0. rewrite IH. replace (N.to_nat i) with (S (N.to_nat (N.pred i))) by lia. reflexivity.
Qed.

Theorem array_set_spec : forall a i x,
  arr_inv a ->
  match array_set E a i x with
  | (0%Z, a') => i < a_used a /\ arr_inv a' /\ a_data a' = updN (a_data a) i x /\
                 a_used a' = a_used a /\ a_count a' = a_count a /\ a_size a' = a_size a
  | (e, a') => e = c_SQFS_ERROR_OUT_OF_BOUNDS /\ a' = a /\ a_used a <= i
  end.
Proof.
  intros a i x [Hl Hu]. unfold array_set. destruct (a_used a <=? i) eqn:Eb.
  - apply N.leb_le in Eb. cbn. auto.
  - apply N.leb_gt in Eb. cbn. unfold arr_inv. cbn. rewrite updN_length. repeat split; auto.
Qed.

(* the doubling loop of array_set_capacity never runs out of its 64 iterations *)
Lemma grow_to_terminates : forall fuel c cap,
  0 < c -> cap <= util_size_max -> util_size_max < c * 2 ^ N.of_nat fuel ->
  grow_to fuel c cap <> OutOfFuel.
Proof.
  induction fuel as [|f IH]; intros c cap Hc Hcap Hbig; cbn [grow_to].
  - destruct (cap <=? c) eqn:Hle; [discriminate|]. apply N.leb_gt in Hle. cbn in Hbig. lia.
  - destruct (cap <=? c); [discriminate|].
    destruct (sz_ov (c * util_array_setcap_growth)); [discriminate|].
    apply IH; auto.
    + change util_array_setcap_growth with 2. lia.
    + change util_array_setcap_growth with 2.
      replace (N.of_nat (S f)) with (N.succ (N.of_nat f)) in Hbig by lia.
      rewrite N.pow_succ_r' in Hbig. lia.
Qed.

Lemma grow_to_no_crash : forall fuel c cap, grow_to fuel c cap <> Crash.
Proof.
  induction fuel as [|f IH]; intros c cap; cbn [grow_to].
  - destruct (cap <=? c); discriminate.
  - destruct (cap <=? c); [discriminate|]. destruct (sz_ov _); [discriminate|]. apply IH.
Qed.

Theorem array_set_capacity_spec : forall a cap,
  arr_inv a -> cap <= util_size_max ->
  exists z a', array_set_capacity E a cap = Ok (z, a') /\
    a_data a' = a_data a /\ a_used a' = a_used a /\ a_size a' = a_size a /\ arr_inv a' /\
    (z = 0%Z -> cap <= a_count a' /\ a_count a <= a_count a') /\
    (z <> 0%Z -> z = c_SQFS_ERROR_ALLOC /\ a' = a).
Proof.
  intros a cap [Hl Hu] Hcap. unfold array_set_capacity.
  destruct (cap <=? a_count a) eqn:E0.
  - apply N.leb_le in E0. exists 0%Z, a. repeat split; auto; try lia; try (intro Hz; congruence).
  - apply N.leb_gt in E0.
    set (first := if a_count a =? 0 then Some util_array_setcap_first_count
                  else if sz_ov (a_count a * util_array_setcap_growth) then None
                       else Some (a_count a * util_array_setcap_growth)).
    assert (Hfirst : match first with Some c0 => a_count a < c0 | None => True end).
    { unfold first. destruct (a_count a =? 0) eqn:Ez.
      - apply N.eqb_eq in Ez. rewrite Ez. reflexivity.
      - apply N.eqb_neq in Ez. destruct (sz_ov _); [exact I|]. change util_array_setcap_growth with 2. lia. }
    destruct first as [c0|].
    + assert (Hgrow : forall fuel c r, grow_to fuel c cap = Ok (Some r) -> c <= r /\ cap <= r).
      { induction fuel as [|f IHf]; intros c r H; cbn [grow_to] in H.
        - destruct (cap <=? c) eqn:Ec; [|discriminate]. apply N.leb_le in Ec. inversion H; subst. lia.
        - destruct (cap <=? c) eqn:Ec.
          + apply N.leb_le in Ec. inversion H; subst. lia.
          + destruct (sz_ov (c * util_array_setcap_growth)); [discriminate|].
            apply IHf in H. change util_array_setcap_growth with 2 in H. lia. }
      destruct (grow_to (N.to_nat (8 * util_sizeof_size_t)) c0 cap) as [[c|]| |] eqn:Eg.
      * destruct (sz_ov (c * a_size a)).
        -- exists c_SQFS_ERROR_ALLOC, a. repeat split; auto; try (intro Hz; congruence); try (exfalso; eapply alloc_ne0; eassumption).
        -- apply Hgrow in Eg. exists 0%Z. eexists. split; [reflexivity|]. unfold arr_inv. cbn.
           repeat split; auto; try lia; try (intro Hz; congruence).
      * exists c_SQFS_ERROR_ALLOC, a. repeat split; auto; try (intro Hz; congruence); try (exfalso; eapply alloc_ne0; eassumption).
      * exfalso. eapply grow_to_no_crash; eauto.
      * exfalso. eapply (grow_to_terminates (N.to_nat (8 * util_sizeof_size_t)) c0 cap); eauto; [lia|].
        vm_compute (2 ^ N.of_nat (N.to_nat (8 * util_sizeof_size_t))). change util_size_max with 18446744073709551615. lia.
    + exists c_SQFS_ERROR_ALLOC, a. repeat split; auto; try (intro Hz; congruence); try (exfalso; eapply alloc_ne0; eassumption).
Qed.

End ARR.
