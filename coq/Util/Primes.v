(* Number theory behind hash_table.c's probing sequence:
   every [size] of hash_sizes[] is prime (checked by trial division, the test proved sound),
   hence for every step 0 < d < size the sequence (s + i*d) mod size, i = 0 .. size-1, visits
   every slot exactly once.  This is what makes "a free slot exists" imply "the probing loop
   finds a free slot" (hash_table_insert never returns NULL for lack of coverage,
   hash_table_insert_rehash's while(true) terminates). *)
From Coq Require Import ZArith Znumtheory Lia List Bool.
Import ListNotations.
Local Open Scope Z_scope.

(* no divisor among k, k+1, ..., k+fuel-1 *)
Fixpoint trial (fuel : nat) (p k : Z) : bool :=
  match fuel with
  | O => true
  | S f => if p mod k =? 0 then false else trial f p (k + 1)
  end.

Definition is_prime_b (p : Z) : bool :=
  (1 <? p) && trial (Z.to_nat (Z.sqrt p)) p 2.

Lemma trial_spec : forall fuel p k, trial fuel p k = true ->
  forall j, k <= j < k + Z.of_nat fuel -> p mod j <> 0.
Proof.
  induction fuel as [|f IH]; intros p k H j Hj; [lia|].
  cbn [trial] in H. destruct (p mod k =? 0) eqn:E; [discriminate|].
  apply Z.eqb_neq in E.
  destruct (Z.eq_dec j k) as [->|Hne]; [exact E|].
  apply (IH p (k + 1) H). lia.
Qed.

Lemma is_prime_b_sound : forall p, is_prime_b p = true -> prime p.
Proof.
  intros p H. unfold is_prime_b in H. apply andb_true_iff in H. destruct H as [H1 H2].
  apply Z.ltb_lt in H1.
  pose proof (trial_spec _ _ _ H2) as T.
  pose proof (Z.sqrt_spec p ltac:(lia)) as [S1 S2].
  assert (Hs0 : 0 <= Z.sqrt p) by apply Z.sqrt_nonneg.
  rewrite Z2Nat.id in T by exact Hs0.
  assert (small : forall j, 2 <= j -> j * j <= p -> p mod j <> 0).
  { intros j Hj Hjj. apply T. split; [lia|].
    assert (j <= Z.sqrt p); [|lia].
    destruct (Z_le_gt_dec j (Z.sqrt p)) as [|Hgt]; [assumption|exfalso].
    assert (Z.succ (Z.sqrt p) <= j) by lia.
    assert (Z.succ (Z.sqrt p) * Z.succ (Z.sqrt p) <= j * j) by (apply Z.mul_le_mono_nonneg; lia).
    lia. }
  apply prime_alt. split; [exact H1|].
  intros n Hn [m Hm].
  assert (Hm1 : 1 < m).
  { destruct (Z_le_gt_dec m 1) as [Hle|]; [exfalso|lia].
    assert (m * n <= 1 * n) by (apply Z.mul_le_mono_nonneg_r; lia). lia. }
  destruct (Z_le_gt_dec (n * n) p) as [Hle|Hgt].
  - apply (small n); [lia|exact Hle|]. rewrite Hm. apply Z.mod_mul. lia.
  - apply (small m); [lia| |].
    + assert (m < n).
      { destruct (Z_lt_le_dec m n) as [|Hge]; [assumption|exfalso].
        assert (n * n <= m * n) by (apply Z.mul_le_mono_nonneg_r; lia). lia. }
      assert (m * m <= m * n) by (apply Z.mul_le_mono_nonneg_l; lia). lia.
    + rewrite Hm, Z.mul_comm. apply Z.mod_mul. lia.
Qed.

(* the probing sequence of a prime-sized table is injective on one period *)
Lemma probe_inj : forall p d s i j,
  prime p -> 0 < d < p -> 0 <= i < p -> 0 <= j < p ->
  (s + i * d) mod p = (s + j * d) mod p -> i = j.
Proof.
  assert (W : forall p d s i j,
    prime p -> 0 < d < p -> 0 <= i -> i <= j -> j < p ->
    (s + i * d) mod p = (s + j * d) mod p -> i = j).
  { intros p d s i j Hp Hd Hi Hij Hj E.
    pose proof (prime_ge_2 p Hp) as Hp2.
    assert (D : (p | (j - i) * d)).
    { apply Z.mod_divide; [lia|].
      replace ((j - i) * d) with ((s + j * d) - (s + i * d)) by ring.
      rewrite Zminus_mod, E, Z.sub_diag. apply Z.mod_0_l. lia. }
    destruct (prime_mult p Hp _ _ D) as [D1|D1].
    - destruct (Z.eq_dec (j - i) 0) as [|Hne]; [lia|exfalso].
      apply Z.divide_pos_le in D1; lia.
    - exfalso. apply Z.divide_pos_le in D1; lia. }
  intros p d s i j Hp Hd Hi Hj E.
  destruct (Z_le_gt_dec i j).
  - apply (W p d s i j); auto; lia.
  - symmetry. apply (W p d s j i); auto; lia.
Qed.
