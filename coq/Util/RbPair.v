(* rbtree.c, what C19 needs: a copy answers every later operation like the original, and
   original and copy never share a node whatever is done to either of them.

   The operations see a tree only through shape, colours and data bytes -- never through the
   node addresses -- so running the same operations on two trees that are equal up to
   addresses ([erase]) gives answers that are equal up to addresses; allocation gives every
   new node an address that is not in use, so two trees with disjoint nodes stay disjoint. *)
From Coq Require Import NArith ZArith List Bool Lia.
From SqfsV Require Import Gen.Constants Util.GenUtil Util.RbModel Util.RbOrder Util.RbBalance Util.RbTheorems.
Import ListNotations.
Local Open Scope N_scope.

Lemma is_red_erase : forall t, is_red (erase t) = is_red t.
Proof. destruct t; reflexivity. Qed.
Lemma left_erase : forall t, left (erase t) = erase (left t).
Proof. destruct t; reflexivity. Qed.
Lemma right_erase : forall t, right (erase t) = erase (right t).
Proof. destruct t; reflexivity. Qed.

Lemma toggle_erase : forall t, toggle (erase t) = option_map erase (toggle t).
Proof. destruct t; reflexivity. Qed.

Lemma flip_erase : forall t, flip_colors (erase t) = option_map erase (flip_colors t).
Proof.
  destruct t as [|i l c v d r]; [reflexivity|]. cbn [erase flip_colors]. rewrite !toggle_erase.
  destruct (toggle l); [|reflexivity]. destruct (toggle r); reflexivity.
Qed.

Lemma rotl_erase : forall t, rotate_left (erase t) = option_map erase (rotate_left t).
Proof. destruct t as [|i l c v d [|xi xl xc xv xd xr]]; reflexivity. Qed.

Lemma rotr_erase : forall t, rotate_right (erase t) = option_map erase (rotate_right t).
Proof. destruct t as [|i [|xi xl xc xv xd xr] c v d r]; reflexivity. Qed.

Lemma balance_erase : forall t, subtree_balance (erase t) = option_map erase (subtree_balance t).
Proof.
  intro t. unfold subtree_balance.
  rewrite right_erase, left_erase, !is_red_erase.
  assert (S1 : (if is_red (right t) && negb (is_red (left t)) then rotate_left (erase t) else Some (erase t))
               = option_map erase (if is_red (right t) && negb (is_red (left t)) then rotate_left t else Some t)).
  { destruct (is_red (right t) && negb (is_red (left t))); [apply rotl_erase|reflexivity]. }
  rewrite S1. destruct (if is_red (right t) && negb (is_red (left t)) then rotate_left t else Some t) as [n1|];
    [|reflexivity].
  cbn [option_map]. rewrite !left_erase, !is_red_erase.
  assert (S2 : (if is_red (left n1) && is_red (left (left n1)) then rotate_right (erase n1) else Some (erase n1))
               = option_map erase (if is_red (left n1) && is_red (left (left n1)) then rotate_right n1 else Some n1)).
  { destruct (is_red (left n1) && is_red (left (left n1))); [apply rotr_erase|reflexivity]. }
  rewrite S2. destruct (if is_red (left n1) && is_red (left (left n1)) then rotate_right n1 else Some n1) as [n2|];
    [|reflexivity].
  cbn [option_map]. rewrite left_erase, right_erase, !is_red_erase.
  destruct (is_red (left n2) && is_red (right n2)); [apply flip_erase|reflexivity].
Qed.

Lemma node_key_erase : forall ks t, node_key ks (erase t) = node_key ks t.
Proof. destruct t; reflexivity. Qed.

Section CMP.
Variable cmp : list N -> list N -> Z.
Variable ks : N.

Lemma insert_erase : forall t new,
  subtree_insert cmp ks (erase t) (erase new) = option_map erase (subtree_insert cmp ks t new).
Proof.
  induction t as [|i l IHl c v d r IHr]; intro new; [reflexivity|].
  cbn [erase subtree_insert]. rewrite node_key_erase.
  destruct (cmp (node_key ks new) (firstnN ks d) <? 0)%Z.
  - rewrite IHl. destruct (subtree_insert cmp ks l new) as [l'|]; [|reflexivity].
    cbn [option_map]. apply (balance_erase (Node i l' c v d r)).
  - rewrite IHr. destruct (subtree_insert cmp ks r new) as [r'|]; [|reflexivity].
    cbn [option_map]. apply (balance_erase (Node i l c v d r')).
Qed.

Lemma lookup_erase : forall t k, lookup_node cmp ks (erase t) k = erase (lookup_node cmp ks t k).
Proof.
  induction t as [|i l IHl c v d r IHr]; intro k; [reflexivity|].
  cbn [erase lookup_node]. destruct (cmp k (firstnN ks d) =? 0)%Z; [reflexivity|].
  destruct (cmp k (firstnN ks d) <? 0)%Z; auto.
Qed.
End CMP.

(* ---- operation sequences on one tree ---- *)
Inductive rb_op : Type :=
| RbInsert (key value : list N)
| RbLookup (key : list N).

(* the answer of a lookup: the node found, without its address and without its subtrees'
   addresses (shape, colours and all bytes remain) *)
Definition rb_step (cmp : list N -> list N -> Z) (st : rbtree * N) (op : rb_op)
  : option (rbtree * N * option tree) :=
  let '(t, next) := st in
  match op with
  | RbInsert k v =>
    match rbtree_insert cmp t next k v with
    | Some (t', n') => Some (t', n', None)
    | None => None
    end
  | RbLookup k => Some (t, next, Some (erase (rbtree_lookup cmp t k)))
  end.

Fixpoint rb_run (cmp : list N -> list N -> Z) (st : rbtree * N) (ops : list rb_op)
  : option (rbtree * N * list (option tree)) :=
  match ops with
  | [] => Some (st, [])
  | op :: r =>
    match rb_step cmp st op with
    | None => None
    | Some (t', n', a) =>
      match rb_run cmp (t', n') r with
      | Some (st'', l) => Some (st'', a :: l)
      | None => None
      end
    end
  end.

Definition equiv_trees (a b : rbtree) : Prop :=
  erase (rb_root a) = erase (rb_root b) /\ same_sizes a b.

Lemma rbtree_insert_equiv : forall cmp a b na nb k v,
  equiv_trees a b ->
  match rbtree_insert cmp a na k v, rbtree_insert cmp b nb k v with
  | Some (a', na'), Some (b', nb') => equiv_trees a' b' /\ na' = na + 1 /\ nb' = nb + 1
  | None, None => True
  | _, _ => False
  end.
Proof.
  intros cmp a b na nb k v (Er & S1 & S2 & S3). unfold rbtree_insert.
  assert (Hm : erase (mknode a na k v) = erase (mknode b nb k v)).
  { unfold mknode. rewrite S1, S2, S3. reflexivity. }
  rewrite S1.
  pose proof (insert_erase cmp (rb_key_size b) (rb_root a) (mknode a na k v)) as Ha.
  pose proof (insert_erase cmp (rb_key_size b) (rb_root b) (mknode b nb k v)) as Hb.
  rewrite Er, Hm in Ha. rewrite Ha in Hb.
  destruct (subtree_insert cmp (rb_key_size b) (rb_root a) (mknode a na k v)) as [[|ia la ca va da ra]|];
  destruct (subtree_insert cmp (rb_key_size b) (rb_root b) (mknode b nb k v)) as [[|ib lb cb vb db rb]|];
    cbn in Hb; try discriminate; auto.
  inversion Hb; subst. unfold equiv_trees, same_sizes. cbn. repeat split; auto.
  f_equal; auto.
Qed.

(* a copy answers every later operation sequence like the original *)
Theorem rbtree_equiv_run : forall cmp ops a b na nb,
  equiv_trees a b ->
  match rb_run cmp (a, na) ops, rb_run cmp (b, nb) ops with
  | Some ((a', _), la), Some ((b', _), lb) => la = lb /\ equiv_trees a' b'
  | None, None => True
  | _, _ => False
  end.
Proof.
  induction ops as [|op ops IH]; intros a b na nb He.
  - cbn. auto.
  - cbn [rb_run]. destruct op as [k v|k]; cbn [rb_step].
    + pose proof (rbtree_insert_equiv cmp a b na nb k v He) as Hi.
      destruct (rbtree_insert cmp a na k v) as [[a1 na1]|]; destruct (rbtree_insert cmp b nb k v) as [[b1 nb1]|];
        try contradiction; auto.
      destruct Hi as (He1 & _ & _). specialize (IH a1 b1 na1 nb1 He1).
      destruct (rb_run cmp (a1, na1) ops) as [[[a2 ?] la]|]; destruct (rb_run cmp (b1, nb1) ops) as [[[b2 ?] lb]|];
        try contradiction; auto.
      destruct IH as [-> He2]. auto.
    + specialize (IH a b na nb He).
      assert (Hl : erase (rbtree_lookup cmp a k) = erase (rbtree_lookup cmp b k)).
      { unfold rbtree_lookup. destruct He as (Er & S1 & _). rewrite <- !lookup_erase, Er, S1. reflexivity. }
      destruct (rb_run cmp (a, na) ops) as [[[a2 ?] la]|]; destruct (rb_run cmp (b, nb) ops) as [[[b2 ?] lb]|];
        try contradiction; auto.
      destruct IH as [-> He2]. rewrite Hl. auto.
Qed.

(* ---- two trees and one allocator: any interleaving ---- *)
Definition pair_ok (a b : rbtree) (next : N) : Prop :=
  Forall (fun i => i < next) (ids (rb_root a)) /\
  Forall (fun i => i < next) (ids (rb_root b)) /\
  (forall i, In i (ids (rb_root a)) -> ~ In i (ids (rb_root b))).

Section PAIR.
Variable cmp : list N -> list N -> Z.
Hypothesis cmp_antisym : forall x y, (cmp x y < 0 <-> 0 < cmp y x)%Z.
Hypothesis cmp_trans : forall x y z, (cmp x y <= 0 -> cmp y z <= 0 -> cmp x z <= 0)%Z.

Lemma insert_ids : forall t next k v,
  rbtree_inv cmp t -> lenN k = rb_key_size t -> lenN v = rb_value_size t ->
  exists t', rbtree_insert cmp t next k v = Some (t', next + 1) /\ rbtree_inv cmp t' /\
    same_sizes t' t /\
    forall i, In i (ids (rb_root t')) <-> i = next \/ In i (ids (rb_root t)).
Proof.
  intros t next k v Hinv Hk Hv.
  destruct (rbtree_insert_inv cmp cmp_antisym cmp_trans t next k v Hinv Hk Hv)
    as (t' & E & Hinv' & S1 & S2 & S3 & Hel).
  exists t'. split; [exact E|]. split; [exact Hinv'|]. split; [repeat split; assumption|].
  intro i. unfold ids. rewrite Hel, !in_map_iff. split.
  - intros (e & <- & He). apply ins_sorted_In in He. destruct He as [->|He]; [left; reflexivity|].
    right. exists e. auto.
  - intros [->|(e & <- & He)].
    + exists (new_elem t next k v). split; [reflexivity|]. apply ins_sorted_In. left. reflexivity.
    + exists e. split; [reflexivity|]. apply ins_sorted_In. right. exact He.
Qed.

(* who = true: the operation goes to the first tree *)
Definition pair_step (st : rbtree * rbtree * N) (wop : bool * rb_op)
  : option (rbtree * rbtree * N * option tree) :=
  let '(a, b, next) := st in
  let '(who, op) := wop in
  if who then
    match rb_step cmp (a, next) op with
    | Some (a', n', r) => Some (a', b, n', r)
    | None => None
    end
  else
    match rb_step cmp (b, next) op with
    | Some (b', n', r) => Some (a, b', n', r)
    | None => None
    end.

Fixpoint pair_run (st : rbtree * rbtree * N) (ops : list (bool * rb_op))
  : option (rbtree * rbtree * N * list (bool * option tree)) :=
  match ops with
  | [] => Some (st, [])
  | (who, op) :: r =>
    match pair_step st (who, op) with
    | None => None
    | Some (a', b', n', ans) =>
      match pair_run (a', b', n') r with
      | Some (st'', l) => Some (st'', (who, ans) :: l)
      | None => None
      end
    end
  end.

Definition ops_of (who : bool) (ops : list (bool * rb_op)) : list rb_op :=
  map snd (filter (fun wo => Bool.eqb (fst wo) who) ops).
Definition answers_of (who : bool) (l : list (bool * option tree)) : list (option tree) :=
  map snd (filter (fun wa => Bool.eqb (fst wa) who) l).

Definition op_sized (t : rbtree) (op : rb_op) : Prop :=
  match op with
  | RbInsert k v => lenN k = rb_key_size t /\ lenN v = rb_value_size t
  | RbLookup _ => True
  end.

(* Any interleaving of operations on two trees with disjoint nodes sharing one allocator:
   each side's answers are those of running its own operations alone, the side that is not
   addressed by an operation is literally unchanged by it, and the node sets stay disjoint. *)
Theorem rbtree_pair_independent : forall ops a b next,
  rbtree_inv cmp a -> rbtree_inv cmp b -> same_sizes a b -> pair_ok a b next ->
  Forall (fun wo => op_sized a (snd wo)) ops ->
  exists a' b' next' ans,
    pair_run (a, b, next) ops = Some (a', b', next', ans) /\
    rbtree_inv cmp a' /\ rbtree_inv cmp b' /\ pair_ok a' b' next' /\
    (exists na la, rb_run cmp (a, next) (ops_of true ops) = Some (na, la) /\
                   la = answers_of true ans /\ equiv_trees (fst na) a') /\
    (exists nb lb, rb_run cmp (b, next) (ops_of false ops) = Some (nb, lb) /\
                   lb = answers_of false ans /\ equiv_trees (fst nb) b').
Proof.
  induction ops as [|[who op] ops IH]; intros a b next Ia Ib Sab Hp Hops.
  - exists a, b, next, []. cbn. split; [reflexivity|]. split; [exact Ia|]. split; [exact Ib|]. split; [exact Hp|].
    split; eexists; eexists; (split; [reflexivity|]); (split; [reflexivity|]); split; repeat split; reflexivity.
  - inversion Hops as [|? ? Hop Hops']; subst. cbn [snd] in Hop.
    destruct Hp as (Fa & Fb & Hd).
    destruct op as [k v|k].
    + (* insert *)
      destruct Hop as [Hk Hv].
      destruct who.
      * destruct (insert_ids a next k v Ia Hk Hv) as (a1 & E1 & Ia1 & S1 & Hid).
        assert (Hp1 : pair_ok a1 b (next + 1)).
        { repeat split.
          - apply Forall_forall. intros i Hi. apply Hid in Hi. rewrite Forall_forall in Fa.
            destruct Hi as [->|Hi]; [lia|]. specialize (Fa _ Hi). lia.
          - eapply Forall_impl; [|exact Fb]. cbn. intros; lia.
          - intros i Hi Hb. apply Hid in Hi. destruct Hi as [->|Hi]; [|exact (Hd _ Hi Hb)].
            rewrite Forall_forall in Fb. specialize (Fb _ Hb). lia. }
        assert (Sab1 : same_sizes a1 b).
        { destruct S1 as (? & ? & ?). destruct Sab as (? & ? & ?). repeat split; congruence. }
        assert (Hops1 : Forall (fun wo => op_sized a1 (snd wo)) ops).
        { eapply Forall_impl; [|exact Hops']. intros [w o] H. destruct o; cbn in *; auto.
          destruct S1 as (Z1 & _ & Z3). rewrite Z1, Z3. exact H. }
        destruct (IH a1 b (next + 1) Ia1 Ib Sab1 Hp1 Hops1)
          as (a' & b' & next' & ans & R & Ia' & Ib' & Hp' & (na & la & Ra & La & Ea) & (nb & lb & Rb & Lb & Eb)).
        exists a', b', next', ((true, None) :: ans).
        cbn [pair_run pair_step rb_step]. rewrite E1, R. split; [reflexivity|].
        split; [exact Ia'|]. split; [exact Ib'|]. split; [exact Hp'|]. split.
        -- exists na, (None :: la). unfold ops_of, answers_of. cbn [filter fst Bool.eqb map snd rb_run rb_step].
           rewrite E1. fold (ops_of true ops). rewrite Ra. split; [reflexivity|]. split; [|exact Ea].
           rewrite La. reflexivity.
        -- (* the second tree's own run starts from another allocator value: same answers up to addresses *)
           unfold ops_of, answers_of. cbn [filter fst Bool.eqb map snd]. fold (ops_of false ops).
           pose proof (rbtree_equiv_run cmp (ops_of false ops) b b next (next + 1)
                         (conj eq_refl (conj eq_refl (conj eq_refl eq_refl)))) as Hq.
           rewrite Rb in Hq. destruct (rb_run cmp (b, next) (ops_of false ops)) as [[[b2 n2] l2]|]; [|contradiction].
           destruct nb as [nb1 nb2]. destruct Hq as [-> Hq]. exists (b2, n2), lb. split; [reflexivity|].
           split; [exact Lb|]. cbn [fst] in *. destruct Hq as (Q1 & Q2). destruct Eb as (Q3 & Q4).
           split; [congruence|]. destruct Q2 as (? & ? & ?). destruct Q4 as (? & ? & ?). repeat split; congruence.
      * assert (Hkb : lenN k = rb_key_size b /\ lenN v = rb_value_size b).
        { destruct Sab as (Z1 & _ & Z3). rewrite <- Z1, <- Z3. auto. }
        destruct Hkb as [Hkb Hvb].
        destruct (insert_ids b next k v Ib Hkb Hvb) as (b1 & E1 & Ib1 & S1 & Hid).
        assert (Hp1 : pair_ok a b1 (next + 1)).
        { repeat split.
          - eapply Forall_impl; [|exact Fa]. cbn. intros; lia.
          - apply Forall_forall. intros i Hi. apply Hid in Hi. rewrite Forall_forall in Fb.
            destruct Hi as [->|Hi]; [lia|]. specialize (Fb _ Hi). lia.
          - intros i Hi Hb. apply Hid in Hb. destruct Hb as [->|Hb]; [|exact (Hd _ Hi Hb)].
            rewrite Forall_forall in Fa. specialize (Fa _ Hi). lia. }
        assert (Sab1 : same_sizes a b1).
        { destruct S1 as (? & ? & ?). destruct Sab as (? & ? & ?). repeat split; congruence. }
        destruct (IH a b1 (next + 1) Ia Ib1 Sab1 Hp1 Hops')
          as (a' & b' & next' & ans & R & Ia' & Ib' & Hp' & (na & la & Ra & La & Ea) & (nb & lb & Rb & Lb & Eb)).
        exists a', b', next', ((false, None) :: ans).
        cbn [pair_run pair_step rb_step]. rewrite E1, R. split; [reflexivity|].
        split; [exact Ia'|]. split; [exact Ib'|]. split; [exact Hp'|]. split.
        -- unfold ops_of, answers_of. cbn [filter fst Bool.eqb map snd]. fold (ops_of true ops).
           pose proof (rbtree_equiv_run cmp (ops_of true ops) a a next (next + 1)
                         (conj eq_refl (conj eq_refl (conj eq_refl eq_refl)))) as Hq.
           rewrite Ra in Hq. destruct (rb_run cmp (a, next) (ops_of true ops)) as [[[a2 n2] l2]|]; [|contradiction].
           destruct na as [na1 na2]. destruct Hq as [-> Hq]. exists (a2, n2), la. split; [reflexivity|].
           split; [exact La|]. cbn [fst] in *. destruct Hq as (Q1 & Q2). destruct Ea as (Q3 & Q4).
           split; [congruence|]. destruct Q2 as (? & ? & ?). destruct Q4 as (? & ? & ?). repeat split; congruence.
        -- exists nb, (None :: lb). unfold ops_of, answers_of. cbn [filter fst Bool.eqb map snd rb_run rb_step].
           rewrite E1. fold (ops_of false ops). rewrite Rb. split; [reflexivity|]. split; [|exact Eb].
           rewrite Lb. reflexivity.
    + (* lookup: neither tree changes *)
      destruct (IH a b next Ia Ib Sab (conj Fa (conj Fb Hd)) Hops')
        as (a' & b' & next' & ans & R & Ia' & Ib' & Hp' & (na & la & Ra & La & Ea) & (nb & lb & Rb & Lb & Eb)).
      destruct who.
      * exists a', b', next', ((true, Some (erase (rbtree_lookup cmp a k))) :: ans).
        cbn [pair_run pair_step rb_step]. rewrite R. split; [reflexivity|].
        split; [exact Ia'|]. split; [exact Ib'|]. split; [exact Hp'|]. split.
        -- exists na, (Some (erase (rbtree_lookup cmp a k)) :: la).
           unfold ops_of, answers_of. cbn [filter fst Bool.eqb map snd rb_run rb_step].
           fold (ops_of true ops). rewrite Ra. split; [reflexivity|]. split; [|exact Ea]. rewrite La. reflexivity.
        -- exists nb, lb. unfold ops_of, answers_of. cbn [filter fst Bool.eqb map snd].
           fold (ops_of false ops). split; [exact Rb|]. split; [exact Lb|exact Eb].
      * exists a', b', next', ((false, Some (erase (rbtree_lookup cmp b k))) :: ans).
        cbn [pair_run pair_step rb_step]. rewrite R. split; [reflexivity|].
        split; [exact Ia'|]. split; [exact Ib'|]. split; [exact Hp'|]. split.
        -- exists na, la. unfold ops_of, answers_of. cbn [filter fst Bool.eqb map snd].
           fold (ops_of true ops). split; [exact Ra|]. split; [exact La|exact Ea].
        -- exists nb, (Some (erase (rbtree_lookup cmp b k)) :: lb).
           unfold ops_of, answers_of. cbn [filter fst Bool.eqb map snd rb_run rb_step].
           fold (ops_of false ops). rewrite Rb. split; [reflexivity|]. split; [|exact Eb]. rewrite Lb. reflexivity.
Qed.

End PAIR.
