(* rbtree.c as a finite map: in-order elements, search-tree order, lookup and insert against
   the sorted association list, under the hypothesis that the comparator is a strict weak
   order (sign antisymmetric, <= transitive).  No bound on the number of keys. *)
From Coq Require Import NArith ZArith List Bool Lia Sorting.Sorted.
From SqfsV Require Import Util.GenUtil Util.RbModel.
Import ListNotations.
Local Open Scope Z_scope.

(* an element: (allocation id, value_offset, data[]) *)
Definition elem : Type := (N * N * list N)%type.
Definition e_data (e : elem) : list N := snd e.

Fixpoint elements (t : tree) : list elem :=
  match t with
  | Leaf => []
  | Node i l _ v d r => elements l ++ (i, v, d) :: elements r
  end.

Lemma toggle_elements : forall t t', toggle t = Some t' -> elements t' = elements t.
Proof. destruct t; cbn; intros t' H; inversion H; reflexivity. Qed.

Lemma flip_elements : forall t t', flip_colors t = Some t' -> elements t' = elements t.
Proof.
  destruct t as [|i l c v d r]; cbn; intros t' H; [discriminate|].
  destruct (toggle l) as [l'|] eqn:El; [|discriminate].
  destruct (toggle r) as [r'|] eqn:Er; [|discriminate].
  inversion H; subst. cbn. rewrite (toggle_elements _ _ El), (toggle_elements _ _ Er). reflexivity.
Qed.

Lemma rotate_left_elements : forall t t', rotate_left t = Some t' -> elements t' = elements t.
Proof.
  destruct t as [|i l c v d [|xi xl xc xv xd xr]]; cbn; intros t' H; inversion H; subst.
  cbn. rewrite <- app_assoc. reflexivity.
Qed.

Lemma rotate_right_elements : forall t t', rotate_right t = Some t' -> elements t' = elements t.
Proof.
  destruct t as [|i [|xi xl xc xv xd xr] c v d r]; cbn; intros t' H; inversion H; subst.
  cbn. rewrite <- app_assoc. reflexivity.
Qed.

Lemma balance_elements : forall t t', subtree_balance t = Some t' -> elements t' = elements t.
Proof.
  intros t t' H. unfold subtree_balance in H.
  destruct (if is_red (right t) && negb (is_red (left t)) then rotate_left t else Some t) as [n1|] eqn:E1;
    [|discriminate].
  assert (H1 : elements n1 = elements t).
  { destruct (is_red (right t) && negb (is_red (left t))).
    - apply rotate_left_elements; exact E1.
    - inversion E1; reflexivity. }
  destruct (if is_red (left n1) && is_red (left (left n1)) then rotate_right n1 else Some n1) as [n2|] eqn:E2;
    [|discriminate].
  assert (H2 : elements n2 = elements n1).
  { destruct (is_red (left n1) && is_red (left (left n1))).
    - apply rotate_right_elements; exact E2.
    - inversion E2; reflexivity. }
  destruct (is_red (left n2) && is_red (right n2)).
  - rewrite (flip_elements _ _ H). congruence.
  - inversion H; subst. congruence.
Qed.

(* subtree_balance never dereferences NULL, and returns a node *)
Lemma balance_total : forall i l c v d r,
  exists i' l' c' v' d' r', subtree_balance (Node i l c v d r) = Some (Node i' l' c' v' d' r').
Proof.
  intros. unfold subtree_balance.
  assert (S1 : exists i1 l1 c1 v1 d1 r1,
    (if is_red (right (Node i l c v d r)) && negb (is_red (left (Node i l c v d r)))
     then rotate_left (Node i l c v d r) else Some (Node i l c v d r)) = Some (Node i1 l1 c1 v1 d1 r1)).
  { cbn [right left]. destruct r as [|xi xl xc xv xd xr]; cbn [is_red andb].
    - repeat eexists.
    - destruct (xc && negb (is_red l)); cbn; repeat eexists. }
  destruct S1 as (i1 & l1 & c1 & v1 & d1 & r1 & ->).
  assert (S2 : exists i2 l2 c2 v2 d2 r2,
    (if is_red (left (Node i1 l1 c1 v1 d1 r1)) && is_red (left (left (Node i1 l1 c1 v1 d1 r1)))
     then rotate_right (Node i1 l1 c1 v1 d1 r1) else Some (Node i1 l1 c1 v1 d1 r1))
    = Some (Node i2 l2 c2 v2 d2 r2)).
  { cbn [left]. destruct l1 as [|xi xl xc xv xd xr]; cbn [is_red andb].
    - repeat eexists.
    - destruct (xc && is_red (left (Node xi xl xc xv xd xr))); cbn; repeat eexists. }
  destruct S2 as (i2 & l2 & c2 & v2 & d2 & r2 & ->).
  cbn [left right].
  destruct l2 as [|ai al ac av ad ar]; cbn [is_red andb]; [repeat eexists|].
  destruct r2 as [|bi bl bc bv bd br]; cbn [is_red].
  - rewrite andb_false_r. repeat eexists.
  - destruct (ac && bc); cbn; repeat eexists.
Qed.

Section ORDER.
Variable cmp : list N -> list N -> Z.
Variable ks : N.
Hypothesis cmp_antisym : forall a b, cmp a b < 0 <-> 0 < cmp b a.
Hypothesis cmp_trans : forall a b c, cmp a b <= 0 -> cmp b c <= 0 -> cmp a c <= 0.

Definition key (e : elem) : list N := firstnN ks (e_data e).
Definition lt (a b : list N) : Prop := cmp a b < 0.
Definition le (a b : list N) : Prop := cmp a b <= 0.

Lemma cmp_refl : forall a, cmp a a = 0.
Proof. intro a. destruct (cmp_antisym a a). lia. Qed.

Lemma cmp_eq_sym : forall a b, cmp a b = 0 -> cmp b a = 0.
Proof. intros a b H. destruct (cmp_antisym a b). destruct (cmp_antisym b a). lia. Qed.

Lemma not_lt_le : forall a b, ~ lt a b -> le b a.
Proof. unfold lt, le. intros a b H. destruct (cmp_antisym a b). lia. Qed.

Lemma lt_not_le : forall a b, lt a b -> ~ le b a.
Proof. unfold lt, le. intros a b H. destruct (cmp_antisym a b). lia. Qed.

Lemma lt_le : forall a b, lt a b -> le a b.
Proof. unfold lt, le. lia. Qed.

Lemma lt_le_trans : forall a b c, lt a b -> le b c -> lt a c.
Proof.
  intros a b c H1 H2. destruct (Z_lt_ge_dec (cmp a c) 0) as [|Hge]; [assumption|exfalso].
  assert (le c a) by (apply not_lt_le; unfold lt; lia).
  apply (lt_not_le a b H1). unfold le in *. eapply cmp_trans; eauto.
Qed.

Lemma le_lt_trans : forall a b c, le a b -> lt b c -> lt a c.
Proof.
  intros a b c H1 H2. destruct (Z_lt_ge_dec (cmp a c) 0) as [|Hge]; [assumption|exfalso].
  assert (le c a) by (apply not_lt_le; unfold lt; lia).
  apply (lt_not_le b c H2). unfold le in *. eapply cmp_trans; eauto.
Qed.

Lemma lt_ne : forall a b, lt a b -> cmp a b <> 0 /\ cmp b a <> 0.
Proof. unfold lt. intros a b H. destruct (cmp_antisym a b). lia. Qed.

(* the abstract container: association list sorted by key; a new element goes behind the
   elements that are not greater (equal keys keep their insertion order) *)
Fixpoint ins_sorted (x : elem) (l : list elem) : list elem :=
  match l with
  | [] => [x]
  | y :: r => if cmp (key x) (key y) <? 0 then x :: y :: r else y :: ins_sorted x r
  end.

Definition sorted (l : list elem) : Prop := StronglySorted (fun a b => le (key a) (key b)) l.
Definition ssorted (l : list elem) : Prop := StronglySorted (fun a b => lt (key a) (key b)) l.

Lemma ssorted_sorted : forall l, ssorted l -> sorted l.
Proof.
  induction 1; constructor; auto.
  eapply Forall_impl; [|eassumption]. intros; apply lt_le; assumption.
Qed.

Lemma sorted_app : forall l1 x l2,
  sorted (l1 ++ x :: l2) <->
  sorted l1 /\ sorted l2 /\ Forall (fun a => le (key a) (key x)) l1 /\ Forall (fun b => le (key x) (key b)) l2.
Proof.
  induction l1 as [|a l1 IH]; intros x l2; cbn.
  - split.
    + intro H. inversion H; subst. repeat split; auto. constructor.
    + intros (_ & H2 & _ & H4). constructor; auto.
  - split.
    + intro H. inversion H as [|? ? Hs Hf]; subst. apply IH in Hs. destruct Hs as (S1 & S2 & F1 & F2).
      rewrite Forall_app in Hf. destruct Hf as [Hf1 Hf2]. inversion Hf2; subst.
      repeat split; auto; constructor; auto.
    + intros (S1 & S2 & F1 & F2). inversion S1; subst. inversion F1; subst.
      constructor; [apply IH; auto|].
      rewrite Forall_app. split; auto. constructor; auto.
      eapply Forall_impl; [|exact F2]. intros b Hb. unfold le in *. eapply cmp_trans; eauto.
Qed.

Lemma ssorted_app : forall l1 x l2,
  ssorted (l1 ++ x :: l2) <->
  ssorted l1 /\ ssorted l2 /\ Forall (fun a => lt (key a) (key x)) l1 /\ Forall (fun b => lt (key x) (key b)) l2.
Proof.
  induction l1 as [|a l1 IH]; intros x l2; cbn.
  - split.
    + intro H. inversion H; subst. repeat split; auto. constructor.
    + intros (_ & H2 & _ & H4). constructor; auto.
  - split.
    + intro H. inversion H as [|? ? Hs Hf]; subst. apply IH in Hs. destruct Hs as (S1 & S2 & F1 & F2).
      rewrite Forall_app in Hf. destruct Hf as [Hf1 Hf2]. inversion Hf2; subst.
      repeat split; auto; constructor; auto.
    + intros (S1 & S2 & F1 & F2). inversion S1; subst. inversion F1; subst.
      constructor; [apply IH; auto|].
      rewrite Forall_app. split; auto. constructor; auto.
      eapply Forall_impl; [|exact F2]. intros b Hb. eapply lt_le_trans; [eassumption|apply lt_le; assumption].
Qed.

Lemma ins_sorted_left : forall x a b c,
  lt (key x) (key b) -> ins_sorted x (a ++ b :: c) = ins_sorted x a ++ b :: c.
Proof.
  intros x a b c H. induction a as [|y a IH]; cbn.
  - unfold lt in H. apply Z.ltb_lt in H. rewrite H. reflexivity.
  - destruct (cmp (key x) (key y) <? 0); [reflexivity|]. rewrite IH. reflexivity.
Qed.

Lemma ins_sorted_right : forall x a b,
  Forall (fun y => le (key y) (key x)) a -> ins_sorted x (a ++ b) = a ++ ins_sorted x b.
Proof.
  intros x a b H. induction H as [|y a Hy Ha IH]; cbn; [reflexivity|].
  destruct (cmp (key x) (key y) <? 0) eqn:E.
  - apply Z.ltb_lt in E. exfalso. apply (lt_not_le _ _ E). exact Hy.
  - rewrite IH. reflexivity.
Qed.

Lemma ins_sorted_In : forall x l y, In y (ins_sorted x l) <-> y = x \/ In y l.
Proof.
  induction l as [|z l IH]; cbn; intro y; [intuition|].
  destruct (cmp (key x) (key z) <? 0); cbn; [intuition|]. rewrite IH. intuition.
Qed.

Lemma ins_sorted_sorted : forall x l, sorted l -> sorted (ins_sorted x l).
Proof.
  intros x l H. induction H as [|y l Hs IH Hf]; cbn.
  - constructor; constructor.
  - destruct (cmp (key x) (key y) <? 0) eqn:E.
    + apply Z.ltb_lt in E. constructor; [constructor; auto|].
      constructor; [apply lt_le; exact E|].
      eapply Forall_impl; [|exact Hf]. intros b Hb. apply lt_le. eapply lt_le_trans; eauto.
    + apply Z.ltb_ge in E. constructor; [exact IH|].
      apply Forall_forall. intros b Hb. apply ins_sorted_In in Hb. destruct Hb as [->|Hb].
      * apply not_lt_le. unfold lt. lia.
      * rewrite Forall_forall in Hf. auto.
Qed.

Lemma ins_sorted_ssorted : forall x l,
  ssorted l -> (forall y, In y l -> cmp (key x) (key y) <> 0) -> ssorted (ins_sorted x l).
Proof.
  intros x l H. induction H as [|y l Hs IH Hf]; cbn; intro Hne.
  - constructor; constructor.
  - destruct (cmp (key x) (key y) <? 0) eqn:E.
    + apply Z.ltb_lt in E. constructor; [constructor; auto|].
      constructor; [exact E|].
      eapply Forall_impl; [|exact Hf]. intros b Hb. eapply lt_le_trans; [exact E|apply lt_le; exact Hb].
    + apply Z.ltb_ge in E. constructor; [apply IH; intros; apply Hne; right; assumption|].
      apply Forall_forall. intros b Hb. apply ins_sorted_In in Hb. destruct Hb as [->|Hb].
      * assert (cmp (key x) (key y) <> 0) by (apply Hne; left; reflexivity).
        unfold lt. destruct (cmp_antisym (key y) (key x)). lia.
      * rewrite Forall_forall in Hf. auto.
Qed.

(* ---- insert: the in-order sequence of the new tree is the sorted insertion ---- *)
Definition single (t : tree) : Prop :=
  exists i c v d, t = Node i Leaf c v d Leaf.

Lemma subtree_insert_total : forall t new, single new ->
  exists i l c v d r, subtree_insert cmp ks t new = Some (Node i l c v d r).
Proof.
  induction t as [|i l IHl c v d r IHr]; intros new Hs.
  - destruct Hs as (ni & nc & nv & nd & ->). cbn. repeat eexists.
  - cbn [subtree_insert]. destruct (cmp (node_key ks new) (firstnN ks d) <? 0).
    + destruct (IHl new Hs) as (? & ? & ? & ? & ? & ? & ->). apply balance_total.
    + destruct (IHr new Hs) as (? & ? & ? & ? & ? & ? & ->). apply balance_total.
Qed.

Definition elem_of (t : tree) : elem :=
  match t with Node i _ _ v d _ => (i, v, d) | Leaf => (0%N, 0%N, []) end.

Lemma insert_elements : forall t new t',
  single new -> sorted (elements t) ->
  subtree_insert cmp ks t new = Some t' ->
  elements t' = ins_sorted (elem_of new) (elements t).
Proof.
  induction t as [|i l IHl c v d r IHr]; intros new t' Hs Hsorted H.
  - destruct Hs as (ni & nc & nv & nd & ->). cbn in *. inversion H; subst. reflexivity.
  - cbn [subtree_insert] in H. cbn [elements] in *.
    apply sorted_app in Hsorted. destruct Hsorted as (Sl & Sr & Fl & Fr).
    assert (Hk : node_key ks new = key (elem_of new)).
    { destruct Hs as (ni & nc & nv & nd & ->). reflexivity. }
    destruct (cmp (node_key ks new) (firstnN ks d) <? 0) eqn:E.
    + destruct (subtree_insert cmp ks l new) as [l'|] eqn:El; [|discriminate].
      apply balance_elements in H. rewrite H. cbn [elements].
      rewrite (IHl new l' Hs Sl El).
      symmetry. apply ins_sorted_left. unfold lt. rewrite <- Hk. apply Z.ltb_lt. exact E.
    + destruct (subtree_insert cmp ks r new) as [r'|] eqn:Er; [|discriminate].
      apply balance_elements in H. rewrite H. cbn [elements].
      rewrite (IHr new r' Hs Sr Er).
      apply Z.ltb_ge in E. rewrite Hk in E.
      assert (Hroot : le (key (i, v, d)) (key (elem_of new))).
      { apply not_lt_le. unfold lt, key at 2, e_data. cbn [snd]. lia. }
      rewrite ins_sorted_right.
      * cbn [ins_sorted]. replace (cmp (key (elem_of new)) (key (i, v, d)) <? 0) with false; [reflexivity|].
        symmetry. apply Z.ltb_ge. exact E.
      * eapply Forall_impl; [|exact Fl]. intros a Ha. unfold le in *. eapply cmp_trans; eauto.
Qed.

(* ---- lookup ---- *)
Lemma lookup_sound : forall t k i l c v d r,
  lookup_node cmp ks t k = Node i l c v d r ->
  In (i, v, d) (elements t) /\ cmp k (firstnN ks d) = 0.
Proof.
  induction t as [|ti tl IHl tc tv td tr IHr]; intros k i l c v d r H; cbn in H; [discriminate|].
  destruct (cmp k (firstnN ks td) =? 0) eqn:E0.
  - inversion H; subst. apply Z.eqb_eq in E0. split; [|exact E0].
    cbn. apply in_or_app. right. left. reflexivity.
  - destruct (cmp k (firstnN ks td) <? 0).
    + destruct (IHl _ _ _ _ _ _ _ H) as [Hin Hc]. split; [|exact Hc]. cbn. apply in_or_app. left. exact Hin.
    + destruct (IHr _ _ _ _ _ _ _ H) as [Hin Hc]. split; [|exact Hc]. cbn. apply in_or_app. right. right. exact Hin.
Qed.

Lemma lookup_complete : forall t k,
  sorted (elements t) -> lookup_node cmp ks t k = Leaf ->
  forall e, In e (elements t) -> cmp k (key e) <> 0.
Proof.
  induction t as [|ti tl IHl tc tv td tr IHr]; intros k Hs H e Hin; cbn in *; [contradiction|].
  apply sorted_app in Hs. destruct Hs as (Sl & Sr & Fl & Fr).
  destruct (cmp k (firstnN ks td) =? 0) eqn:E0; [discriminate|]. apply Z.eqb_neq in E0.
  rewrite Forall_forall in Fl, Fr.
  apply in_app_or in Hin.
  destruct (cmp k (firstnN ks td) <? 0) eqn:E1.
  - apply Z.ltb_lt in E1. destruct Hin as [Hin|[<-|Hin]].
    + eapply IHl; eauto.
    + exact E0.
    + assert (lt k (key e)) by (eapply lt_le_trans; [exact E1|apply Fr; exact Hin]).
      apply lt_ne in H0. tauto.
  - apply Z.ltb_ge in E1.
    assert (Hgt : lt (key (ti, tv, td)) k).
    { unfold lt, key, e_data. cbn [snd]. destruct (cmp_antisym (firstnN ks td) k). lia. }
    destruct Hin as [Hin|[<-|Hin]].
    + assert (lt (key e) k) by (eapply le_lt_trans; [apply Fl; exact Hin|exact Hgt]).
      apply lt_ne in H0. tauto.
    + exact E0.
    + eapply IHr; eauto.
Qed.

(* with distinct keys the tree answers like the association list *)
Definition amap_find (k : list N) (l : list elem) : option elem :=
  find (fun e => cmp k (key e) =? 0) l.

Lemma find_app_none : forall (f : elem -> bool) a b,
  (forall x, In x a -> f x = false) -> find f (a ++ b) = find f b.
Proof.
  induction a as [|x a IH]; intros b H; cbn; [reflexivity|].
  rewrite (H x (or_introl eq_refl)). apply IH. intros; apply H; right; assumption.
Qed.

Lemma find_app_some : forall (f : elem -> bool) a b x, find f a = Some x -> find f (a ++ b) = Some x.
Proof.
  induction a as [|y a IH]; intros b x H; cbn in *; [discriminate|].
  destruct (f y); [exact H|]. apply IH; exact H.
Qed.

Lemma find_none_all : forall (f : elem -> bool) a, (forall x, In x a -> f x = false) -> find f a = None.
Proof.
  induction a as [|x a IH]; intro H; cbn; [reflexivity|].
  rewrite (H x (or_introl eq_refl)). apply IH. intros; apply H; right; assumption.
Qed.

Definition node_elem (t : tree) : option elem :=
  match t with Node i _ _ v d _ => Some (i, v, d) | Leaf => None end.

Lemma lookup_eq_find : forall t k,
  ssorted (elements t) -> node_elem (lookup_node cmp ks t k) = amap_find k (elements t).
Proof.
  induction t as [|ti tl IHl tc tv td tr IHr]; intros k Hs; cbn [lookup_node elements]; [reflexivity|].
  apply ssorted_app in Hs. destruct Hs as (Sl & Sr & Fl & Fr).
  rewrite Forall_forall in Fl, Fr. unfold amap_find in *.
  destruct (cmp k (firstnN ks td) =? 0) eqn:E0.
  - apply Z.eqb_eq in E0. cbn [node_elem].
    rewrite find_app_none.
    + cbn [find]. change (key (ti, tv, td)) with (firstnN ks td). apply Z.eqb_eq in E0. rewrite E0. reflexivity.
    + intros x Hx. apply Z.eqb_neq. specialize (Fl x Hx).
      assert (lt (key x) k).
      { eapply lt_le_trans; [exact Fl|]. unfold le, key, e_data. cbn [snd]. apply cmp_eq_sym in E0. lia. }
      apply lt_ne in H. tauto.
  - apply Z.eqb_neq in E0. destruct (cmp k (firstnN ks td) <? 0) eqn:E1.
    + apply Z.ltb_lt in E1. rewrite IHl by exact Sl.
      destruct (find (fun e => cmp k (key e) =? 0) (elements tl)) as [x|] eqn:Ef.
      * symmetry. apply find_app_some. exact Ef.
      * rewrite find_app_none.
        -- cbn [find]. change (key (ti, tv, td)) with (firstnN ks td).
           replace (cmp k (firstnN ks td) =? 0) with false by (symmetry; apply Z.eqb_neq; exact E0).
           symmetry. apply find_none_all. intros x Hx. apply Z.eqb_neq.
           assert (lt k (key x)) by (eapply lt_le_trans; [exact E1|apply lt_le; apply Fr; exact Hx]).
           apply lt_ne in H. tauto.
        -- intros x Hx. eapply find_none in Ef; eauto.
    + apply Z.ltb_ge in E1. rewrite IHr by exact Sr.
      assert (Hgt : lt (key (ti, tv, td)) k).
      { unfold lt, key, e_data. cbn [snd]. destruct (cmp_antisym (firstnN ks td) k). lia. }
      rewrite find_app_none.
      * cbn [find]. change (key (ti, tv, td)) with (firstnN ks td).
        replace (cmp k (firstnN ks td) =? 0) with false by (symmetry; apply Z.eqb_neq; exact E0).
        reflexivity.
      * intros x Hx. apply Z.eqb_neq.
        assert (lt (key x) k) by (eapply lt_le_trans; [apply Fl; exact Hx|apply lt_le; exact Hgt]).
        apply lt_ne in H. tauto.
Qed.

End ORDER.
