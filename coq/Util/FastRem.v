(* lib/util/src/fast_urem_by_const.h: REMAINDER_MAGIC, _mul32by64_hi, util_fast_urem32
   (the remainder by a table constant that hash_table.c uses for the start address and the
   step of its probing sequence), and the proof that it is the remainder for every 32 bit
   dividend and every divisor 1 < d < 2^32 -- so the assert(result == n % d) in the C code
   never fires and the model may use [mod]. *)
From Coq Require Import NArith ZArith Lia.
From SqfsV Require Import Util.GenUtil.
Local Open Scope N_scope.

Definition two32 : N := 2 ^ util_sizeof_u32_bits.
Definition two64 : N := 2 ^ util_sizeof_u64_bits.

(* #define REMAINDER_MAGIC(divisor) ((sqfs_u64) ~0ull / (divisor) + 1) *)
Definition remainder_magic (d : N) : N := ((two64 - 1) / d + 1) mod two64.

(* ((__uint128_t) b * a) >> 64, returned as sqfs_u32 *)
Definition mul32by64_hi (a b : N) : N := ((b * a) / two64) mod two32.

(* sqfs_u64 lowbits = magic * n; sqfs_u32 result = _mul32by64_hi(d, lowbits); *)
Definition fast_urem32 (n d magic : N) : N :=
  let lowbits := (magic * n) mod two64 in
  mul32by64_hi d lowbits.

Lemma two32_val : two32 = 4294967296.
Proof. reflexivity. Qed.
Lemma two64_val : two64 = 18446744073709551616.
Proof. reflexivity. Qed.

Section Z.
Local Open Scope Z_scope.

Lemma fast_urem_Z : forall n d : Z,
  0 <= n < 4294967296 -> 1 < d < 4294967296 ->
  let F := 18446744073709551616 in
  let c := ((F - 1) / d + 1) mod F in
  (((d * ((c * n) mod F)) / F) mod 4294967296) = n mod d.
Proof.
  intros n d Hn Hd F c.
  assert (HF : F = 18446744073709551616) by reflexivity.
  pose proof (Z.div_mod (F - 1) d ltac:(lia)) as Hq0.
  pose proof (Z.mod_pos_bound (F - 1) d ltac:(lia)) as Hr0.
  assert (Hq0pos : 0 <= (F - 1) / d) by (apply Z.div_pos; lia).
  set (q0 := (F - 1) / d) in *. set (r0 := (F - 1) mod d) in *. clearbody q0 r0.
  assert (Hc : c = q0 + 1).
  { unfold c. apply Z.mod_small. split; [lia|].
    assert (2 * q0 <= d * q0) by nia. lia. }
  set (e := d - 1 - r0).
  assert (He : 0 <= e < d) by (unfold e; lia).
  assert (Hcd : c * d = F + e) by (rewrite Hc; unfold e; lia).
  pose proof (Z.div_mod n d ltac:(lia)) as Hq.
  pose proof (Z.mod_pos_bound n d ltac:(lia)) as Hr.
  assert (Hqpos : 0 <= n / d) by (apply Z.div_pos; lia).
  assert (Hgoal : n mod d = n mod d) by reflexivity.
  set (q := n / d) in *. set (r := n mod d) in *. clearbody q r.
  set (L := q * e + c * r).
  assert (HcN : c * n = q * F + L).
  { unfold L. rewrite Hq.
    replace (c * (d * q + r)) with ((c * d) * q + c * r) by ring. rewrite Hcd. ring. }
  assert (HLd : L * d = F * r + e * n).
  { unfold L. replace ((q * e + c * r) * d) with (q * e * d + (c * d) * r) by ring.
    rewrite Hcd. rewrite Hq. ring. }
  assert (Hen : 0 <= e * n < F).
  { split; [apply Z.mul_nonneg_nonneg; lia|].
    apply Z.lt_le_trans with (4294967296 * 4294967296); [apply Z.mul_lt_mono_nonneg; lia|].
    rewrite HF. discriminate. }
  assert (HL0 : 0 <= L).
  { unfold L. apply Z.add_nonneg_nonneg; apply Z.mul_nonneg_nonneg; lia. }
  assert (HLF : L < F).
  { apply Z.mul_lt_mono_pos_r with d; [lia|]. rewrite HLd.
    apply Z.lt_le_trans with (F * (r + 1)); [lia|]. apply Z.mul_le_mono_nonneg_l; lia. }
  assert (Hlow : (c * n) mod F = L).
  { symmetry. apply Z.mod_unique with q; [left; lia | lia]. }
  rewrite Hlow.
  assert (Hhi : (d * L) / F = r).
  { symmetry. apply Z.div_unique with (e * n); [left; lia | lia]. }
  rewrite Hhi. apply Z.mod_small. lia.
Qed.
End Z.

Theorem fast_urem32_correct : forall n d,
  n < two32 -> 1 < d -> d < two32 ->
  fast_urem32 n d (remainder_magic d) = n mod d.
Proof.
  intros n d Hn Hd1 Hd2. rewrite two32_val in *.
  unfold fast_urem32, mul32by64_hi, remainder_magic. rewrite two32_val, two64_val.
  apply N2Z.inj.
  pose proof (fast_urem_Z (Z.of_N n) (Z.of_N d) ltac:(lia) ltac:(lia)) as H.
  cbv zeta in H.
  rewrite !N2Z.inj_mod, !N2Z.inj_div, !N2Z.inj_mul, !N2Z.inj_mod, !N2Z.inj_mul, N2Z.inj_mod, N2Z.inj_add,
    N2Z.inj_div, N2Z.inj_sub by lia.
  change (Z.of_N 18446744073709551616) with 18446744073709551616%Z.
  change (Z.of_N 4294967296) with 4294967296%Z. change (Z.of_N 1) with 1%Z.
  rewrite (Z.mul_comm _ (Z.of_N d)). exact H.
Qed.

(* every row of hash_sizes[] carries the magic of its own divisor *)
Definition row_magic_ok (r : N * N * N * N * N) : bool :=
  let '(_, size, rehash, size_magic, rehash_magic) := r in
  (size_magic =? remainder_magic size) && (rehash_magic =? remainder_magic rehash) &&
  (1 <? size) && (size <? two32) && (1 <? rehash) && (rehash <? two32).

Lemma hash_sizes_magic_ok : List.forallb row_magic_ok util_hash_sizes = true.
Proof. vm_compute. reflexivity. Qed.
