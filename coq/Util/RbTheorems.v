(* rbtree.c: the statements about rbtree_t values -- invariant, insert / lookup against the
   sorted association list, rbtree_copy -- assembled from RbOrder.v and RbBalance.v, plus the
   computed witnesses that document why the hypotheses are there. *)
From Coq Require Import NArith ZArith List Bool Lia Sorting.Sorted.
From SqfsV Require Import Gen.Constants Util.GenUtil Util.RbModel Util.RbOrder Util.RbBalance.
Import ListNotations.
Local Open Scope N_scope.

Definition e_id (e : elem) : N := fst (fst e).
Definition e_voff (e : elem) : N := snd (fst e).

Definition ids (t : tree) : list N := map e_id (elements t).

Fixpoint erase (t : tree) : tree :=
  match t with
  | Leaf => Leaf
  | Node _ l c v d r => Node 0 (erase l) c v d (erase r)
  end.

Fixpoint tsize (t : tree) : N :=
  match t with Leaf => 0 | Node _ l _ _ _ r => tsize l + 1 + tsize r end.

Lemma elements_erase : forall t, elements (erase t) = map (fun e => (0, e_voff e, e_data e)) (elements t).
Proof.
  induction t as [|i l IHl c v d r IHr]; cbn; [reflexivity|].
  rewrite map_app. cbn. rewrite IHl, IHr. reflexivity.
Qed.

(* every node has value_offset = key_size_padded and key_size_padded + value_size data bytes *)
Definition node_layout (ksp vs : N) (e : elem) : Prop :=
  e_voff e = ksp /\ lenN (e_data e) = ksp + vs.

Definition layout_ok (t : rbtree) : Prop :=
  rb_key_size t <= rb_key_size_padded t /\
  Forall (node_layout (rb_key_size_padded t) (rb_value_size t)) (elements (rb_root t)).

Lemma firstnN_all : forall (A : Type) (l : list A), firstnN (lenN l) l = l.
Proof. intros. unfold firstnN, lenN. rewrite Nat2N.id. apply firstn_all. Qed.

Lemma hdr_is_sizeof : util_offsetof_rbnode_data = util_sizeof_rbnode.
Proof. reflexivity. Qed.

Lemma copy_data_full : forall ksp vs d,
  lenN d = ksp + vs ->
  copy_data (util_sizeof_rbnode + ksp + vs) (util_sizeof_rbnode + ksp + vs) d = Some d.
Proof.
  intros ksp vs d H. unfold copy_data. rewrite hdr_is_sizeof.
  set (h := util_sizeof_rbnode).
  replace (h + ksp + vs <? h) with false by (symmetry; apply N.ltb_ge; lia).
  replace (h + ksp + vs <? h + ksp + vs) with false by (symmetry; apply N.ltb_ge; lia).
  replace (h + ksp + vs - h) with (ksp + vs) by lia.
  replace (lenN d <? ksp + vs) with false by (symmetry; apply N.ltb_ge; lia).
  cbn [orb]. rewrite <- H, firstnN_all. rewrite N.sub_diag. unfold zeros. cbn. rewrite app_nil_r. reflexivity.
Qed.

Lemma NoDup_mid : forall (A : Type) (a b : list A) (x : A),
  NoDup a -> NoDup b -> (forall y, In y a -> ~ (x = y \/ In y b)) -> ~ In x b -> NoDup (a ++ x :: b).
Proof.
  induction a as [|y a IH]; intros b x Ha Hb Hd Hx; cbn.
  - constructor; assumption.
  - inversion Ha; subst. constructor.
    + intro Hin. apply in_app_or in Hin. destruct Hin as [Hin|[->|Hin]].
      * contradiction.
      * apply (Hd y); [left; reflexivity|left; reflexivity].
      * apply (Hd y); [left; reflexivity|right; exact Hin].
    + apply IH; auto. intros z Hz. apply Hd. right. exact Hz.
Qed.

(* copy_node: the same tree (shape, colours, value offsets, ALL data bytes) made of the nodes
   next, next+1, ... in the order of the calloc calls *)
Lemma copy_node_spec : forall ksp vs t next,
  Forall (node_layout ksp vs) (elements t) ->
  exists t',
    copy_node (util_sizeof_rbnode + ksp + vs) (util_sizeof_rbnode + ksp + vs) t next
      = Some (t', next + tsize t) /\
    erase t' = erase t /\
    Forall (fun i => next <= i < next + tsize t) (ids t') /\
    NoDup (ids t').
Proof.
  intros ksp vs. induction t as [|i l IHl c v d r IHr]; intros next H.
  - exists Leaf. cbn. rewrite N.add_0_r. repeat split; constructor.
  - cbn [elements] in H. rewrite Forall_app in H. destruct H as [Hl Hr]. inversion Hr as [|? ? Hn Hr']; subst.
    destruct Hn as [_ Hlen]. cbn [e_data snd] in Hlen.
    cbn [copy_node]. rewrite (copy_data_full _ _ _ Hlen).
    destruct (IHl (next + 1) Hl) as (l' & -> & El & Fl & Nl).
    destruct (IHr (next + 1 + tsize l) Hr') as (r' & -> & Er & Fr & Nr).
    eexists. split; [f_equal; f_equal; cbn [tsize]; lia|].
    split; [cbn; rewrite El, Er; reflexivity|].
    unfold ids in *. cbn [elements tsize]. rewrite map_app. cbn [map e_id fst].
    split.
    + rewrite Forall_app. split; [|constructor].
      * eapply Forall_impl; [|exact Fl]. cbn. intros; lia.
      * lia.
      * eapply Forall_impl; [|exact Fr]. cbn. intros; lia.
    + rewrite Forall_forall in Fl, Fr. apply NoDup_mid; auto.
      * intros x Hx [Hy|Hy].
        -- specialize (Fl _ Hx). lia.
        -- specialize (Fl _ Hx). specialize (Fr _ Hy). lia.
      * intros Hx. specialize (Fr _ Hx). lia.
Qed.

(* ---- list / byte-layout helpers ---- *)
Lemma lenN_app : forall (A : Type) (a b : list A), lenN (a ++ b) = lenN a + lenN b.
Proof. intros. unfold lenN. rewrite app_length. lia. Qed.

Lemma lenN_zeros : forall n, lenN (zeros n) = n.
Proof. intros. unfold lenN, zeros. rewrite repeat_length. lia. Qed.

Lemma firstnN_exact : forall (A : Type) (l : list A) n, lenN l = n -> firstnN n l = l.
Proof. intros A l n <-. apply firstnN_all. Qed.

Lemma firstnN_app_l : forall (A : Type) (a b : list A), firstnN (lenN a) (a ++ b) = a.
Proof.
  intros. unfold firstnN, lenN. rewrite Nat2N.id, firstn_app, Nat.sub_diag, firstn_all. cbn.
  apply app_nil_r.
Qed.

Lemma skipnN_app_l : forall (A : Type) (a b : list A), skipnN (lenN a) (a ++ b) = b.
Proof.
  intros. unfold skipnN, lenN. rewrite Nat2N.id, skipn_app, Nat.sub_diag, skipn_all. reflexivity.
Qed.

Definition mkdata (t : rbtree) (key value : list N) : list N :=
  firstnN (rb_key_size t) key ++ zeros (rb_key_size_padded t - rb_key_size t) ++ firstnN (rb_value_size t) value.

Definition new_elem (t : rbtree) (next : N) (key value : list N) : elem :=
  (next, rb_key_size_padded t, mkdata t key value).

Lemma mkdata_len : forall t key value,
  rb_key_size t <= rb_key_size_padded t -> lenN key = rb_key_size t -> lenN value = rb_value_size t ->
  lenN (mkdata t key value) = rb_key_size_padded t + rb_value_size t.
Proof.
  intros t key value Hle Hk Hv. unfold mkdata.
  rewrite (firstnN_exact _ _ _ Hk), (firstnN_exact _ _ _ Hv), !lenN_app, lenN_zeros. lia.
Qed.

(* the key and the value can be read back from the node: key = first key_size bytes,
   value = value_size bytes at value_offset *)
Lemma mkdata_key : forall t key value,
  lenN key = rb_key_size t -> firstnN (rb_key_size t) (mkdata t key value) = key.
Proof.
  intros t key value Hk. unfold mkdata. rewrite (firstnN_exact _ _ _ Hk). rewrite <- Hk. apply firstnN_app_l.
Qed.

Lemma mkdata_value : forall t key value,
  rb_key_size t <= rb_key_size_padded t -> lenN key = rb_key_size t -> lenN value = rb_value_size t ->
  firstnN (rb_value_size t) (skipnN (rb_key_size_padded t) (mkdata t key value)) = value.
Proof.
  intros t key value Hle Hk Hv. unfold mkdata.
  rewrite (firstnN_exact _ _ _ Hk), (firstnN_exact _ _ _ Hv), app_assoc.
  replace (rb_key_size_padded t) with (lenN (key ++ zeros (rb_key_size_padded t - rb_key_size t))) at 1
    by (rewrite lenN_app, lenN_zeros; lia).
  rewrite skipnN_app_l. apply firstnN_exact. exact Hv.
Qed.

Section TOP.
Variable cmp : list N -> list N -> Z.
Hypothesis cmp_antisym : forall a b, (cmp a b < 0 <-> 0 < cmp b a)%Z.
Hypothesis cmp_trans : forall a b c, (cmp a b <= 0 -> cmp b c <= 0 -> cmp a c <= 0)%Z.

(* rbtree_inv: search-tree order of the in-order sequence, red-black shape with a black root
   (no red node with a red child, no red right child, equal black height), node layout *)
Definition rbtree_inv (t : rbtree) : Prop :=
  sorted cmp (rb_key_size t) (elements (rb_root t)) /\
  (exists n, rb (rb_root t) false n) /\
  layout_ok t.

Lemma rbtree_init_inv : forall ks vs,
  fst (rbtree_init ks vs) = 0%Z ->
  let t := snd (rbtree_init ks vs) in
  rb_root t = Leaf /\ rb_key_size t = ks /\ rb_value_size t = vs /\
  ks <= rb_key_size_padded t /\ rb_key_size_padded t mod util_sizeof_ptr = 0 /\
  rb_key_size_padded t < ks + util_sizeof_ptr /\ rbtree_inv t.
Proof.
  intros ks vs H. unfold rbtree_init in *.
  set (diff := ks mod util_sizeof_ptr) in *.
  set (padded := if diff =? 0 then ks else ks + (util_sizeof_ptr - diff)) in *.
  assert (Hp : ks <= padded /\ padded mod util_sizeof_ptr = 0 /\ padded < ks + util_sizeof_ptr).
  { unfold padded. pose proof (N.mod_upper_bound ks util_sizeof_ptr ltac:(discriminate)) as Hb.
    fold diff in Hb. destruct (diff =? 0) eqn:E.
    - apply N.eqb_eq in E. split; [lia|]. split; [exact E|]. change util_sizeof_ptr with 8. lia.
    - apply N.eqb_neq in E. split; [lia|]. split; [|lia].
      pose proof (N.div_mod ks util_sizeof_ptr ltac:(discriminate)) as Hd. fold diff in Hd.
      replace (ks + (util_sizeof_ptr - diff)) with ((ks / util_sizeof_ptr + 1) * util_sizeof_ptr) by lia.
      apply N.mod_mul. discriminate. }
  destruct (util_size_max <? padded); [discriminate|].
  destruct ((util_sizeof_u32_bits <? 8 * util_sizeof_size_t) && (4294967295 <? padded)); [discriminate|].
  destruct (util_size_max <? util_sizeof_rbnode + padded); [discriminate|].
  destruct (util_size_max <? util_sizeof_rbnode + padded + vs); [discriminate|].
  cbn [snd rb_root rb_key_size rb_value_size rb_key_size_padded].
  destruct Hp as (P1 & P2 & P3). repeat split; auto.
  - constructor.
  - exists 0%nat. constructor.
  - constructor.
Qed.

Theorem rbtree_insert_inv : forall t next key value,
  rbtree_inv t -> lenN key = rb_key_size t -> lenN value = rb_value_size t ->
  exists t',
    rbtree_insert cmp t next key value = Some (t', next + 1) /\
    rbtree_inv t' /\
    rb_key_size t' = rb_key_size t /\ rb_key_size_padded t' = rb_key_size_padded t /\
    rb_value_size t' = rb_value_size t /\
    elements (rb_root t') =
      ins_sorted cmp (rb_key_size t) (new_elem t next key value) (elements (rb_root t)).
Proof.
  intros t next key value (Hs & (n & Hrb) & (Hle & Hlay)) Hk Hv.
  unfold rbtree_insert, mknode. fold (mkdata t key value).
  destruct (insert_root_rb cmp (rb_key_size t) (rb_root t) n next (rb_key_size_padded t) (mkdata t key value) Hrb)
    as (i & l & c & v & d & r & m & E & Hrb' & _).
  rewrite E.
  pose proof (insert_elements cmp (rb_key_size t) cmp_antisym cmp_trans (rb_root t) _ _
                ltac:(repeat eexists) Hs E) as Hel.
  cbn [elem_of] in Hel. fold (new_elem t next key value) in Hel.
  eexists. split; [reflexivity|]. unfold rbtree_inv, layout_ok.
  cbn [set_root rb_root rb_key_size rb_key_size_padded rb_value_size].
  assert (Hel' : elements (Node i l false v d r) = elements (Node i l c v d r)) by reflexivity.
  repeat split; auto.
  - rewrite Hel', Hel. apply ins_sorted_sorted; assumption.
  - exists m. exact Hrb'.
  - rewrite Hel', Hel. apply Forall_forall. intros e He. apply ins_sorted_In in He. destruct He as [->|He].
    + split; [reflexivity|]. cbn [e_data new_elem snd]. apply mkdata_len; assumption.
    + rewrite Forall_forall in Hlay. apply Hlay. exact He.
Qed.

Theorem rbtree_lookup_spec : forall t k,
  rbtree_inv t ->
  match rbtree_lookup cmp t k with
  | Leaf => forall e, In e (elements (rb_root t)) -> cmp k (key (rb_key_size t) e) <> 0%Z
  | Node i _ _ v d _ => In (i, v, d) (elements (rb_root t)) /\ cmp k (firstnN (rb_key_size t) d) = 0%Z
  end.
Proof.
  intros t k (Hs & _ & _). unfold rbtree_lookup.
  destruct (lookup_node cmp (rb_key_size t) (rb_root t) k) eqn:E.
  - apply (lookup_complete cmp (rb_key_size t) cmp_antisym cmp_trans); assumption.
  - eapply lookup_sound; eassumption.
Qed.

(* ---- the tree as a finite map: every sequence of "look up, insert if absent" (what
        dir_reader.c, dir_hl.c and xattr_writer.c do) from rbtree_init ---- *)
Definition rb_put (st : rbtree * N) (kv : list N * list N) : option (rbtree * N) :=
  let '(t, next) := st in
  match rbtree_lookup cmp t (fst kv) with
  | Leaf => rbtree_insert cmp t next (fst kv) (snd kv)
  | _ => Some st
  end.

Fixpoint rb_puts (st : rbtree * N) (l : list (list N * list N)) : option (rbtree * N) :=
  match l with
  | [] => Some st
  | kv :: r => match rb_put st kv with Some st' => rb_puts st' r | None => None end
  end.

(* the abstract map: association list sorted by key, first binding of a key wins *)
Definition amap_put (t0 : rbtree) (st : list elem * N) (kv : list N * list N) : list elem * N :=
  let '(l, next) := st in
  match amap_find cmp (rb_key_size t0) (fst kv) l with
  | None => (ins_sorted cmp (rb_key_size t0) (new_elem t0 next (fst kv) (snd kv)) l, next + 1)
  | Some _ => st
  end.

Definition same_sizes (a b : rbtree) : Prop :=
  rb_key_size a = rb_key_size b /\ rb_key_size_padded a = rb_key_size_padded b /\
  rb_value_size a = rb_value_size b.

Theorem rbtree_refines_map : forall ops t next,
  rbtree_inv t -> ssorted cmp (rb_key_size t) (elements (rb_root t)) ->
  Forall (fun kv => lenN (fst kv) = rb_key_size t /\ lenN (snd kv) = rb_value_size t) ops ->
  exists t' next',
    rb_puts (t, next) ops = Some (t', next') /\
    (elements (rb_root t'), next') = fold_left (amap_put t) ops (elements (rb_root t), next) /\
    rbtree_inv t' /\ ssorted cmp (rb_key_size t') (elements (rb_root t')) /\ same_sizes t' t /\
    forall k, node_elem (rbtree_lookup cmp t' k) = amap_find cmp (rb_key_size t') k (elements (rb_root t')).
Proof.
  induction ops as [|kv ops IH]; intros t next Hinv Hss Hops.
  - exists t, next. cbn [rb_puts fold_left].
    split; [reflexivity|]. split; [reflexivity|]. split; [exact Hinv|]. split; [exact Hss|].
    split; [repeat split|]. intro k. apply lookup_eq_find; assumption.
  - inversion Hops as [|? ? [Hk Hv] Hops']; subst.
    cbn [rb_puts rb_put fold_left amap_put].
    pose proof (lookup_eq_find cmp (rb_key_size t) cmp_antisym cmp_trans (rb_root t) (fst kv) Hss) as Hfind.
    fold (rbtree_lookup cmp t (fst kv)) in Hfind.
    destruct (rbtree_lookup cmp t (fst kv)) as [|fi fl fc fv fd fr] eqn:El.
    + cbn [node_elem] in Hfind. rewrite <- Hfind.
      destruct (rbtree_insert_inv t next (fst kv) (snd kv) Hinv Hk Hv)
        as (t1 & E & Hinv1 & S1 & S2 & S3 & Hel).
      rewrite E.
      assert (Hss1 : ssorted cmp (rb_key_size t1) (elements (rb_root t1))).
      { rewrite S1, Hel. apply ins_sorted_ssorted; auto.
        intros y Hy. change (key (rb_key_size t) (new_elem t next (fst kv) (snd kv)))
          with (firstnN (rb_key_size t) (mkdata t (fst kv) (snd kv))).
        rewrite mkdata_key by exact Hk.
        pose proof (rbtree_lookup_spec t (fst kv) Hinv) as Hsp. rewrite El in Hsp. apply Hsp. exact Hy. }
      assert (Hops1 : Forall (fun kv0 => lenN (fst kv0) = rb_key_size t1 /\ lenN (snd kv0) = rb_value_size t1) ops).
      { rewrite S1, S3. exact Hops'. }
      destruct (IH t1 (next + 1) Hinv1 Hss1 Hops1) as (t' & next' & R & F & I' & SS' & (Z1 & Z2 & Z3) & L').
      exists t', next'. split; [exact R|]. split.
      * rewrite F, Hel.
        assert (Hput : forall st kv0, amap_put t1 st kv0 = amap_put t st kv0).
        { intros [l0 n0] kv0. unfold amap_put, new_elem, mkdata. rewrite S1, S2, S3. reflexivity. }
        clear -Hput. revert Hput. generalize (ins_sorted cmp (rb_key_size t) (new_elem t next (fst kv) (snd kv))
                                                (elements (rb_root t)), next + 1).
        induction ops as [|o ops IHo]; intros st Hput; cbn; [reflexivity|]. rewrite Hput. apply IHo. exact Hput.
      * split; [exact I'|]. split; [exact SS'|]. split; [repeat split; congruence|exact L'].
    + cbn [node_elem] in Hfind. rewrite <- Hfind.
      destruct (IH t next Hinv Hss Hops') as (t' & next' & R & F & Rest).
      exists t', next'. split; [exact R|]. split; [exact F|exact Rest].
Qed.

(* ---- rbtree_copy ---- *)
Theorem rbtree_copy_equiv : forall t next,
  layout_ok t ->
  exists t',
    rbtree_copy t next = Some (t', next + tsize (rb_root t)) /\
    erase (rb_root t') = erase (rb_root t) /\
    same_sizes t' t /\
    map (fun e => (e_voff e, e_data e)) (elements (rb_root t')) =
      map (fun e => (e_voff e, e_data e)) (elements (rb_root t)) /\
    Forall (fun i => next <= i < next + tsize (rb_root t)) (ids (rb_root t')) /\
    NoDup (ids (rb_root t')) /\
    (Forall (fun i => i < next) (ids (rb_root t)) ->
     forall i, In i (ids (rb_root t)) -> ~ In i (ids (rb_root t'))).
Proof.
  intros t next (Hle & Hlay). unfold rbtree_copy.
  destruct (copy_node_spec _ _ (rb_root t) next Hlay) as (r' & -> & Er & Fr & Nr).
  eexists. split; [reflexivity|]. cbn [set_root rb_root rb_key_size rb_key_size_padded rb_value_size].
  split; [exact Er|]. split; [repeat split|]. split.
  - assert (H : elements (erase r') = elements (erase (rb_root t))) by (rewrite Er; reflexivity).
    rewrite !elements_erase in H.
    apply (f_equal (map (fun e : elem => (e_voff e, e_data e)))) in H.
    rewrite !map_map in H. cbn in H. exact H.
  - split; [exact Fr|]. split; [exact Nr|].
    intros Hold i Hi Hi'. rewrite Forall_forall in Hold, Fr. specialize (Hold _ Hi). specialize (Fr _ Hi'). lia.
Qed.

(* the copy satisfies the same invariant and is the same finite map *)
Lemma erase_rb : forall t c n, rb t c n -> forall t', erase t' = erase t -> rb t' c n.
Proof.
  induction 1; intros t' E; destruct t'; cbn in E; try discriminate; inversion E; subst.
  - constructor.
  - apply rb_black2; auto.
  - apply rb_black3; auto.
  - apply rb_red; auto.
Qed.

Lemma sorted_map_eq : forall ks (l1 l2 : list elem),
  map (fun e => (e_voff e, e_data e)) l1 = map (fun e => (e_voff e, e_data e)) l2 ->
  sorted cmp ks l2 -> sorted cmp ks l1.
Proof.
  intros ks l1. induction l1 as [|a l1 IH]; intros l2 E H; destruct l2 as [|b l2]; try discriminate.
  - constructor.
  - cbn in E. inversion E as [[E1 E2 E3]]. inversion H; subst. constructor; [eapply IH; eauto|].
    assert (Hk : key ks a = key ks b) by (unfold key; rewrite E2; reflexivity).
    rewrite Hk. clear - E3 H3. revert l2 E3 H3. induction l1 as [|x l1 IHl]; intros l2 E3 H3;
      destruct l2 as [|y l2]; try discriminate; constructor; inversion E3; inversion H3; subst.
    + unfold key. rewrite H1. assumption.
    + eapply IHl; eauto.
Qed.

Theorem rbtree_copy_inv : forall t next t' next',
  rbtree_inv t -> rbtree_copy t next = Some (t', next') -> rbtree_inv t'.
Proof.
  intros t next t' next' (Hs & (n & Hrb) & Hlay) E.
  destruct (rbtree_copy_equiv t next Hlay) as (t1 & E1 & Er & (S1 & S2 & S3) & Hm & _).
  rewrite E in E1. inversion E1; subst t1. clear E1.
  split; [|split].
  - rewrite S1. eapply sorted_map_eq; eauto.
  - exists n. eapply erase_rb; eauto.
  - destruct Hlay as [Hle Hl]. split; [rewrite S1, S2; exact Hle|].
    rewrite S2, S3. clear - Hm Hl. revert Hm Hl.
    generalize (elements (rb_root t)) as l2. generalize (elements (rb_root t')) as l1.
    induction l1 as [|a l1 IH]; intros l2 Hm Hl; destruct l2 as [|b l2]; try discriminate; constructor;
      inversion Hm; inversion Hl; subst.
    + unfold node_layout in *. rewrite H0, H1. assumption.
    + eapply IH; eauto.
Qed.

End TOP.
