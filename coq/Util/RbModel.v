(* lib/util/src/rbtree.c -- executable model, definitions only (extracted).

   A node is (allocation id, left, is_red, value_offset, data[], right); data[] is the
   flexible array member of key_size_padded + value_size bytes holding the key, the padding
   and the value.  The allocation id stands for the address calloc returned: the allocator
   is a counter threaded through mknode / copy_node, so that "the copy consists of other
   nodes than the original" is a statement about ids.  rotate_left / rotate_right /
   flip_colors dereference n->right / n->left: where the C code would dereference NULL the
   model returns [None] (proved unreachable from subtree_balance).  The comparator is a
   function of the key bytes (the first key_size bytes of data[]) returning the C int.
   Sizes are numbers: copy_node's memcpy length sizeof *n + key_size_padded + value_size is
   computed as in C and applied to the source node's bytes; bytes of the calloc'd target it
   does not reach stay zero.

   NOT modelled: allocation failure (calloc / mem_pool_allocate returning NULL and the
   unwinding in copy_node / rbtree_copy), the pool allocator variant (nodes come from
   mem_pool_allocate instead of calloc; same node contents). *)
From Coq Require Import NArith ZArith List Bool.
From SqfsV Require Import Gen.Constants Util.GenUtil.
Import ListNotations.
Local Open Scope N_scope.

Inductive tree : Type :=
| Leaf
| Node (id : N) (l : tree) (red : bool) (voff : N) (data : list N) (r : tree).

Record rbtree : Type := mk_rbtree {
  rb_root : tree;
  rb_key_size : N;
  rb_key_size_padded : N;
  rb_value_size : N
}.

Definition lenN {A : Type} (l : list A) : N := N.of_nat (length l).
Definition firstnN {A : Type} (n : N) (l : list A) : list A := firstn (N.to_nat n) l.
Definition skipnN {A : Type} (n : N) (l : list A) : list A := skipn (N.to_nat n) l.
Definition zeros (n : N) : list N := repeat 0 (N.to_nat n).

(* #define IS_RED(n) ((n) && (n)->is_red) *)
Definition is_red (t : tree) : bool :=
  match t with Node _ _ c _ _ _ => c | Leaf => false end.
Definition left (t : tree) : tree :=
  match t with Node _ l _ _ _ _ => l | Leaf => Leaf end.
Definition right (t : tree) : tree :=
  match t with Node _ _ _ _ _ r => r | Leaf => Leaf end.

Definition toggle (t : tree) : option tree :=
  match t with
  | Node i l c v d r => Some (Node i l (negb c) v d r)
  | Leaf => None
  end.

(* n->is_red = !n->is_red; n->left->is_red = !...; n->right->is_red = !... *)
Definition flip_colors (n : tree) : option tree :=
  match n with
  | Node i l c v d r =>
    match toggle l, toggle r with
    | Some l', Some r' => Some (Node i l' (negb c) v d r')
    | _, _ => None
    end
  | Leaf => None
  end.

(* x = n->left; n->left = x->right; x->right = n; x->is_red = n->is_red; n->is_red = 1 *)
Definition rotate_right (n : tree) : option tree :=
  match n with
  | Node i (Node xi xl _ xv xd xr) c v d r => Some (Node xi xl c xv xd (Node i xr true v d r))
  | _ => None
  end.

(* x = n->right; n->right = x->left; x->left = n; x->is_red = n->is_red; n->is_red = 1 *)
Definition rotate_left (n : tree) : option tree :=
  match n with
  | Node i l c v d (Node xi xl _ xv xd xr) => Some (Node xi (Node i l true v d xl) c xv xd xr)
  | _ => None
  end.

Definition subtree_balance (n : tree) : option tree :=
  match (if is_red (right n) && negb (is_red (left n)) then rotate_left n else Some n) with
  | None => None
  | Some n1 =>
    match (if is_red (left n1) && is_red (left (left n1)) then rotate_right n1 else Some n1) with
    | None => None
    | Some n2 =>
      if is_red (left n2) && is_red (right n2) then flip_colors n2 else Some n2
    end
  end.

Definition node_key (ks : N) (t : tree) : list N :=
  match t with Node _ _ _ _ d _ => firstnN ks d | Leaf => [] end.

(* rbtree_node_value: n->data + n->value_offset, value_size bytes *)
Definition node_value (vs : N) (t : tree) : list N :=
  match t with Node _ _ _ v d _ => firstnN vs (skipnN v d) | Leaf => [] end.

Section CMP.
Variable cmp : list N -> list N -> Z.       (* tree->key_compare(tree->key_context, lhs, rhs) *)
Variable ks : N.                            (* tree->key_size *)

Fixpoint subtree_insert (root new : tree) : option tree :=
  match root with
  | Leaf => Some new
  | Node i l c v d r =>
    if (cmp (node_key ks new) (firstnN ks d) <? 0)%Z then
      match subtree_insert l new with
      | Some l' => subtree_balance (Node i l' c v d r)
      | None => None
      end
    else
      match subtree_insert r new with
      | Some r' => subtree_balance (Node i l c v d r')
      | None => None
      end
  end.

(* rbtree_lookup: the node found (as the subtree rooted there) *)
Fixpoint lookup_node (t : tree) (key : list N) : tree :=
  match t with
  | Leaf => Leaf
  | Node _ l _ _ d r =>
    let ret := cmp key (firstnN ks d) in
    if (ret =? 0)%Z then t
    else if (ret <? 0)%Z then lookup_node l key else lookup_node r key
  end.
End CMP.

(* mknode: calloc(1, sizeof *node + key_size_padded + value_size); value_offset = key_size_padded;
   is_red = 1; memcpy(data, key, key_size); memcpy(data + key_size_padded, value, value_size) *)
Definition mknode (t : rbtree) (id : N) (key value : list N) : tree :=
  let ks := rb_key_size t in
  let ksp := rb_key_size_padded t in
  let vs := rb_value_size t in
  Node id Leaf true ksp (firstnN ks key ++ zeros (ksp - ks) ++ firstnN vs value) Leaf.

Definition set_root (t : rbtree) (r : tree) : rbtree :=
  mk_rbtree r (rb_key_size t) (rb_key_size_padded t) (rb_value_size t).

(* rbtree_insert; [next] is the allocation counter.  None = NULL dereference *)
Definition rbtree_insert (cmp : list N -> list N -> Z) (t : rbtree) (next : N) (key value : list N)
  : option (rbtree * N) :=
  match subtree_insert cmp (rb_key_size t) (rb_root t) (mknode t next key value) with
  | Some (Node i l _ v d r) => Some (set_root t (Node i l false v d r), next + 1)
  | _ => None
  end.

Definition rbtree_lookup (cmp : list N -> list N -> Z) (t : rbtree) (key : list N) : tree :=
  lookup_node cmp (rb_key_size t) (rb_root t) key.

(* rbtree_init: (return value, tree) *)
Definition rbtree_init (keysize valuesize : N) : Z * rbtree :=
  let zero := mk_rbtree Leaf 0 0 0 in
  let diff := keysize mod util_sizeof_ptr in
  let padded := if diff =? 0 then keysize else keysize + (util_sizeof_ptr - diff) in
  if util_size_max <? padded then (c_SQFS_ERROR_OVERFLOW, mk_rbtree Leaf keysize keysize valuesize)
  else if (util_sizeof_u32_bits <? 8 * util_sizeof_size_t) && (4294967295 <? padded)
  then (c_SQFS_ERROR_OVERFLOW, mk_rbtree Leaf keysize padded valuesize)
  else if util_size_max <? util_sizeof_rbnode + padded
  then (c_SQFS_ERROR_OVERFLOW, mk_rbtree Leaf keysize padded valuesize)
  else if util_size_max <? util_sizeof_rbnode + padded + valuesize
  then (c_SQFS_ERROR_OVERFLOW, mk_rbtree Leaf keysize padded valuesize)
  else (0%Z, mk_rbtree Leaf keysize padded valuesize).

(* the data[] part of memcpy(out, n, copy_len) into a calloc'd node of alloc_len bytes;
   None = the memcpy reads past the end of the source node / writes past the target *)
Definition copy_data (alloc_len copy_len : N) (d : list N) : option (list N) :=
  let hdr := util_offsetof_rbnode_data in
  if (copy_len <? hdr) || (alloc_len <? copy_len) || (lenN d <? copy_len - hdr) then None
  else Some (firstnN (copy_len - hdr) d ++ zeros (alloc_len - copy_len)).

(* copy_node: out = calloc(...); memcpy(out, n, ...); then the left, then the right subtree *)
Fixpoint copy_node (alloc_len copy_len : N) (n : tree) (next : N) : option (tree * N) :=
  match n with
  | Leaf => Some (Leaf, next)
  | Node _ l c v d r =>
    match copy_data alloc_len copy_len d with
    | None => None
    | Some d' =>
      match copy_node alloc_len copy_len l (next + 1) with
      | None => None
      | Some (l', n1) =>
        match copy_node alloc_len copy_len r n1 with
        | None => None
        | Some (r', n2) => Some (Node next l' c v d' r', n2)
        end
      end
    end
  end.

(* rbtree_copy: memcpy(out, tree, sizeof *out); out->root = copy_node(...) *)
Definition rbtree_copy (t : rbtree) (next : N) : option (rbtree * N) :=
  let len := util_sizeof_rbnode + rb_key_size_padded t + rb_value_size t in
  match copy_node len len (rb_root t) next with
  | Some (r, n) => Some (set_root t r, n)
  | None => None
  end.

(* observables: in-order dump (id, colour, depth, data) *)
Fixpoint dump (t : tree) (depth : N) : list (N * bool * N * N * list N) :=
  match t with
  | Leaf => []
  | Node i l c v d r => dump l (depth + 1) ++ (i, c, depth, v, d) :: dump r (depth + 1)
  end.

(* comparators of the callers *)
Fixpoint rd_le (l : list N) : N :=
  match l with [] => 0 | b :: r => b + 256 * rd_le r end.

(* dir_reader.c dcache_key_compare: sqfs_u32 keys, lhs < rhs ? -1 : (lhs > rhs ? 1 : 0) *)
Definition cmp_u32 (a b : list N) : Z :=
  let x := rd_le (firstn 4 a) in
  let y := rd_le (firstn 4 b) in
  if x <? y then (-1)%Z else if y <? x then 1%Z else 0%Z.

(* the comparator one would write as  return (int)(lhs - rhs);  on sqfs_u32 keys *)
Definition cmp_sub32 (a b : list N) : Z :=
  let x := Z.of_N (rd_le (firstn 4 a)) in
  let y := Z.of_N (rd_le (firstn 4 b)) in
  let d := ((x - y) mod 4294967296)%Z in
  if (d <? 2147483648)%Z then d else (d - 4294967296)%Z.

(* memcmp over the key bytes *)
Fixpoint cmp_bytes (a b : list N) : Z :=
  match a, b with
  | x :: a', y :: b' => if x <? y then (-1)%Z else if y <? x then 1%Z else cmp_bytes a' b'
  | [], [] => 0%Z
  | [], _ => (-1)%Z
  | _, [] => 1%Z
  end.
