(* rbtree.c: the red-black invariants of the left-leaning 2-3 tree and their preservation by
   subtree_insert / subtree_balance / rbtree_insert.  Independent of the comparator (whatever
   branch the comparison takes, the colour invariants are restored on the way up). *)
From Coq Require Import NArith ZArith List Bool Lia.
From SqfsV Require Import Util.GenUtil Util.RbModel Util.RbOrder.
Import ListNotations.

(* rb t c n: t is a left-leaning red-black tree whose root has colour c (true = red) and
   every path from the root to a NULL child passes n black nodes.
   - no red node has a red child (a red node's children are black),
   - a right child is never red,
   - a black node may have a red left child (a 3-node). *)
Inductive rb : tree -> bool -> nat -> Prop :=
| rb_leaf : rb Leaf false 0
| rb_black2 : forall i l v d r n,
    rb l false n -> rb r false n -> rb (Node i l false v d r) false (S n)
| rb_black3 : forall i l v d r n,
    rb l true n -> rb r false n -> rb (Node i l false v d r) false (S n)
| rb_red : forall i l v d r n,
    rb l false n -> rb r false n -> rb (Node i l true v d r) true n.

Lemma rb_is_red : forall t c n, rb t c n -> is_red t = c.
Proof. intros t c n H; destruct H; reflexivity. Qed.

(* the only transient violation: a red node whose left child is red *)
Definition redred (t : tree) (n : nat) : Prop :=
  exists i l v d r, t = Node i l true v d r /\ rb l true n /\ rb r false n.

Lemma balance_none : forall i l c v d r,
  is_red r = false -> is_red l && is_red (left l) = false ->
  subtree_balance (Node i l c v d r) = Some (Node i l c v d r).
Proof.
  intros i l c v d r Hr Hl. unfold subtree_balance. cbn [left right].
  rewrite Hr. cbn [andb left right]. rewrite Hl. cbn [left right]. rewrite Hr, andb_false_r. reflexivity.
Qed.

Lemma balance_rotl : forall i l c v d ri rl rv rd rr,
  is_red l = false -> is_red rr = false ->
  subtree_balance (Node i l c v d (Node ri rl true rv rd rr))
  = Some (Node ri (Node i l true v d rl) c rv rd rr).
Proof.
  intros. unfold subtree_balance. cbn [left right is_red]. rewrite H. cbn [negb andb rotate_left].
  cbn [left right is_red]. rewrite H. cbn [andb left right is_red]. rewrite H0. reflexivity.
Qed.

Lemma balance_rotr_flip : forall i c v d r li ai al av ad ar lv ld lr,
  is_red r = false ->
  subtree_balance (Node i (Node li (Node ai al true av ad ar) true lv ld lr) c v d r)
  = Some (Node li (Node ai al false av ad ar) (negb c) lv ld (Node i lr false v d r)).
Proof.
  intros. unfold subtree_balance. cbn [left right is_red]. rewrite H. cbn [negb andb rotate_right].
  cbn [left right is_red andb flip_colors toggle negb]. reflexivity.
Qed.

Lemma balance_flip : forall i c v d li ll lv ld lr ri rl rv rd rr,
  is_red ll = false ->
  subtree_balance (Node i (Node li ll true lv ld lr) c v d (Node ri rl true rv rd rr))
  = Some (Node i (Node li ll false lv ld lr) (negb c) v d (Node ri rl false rv rd rr)).
Proof.
  intros. unfold subtree_balance. cbn [left right is_red negb andb]. rewrite H. cbn [andb].
  cbn [left right is_red andb flip_colors toggle negb]. reflexivity.
Qed.

Lemma rb_red_inv : forall t n, rb t true n ->
  exists i l v d r, t = Node i l true v d r /\ rb l false n /\ rb r false n.
Proof. intros t n H. inversion H; subst. repeat eexists; eauto. Qed.

Section INS.
Variable cmp : list N -> list N -> Z.
Variable ks : N.

Definition ins_post (c : bool) (t' : tree) (n : nat) : Prop :=
  if c then rb t' true n \/ redred t' n else rb t' false n \/ rb t' true n.

Lemma ins_rb : forall t c n, rb t c n ->
  forall ni nv nd,
  exists t', subtree_insert cmp ks t (Node ni Leaf true nv nd Leaf) = Some t' /\ ins_post c t' n.
Proof.
  induction 1 as [ | i l v d r n Hl IHl Hr IHr | i l v d r n Hl IHl Hr IHr | i l v d r n Hl IHl Hr IHr];
    intros ni nv nd.
  - (* NULL: the new red node *)
    eexists. split; [reflexivity|]. right. apply rb_red; constructor.
  - (* black node, both children black *)
    cbn [subtree_insert].
    destruct (cmp (node_key ks (Node ni Leaf true nv nd Leaf)) (firstnN ks d) <? 0)%Z.
    + destruct (IHl ni nv nd) as (l' & -> & [Hb|Hred]).
      * eexists. split; [apply balance_none|].
        -- apply (rb_is_red _ _ _ Hr).
        -- rewrite (rb_is_red _ _ _ Hb). reflexivity.
        -- left. apply rb_black2; assumption.
      * destruct (rb_red_inv _ _ Hred) as (li & ll & lv & ld & lr & -> & Hll & Hlr).
        eexists. split; [apply balance_none|].
        -- apply (rb_is_red _ _ _ Hr).
        -- cbn [is_red left]. rewrite (rb_is_red _ _ _ Hll). reflexivity.
        -- left. apply rb_black3; [apply rb_red|]; assumption.
    + destruct (IHr ni nv nd) as (r' & -> & [Hb|Hred]).
      * eexists. split; [apply balance_none|].
        -- apply (rb_is_red _ _ _ Hb).
        -- rewrite (rb_is_red _ _ _ Hl). reflexivity.
        -- left. apply rb_black2; assumption.
      * destruct (rb_red_inv _ _ Hred) as (ri & rl & rv & rd & rr & -> & Hrl & Hrr).
        eexists. split; [apply balance_rotl|].
        -- apply (rb_is_red _ _ _ Hl).
        -- apply (rb_is_red _ _ _ Hrr).
        -- left. apply rb_black3; [apply rb_red|]; assumption.
  - (* black node with a red left child *)
    cbn [subtree_insert].
    destruct (rb_red_inv _ _ Hl) as (li & ll & lv & ld & lr & El & Hll & Hlr).
    destruct (cmp (node_key ks (Node ni Leaf true nv nd Leaf)) (firstnN ks d) <? 0)%Z.
    + destruct (IHl ni nv nd) as (l' & -> & [Hok|Hrr]).
      * destruct (rb_red_inv _ _ Hok) as (li' & ll' & lv' & ld' & lr' & -> & Hll' & Hlr').
        eexists. split; [apply balance_none|].
        -- apply (rb_is_red _ _ _ Hr).
        -- cbn [is_red left]. rewrite (rb_is_red _ _ _ Hll'). reflexivity.
        -- left. apply rb_black3; [apply rb_red|]; assumption.
      * destruct Hrr as (li' & ll' & lv' & ld' & lr' & -> & Hll' & Hlr').
        destruct (rb_red_inv _ _ Hll') as (ai & al & av & ad & ar & -> & Hal & Har).
        eexists. split; [apply balance_rotr_flip; apply (rb_is_red _ _ _ Hr)|].
        right. cbn [negb]. apply rb_red; apply rb_black2; assumption.
    + destruct (IHr ni nv nd) as (r' & -> & [Hb|Hred]).
      * eexists. split; [apply balance_none|].
        -- apply (rb_is_red _ _ _ Hb).
        -- subst l. cbn [is_red left]. rewrite (rb_is_red _ _ _ Hll). reflexivity.
        -- left. apply rb_black3; assumption.
      * destruct (rb_red_inv _ _ Hred) as (ri & rl & rv & rd & rr & -> & Hrl & Hrr).
        subst l. eexists. split; [apply balance_flip; apply (rb_is_red _ _ _ Hll)|].
        right. cbn [negb]. apply rb_red; apply rb_black2; assumption.
  - (* red node: both children black *)
    cbn [subtree_insert].
    destruct (cmp (node_key ks (Node ni Leaf true nv nd Leaf)) (firstnN ks d) <? 0)%Z.
    + destruct (IHl ni nv nd) as (l' & -> & [Hb|Hred]).
      * eexists. split; [apply balance_none|].
        -- apply (rb_is_red _ _ _ Hr).
        -- rewrite (rb_is_red _ _ _ Hb). reflexivity.
        -- left. apply rb_red; assumption.
      * destruct (rb_red_inv _ _ Hred) as (li & ll & lv & ld & lr & -> & Hll & Hlr).
        eexists. split; [apply balance_none|].
        -- apply (rb_is_red _ _ _ Hr).
        -- cbn [is_red left]. rewrite (rb_is_red _ _ _ Hll). reflexivity.
        -- right. repeat eexists; [apply rb_red; assumption|assumption].
    + destruct (IHr ni nv nd) as (r' & -> & [Hb|Hred]).
      * eexists. split; [apply balance_none|].
        -- apply (rb_is_red _ _ _ Hb).
        -- rewrite (rb_is_red _ _ _ Hl). reflexivity.
        -- left. apply rb_red; assumption.
      * destruct (rb_red_inv _ _ Hred) as (ri & rl & rv & rd & rr & -> & Hrl & Hrr).
        eexists. split; [apply balance_rotl|].
        -- apply (rb_is_red _ _ _ Hl).
        -- apply (rb_is_red _ _ _ Hrr).
        -- right. repeat eexists; [apply rb_red; assumption|assumption].
Qed.

(* rbtree_insert: tree->root = subtree_insert(...); tree->root->is_red = 0 *)
Theorem insert_root_rb : forall root n ni nv nd,
  rb root false n ->
  exists i l c v d r m,
    subtree_insert cmp ks root (Node ni Leaf true nv nd Leaf) = Some (Node i l c v d r) /\
    rb (Node i l false v d r) false m /\ (m = n \/ m = S n).
Proof.
  intros root n ni nv nd H.
  destruct (ins_rb _ _ _ H ni nv nd) as (t' & E & [Hb|Hr]).
  - inversion Hb; subst.
    + exfalso.
      destruct (subtree_insert_total cmp ks root (Node ni Leaf true nv nd Leaf)) as (? & ? & ? & ? & ? & ? & E');
        [repeat eexists|congruence].
    + do 7 eexists. split; [exact E|]. split; [apply rb_black2; eassumption|left; reflexivity].
    + do 7 eexists. split; [exact E|]. split; [apply rb_black3; eassumption|left; reflexivity].
  - destruct (rb_red_inv _ _ Hr) as (i & l & v & d & r & -> & Hl & Hrr).
    do 7 eexists. split; [exact E|]. split; [apply rb_black2; eassumption|right; reflexivity].
Qed.

End INS.
