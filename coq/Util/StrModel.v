(* lib/util/src/str_table.c -- executable model, definitions only (extracted).

   str_table_t = { bucket_ptrs (array_t of str_bucket_t pointers), ht (hash_table keyed by the
   string, data = the bucket), next_index }.  Buckets { index, refcount, string[] } live in a
   bucket heap shared by all tables of a run (address = allocation id, a counter), so that a
   copy that still points at the original's buckets is expressible.  A key of the hash table is
   a pointer to a string: the model keeps (owner, characters) where owner = the bucket whose
   string[] the pointer points into, or None for the caller's buffer (str_table_get_index
   inserts with the caller's pointer and then re-points ent->key to new->string).
   Strings are lists of non-zero bytes (strlen = length).

   The destination of str_table_copy is an existing struct (its only caller memcpy's the
   enclosing object first): fields the function does not assign keep the destination's values
   -- in particular next_index.

   NOT modelled: allocation failure (alloc_flex / hash_table_create / array growth returning
   NULL and the unwinding paths behind them: a failing array_append or hash_table_insert is
   reported as SQFS_ERROR_ALLOC with the state the model had before the call). *)
From Coq Require Import NArith ZArith List Bool.
From SqfsV Require Import Gen.Constants Util.GenUtil Util.FastRem Util.HashModel Util.ArrayModel.
Import ListNotations.
Local Open Scope N_scope.

Record bucket : Type := mk_bucket {
  b_index : N;
  b_refcount : N;
  b_string : list N
}.

Record bheap : Type := mk_bheap {
  bh_next : N;
  bh_cells : list (N * bucket)
}.

Fixpoint cells_get (l : list (N * bucket)) (id : N) : option bucket :=
  match l with
  | [] => None
  | (i, b) :: r => if i =? id then Some b else cells_get r id
  end.

Definition bh_get (h : bheap) (id : N) : option bucket := cells_get (bh_cells h) id.
Definition bh_set (h : bheap) (id : N) (b : bucket) : bheap :=
  mk_bheap (bh_next h) ((id, b) :: bh_cells h).
Definition bh_alloc (h : bheap) (b : bucket) : bheap * N :=
  (mk_bheap (bh_next h + 1) ((bh_next h, b) :: bh_cells h), bh_next h).

Definition skey : Type := (option N * list N)%type.

Fixpoint list_eqb (a b : list N) : bool :=
  match a, b with
  | [], [] => true
  | x :: a', y :: b' => (x =? y) && list_eqb a' b'
  | _, _ => false
  end.

(* key_equals_function: strcmp(a, b) == 0 *)
Definition str_keq (a b : skey) : bool := list_eqb (snd a) (snd b).

(* strhash: R5 hash over signed chars, 32 bit unsigned accumulator *)
Definition strhash_step (a : Z) (b : N) : Z :=
  let c := if b <? 128 then Z.of_N b else (Z.of_N b - 256)%Z in
  let a1 := ((a + (c mod 4294967296) * 16) mod 4294967296)%Z in
  let a2 := ((a1 + c / 16) mod 4294967296)%Z in
  ((a2 * 11) mod 4294967296)%Z.

Definition strhash (s : list N) : N := Z.to_N (fold_left strhash_step s 0%Z).

Record str_table : Type := mk_str_table {
  st_arr : arr N;
  st_ht : htab skey N;
  st_next_index : N
}.

Definition str_table_init : option (Z * str_table) :=
  match array_init N util_sizeof_ptr 0, ht_create skey N with
  | (0%Z, a), Some ht => Some (0%Z, mk_str_table a ht 0)
  | _, _ => None
  end.

Inductive sres (A : Type) : Type :=
| SOk (a : A)
| SCrash                       (* out of bounds / NULL / dangling pointer *)
| SOutOfFuel.
Arguments SOk {A} a.
Arguments SCrash {A}.
Arguments SOutOfFuel {A}.

(* str_table_get_index: (heap, table, return value, *idx) *)
Definition str_table_get_index (h : bheap) (t : str_table) (str : list N)
  : sres (bheap * str_table * Z * N) :=
  let hash := strhash str in
  match ht_search skey N str_keq (st_ht t) hash (None, str) with
  | Crash => SCrash
  | OutOfFuel => SOutOfFuel
  | Ok (Some a) =>
    match ht_entry skey N (st_ht t) a with
    | Some (_, _, bid) =>
      match bh_get h bid with
      | Some b => SOk (h, t, 0%Z, b_index b)
      | None => SCrash
      end
    | None => SCrash
    end
  | Ok None =>
    let '(h1, newid) := bh_alloc h (mk_bucket (st_next_index t) 0 str) in
    match ht_insert skey N str_keq (st_ht t) hash (None, str) newid with
    | Crash => SCrash
    | OutOfFuel => SOutOfFuel
    | Ok (_, None) => SOk (h, t, c_SQFS_ERROR_ALLOC, 0)
    | Ok (ht1, Some a) =>
      (* ent->key = new->string *)
      let ht2 := set_slot skey N ht1 a (SPresent hash (Some newid, str) newid)
                          (ht_entries skey N ht1) (ht_deleted skey N ht1) in
      match array_append N (st_arr t) newid with
      | (0%Z, arr1) =>
        SOk (h1, mk_str_table arr1 ht2 (st_next_index t + 1), 0%Z, st_next_index t)
      | (_, _) => SOk (h, t, c_SQFS_ERROR_ALLOC, 0)
      end
    end
  end.

Definition bucket_by_index (h : bheap) (t : str_table) (index : N) : sres (option (N * bucket)) :=
  match array_get N (st_arr t) index with
  | None => if a_used (st_arr t) <=? index then SOk None else SCrash
  | Some bid =>
    match bh_get h bid with
    | Some b => SOk (Some (bid, b))
    | None => SCrash
    end
  end.

Definition str_table_get_string (h : bheap) (t : str_table) (index : N) : sres (option (list N)) :=
  match bucket_by_index h t index with
  | SOk (Some (_, b)) => SOk (Some (b_string b))
  | SOk None => SOk None
  | SCrash => SCrash
  | SOutOfFuel => SOutOfFuel
  end.

Definition str_table_add_ref (h : bheap) (t : str_table) (index : N) : sres bheap :=
  match bucket_by_index h t index with
  | SOk (Some (bid, b)) =>
    if b_refcount b <? util_size_max
    then SOk (bh_set h bid (mk_bucket (b_index b) (b_refcount b + 1) (b_string b)))
    else SOk h
  | SOk None => SOk h
  | SCrash => SCrash
  | SOutOfFuel => SOutOfFuel
  end.

Definition str_table_del_ref (h : bheap) (t : str_table) (index : N) : sres bheap :=
  match bucket_by_index h t index with
  | SOk (Some (bid, b)) =>
    if 0 <? b_refcount b
    then SOk (bh_set h bid (mk_bucket (b_index b) (b_refcount b - 1) (b_string b)))
    else SOk h
  | SOk None => SOk h
  | SCrash => SCrash
  | SOutOfFuel => SOutOfFuel
  end.

Definition str_table_get_ref_count (h : bheap) (t : str_table) (index : N) : sres N :=
  match bucket_by_index h t index with
  | SOk (Some (_, b)) => SOk (b_refcount b)
  | SOk None => SOk 0
  | SCrash => SCrash
  | SOutOfFuel => SOutOfFuel
  end.

(* length l <= i *)
Fixpoint lenN_le (l : list N) (i : N) : bool :=
  match l with
  | [] => true
  | _ :: r => if i =? 0 then false else lenN_le r (N.pred i)
  end.

(* the loop of str_table_copy over the entries of the cloned hash table:
   bucket = alloc_flex(...); memcpy(bucket, ent->data, sizeof *bucket + strlen(ent->key) + 1);
   ent->data = bucket; ent->key = bucket->string; array[bucket->index] = bucket *)
Fixpoint copy_entries (todo : list (N * (N * skey * N))) (h : bheap) (ht : htab skey N)
         (arrd : list N) : sres (bheap * htab skey N * list N) :=
  match todo with
  | [] => SOk (h, ht, arrd)
  | (a, (hash, key, bid)) :: rest =>
    match bh_get h bid with
    | None => SCrash
    | Some old =>
      let nb := mk_bucket (b_index old) (b_refcount old)
                          (firstn (length (snd key)) (b_string old)) in
      let '(h1, newid) := bh_alloc h nb in
      let ht1 := set_slot skey N ht a (SPresent hash (Some newid, b_string nb) newid)
                          (ht_entries skey N ht) (ht_deleted skey N ht) in
      if lenN_le arrd (b_index nb) then SCrash
      else copy_entries rest h1 ht1 (updN arrd (b_index nb) newid)
    end
  end.

(* str_table_copy(dst, src): (heap, dst afterwards, return value) *)
Definition str_table_copy (h : bheap) (dst src : str_table) : sres (bheap * str_table * Z) :=
  match array_init_copy N (st_arr src) with
  | (0%Z, arr1) =>
    let ht1 := ht_clone skey N (st_ht src) in
    match copy_entries (ht_foreach skey N ht1) h ht1 (a_data arr1) with
    | SOk (h1, ht2, d) =>
      SOk (h1, mk_str_table (mk_arr N (a_size arr1) (a_count arr1) (a_used arr1) d) ht2
                            (st_next_index dst), 0%Z)
    | SCrash => SCrash
    | SOutOfFuel => SOutOfFuel
    end
  | (e, _) => SOk (h, dst, e)
  end.
